#!/usr/bin/env python3
"""seed_eval.py <ID> <variant> [--check Cxx ...]

Confirms a seeded change delivered by a sub-agent under /tmp/seed-out/<ID>/<variant>/ and runs the
registered check(s) against it:
  1. scratch worktree /tmp/seed-<ID>: apply patch, pinned suite must pass, demo must fail;
     revert, demo must pass;
  2. /repo: git apply patch, ./vcheck <ID> --tier quick (expect exit 1), git checkout -- . ;
  3. store /verif/seeded/<ID><variant>/{patch.diff,demo*,meta.json}.
"""
import fcntl, json, os, shutil, subprocess, sys, glob, time

ENV = dict(os.environ, GOFLAGS="-mod=mod", GOPROXY="off", GOSUMDB="off", GOTOOLCHAIN="local")
SUITE = "go test -vet=off -count=1 ./sm2/... ./sm3/... ./sm4/... ./x509/... ./pkcs12/... ./gmtls ./gmtls/websvr"


def sh(cmd, cwd, timeout=1800):
    p = subprocess.run(cmd, shell=True, cwd=cwd, env=ENV, stdout=subprocess.PIPE, stderr=subprocess.STDOUT, text=True, timeout=timeout)
    return p.returncode, p.stdout


def main():
    pid, var = sys.argv[1], sys.argv[2]
    checks = [pid]
    if "--check" in sys.argv:
        checks = sys.argv[sys.argv.index("--check") + 1:]
    src = "/tmp/seed-out/%s/%s" % (pid, var)
    wt = "/tmp/seed-%s" % pid
    meta = json.load(open(os.path.join(src, "meta.json")))
    patch = os.path.join(src, "patch.diff")
    res = {}
    # clean worktree
    sh("git checkout -- . && git clean -fdq", wt)
    rc, out = sh("git apply --check %s" % patch, wt)
    if rc != 0:
        print("patch does not apply to worktree:", out); return 2
    sh("git apply %s" % patch, wt)
    # the gmtls tests bind fixed ports: serialise suite runs across evaluations
    with open("/tmp/seed-suite.lock", "w") as lk:
        fcntl.flock(lk, fcntl.LOCK_EX)
        rc, out = sh(SUITE, wt)
        if rc != 0 and "address already in use" in out:
            time.sleep(5)
            rc, out = sh(SUITE, wt)
    res["suite_passes_with_change"] = rc == 0
    if rc != 0:
        print(out[-3000:])
    rc_with, out_with = sh(meta["demo_cmd"], wt)
    res["demo_fails_with_change"] = rc_with != 0
    sh("git checkout -- .", wt)  # revert patch, keep demo file (untracked)
    rc_wo, out_wo = sh(meta["demo_cmd"], wt)
    res["demo_passes_without_change"] = rc_wo == 0
    if rc_wo != 0:
        print("demo fails WITHOUT change:\n", out_wo[-2000:])
    sh("git checkout -- . && git clean -fdq", wt)
    print("confirm:", res)
    # against /repo
    rc, out = sh("git status --porcelain --untracked-files=no", "/repo")
    if out.strip():
        print("/repo has uncommitted tracked changes; refusing:", out); return 2
    rc, out = sh("git apply --check %s" % patch, "/repo")
    if rc != 0:
        print("patch does not apply to /repo HEAD:", out)
        res["applies_to_repo_head"] = False
    else:
        res["applies_to_repo_head"] = True
        sh("git apply %s" % patch, "/repo")
        try:
            for c in checks:
                t0 = time.time()
                p = subprocess.run("VERIF_SEED=%s ./vcheck %s --tier quick" % (os.environ.get("VERIF_SEED", "0"), c), shell=True, cwd="/verif",
                                   stdout=subprocess.PIPE, stderr=subprocess.STDOUT, text=True, env=ENV)
                lines = [l for l in p.stdout.splitlines() if "VIOLATION" in l or "FAIL:" in l or "[rapid] failed" in l or "[rapid] panic" in l][:6]
                res["check_%s" % c] = {"exit": p.returncode, "wall_s": round(time.time() - t0, 1), "evidence": lines}
                print("check", c, "exit", p.returncode, "in %.0fs" % (time.time() - t0))
                for l in lines:
                    print("   ", l[:300])
        finally:
            sh("git checkout -- .", "/repo")
            # the evidence files of this run describe the CHANGED tree: put the committed ones (unchanged tree) back
            sh("git checkout -- evidence", "/verif")
            sh("rm -rf " + " ".join("/verif/replays/%s-*" % c for c in checks), "/verif")
    dst = "/verif/seeded/%s%s" % (pid, var)
    os.makedirs(dst, exist_ok=True)
    shutil.copy(patch, dst)
    for f in glob.glob(os.path.join(src, "demo*")):
        if os.path.isdir(f):
            shutil.copytree(f, os.path.join(dst, os.path.basename(f)), dirs_exist_ok=True)
        else:
            shutil.copy(f, dst)
    meta["confirmed_by_me"] = res
    meta["ran"] = ["scratch worktree %s: `git apply patch.diff`; `%s`; `%s` (with and without the change)" % (wt, SUITE, meta["demo_cmd"]),
                   "/repo: `git apply patch.diff`; `./vcheck <check> --tier quick`; `git checkout -- .`"]
    json.dump(meta, open(os.path.join(dst, "meta.json"), "w"), indent=1, ensure_ascii=False)
    ok = res.get("suite_passes_with_change") and res.get("demo_fails_with_change") and res.get("demo_passes_without_change")
    caught = any(v.get("exit") == 1 for k, v in res.items() if k.startswith("check_"))
    print("RESULT %s%s: confirmed=%s caught=%s" % (pid, var, bool(ok), caught))
    return 0


if __name__ == "__main__":
    sys.exit(main())
