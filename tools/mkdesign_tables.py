#!/usr/bin/env python3
"""Rewrites the generated regions of DESIGN.md (seeded-change table, fixed-defect table) from
/verif/seeded/*/meta.json and /verif/known_findings.json."""
import glob, json, re, os
V = "/verif"

def seeded():
    rows = ["| id | files | what the change does (needs) | confirmed (suite passes / demo fails / demo passes without) | caught by (quick tier) | first evidence |",
            "|---|---|---|---|---|---|"]
    for d in sorted(glob.glob(V + "/seeded/*/meta.json")):
        m = json.load(open(d))
        sid = os.path.basename(os.path.dirname(d))
        c = m.get("confirmed_by_me", {})
        conf = "%s / %s / %s" % tuple("yes" if c.get(k) else "NO" for k in ("suite_passes_with_change", "demo_fails_with_change", "demo_passes_without_change"))
        caught, ev = [], ""
        for k, v in c.items():
            if k.startswith("check_"):
                if v.get("exit") == 1:
                    caught.append("%s (%.0f s)" % (k[6:], v.get("wall_s", 0)))
                    if not ev and v.get("evidence"):
                        e = [x for x in v["evidence"] if "rapid] failed" in x or "FAIL" in x or "VIOLATION" in x]
                        ev = (e[1] if len(e) > 1 else e[0]).strip() if e else ""
                else:
                    caught.append("%s: MISSED (exit %s)" % (k[6:], v.get("exit")))
        s = re.sub(r"\s+", " ", m.get("summary", ""))[:260]
        n = re.sub(r"\s+", " ", m.get("needs", ""))[:160]
        ev = re.sub(r"\s+", " ", ev).replace("|", "/")[:150]
        rows.append("| %s | %s | %s — *needs:* %s | %s | %s | `%s` |" % (sid, ", ".join(m.get("files", [])), s.replace("|", "/"), n.replace("|", "/"), conf, "; ".join(caught) or "-", ev))
    return "\n".join(rows)

def fixed():
    k = json.load(open(V + "/known_findings.json"))
    rows = ["| property | commit | status | what failed |", "|---|---|---|---|"]
    for f in k["findings"]:
        rows.append("| %s | %s | %s | %s |" % (f["property"], f.get("commit", "-"), f["status"], re.sub(r"^fixed: property=\S+ \S+ ", "", f["what"]).replace("|", "/")))
    return "\n".join(rows)

def main():
    p = V + "/DESIGN.md"
    s = open(p).read()
    for tag, fn in (("SEEDED", seeded), ("FIXED", fixed)):
        b, e = "<!-- %s-BEGIN -->" % tag, "<!-- %s-END -->" % tag
        if b in s:
            s = s[:s.index(b) + len(b)] + "\n" + fn() + "\n" + s[s.index(e):]
    open(p, "w").write(s)

main()
