#!/usr/bin/env python3
"""seed_prompt.py <ID> <v1> <v2>: prints the prompt for a seeding sub-agent (property text only + earlier summaries)."""
import json, sys, glob, os, re
pid, v1, v2 = sys.argv[1], sys.argv[2], sys.argv[3]
prop = [json.loads(l) for l in open('/verif/properties.jsonl') if json.loads(l)['id'] == pid][0]
prev = []
for d in sorted(glob.glob('/verif/seeded/%s?/meta.json' % pid)):
    m = json.load(open(d))
    prev.append("- (%s) %s" % (", ".join(m.get('files', [])), re.sub(r'\s+', ' ', m['summary'])[:300]))
mech = "\n".join("  - %s (%s)" % (m['name'], m['where']) for m in prop['anchors'].get('mechanism', []))
race = pid == "C20"
print(f"""You are helping evaluate a verification harness by producing two *seeded defects* for the Go library tjfoc/gmsm (SM2/SM3/SM4 crypto, SM2-aware x509/pkcs12, and a GM/T 0024 TLS stack `gmtls` forked from Go's crypto/tls).

Work ONLY inside the scratch git worktree `/tmp/seed-{pid}` (a checkout of the library) and write your deliverables to `/tmp/seed-out/{pid}/`. Do not read or touch `/repo`, `/verif` or any other directory outside those two. There is no network. Every shell call needs: `export GOFLAGS=-mod=mod GOPROXY=off GOSUMDB=off GOTOOLCHAIN=local`.

The property (this is all you get; read the code it is anchored in):

"{pid} — {prop['title']}. {prop['statement']} Quantified over: {prop['quantifier']['text']}"

Anchored in files: {", ".join(prop['anchors']['files'])}
Mechanisms:
{mech}
NOTE: gmtls/gm_handshake_server.go and gmtls/gm_handshake_client.go (without `_double`) are behind the `single_cert` build tag and are NOT compiled by default; never put changes there.

Earlier seeded changes for this property (do NOT repeat these or trivial variations of them; find different places and different kinds of slip):
{chr(10).join(prev) if prev else "- none"}

Task: produce TWO different changes (variant `{v1}` and variant `{v2}`) to the library source, each of which
 1. breaks the property above in a realistic way — the kind of slip a maintainer could make in a refactor or 'optimisation' (off-by-one, dropped/inverted/merged condition, wrong field or index, stale value reused, missing copy, wrong constant in a rarely used branch, wrong length/padding handling, check moved after use …), not blatant sabotage;
 2. still compiles, and the library's existing test suite still passes with it. The suite command is: `flock /tmp/seed-suite.lock go test -vet=off -count=1 ./sm2/... ./sm3/... ./sm4/... ./x509/... ./pkcs12/... ./gmtls ./gmtls/websvr` (ALWAYS through that flock: the gmtls tests bind fixed TCP ports and other agents run the same suite; if it fails with 'address already in use' simply run it again);
 3. needs something specific to manifest (a particular length, value class, field combination, branch, history or configuration), so that the most obvious single round trip does not show it. Prefer defects in code paths that are rarely exercised; make the two variants different in kind and, if the property spans several files, in different files.

For each variant deliver in `/tmp/seed-out/{pid}/<{v1}|{v2}>/`:
 - `patch.diff` — `git diff` of the change against the worktree HEAD (library source only; must apply with `git apply` to a clean checkout);
 - `demo_test.go` — a self-contained Go test that FAILS with the change and PASSES on the unmodified tree{" when run with `go test -race` (a race report counts as failing)" if race else ""}, demonstrating the violated property through public behaviour;
 - `meta.json` with keys: `property` ("{pid}"), `variant`, `summary` (what was changed and what goes wrong), `needs` (the specific circumstances needed to see it), `files` (list), `demo_cmd` (a shell command run from the worktree root that copies the demo into place and runs it, e.g. `cp /tmp/seed-out/{pid}/{v1}/demo_test.go sm2/{pid.lower()}{v1}_demo_test.go && go test {"-race " if race else ""}-vet=off -count=1 -run Test{pid}{v1} ./sm2`), `verified` (object with booleans suite_passes_with_change, demo_fails_with_change, demo_passes_without_change — set from what you actually ran).

Never use `git stash` (the stash is shared between all worktrees of this repository and other agents work in parallel); to go back to the clean tree use `git apply -R <your patch>` or `git checkout -- <files>`. Verify all three facts yourself for each variant. When done, leave the worktree clean (`git checkout -- . && git clean -fdq`; a stray `pkcs12/test.p12` may be removed). Report briefly (a few lines) what each variant does.""")
