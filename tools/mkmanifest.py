#!/usr/bin/env python3
"""Regenerates /verif/MANIFEST.json from the table below (single source of truth)."""
import json, os, subprocess
V = os.path.dirname(os.path.dirname(os.path.abspath(__file__)))

CHECKS = {
 # id: (technique, level text, level note, design ref)
}
exec(open(os.path.join(V, "tools", "checks_table.py")).read())

def hook_commits():
    try:
        out = subprocess.run(["git", "-C", "/repo", "log", "--format=%H %s"], stdout=subprocess.PIPE, text=True).stdout
        return [l.split()[0] for l in out.splitlines() if " verif-hook:" in l or l.split(" ", 1)[1].startswith("verif hooks")]
    except Exception:
        return []

props = [json.loads(l)["id"] for l in open(os.path.join(V, "properties.jsonl"))]
checks = []
na = []
for pid in props:
    if pid in CHECKS:
        tech, text, note, ref = CHECKS[pid]
        checks.append({
            "property_id": pid,
            "quick_cmd": "./vcheck %s --tier quick" % pid,
            "thorough_cmd": "./vcheck %s --tier thorough" % pid,
            "evidence_file": "/verif/evidence/%s.json" % pid,
            "replay_cmd_template": "./vcheck %s --replay {path}" % pid,
            "engine": "vcheck",
            "level_claimed": {"category": "exploration", "text": text, "design_ref": ref},
            "level_note": note,
            "technique": tech,
        })
    else:
        na.append({"property_id": pid, "reason": NA.get(pid, "check not built yet in this session; see DESIGN.md section 5 for the planned property-based check")})
m = {
 "version": 1,
 "setup_cmd": "./vcheck --setup",
 "hooks": {
   "guard": "verif",
   "enable": "go test -tags verif (the harness module replaces github.com/tjfoc/gmsm with /repo and compiles the working tree in place)",
   "baseline_off_cmd": "cd /repo && GOFLAGS=-mod=mod GOPROXY=off GOSUMDB=off GOTOOLCHAIN=local go test -vet=off -count=1 -timeout 25m ./sm2/... ./sm3/... ./sm4/... ./x509/... ./pkcs12/... ./gmtls ./gmtls/websvr",
   "source_commits": hook_commits(),
   "add_only": True,
 },
 "engines": [{"name": "vcheck", "path": "/verif/vcheck", "serves_properties": sorted(CHECKS), "kind_free_text": "python driver that builds /verif/harness/props/<id> (Go, rapid v1.3.0 property tests + enumerations + corpus replay, build tag verif) against /repo's working tree, shards thorough runs over the cores, merges evidence"}],
 "checks": checks,
 "not_applicable": na,
 "notes": "Every check is property-based testing / generated-input search against an explicit oracle (independent reference implementations in harness/ref validated on published vectors, the Go standard library, in-memory models, metamorphic relations). VERIF_SEED selects the rapid seed (2*seed+1). Exit 2 = inconclusive infrastructure problem.",
}
json.dump(m, open(os.path.join(V, "MANIFEST.json"), "w"), indent=1)
print("claimed", sorted(CHECKS), "n/a", [x["property_id"] for x in na])
