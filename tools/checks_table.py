NA = {}
CHECKS = {
 "C04": ("property-based testing (rapid): differential against an independent SM3 transcription; exhaustive length sweep; stateful model-based test of the hash.Hash contract",
         "Generated-input search: every message length 0..300 (quick) / 0..8192 (thorough) with every two-way split, thousands of random chunkings, rapid state-machine histories over Write/Sum(nil)/Sum(prefix)/Reset compared with a byte-slice model hashed by an independent reference, HMAC-SM3 and PBKDF2-SM3 against hand-built definitions, multi-MiB streams. Exploration, not proof: absence of counterexamples in the explored space.",
         "Trusts ref/rsm3 (validated on the GM/T 0004 example digests at every run), crypto/hmac and x/crypto/pbkdf2 as the standard constructions.",
         "DESIGN.md §5 C04"),
}
CHECKS["C05"] = ("property-based testing (rapid) + exhaustive S-box sweep: differential against an independent GM/T 0002 implementation; stateful histories on one cipher object",
  "Generated-input search: random/single-bit/constant keys and blocks, a complete sweep of every byte value through every S-box lane of the first and last round and every plaintext byte position, rapid state-machine histories of Encrypt/Decrypt with disjoint/in-place/adjacent buffers on one object (each call compared with a fresh reference, so history dependence shows), key lengths 0..64. Exploration: no counterexample in the explored space.",
  "Trusts ref/rsm4 (byte S-box typed from the standard, validated on the single-block and 1,000,000-iteration vectors).",
  "DESIGN.md §5 C05")
CHECKS["C11"] = ("property-based testing (rapid) + exhaustive length sweep: differential against crypto/cipher modes over an independent SM4, round-trip, canary bytes behind caller slices",
  "Every plaintext length 0..80 (quick) / 0..1024 (thorough) x 4 modes x spare capacities, plus random keys/IVs/pad-looking tails; ciphertext compared byte-for-byte with ECB/CBC/CFB/OFB of the Go standard library over ref/rsm4 on my own PKCS#7 pad; decrypt inverts; caller slices and canaries intact; bad key/IV sizes refused. Exploration.",
  "Trusts ref/rsm4 and crypto/cipher's mode implementations; assumes serial use of the process-wide sm4.IV.",
  "DESIGN.md §5 C11")
CHECKS["C12"] = ("property-based testing (rapid) + exhaustive (plaintext,AAD) length grid + exhaustive single-bit tampering: differential against a bitwise SP 800-38D GCM and against crypto/cipher GCM over sm4.NewCipher",
  "Lengths grid 0..34 (quick) / 0..80 (thorough) for plaintext x AAD, IV lengths 1..64 incl. 0xff tails, algebraically constructed IVs whose J0 wraps the 32-bit counter inside the message, tight-capacity slices and canaries; every single bit of IV/AAD/ciphertext/tag flipped on small cases. Exploration.",
  "Trusts ref/rgcm (validated against crypto/cipher GCM over AES for nonce sizes 1..40) and ref/rsm4.",
  "DESIGN.md §5 C12")
CHECKS["C19"] = ("property-based testing (rapid) with scripted io.Reader fault/chunk plans + exhaustive length sweep: model-based (byte-slice model) and differential against CBC over independent SM4",
  "Source lengths 0..600 (quick) / 0..5000 (thorough) x block sizes 8/16 x reader behaviours (1-byte, short non-EOF, zero-byte, data+EOF, mid-stream error) x caller buffer sizes x write-size sequences up to 8192 x every invalid final-block pattern; P7BlockEnc/Decrypt with SM4-CBC and DES-CBC. Exploration.",
  "Trusts ref/rsm4, crypto/des and crypto/cipher CBC. Infinite (0,nil) sources are outside the domain (io.Reader contract).",
  "DESIGN.md §5 C19")
CHECKS["C03"] = ("property-based testing (rapid): differential against affine math/big group law, boundary-biased scalar/point/limb generators, white-box expression trees over the 9-limb field arithmetic, exhaustive scalar ranges",
  "Black box: ScalarBaseMult/ScalarMult/Add/Double/IsOnCurve/GenerateKey vs ref/rsm2 over scalars of 0..40 bytes (0,1,2; n-16..n+16; 2^k; all-ones windows; c*n-2d families that make the wNAF accumulator meet +-digit*P; leading-zero padding; >32 bytes) and special point pairs; exhaustive scalar ranges around 0, n and 2n. White box (verif hook): random expression trees of Add/Sub/Mul/Square/Scalar on field elements whose Montgomery limbs sit at 0/1/max, Jacobian Add/Sub/Double/AddMixed with random Z, wNAF recoding. Exploration.",
  "Trusts ref/rsm2 (validated on GM/T 0003.5 examples, n*G=infinity). White-box part depends on the guarded hook file sm2/export_verif.go (thin wrappers).",
  "DESIGN.md §5 C03")
CHECKS["C01"] = ("property-based testing (rapid): differential against a math/big GM/T 0003.2 reference with scripted nonce readers; catalogue of single-field perturbations; strict-DER arbiter for encodings",
  "Sign: (r,s) equals the reference value for the independently derived nonce over keys with leading-zero d/x/y, ids absent/default/1..8191 bytes, messages to 4 KiB (64 KiB thorough), short-read entropy; completeness through Sm2Verify/Verify/PublicKey.Verify. Verify: every catalogue perturbation (message, id, key, -P, r/s out of range, r+s=0, other message, swap) rejected and equal to the reference verdict; 17 DER mutant kinds judged by a strict DER parser; constructed tuples forcing [s]G=[t]P; fresh-randomness r distinct; id >= 8192 and entropy failure give errors. Exploration.",
  "Trusts ref/rsm2 and ref/rsm3 (validated on GM/T 0003.5 examples). Retry branches (r=0, r+k=n, s=0) need hash preimages and are not reached.",
  "DESIGN.md §5 C01")
CHECKS["C02"] = ("property-based testing (rapid): byte-exact differential against a GM/T 0003.4 reference with scripted nonces, round-trip, exhaustive length sweep with a clock-free termination sentinel, forged-ciphertext catalogue incl. constructive invalid-curve points",
  "Encrypt output equals the reference for both orderings, raw and ASN.1 forms, lengths 1..1024 (4096 thorough) dense at 32k±1, nonces searched so x2/y2 have leading zeros; every length 0..130 (1024) terminates (endless counting reader panics after 64 draws); Decrypt errors for every truncation, byte substitution in C1/C2/C3, extension, wrong key, ordering confusion, order-2 points on y^2=x^3+ax+b' and arbitrary off-curve points with C2/C3 made consistent with what the implementation itself derives. Exploration.",
  "Trusts ref/rsm2. The leading format byte (04) is treated as unspecified (not one of the property's four rejection clauses).",
  "DESIGN.md §5 C02")
CHECKS["C13"] = ("property-based testing (rapid): differential against a GM/T 0003.3 reference (validated on the standard's worked example incl. SB/SA) + agreement of both roles; hostile-peer catalogue",
  "Initiator and responder called with generated long-term/ephemeral keys (leading-zero classes, shared point walked to a leading-zero coordinate), ids 0..8191 bytes, klen 1..1024: equal k, s1, s2 on both sides and equal to the reference; off-curve / zero / random peer ephemerals, V=infinity construction and ids >= 8192 bytes give errors. Exploration.",
  "Trusts ref/rsm2. Coordinates >= p are treated as unspecified.",
  "DESIGN.md §5 C13")
CHECKS["C14"] = ("property-based testing (rapid): round-trip identities over every serializer with forced leading-zero key classes, independent DER walks, wrong-password catalogue, loader accept<=>match matrix",
  "Keys from a committed table with 1..3 leading zero bytes in d/x/y (re-verified with the reference at load) plus small/near-n/uniform d through PKCS#8 PEM/DER (with/without password), public PEM/DER, PKIX, hex (with/without 04, odd digit counts), compressed point; (r,s) and ciphertext ASN.1 encodings incl. short C1 coordinates; wrong passwords (one bit, case, length +-1, nil vs empty) must error; X509KeyPair/LoadX509KeyPair/GMX509KeyPairs(Single)/LoadGMX509KeyPair(s) with matching, other-same-type and other-type keys for SM2, RSA, ECDSA certificates. Exploration.",
  "Trusts ref/rsm2, ref/rder and crypto/x509 (to mint RSA/ECDSA certificates). Passwords differing only by trailing NUL bytes are the same HMAC key and are not counted as wrong. GM two-pair loaders with non-SM2 certificates: unspecified.",
  "DESIGN.md §5 C14")
CHECKS["C09"] = ("property-based testing (rapid): template generator over the documented fields x signer family x algorithm; round-trip field comparison, independent signature verification on raw TBS bytes, single-byte DER mutants with a fail-closed relation",
  "Certificates, CSRs, CRLs and revocation lists created for SM2/RSA-2048/ECDSA P-256/P-384 signers with default, own-family and mismatching algorithms; parsed fields compared one by one with the template under stated normalisations (UTC seconds, MaxPathLen -1, ExtraExtensions override, IPv4 in 4 bytes); verification under the issuer by the library and independently (ref/rsm2 on ZA||TBS, crypto/rsa, crypto/ecdsa) and failure under unrelated keys; each sampled single-byte change must give parse error, verification failure, or leave TBS and signature byte-identical. Exploration.",
  "Trusts ref/rsm2, ref/rder, crypto/rsa, crypto/ecdsa, encoding/asn1 + crypto/x509/pkix for name encoding. Mismatching algorithm families: only no-panic. Criticality of name constraints is compared on the encoded extension.",
  "DESIGN.md §5 C09")
