NA = {}
CHECKS = {
 "C04": ("property-based testing (rapid): differential against an independent SM3 transcription; exhaustive length sweep; stateful model-based test of the hash.Hash contract",
         "Generated-input search: every message length 0..300 (quick) / 0..8192 (thorough) with every two-way split, thousands of random chunkings, rapid state-machine histories over Write/Sum(nil)/Sum(prefix)/Reset compared with a byte-slice model hashed by an independent reference, HMAC-SM3 and PBKDF2-SM3 against hand-built definitions, multi-MiB streams. Exploration, not proof: absence of counterexamples in the explored space.",
         "Trusts ref/rsm3 (validated on the GM/T 0004 example digests at every run), crypto/hmac and x/crypto/pbkdf2 as the standard constructions.",
         "DESIGN.md §5 C04"),
}
