// genkeys searches (once, offline) for SM2 private keys whose d, X or Y have 1..3 leading
// zero bytes, using only the reference arithmetic. Output: corpus/keys_lz.json.
package main

import (
	"crypto/sha256"
	"encoding/json"
	"fmt"
	"math/big"
	"os"
	"sync"

	"verifharness/ref/rsm2"
)

type entry struct {
	Class string `json:"class"`
	D     string `json:"d"`
}

func lz(v *big.Int) int { return 32 - (v.BitLen()+7)/8 }

func main() {
	cv := rsm2.Std
	var mu sync.Mutex
	found := map[string][]string{}
	want := map[string]int{"x1": 6, "y1": 6, "x2": 4, "y2": 4, "x3": 2, "y3": 2, "xy1": 2}
	need := func() bool {
		for k, n := range want {
			if len(found[k]) < n {
				return true
			}
		}
		return false
	}
	var wg sync.WaitGroup
	for w := 0; w < 16; w++ {
		wg.Add(1)
		go func(w int) {
			defer wg.Done()
			h := sha256.Sum256([]byte(fmt.Sprintf("genkeys-%d", w)))
			d := new(big.Int).SetBytes(h[:])
			d.Mod(d, cv.N)
			p := cv.BaseMul(d)
			g := cv.G()
			one := big.NewInt(1)
			for i := 0; i < 40000000; i++ {
				if i%4096 == 0 {
					mu.Lock()
					n := need()
					mu.Unlock()
					if !n {
						return
					}
				}
				lx, ly := lz(p.X), lz(p.Y)
				if lx > 0 || ly > 0 {
					mu.Lock()
					add := func(k string) {
						if len(found[k]) < want[k] {
							found[k] = append(found[k], fmt.Sprintf("%064x", d))
						}
					}
					if lx > 0 && ly > 0 {
						add("xy1")
					}
					if lx >= 1 && lx <= 3 {
						add(fmt.Sprintf("x%d", lx))
					}
					if ly >= 1 && ly <= 3 {
						add(fmt.Sprintf("y%d", ly))
					}
					mu.Unlock()
				}
				p = cv.Add(p, g)
				d.Add(d, one)
			}
		}(w)
	}
	wg.Wait()
	var out []entry
	for k, ds := range found {
		for _, d := range ds {
			out = append(out, entry{k, d})
		}
	}
	// leading-zero d classes need no search
	for i, s := range []string{
		"00a3f1c2d4e5b6978877665544332211ffeeddccbbaa99887766554433221100", // d1
		"0000b1c2d3e4f5a6978877665544332211ffeeddccbbaa998877665544332211", // d2
		"000000c2d3e4f5a6b7c8d9eaf00112233445566778899aabbccddeeff0011223", // d3
		"0000000000000000000000000000000000000000000000000000000000000001",
		"0000000000000000000000000000000000000000000000000000000000000002",
		"000000000000000000000000000000000000000000000000000000000000ffff",
		"0abcdef0123456789abcdef0123456789abcdef0123456789abcdef012345678", // odd hex digit count
	} {
		out = append(out, entry{[]string{"d1", "d2", "d3", "d31", "d31", "d30", "dodd"}[i], s})
	}
	b, _ := json.MarshalIndent(out, "", " ")
	os.WriteFile(os.Args[1], b, 0o644)
	fmt.Println("wrote", len(out), "entries")
}
