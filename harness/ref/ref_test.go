package ref

import (
	"bytes"
	"crypto/aes"
	"crypto/cipher"
	"encoding/hex"
	"math/big"
	"strings"
	"testing"

	"verifharness/ref/rgcm"
	"verifharness/ref/rsm2"
	"verifharness/ref/rsm3"
	"verifharness/ref/rsm4"
)

func unhex(s string) []byte {
	b, err := hex.DecodeString(strings.ReplaceAll(s, " ", ""))
	if err != nil {
		panic(err)
	}
	return b
}
func bi(s string) *big.Int {
	v, _ := new(big.Int).SetString(strings.ReplaceAll(s, " ", ""), 16)
	return v
}

// TestRefSelf validates every reference implementation on published vectors.
func TestRefSelf(t *testing.T) {
	// SM3
	if got := hex.EncodeToString(rsm3.Sum([]byte("abc"))); got != "66c7f0f462eeedd9d1f2d46bdc10e4e24167c4875cf2f7a2297da02b8f4ba8e0" {
		t.Fatalf("sm3 abc: %s", got)
	}
	if got := hex.EncodeToString(rsm3.Sum(bytes.Repeat([]byte("abcd"), 16))); got != "debe9ff92275b8a138604889c18e5a4d6fdb70e5387e5765293dcba39c0c5732" {
		t.Fatalf("sm3 abcd16: %s", got)
	}
	// SM4
	key := unhex("0123456789abcdeffedcba9876543210")
	c := rsm4.Must(key)
	blk := append([]byte{}, key...)
	c.Encrypt(blk, blk)
	if hex.EncodeToString(blk) != "681edf34d206965e86b3e94f536e4246" {
		t.Fatalf("sm4 vec1: %x", blk)
	}
	c.Decrypt(blk, blk)
	if !bytes.Equal(blk, key) {
		t.Fatalf("sm4 dec")
	}
	for i := 0; i < 1000000; i++ {
		c.Encrypt(blk, blk)
	}
	if hex.EncodeToString(blk) != "595298c7c6fd271f0402f804c33d3f66" {
		t.Fatalf("sm4 1M: %x", blk)
	}
	// SM2 signature example
	cv := rsm2.Std
	d := bi("3945208F7B2144B13F36E38AC6D39F95889393692860B51A42FB81EF4DF7C5B8")
	P := cv.BaseMul(d)
	if P.X.Cmp(bi("09F9DF311E5421A150DD7D161E4BC5C672179FAD1833FC076BB08FF356F35020")) != 0 ||
		P.Y.Cmp(bi("CCEA490CE26775A52DC6EA718CC1AA600AED05FBF35E084A6632F6072DA9AD13")) != 0 {
		t.Fatalf("sm2 pub")
	}
	za, _ := cv.ZA(P, rsm2.DefaultUID)
	if strings.ToUpper(hex.EncodeToString(za)) != "B2E14C5C79C6DF5B85F4FE7ED8DB7A262B9DA7E07CCB0EA9F4747B8CCDA8A4F3" {
		t.Fatalf("ZA %x", za)
	}
	k := bi("59276E27D506861A16680F3AD9C02DCCEF3CC1FA3CDBE4CE6D54B80DEAC1BC21")
	e, _ := cv.E(P, rsm2.DefaultUID, []byte("message digest"))
	r, s, ok := cv.SignE(d, e, k)
	if !ok || r.Cmp(bi("F5A03B0648D2C4630EEAC513E1BB81A15944DA3827D5B74143AC7EACEEE720B3")) != 0 ||
		s.Cmp(bi("B1B6AA29DF212FD8763182BC0D421CA1BB9038FD1F7F42D4840B69C485BBC1AA")) != 0 {
		t.Fatalf("sm2 sign %x %x", r, s)
	}
	if !cv.Verify(P, rsm2.DefaultUID, []byte("message digest"), r, s) {
		t.Fatalf("sm2 verify")
	}
	// encryption example
	ct, _, _, _ := cv.Encrypt(P, []byte("encryption standard"), k, rsm2.C1C3C2)
	want := "04" + "04EBFC718E8D1798620432268E77FEB6415E2EDE0E073C0F4F640ECD2E149A73E858F9D81E5430A57B36DAAB8F950A3C64E6EE6A63094D99283AFF767E124DF0" +
		"59983C18F809E262923C53AEC295D30383B54E39D609D160AFCB1908D0BD8766" + "21886CA989CA9C7D58087307CA93092D651EFA"
	if strings.ToUpper(hex.EncodeToString(ct)) != want {
		t.Fatalf("sm2 enc %x", ct)
	}
	m, err := cv.Decrypt(d, ct, rsm2.C1C3C2)
	if err != nil || string(m) != "encryption standard" {
		t.Fatalf("sm2 dec")
	}
	// key exchange example
	dA := bi("81EB26E941BB5AF16DF116495F90695272AE2CD63D6C4AE1678418BE48230029")
	dB := bi("785129917D45A9EA5437A59356B82338EAADDA6CEB199088F14AE10DEFA229B5")
	rA := bi("D4DE15474DB74D06491C440D305E012400990F3E390C7E87153C12DB2EA60BB3")
	rB := bi("7E07124814B309489125EAED101113164EBF0F3458C5BD88335C1F9D596243D6")
	id := rsm2.DefaultUID
	kA, s1A, s2A, err := cv.Exchange(16, id, id, true, dA, rA, cv.BaseMul(dB), cv.BaseMul(rB))
	if err != nil {
		t.Fatal(err)
	}
	kB, s1B, s2B, err := cv.Exchange(16, id, id, false, dB, rB, cv.BaseMul(dA), cv.BaseMul(rA))
	if err != nil {
		t.Fatal(err)
	}
	if strings.ToUpper(hex.EncodeToString(kA)) != "6C89347354DE2484C60B4AB1FDE4C6E5" || !bytes.Equal(kA, kB) {
		t.Fatalf("kx K %x %x", kA, kB)
	}
	if strings.ToUpper(hex.EncodeToString(s1A)) != "D3A0FE15DEE185CEAE907A6B595CC32A266ED7B3367E9983A896DC32FA20F8EB" || !bytes.Equal(s1A, s1B) {
		t.Fatalf("kx S1 %x", s1A)
	}
	if strings.ToUpper(hex.EncodeToString(s2A)) != "18C7894B3816DF16CF07B05C5EC0BEF5D655D58F779CC1B400A4F3884644DB88" || !bytes.Equal(s2A, s2B) {
		t.Fatalf("kx S2 %x", s2A)
	}
	// group sanity
	if !cv.BaseMul(cv.N).Inf || !cv.MulAffine(cv.G(), cv.N).Inf {
		t.Fatalf("nG != inf")
	}
	// fast Jacobian Mul == definitional affine Mul on a spread of scalars and points
	x := new(big.Int).Set(d)
	pt := P
	for i := 0; i < 300; i++ {
		x.Mul(x, x).Add(x, big.NewInt(int64(i))).Mod(x, new(big.Int).Lsh(cv.N, 2))
		kk := new(big.Int).Set(x)
		switch i % 6 {
		case 0:
			kk = big.NewInt(int64(i / 6))
		case 1:
			kk = new(big.Int).Sub(cv.N, big.NewInt(int64(i/6)))
		case 2:
			kk = new(big.Int).Add(cv.N, big.NewInt(int64(i/6)))
		}
		a, b := cv.Mul(pt, kk), cv.MulAffine(pt, kk)
		if !a.Equal(b) {
			t.Fatalf("Jacobian Mul != affine Mul for k=%x", kk)
		}
		if !b.Inf {
			pt = b
		}
	}
	// invalid-curve use: order-2 point on y^2=x^3+ax+b' (formulas never use b)
	q2 := rsm2.Point{X: big.NewInt(12345), Y: new(big.Int)}
	if !cv.Mul(q2, big.NewInt(7)).Equal(q2) || !cv.Mul(q2, big.NewInt(8)).Inf || !cv.MulAffine(q2, big.NewInt(7)).Equal(q2) {
		t.Fatalf("order-2 point arithmetic")
	}
	// GCM vs crypto/cipher over AES for many nonce sizes
	ak := unhex("000102030405060708090a0b0c0d0e0f")
	ab, _ := aes.NewCipher(ak)
	seed := byte(1)
	rnd := func(n int) []byte {
		o := make([]byte, n)
		for i := range o {
			seed = seed*73 + 41
			o[i] = seed
		}
		return o
	}
	for ivl := 1; ivl <= 40; ivl++ {
		for _, ptl := range []int{0, 1, 15, 16, 17, 33, 64} {
			for _, al := range []int{0, 1, 16, 21} {
				iv, aad, pt := rnd(ivl), rnd(al), rnd(ptl)
				if ivl%5 == 0 {
					for i := range iv {
						iv[i] = 0xff
					}
				}
				g, _ := cipher.NewGCMWithNonceSize(ab, ivl)
				want := g.Seal(nil, iv, pt, aad)
				ct, tg := rgcm.Seal(ab, iv, aad, pt)
				if !bytes.Equal(append(ct, tg...), want) {
					t.Fatalf("gcm mismatch ivl=%d ptl=%d al=%d", ivl, ptl, al)
				}
				p2, ok := rgcm.Open(ab, iv, aad, ct, tg)
				if !ok || !bytes.Equal(p2, pt) {
					t.Fatalf("gcm open")
				}
			}
		}
	}
}
