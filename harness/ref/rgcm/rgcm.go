// Package rgcm is NIST SP 800-38D GCM over an arbitrary 128-bit block cipher,
// written bit-by-bit from the specification.
package rgcm

import (
	"crypto/cipher"
	"encoding/binary"
)

type block [16]byte

// mul computes X·Y in GF(2^128) per SP 800-38D algorithm 1.
func mul(x, y block) block {
	var z block
	v := y
	for i := 0; i < 128; i++ {
		if x[i/8]>>(7-uint(i%8))&1 == 1 {
			for j := range z {
				z[j] ^= v[j]
			}
		}
		lsb := v[15] & 1
		for j := 15; j > 0; j-- {
			v[j] = v[j]>>1 | v[j-1]<<7
		}
		v[0] >>= 1
		if lsb == 1 {
			v[0] ^= 0xe1
		}
	}
	return z
}

func ghash(h block, data []byte) block {
	var y block
	for i := 0; i < len(data); i += 16 {
		for j := 0; j < 16; j++ {
			y[j] ^= data[i+j]
		}
		y = mul(y, h)
	}
	return y
}

func pad16(b []byte) []byte {
	out := append([]byte{}, b...)
	for len(out)%16 != 0 {
		out = append(out, 0)
	}
	return out
}

func inc32(b block) block {
	c := binary.BigEndian.Uint32(b[12:])
	binary.BigEndian.PutUint32(b[12:], c+1)
	return b
}

func lens(a, c int) []byte {
	var l [16]byte
	binary.BigEndian.PutUint64(l[:8], uint64(a)*8)
	binary.BigEndian.PutUint64(l[8:], uint64(c)*8)
	return l[:]
}

func j0(b cipher.Block, h block, iv []byte) block {
	var j block
	if len(iv) == 12 {
		copy(j[:], iv)
		j[15] = 1
		return j
	}
	d := pad16(iv)
	var l [16]byte
	binary.BigEndian.PutUint64(l[8:], uint64(len(iv))*8)
	d = append(d, l[:]...)
	return ghash(h, d)
}

func gctr(b cipher.Block, icb block, x []byte) []byte {
	out := make([]byte, len(x))
	cb := icb
	for i := 0; i < len(x); i += 16 {
		var ks block
		b.Encrypt(ks[:], cb[:])
		for j := 0; j < 16 && i+j < len(x); j++ {
			out[i+j] = x[i+j] ^ ks[j]
		}
		cb = inc32(cb)
	}
	return out
}

// Seal returns (ciphertext, tag).
func Seal(b cipher.Block, iv, aad, pt []byte) ([]byte, []byte) {
	var h block
	b.Encrypt(h[:], h[:])
	j := j0(b, h, iv)
	ct := gctr(b, inc32(j), pt)
	return ct, tag(b, h, j, aad, ct)
}

func tag(b cipher.Block, h, j block, aad, ct []byte) []byte {
	d := pad16(aad)
	d = append(d, pad16(ct)...)
	d = append(d, lens(len(aad), len(ct))...)
	s := ghash(h, d)
	return gctr(b, j, s[:])
}

// Open returns plaintext and whether the tag verified.
func Open(b cipher.Block, iv, aad, ct, tg []byte) ([]byte, bool) {
	var h block
	b.Encrypt(h[:], h[:])
	j := j0(b, h, iv)
	t := tag(b, h, j, aad, ct)
	ok := len(tg) == 16
	for i := 0; ok && i < 16; i++ {
		if t[i] != tg[i] {
			ok = false
		}
	}
	return gctr(b, inc32(j), ct), ok
}

// J0 exposes the pre-counter block for an IV (used to construct counter-wrap cases).
func J0(b cipher.Block, iv []byte) [16]byte {
	var h block
	b.Encrypt(h[:], h[:])
	return j0(b, h, iv)
}

// IVForJ0 constructs the 16-byte IV whose pre-counter block is exactly want:
// for a one-block IV, J0 = (IV*H ^ L)*H with L = 0^64||[128]64, hence
// IV = (J0 ^ L*H) * H^-2. Inversion by Fermat: H^-1 = H^(2^128-2).
func IVForJ0(b cipher.Block, want [16]byte) []byte {
	var h block
	b.Encrypt(h[:], h[:])
	// h^-1 = h^(2^128-2) = prod_{i=1..127} h^(2^i)
	var inv block
	inv[0] = 0x80 // multiplicative identity (bit 0 is the coefficient of x^0)
	sq := h
	for i := 1; i < 128; i++ {
		sq = mul(sq, sq)
		inv = mul(inv, sq)
	}
	var l block
	binary.BigEndian.PutUint64(l[8:], 128)
	x := mul(l, h)
	for i := range x {
		x[i] ^= want[i]
	}
	x = mul(mul(x, inv), inv)
	return x[:]
}
