// Package rgmssl is a small independent reading of GM/T 0024 (TLCP 1.1): PRF, key block,
// record protection for ECC_SM4_CBC_SM3 and ECC_SM4_GCM_SM3, and a passive decoder that —
// like a protocol analyser holding the server's encryption key — decrypts a captured
// session, checks every MAC/tag and both Finished values and returns the application data.
// It shares no code with github.com/tjfoc/gmsm/gmtls; primitives are ref/rsm3, ref/rsm4,
// ref/rgcm, ref/rsm2 and crypto/cipher's CBC.
package rgmssl

import (
	"bytes"
	"crypto/cipher"
	"encoding/asn1"
	"errors"
	"fmt"
	"math/big"

	"verifharness/ref/rgcm"
	"verifharness/ref/rsm2"
	"verifharness/ref/rsm3"
	"verifharness/ref/rsm4"
)

const (
	SuiteECCCBC uint16 = 0xe013
	SuiteECCGCM uint16 = 0xe053
	Version     uint16 = 0x0101

	RecCCS   = 20
	RecAlert = 21
	RecHS    = 22
	RecApp   = 23
)

// PRF is P_SM3(secret, label || seed) per RFC 5246 section 5 with HMAC-SM3.
func PRF(secret []byte, label string, seed []byte, n int) []byte {
	ls := append([]byte(label), seed...)
	var out []byte
	a := rsm3.HMAC(secret, ls)
	for len(out) < n {
		out = append(out, rsm3.HMAC(secret, append(append([]byte{}, a...), ls...))...)
		a = rsm3.HMAC(secret, a)
	}
	return out[:n]
}

func Master(pms, clientRandom, serverRandom []byte) []byte {
	return PRF(pms, "master secret", append(append([]byte{}, clientRandom...), serverRandom...), 48)
}

type Keys struct {
	ClientMAC, ServerMAC, ClientKey, ServerKey, ClientIV, ServerIV []byte
}

func KeyBlock(suite uint16, master, clientRandom, serverRandom []byte) Keys {
	macLen, keyLen, ivLen := 32, 16, 16
	if suite == SuiteECCGCM {
		macLen, ivLen = 0, 4
	}
	kb := PRF(master, "key expansion", append(append([]byte{}, serverRandom...), clientRandom...), 2*macLen+2*keyLen+2*ivLen)
	take := func(n int) []byte { v := kb[:n]; kb = kb[n:]; return v }
	return Keys{take(macLen), take(macLen), take(keyLen), take(keyLen), take(ivLen), take(ivLen)}
}

func FinishedVerify(master []byte, client bool, transcript []byte) []byte {
	label := "server finished"
	if client {
		label = "client finished"
	}
	return PRF(master, label, rsm3.Sum(transcript), 12)
}

func seqBytes(seq uint64) []byte {
	return []byte{byte(seq >> 56), byte(seq >> 48), byte(seq >> 40), byte(seq >> 32), byte(seq >> 24), byte(seq >> 16), byte(seq >> 8), byte(seq)}
}

// RecordInfo describes one protected record as seen on the wire.
type RecordInfo struct {
	Type     byte
	Seq      uint64
	Explicit []byte // explicit IV (CBC) or explicit nonce (GCM)
	LastCT   []byte // last ciphertext block (CBC)
	PadLen   int
	Plain    []byte
}

// Open removes the protection of one record (header included in rec) for the given direction keys.
func Open(suite uint16, macKey, key, iv []byte, seq uint64, rec []byte) (RecordInfo, error) {
	info := RecordInfo{Type: rec[0], Seq: seq}
	body := rec[5:]
	blk := rsm4.Must(key)
	if suite == SuiteECCGCM {
		if len(body) < 8+16 {
			return info, errors.New("gcm record too short")
		}
		explicit := body[:8]
		info.Explicit = append([]byte{}, explicit...)
		ct := body[8 : len(body)-16]
		tag := body[len(body)-16:]
		nonce := append(append([]byte{}, iv...), explicit...)
		aad := append(seqBytes(seq), rec[0], rec[1], rec[2], byte(len(ct)>>8), byte(len(ct)))
		pt, ok := rgcm.Open(blk, nonce, aad, ct, tag)
		if !ok {
			return info, errors.New("gcm tag mismatch")
		}
		info.Plain = pt
		return info, nil
	}
	if len(body)%16 != 0 || len(body) < 16+48 {
		return info, fmt.Errorf("cbc record length %d", len(body))
	}
	info.Explicit = append([]byte{}, body[:16]...)
	info.LastCT = append([]byte{}, body[len(body)-16:]...)
	pt := make([]byte, len(body)-16)
	cipher.NewCBCDecrypter(blk, body[:16]).CryptBlocks(pt, body[16:])
	pad := int(pt[len(pt)-1])
	if pad+1+32 > len(pt) {
		return info, errors.New("cbc padding length")
	}
	for _, b := range pt[len(pt)-1-pad:] {
		if int(b) != pad {
			return info, errors.New("cbc padding bytes")
		}
	}
	info.PadLen = pad
	pt = pt[:len(pt)-1-pad]
	data, mac := pt[:len(pt)-32], pt[len(pt)-32:]
	hdr := append(seqBytes(seq), rec[0], rec[1], rec[2], byte(len(data)>>8), byte(len(data)))
	if !bytes.Equal(rsm3.HMAC(macKey, append(hdr, data...)), mac) {
		return info, errors.New("cbc MAC mismatch")
	}
	info.Plain = data
	return info, nil
}

// Seal protects one record (used by the scripted peers): explicit is the 16-byte IV / 8-byte nonce.
func Seal(suite uint16, macKey, key, iv []byte, seq uint64, typ byte, explicit, plain []byte) []byte {
	blk := rsm4.Must(key)
	hdr := []byte{typ, byte(Version >> 8), byte(Version & 0xff)}
	if suite == SuiteECCGCM {
		nonce := append(append([]byte{}, iv...), explicit...)
		aad := append(seqBytes(seq), typ, hdr[1], hdr[2], byte(len(plain)>>8), byte(len(plain)))
		ct, tag := rgcm.Seal(blk, nonce, aad, plain)
		body := append(append(append([]byte{}, explicit...), ct...), tag...)
		return append(append(hdr, byte(len(body)>>8), byte(len(body))), body...)
	}
	mh := append(seqBytes(seq), typ, hdr[1], hdr[2], byte(len(plain)>>8), byte(len(plain)))
	mac := rsm3.HMAC(macKey, append(mh, plain...))
	pt := append(append([]byte{}, plain...), mac...)
	pad := 16 - (len(pt)+1)%16
	if pad == 16 {
		pad = 0
	}
	for i := 0; i <= pad; i++ {
		pt = append(pt, byte(pad))
	}
	ct := make([]byte, len(pt))
	cipher.NewCBCEncrypter(blk, explicit).CryptBlocks(ct, pt)
	body := append(append([]byte{}, explicit...), ct...)
	return append(append(hdr, byte(len(body)>>8), byte(len(body))), body...)
}

// Chunk is a piece of captured traffic in global order.
type Chunk struct {
	FromClient bool
	Data       []byte
}

// Decoded is the result of passively decoding a session.
type Decoded struct {
	Suite                      uint16
	ClientRandom, ServerRandom []byte
	Master                     []byte
	Resumed                    bool
	SessionIDServer            []byte
	Messages                   []HSMsg // handshake messages in transcript order
	ClientApp, ServerApp       []byte  // application data sent by client / by server
	ClientRecs, ServerRecs     []RecordInfo
	ClientFinishedOK           bool
	ServerFinishedOK           bool
	ClientCloseNotify          bool
	ServerCloseNotify          bool
	Alerts                     [][2]byte
	ServerCerts, ClientCerts   [][]byte
}

type HSMsg struct {
	FromClient bool
	Type       byte
	Raw        []byte
}

type sm2CipherASN1 struct {
	X, Y *big.Int
	C3   []byte
	C2   []byte
}

// DecryptPMS opens the ClientKeyExchange body (2-byte length || ASN.1 SM2 ciphertext) with the
// server's encryption private key.
func DecryptPMS(encD *big.Int, cke []byte) ([]byte, error) {
	if len(cke) < 2 || int(cke[0])<<8|int(cke[1]) != len(cke)-2 {
		return nil, errors.New("cke length")
	}
	var c sm2CipherASN1
	if rest, err := asn1.Unmarshal(cke[2:], &c); err != nil || len(rest) != 0 {
		return nil, fmt.Errorf("cke asn1: %v", err)
	}
	raw := append([]byte{4}, rsm2.Pad32(c.X)...)
	raw = append(raw, rsm2.Pad32(c.Y)...)
	raw = append(raw, c.C3...)
	raw = append(raw, c.C2...)
	return rsm2.Std.Decrypt(encD, raw, rsm2.C1C3C2)
}

func parseCerts(body []byte) [][]byte {
	var out [][]byte
	if len(body) < 3 {
		return nil
	}
	body = body[3:]
	for len(body) >= 3 {
		n := int(body[0])<<16 | int(body[1])<<8 | int(body[2])
		if len(body) < 3+n {
			break
		}
		out = append(out, body[3:3+n])
		body = body[3+n:]
	}
	return out
}

// Decode decodes a captured session. encD is the server's encryption private key (needed for a
// full handshake); knownMaster is used when the session is an abbreviated (resumed) handshake.
func Decode(chunks []Chunk, encD *big.Int, knownMaster []byte) (*Decoded, error) {
	d := &Decoded{}
	var bufC, bufS []byte
	var hsC, hsS []byte // unparsed handshake bytes per direction
	encC, encS := false, false
	var seqC, seqS uint64
	var keys Keys
	haveKeys := false
	var transcript []byte
	var cke []byte
	deriveKeys := func() error {
		if haveKeys {
			return nil
		}
		if d.ClientRandom == nil || d.ServerRandom == nil {
			return errors.New("CCS before hellos")
		}
		if cke != nil {
			pms, err := DecryptPMS(encD, cke)
			if err != nil {
				return fmt.Errorf("pre-master secret: %v", err)
			}
			if len(pms) != 48 {
				return fmt.Errorf("pre-master secret has %d bytes", len(pms))
			}
			d.Master = Master(pms, d.ClientRandom, d.ServerRandom)
		} else {
			if knownMaster == nil {
				return errors.New("abbreviated handshake but no known master secret")
			}
			d.Master = knownMaster
			d.Resumed = true
		}
		keys = KeyBlock(d.Suite, d.Master, d.ClientRandom, d.ServerRandom)
		haveKeys = true
		return nil
	}
	handleHS := func(fromClient bool, data []byte) error {
		buf := &hsS
		if fromClient {
			buf = &hsC
		}
		*buf = append(*buf, data...)
		for len(*buf) >= 4 {
			n := int((*buf)[1])<<16 | int((*buf)[2])<<8 | int((*buf)[3])
			if len(*buf) < 4+n {
				break
			}
			raw := append([]byte{}, (*buf)[:4+n]...)
			*buf = (*buf)[4+n:]
			body := raw[4:]
			switch raw[0] {
			case 1: // ClientHello
				if len(body) < 35 {
					return errors.New("short ClientHello")
				}
				d.ClientRandom = append([]byte{}, body[2:34]...)
			case 2: // ServerHello
				if len(body) < 38 {
					return errors.New("short ServerHello")
				}
				if v := uint16(body[0])<<8 | uint16(body[1]); v != Version {
					return fmt.Errorf("ServerHello version %#x", v)
				}
				d.ServerRandom = append([]byte{}, body[2:34]...)
				sl := int(body[34])
				if len(body) < 35+sl+3 {
					return errors.New("short ServerHello")
				}
				d.SessionIDServer = append([]byte{}, body[35:35+sl]...)
				d.Suite = uint16(body[35+sl])<<8 | uint16(body[36+sl])
				if d.Suite != SuiteECCCBC && d.Suite != SuiteECCGCM {
					return fmt.Errorf("suite %#x not decodable", d.Suite)
				}
			case 11:
				if fromClient {
					d.ClientCerts = parseCerts(body)
				} else {
					d.ServerCerts = parseCerts(body)
				}
			case 16:
				cke = body
			case 20: // Finished
				if !haveKeys {
					return errors.New("Finished before keys")
				}
				want := FinishedVerify(d.Master, fromClient, transcript)
				ok := bytes.Equal(body, want)
				if fromClient {
					d.ClientFinishedOK = ok
				} else {
					d.ServerFinishedOK = ok
				}
				if !ok {
					return fmt.Errorf("Finished (fromClient=%v) verify_data %x, standard gives %x", fromClient, body, want)
				}
			}
			d.Messages = append(d.Messages, HSMsg{fromClient, raw[0], raw})
			transcript = append(transcript, raw...)
		}
		return nil
	}
	process := func(fromClient bool, rec []byte) error {
		typ := rec[0]
		if v := uint16(rec[1])<<8 | uint16(rec[2]); v != Version && d.ServerRandom != nil {
			return fmt.Errorf("record version %#x", v)
		}
		enc, seq := encS, &seqS
		macKey, key, iv := keys.ServerMAC, keys.ServerKey, keys.ServerIV
		if fromClient {
			enc, seq = encC, &seqC
			macKey, key, iv = keys.ClientMAC, keys.ClientKey, keys.ClientIV
		}
		plain := rec[5:]
		if enc {
			info, err := Open(d.Suite, macKey, key, iv, *seq, rec)
			if err != nil {
				return fmt.Errorf("record %d fromClient=%v type %d: %v", *seq, fromClient, typ, err)
			}
			*seq++
			plain = info.Plain
			if fromClient {
				d.ClientRecs = append(d.ClientRecs, info)
			} else {
				d.ServerRecs = append(d.ServerRecs, info)
			}
		}
		switch typ {
		case RecCCS:
			if err := deriveKeys(); err != nil {
				return err
			}
			if fromClient {
				encC, seqC = true, 0
			} else {
				encS, seqS = true, 0
			}
		case RecHS:
			return handleHS(fromClient, plain)
		case RecApp:
			if !enc {
				return errors.New("application data before ChangeCipherSpec")
			}
			if fromClient {
				d.ClientApp = append(d.ClientApp, plain...)
			} else {
				d.ServerApp = append(d.ServerApp, plain...)
			}
		case RecAlert:
			if len(plain) == 2 {
				d.Alerts = append(d.Alerts, [2]byte{plain[0], plain[1]})
				if plain[1] == 0 {
					if fromClient {
						d.ClientCloseNotify = true
					} else {
						d.ServerCloseNotify = true
					}
				}
			}
		default:
			return fmt.Errorf("record type %d", typ)
		}
		return nil
	}
	for _, ch := range chunks {
		buf := &bufS
		if ch.FromClient {
			buf = &bufC
		}
		*buf = append(*buf, ch.Data...)
		for len(*buf) >= 5 {
			n := int((*buf)[3])<<8 | int((*buf)[4])
			if len(*buf) < 5+n {
				break
			}
			rec := append([]byte{}, (*buf)[:5+n]...)
			*buf = (*buf)[5+n:]
			if err := process(ch.FromClient, rec); err != nil {
				return d, err
			}
		}
	}
	if len(bufC) != 0 || len(bufS) != 0 {
		return d, fmt.Errorf("trailing partial record (%d/%d bytes)", len(bufC), len(bufS))
	}
	return d, nil
}

// SealPadded seals a CBC record with an explicit padding length pad (0..255; len(plain)+32+pad+1 must be a
// multiple of 16). With corrupt set, one padding byte (chosen by which) is altered after padding.
func SealPadded(suite uint16, macKey, key []byte, seq uint64, typ byte, explicit, plain []byte, pad int, corrupt bool, which int) []byte {
	blk := rsm4.Must(key)
	hdr := []byte{typ, byte(Version >> 8), byte(Version & 0xff)}
	mh := append(seqBytes(seq), typ, hdr[1], hdr[2], byte(len(plain)>>8), byte(len(plain)))
	mac := rsm3.HMAC(macKey, append(mh, plain...))
	pt := append(append([]byte{}, plain...), mac...)
	for i := 0; i <= pad; i++ {
		pt = append(pt, byte(pad))
	}
	if corrupt {
		// any of the pad+1 trailing bytes except that the result must still differ
		pos := len(pt) - 1 - which%(pad+1)
		pt[pos] ^= 0x01 + byte(which%7)
	}
	if len(pt)%16 != 0 {
		panic("SealPadded: not block aligned")
	}
	ct := make([]byte, len(pt))
	cipher.NewCBCEncrypter(blk, explicit).CryptBlocks(ct, pt)
	body := append(append([]byte{}, explicit...), ct...)
	return append(append(hdr, byte(len(body)>>8), byte(len(body))), body...)
}
