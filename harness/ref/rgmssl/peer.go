package rgmssl

import (
	"bytes"
	"crypto/sha1"
	"crypto/sha256"
	"encoding/asn1"
	"errors"
	"fmt"
	"io"
	"math/big"

	"verifharness/ref/rsm2"
	"verifharness/ref/rsm3"
)

// Scripted GM/T 0024 endpoints written from the standard. They run as blocking code over an
// io.ReadWriter (in the harness: a wire.Conn inside a hub goroutine, so waiting for input that
// never comes ends with EOF). Every outgoing handshake message passes through Plan.Out, which lets
// a property replace, drop, duplicate or corrupt it; an empty plan is the honest peer.

// HS message types.
const (
	HSClientHello = 1
	HSServerHello = 2
	HSCertificate = 11
	HSServerKeyEx = 12
	HSCertRequest = 13
	HSServerDone  = 14
	HSCertVerify  = 15
	HSClientKeyEx = 16
	HSFinished    = 20
)

// Out is one thing to put on the wire.
// Out.SplitAt > 0: a handshake message is written as two records cut at that offset (a legal fragmentation).
type Out struct {
	SplitAt      int
	Hold         bool   // handshake bytes are hashed now but written together with the next handshake message (coalescing)
	RecType      byte   // record type; RecHS payloads are handshake bytes
	Data         []byte // payload (for RecHS: one or more complete or deliberately broken handshake messages)
	NoTranscript bool   // do not add to the local transcript (the peer's view then differs from ours)
	RawRecord    bool   // Data is a complete record including header: written as is, unprotected
	NoFragment   bool   // write Data as ONE record even when it exceeds 2^14 bytes (a record-size violation)
}

type Plan struct {
	// Out maps each scheduled outgoing item (named step) to what is really sent. nil = identity.
	Out func(step string, o Out) []Out
	// CloseAfter, if set, closes the connection right after the named step was written.
	CloseAfter string
	// IgnoreAlerts: a peer that presses on after the other side sent an alert (alerts read during the handshake are
	// logged and skipped instead of ending the script).
	IgnoreAlerts bool
}

func (p *Plan) apply(step string, o Out) []Out {
	if p == nil || p.Out == nil {
		return []Out{o}
	}
	return p.Out(step, o)
}

type Identity struct {
	SignCert, EncCert []byte   // DER
	SignD, EncD       *big.Int // private scalars (nil if the peer does not hold the key)
}

type Peer struct {
	rw                         io.ReadWriter
	closer                     io.Closer
	Server                     bool
	Suite                      uint16
	ClientRandom, ServerRandom []byte
	Master                     []byte
	keys                       Keys
	transcript                 []byte
	inEnc, outEnc              bool
	seqIn, seqOut              uint64
	inBuf                      []byte // undecoded record bytes
	hsBuf                      []byte // unparsed handshake bytes
	nonce                      uint64 // deterministic material for randoms, IVs, SM2 nonces
	Seed                       string
	plan                       *Plan
	Log                        []string
	PeerCerts                  [][]byte
	AppIn                      []byte
	GotCloseNotify             bool
	pending                    []byte // held handshake bytes awaiting the next handshake write
	Ticket                     []byte // session ticket received in a NewSessionTicket message
	Resumed                    bool
	AlertIn                    *[2]byte
	AfterFlight                string // ECDHE script: "ClientKeyExchange", "alert", "eof", ... = how the client answered the server flight
}

func NewPeer(rw io.ReadWriter, server bool, seed string, plan *Plan) *Peer {
	p := &Peer{rw: rw, Server: server, Seed: seed, plan: plan}
	if c, ok := rw.(io.Closer); ok {
		p.closer = c
	}
	return p
}

func (p *Peer) rnd(n int) []byte {
	var out []byte
	for len(out) < n {
		p.nonce++
		h := sha256.Sum256([]byte(fmt.Sprintf("%s/%d", p.Seed, p.nonce)))
		out = append(out, h[:]...)
	}
	return out[:n]
}

func (p *Peer) sm2Nonce() *big.Int {
	k := new(big.Int).SetBytes(p.rnd(40))
	k.Mod(k, new(big.Int).Sub(rsm2.Std.N, big.NewInt(1)))
	return k.Add(k, big.NewInt(1))
}

func hsMsg(typ byte, body []byte) []byte {
	return append([]byte{typ, byte(len(body) >> 16), byte(len(body) >> 8), byte(len(body))}, body...)
}

// ErrAlert is returned when the peer sent an alert.
type ErrAlert struct{ Level, Desc byte }

func (e ErrAlert) Error() string {
	return fmt.Sprintf("alert level %d description %d", e.Level, e.Desc)
}

// writeRecord writes one record, protecting it when the outgoing cipher state is active.
func (p *Peer) writeRecord(typ byte, payload []byte) error {
	var rec []byte
	if p.outEnc {
		macKey, key, iv := p.keys.ServerMAC, p.keys.ServerKey, p.keys.ServerIV
		if !p.Server {
			macKey, key, iv = p.keys.ClientMAC, p.keys.ClientKey, p.keys.ClientIV
		}
		explicit := p.rnd(16)
		if p.Suite == SuiteECCGCM {
			explicit = seqBytes(p.seqOut)
		}
		rec = Seal(p.Suite, macKey, key, iv, p.seqOut, typ, explicit, payload)
		p.seqOut++
	} else {
		rec = append([]byte{typ, byte(Version >> 8), byte(Version & 0xff), byte(len(payload) >> 8), byte(len(payload))}, payload...)
	}
	_, err := p.rw.Write(rec)
	return err
}

// send passes one scheduled item through the plan and writes the result.
func (p *Peer) send(step string, o Out) error {
	for _, x := range p.plan.apply(step, o) {
		if x.RawRecord {
			if _, err := p.rw.Write(x.Data); err != nil {
				return err
			}
			continue
		}
		if x.RecType == RecHS && !x.NoTranscript {
			p.transcript = append(p.transcript, x.Data...)
		}
		if x.Hold && x.RecType == RecHS {
			p.pending = append(p.pending, x.Data...)
			continue
		}
		if len(p.pending) > 0 {
			if x.RecType == RecHS {
				x.Data = append(append([]byte{}, p.pending...), x.Data...)
				if x.SplitAt > 0 {
					x.SplitAt += len(p.pending)
				}
			} else if err := p.writeRecord(RecHS, p.pending); err != nil {
				return err
			}
			p.pending = nil
		}
		if x.SplitAt > 0 && x.SplitAt < len(x.Data) {
			if err := p.writeRecord(x.RecType, x.Data[:x.SplitAt]); err != nil {
				return err
			}
			if err := p.writeRecord(x.RecType, x.Data[x.SplitAt:]); err != nil {
				return err
			}
			continue
		}
		// fragment at 16384
		data := x.Data
		for first := true; first || len(data) > 0; first = false {
			n := len(data)
			if n > 16384 && !x.NoFragment {
				n = 16384
			}
			if err := p.writeRecord(x.RecType, data[:n]); err != nil {
				return err
			}
			data = data[n:]
		}
		if x.RecType == RecCCS {
			p.outEnc, p.seqOut = true, 0
		}
	}
	p.Log = append(p.Log, "sent "+step)
	if p.plan != nil && p.plan.CloseAfter == step && p.closer != nil {
		p.closer.Close()
		return errors.New("plan: connection closed after " + step)
	}
	return nil
}

// readRecord returns the next record's type and plaintext.
func (p *Peer) readRecord() (byte, []byte, error) {
	for {
		if len(p.inBuf) >= 5 {
			n := int(p.inBuf[3])<<8 | int(p.inBuf[4])
			if len(p.inBuf) >= 5+n {
				rec := p.inBuf[:5+n]
				p.inBuf = p.inBuf[5+n:]
				if !p.inEnc {
					return rec[0], append([]byte{}, rec[5:]...), nil
				}
				macKey, key, iv := p.keys.ClientMAC, p.keys.ClientKey, p.keys.ClientIV
				if !p.Server {
					macKey, key, iv = p.keys.ServerMAC, p.keys.ServerKey, p.keys.ServerIV
				}
				info, err := Open(p.Suite, macKey, key, iv, p.seqIn, rec)
				if err != nil {
					return 0, nil, fmt.Errorf("peer record rejected by the reference: %v", err)
				}
				p.seqIn++
				return rec[0], info.Plain, nil
			}
		}
		buf := make([]byte, 4096)
		n, err := p.rw.Read(buf)
		p.inBuf = append(p.inBuf, buf[:n]...)
		if err != nil && n == 0 {
			return 0, nil, err
		}
	}
}

// readHS returns the next handshake message (type, body) and adds it to the transcript.
// A ChangeCipherSpec is reported as type 0xff.
func (p *Peer) readHS() (byte, []byte, error) {
	for {
		if len(p.hsBuf) >= 4 {
			n := int(p.hsBuf[1])<<16 | int(p.hsBuf[2])<<8 | int(p.hsBuf[3])
			if len(p.hsBuf) >= 4+n {
				raw := append([]byte{}, p.hsBuf[:4+n]...)
				p.hsBuf = p.hsBuf[4+n:]
				p.transcript = append(p.transcript, raw...)
				p.Log = append(p.Log, fmt.Sprintf("recv hs %d", raw[0]))
				if raw[0] == 4 && len(raw) >= 10 {
					if n := int(raw[8])<<8 | int(raw[9]); len(raw) == 10+n {
						p.Ticket = append([]byte{}, raw[10:]...)
					}
				}
				return raw[0], raw[4:], nil
			}
		}
		typ, data, err := p.readRecord()
		if err != nil {
			return 0, nil, err
		}
		switch typ {
		case RecHS:
			p.hsBuf = append(p.hsBuf, data...)
		case RecCCS:
			p.Log = append(p.Log, "recv ccs")
			return 0xff, nil, nil
		case RecAlert:
			if len(data) == 2 {
				a := [2]byte{data[0], data[1]}
				p.AlertIn = &a
				if p.plan != nil && p.plan.IgnoreAlerts {
					p.Log = append(p.Log, fmt.Sprintf("ignored alert %d/%d", data[0], data[1]))
					continue
				}
				return 0, nil, ErrAlert{data[0], data[1]}
			}
			return 0, nil, errors.New("malformed alert")
		default:
			return 0, nil, fmt.Errorf("unexpected record type %d during handshake", typ)
		}
	}
}

func (p *Peer) expect(want byte) ([]byte, error) {
	typ, body, err := p.readHS()
	if err != nil {
		return nil, err
	}
	if typ != want {
		return nil, fmt.Errorf("expected handshake message %d, got %d", want, typ)
	}
	return body, nil
}

func certMsg(certs ...[]byte) []byte {
	var list []byte
	for _, c := range certs {
		list = append(list, byte(len(c)>>16), byte(len(c)>>8), byte(len(c)))
		list = append(list, c...)
	}
	return hsMsg(HSCertificate, append([]byte{byte(len(list) >> 16), byte(len(list) >> 8), byte(len(list))}, list...))
}

func sm2SigDER(d *big.Int, pub rsm2.Point, msg []byte, k *big.Int) []byte {
	e, _ := rsm2.Std.E(pub, rsm2.DefaultUID, msg)
	r, s, ok := rsm2.Std.SignE(d, e, k)
	if !ok {
		panic("nonce retry")
	}
	b, _ := asn1.Marshal(struct{ R, S *big.Int }{r, s})
	return b
}

// SKEInput is what the server signs: client_random || server_random || uint24 len || encryption certificate.
func SKEInput(cr, sr, encCert []byte) []byte {
	out := append(append([]byte{}, cr...), sr...)
	out = append(out, byte(len(encCert)>>16), byte(len(encCert)>>8), byte(len(encCert)))
	return append(out, encCert...)
}

func pubFromCert(der []byte) (rsm2.Point, error) {
	// SubjectPublicKeyInfo of an SM2 certificate ends with BIT STRING 03 42 00 04 || X || Y
	i := bytes.Index(der, []byte{0x03, 0x42, 0x00, 0x04})
	if i < 0 || i+4+64 > len(der) {
		return rsm2.Point{}, errors.New("no uncompressed P-256-size point in certificate")
	}
	x := new(big.Int).SetBytes(der[i+4 : i+36])
	y := new(big.Int).SetBytes(der[i+36 : i+68])
	if !rsm2.Std.OnCurve(x, y) {
		return rsm2.Point{}, errors.New("certificate key not on the SM2 curve")
	}
	return rsm2.Point{X: x, Y: y}, nil
}

func (p *Peer) deriveKeys(pms []byte) {
	p.Master = Master(pms, p.ClientRandom, p.ServerRandom)
	p.keys = KeyBlock(p.Suite, p.Master, p.ClientRandom, p.ServerRandom)
}

// ServerOpts configure the scripted server.
type ServerOpts struct {
	ID               Identity
	Suite            uint16 // 0 = first of the client's list that we know
	RequestCert      bool
	CAs              [][]byte // DER subject names for the CertificateRequest
	SKESignD         *big.Int // key that signs the ServerKeyExchange (default ID.SignD)
	SKEInputOverride func(cr, sr, enc []byte) []byte
	Echo             []byte                  // application data to send after the handshake
	SigMangle        func(der []byte) []byte // rewrites the DER signature of ServerKeyExchange (nil = identity)
	ECDHE            *ECDHEOpts              // non-nil: select an ECDHE-SM2 suite and send that kind of ServerKeyExchange
}

// ECDHEOpts scripts a server that selects ECDHE_SM4_*_SM3 (0xe011 / 0xe051). The reference cannot finish that key
// exchange; the script ends after the client's answer to the server flight, recorded in Peer.AfterFlight.
type ECDHEOpts struct {
	Suite      uint16 // default 0xe011
	CurveID    uint16
	Point      []byte   // encoded point (default: a valid uncompressed SM2 point)
	SignD      *big.Int // key that signs the parameters (default: the identity's signing key)
	RawTail    []byte   // if non-nil, replaces the whole signature part (length prefix included)
	CorruptSig bool
}

// RunServer plays the server side. Returns nil when the handshake completed by the reference's standards.
func (p *Peer) RunServer(o ServerOpts) error {
	body, err := p.expect(HSClientHello)
	if err != nil {
		return err
	}
	if len(body) < 35 {
		return errors.New("short ClientHello")
	}
	p.ClientRandom = append([]byte{}, body[2:34]...)
	sl := int(body[34])
	if len(body) < 35+sl+2 {
		return errors.New("short ClientHello")
	}
	rest := body[35+sl:]
	nl := int(rest[0])<<8 | int(rest[1])
	if len(rest) < 2+nl {
		return errors.New("short ClientHello suites")
	}
	p.Suite = o.Suite
	if o.ECDHE != nil {
		p.Suite = o.ECDHE.Suite
		if p.Suite == 0 {
			p.Suite = 0xe011
		}
	}
	if p.Suite == 0 {
		for i := 0; i+1 < nl; i += 2 {
			s := uint16(rest[2+i])<<8 | uint16(rest[3+i])
			if s == SuiteECCCBC || s == SuiteECCGCM {
				p.Suite = s
				break
			}
		}
	}
	if p.Suite == 0 {
		return errors.New("client offers no ECC suite")
	}
	p.ServerRandom = p.rnd(32)
	sh := append([]byte{byte(Version >> 8), byte(Version & 0xff)}, p.ServerRandom...)
	sh = append(sh, 0)                                  // empty session id
	sh = append(sh, byte(p.Suite>>8), byte(p.Suite), 0) // suite, null compression
	if err := p.send("ServerHello", Out{RecType: RecHS, Data: hsMsg(HSServerHello, sh)}); err != nil {
		return err
	}
	if err := p.send("Certificate", Out{RecType: RecHS, Data: certMsg(o.ID.SignCert, o.ID.EncCert)}); err != nil {
		return err
	}
	signD := o.SKESignD
	if signD == nil {
		signD = o.ID.SignD
	}
	in := SKEInput(p.ClientRandom, p.ServerRandom, o.ID.EncCert)
	if o.SKEInputOverride != nil {
		in = o.SKEInputOverride(p.ClientRandom, p.ServerRandom, o.ID.EncCert)
	}
	var ske []byte
	if e := o.ECDHE; e != nil {
		// ECParameters(named_curve, id) || point || signature over SHA-1(client_random || server_random || params)
		pt := e.Point
		if pt == nil {
			g := rsm2.Std.BaseMul(big.NewInt(0x1234567))
			pt = append(append([]byte{4}, rsm2.Pad32(g.X)...), rsm2.Pad32(g.Y)...)
		}
		params := append([]byte{3, byte(e.CurveID >> 8), byte(e.CurveID), byte(len(pt))}, pt...)
		d := e.SignD
		if d == nil {
			d = o.ID.SignD
		}
		h := sha1.Sum(append(append(append([]byte{}, p.ClientRandom...), p.ServerRandom...), params...))
		sig := sm2SigDER(d, rsm2.Std.BaseMul(d), h[:], p.sm2Nonce())
		if e.CorruptSig {
			sig[len(sig)-2] ^= 0x20
		}
		tail := append([]byte{byte(len(sig) >> 8), byte(len(sig))}, sig...)
		if e.RawTail != nil {
			tail = e.RawTail
		}
		ske = hsMsg(HSServerKeyEx, append(params, tail...))
	} else if signD != nil {
		sig := sm2SigDER(signD, rsm2.Std.BaseMul(signD), in, p.sm2Nonce())
		if o.SigMangle != nil {
			sig = o.SigMangle(sig)
		}
		ske = hsMsg(HSServerKeyEx, append([]byte{byte(len(sig) >> 8), byte(len(sig))}, sig...))
	} else {
		ske = hsMsg(HSServerKeyEx, []byte{0, 0})
	}
	if err := p.send("ServerKeyExchange", Out{RecType: RecHS, Data: ske}); err != nil {
		return err
	}
	if o.RequestCert {
		var cas []byte
		for _, ca := range o.CAs {
			cas = append(cas, byte(len(ca)>>8), byte(len(ca)))
			cas = append(cas, ca...)
		}
		cr := append([]byte{2, 1, 64}, byte(len(cas)>>8), byte(len(cas)))
		cr = append(cr, cas...)
		if err := p.send("CertificateRequest", Out{RecType: RecHS, Data: hsMsg(HSCertRequest, cr)}); err != nil {
			return err
		}
	}
	if err := p.send("ServerHelloDone", Out{RecType: RecHS, Data: hsMsg(HSServerDone, nil)}); err != nil {
		return err
	}
	typ, body, err := p.readHS()
	if o.ECDHE != nil {
		// the reference does not implement the ECDHE-SM2 exchange: record how the client answered and stop
		switch {
		case err == nil && typ == HSCertificate:
			if t2, _, e2 := p.readHS(); e2 == nil && t2 == HSClientKeyEx {
				p.AfterFlight = "ClientKeyExchange"
			} else {
				p.AfterFlight = "Certificate"
			}
		case err == nil && typ == HSClientKeyEx:
			p.AfterFlight = "ClientKeyExchange"
		case err == nil:
			p.AfterFlight = fmt.Sprintf("handshake message %d", typ)
		default:
			if _, isAlert := err.(ErrAlert); isAlert {
				p.AfterFlight = "alert"
			} else {
				p.AfterFlight = "eof"
			}
		}
		if p.closer != nil {
			p.closer.Close()
		}
		return errors.New("scripted ECDHE server: stops after the client's answer (" + p.AfterFlight + ")")
	}
	if err != nil {
		return err
	}
	var clientPub *rsm2.Point
	if o.RequestCert {
		if typ != HSCertificate {
			return fmt.Errorf("expected client Certificate, got %d", typ)
		}
		p.PeerCerts = parseCerts(body)
		if len(p.PeerCerts) > 0 {
			if pk, err := pubFromCert(p.PeerCerts[0]); err == nil {
				clientPub = &pk
			}
		}
		if typ, body, err = p.readHS(); err != nil {
			return err
		}
	}
	if typ != HSClientKeyEx {
		return fmt.Errorf("expected ClientKeyExchange, got %d", typ)
	}
	if o.ID.EncD == nil {
		return errors.New("scripted server holds no encryption key")
	}
	pms, err := DecryptPMS(o.ID.EncD, body)
	if err != nil {
		return err
	}
	if len(pms) != 48 {
		return errors.New("pre-master secret length")
	}
	p.deriveKeys(pms)
	if len(p.PeerCerts) > 0 {
		beforeCV := append([]byte{}, p.transcript...)
		cv, err := p.expect(HSCertVerify)
		if err != nil {
			return err
		}
		if clientPub == nil || len(cv) < 2 {
			return errors.New("cannot check CertificateVerify")
		}
		var sig struct{ R, S *big.Int }
		if _, err := asn1.Unmarshal(cv[2:], &sig); err != nil {
			return fmt.Errorf("CertificateVerify signature: %v", err)
		}
		if !rsm2.Std.Verify(*clientPub, rsm2.DefaultUID, rsm3.Sum(beforeCV), sig.R, sig.S) {
			return errors.New("CertificateVerify does not verify")
		}
	}
	if typ, _, err = p.readHS(); err != nil {
		return err
	} else if typ != 0xff {
		return fmt.Errorf("expected ChangeCipherSpec, got handshake %d", typ)
	}
	p.inEnc, p.seqIn = true, 0
	want := FinishedVerify(p.Master, true, p.transcript)
	fin, err := p.expect(HSFinished)
	if err != nil {
		return err
	}
	if !bytes.Equal(fin, want) {
		return errors.New("client Finished does not match")
	}
	if err := p.send("ChangeCipherSpec", Out{RecType: RecCCS, Data: []byte{1}}); err != nil {
		return err
	}
	if err := p.send("Finished", Out{RecType: RecHS, Data: hsMsg(HSFinished, FinishedVerify(p.Master, false, p.transcript))}); err != nil {
		return err
	}
	return p.appPhase(o.Echo)
}

// ClientOpts configure the scripted client.
type ClientOpts struct {
	Suites          []uint16
	Cert            []byte   // client certificate DER (sent when requested)
	CertD           *big.Int // its key; nil = the client cannot sign
	CVSignD         *big.Int // key that signs CertificateVerify (default CertD)
	OmitCertVerify  bool
	ExtraCerts      [][]byte // further certificates appended to the client's Certificate message
	Send            []byte
	VersionOverride uint16
	ForceVersion    bool // use VersionOverride even when it is 0
	SessionTicket   []byte
	SessionID       []byte
	ResumeMaster    []byte                  // expected master when the server resumes
	SigMangle       func(der []byte) []byte // rewrites the DER signature of CertificateVerify (nil = identity)
}

func (p *Peer) ClientHelloBytes(o ClientOpts) []byte {
	if p.ClientRandom == nil {
		p.ClientRandom = p.rnd(32)
	}
	v := Version
	if o.VersionOverride != 0 || o.ForceVersion {
		v = o.VersionOverride
	}
	suites := o.Suites
	if suites == nil {
		suites = []uint16{SuiteECCCBC, SuiteECCGCM}
	}
	ch := append([]byte{byte(v >> 8), byte(v & 0xff)}, p.ClientRandom...)
	ch = append(ch, byte(len(o.SessionID)))
	ch = append(ch, o.SessionID...)
	ch = append(ch, byte(len(suites)*2>>8), byte(len(suites)*2))
	for _, s := range suites {
		ch = append(ch, byte(s>>8), byte(s))
	}
	ch = append(ch, 1, 0)
	if o.SessionTicket != nil {
		ext := append([]byte{0, 35, byte(len(o.SessionTicket) >> 8), byte(len(o.SessionTicket))}, o.SessionTicket...)
		ch = append(ch, byte(len(ext)>>8), byte(len(ext)))
		ch = append(ch, ext...)
	}
	return hsMsg(HSClientHello, ch)
}

// RunClient plays the client side.
func (p *Peer) RunClient(o ClientOpts) error {
	if err := p.send("ClientHello", Out{RecType: RecHS, Data: p.ClientHelloBytes(o)}); err != nil {
		return err
	}
	body, err := p.expect(HSServerHello)
	if err != nil {
		return err
	}
	if len(body) < 38 {
		return errors.New("short ServerHello")
	}
	if v := uint16(body[0])<<8 | uint16(body[1]); v != Version {
		return fmt.Errorf("ServerHello version %#x", v)
	}
	p.ServerRandom = append([]byte{}, body[2:34]...)
	sl := int(body[34])
	if len(body) < 35+sl+3 {
		return errors.New("short ServerHello")
	}
	p.Suite = uint16(body[35+sl])<<8 | uint16(body[36+sl])
	if p.Suite != SuiteECCCBC && p.Suite != SuiteECCGCM {
		return fmt.Errorf("server selected suite %#x", p.Suite)
	}
	typ, body, err := p.readHS()
	if err != nil {
		return err
	}
	if typ == 0xff || typ == 4 {
		// abbreviated handshake ([NewSessionTicket], ChangeCipherSpec, Finished)
		if o.ResumeMaster == nil {
			return errors.New("server resumed a session the client does not know")
		}
		if typ == 4 {
			if typ, _, err = p.readHS(); err != nil {
				return err
			}
			if typ != 0xff {
				return errors.New("expected ChangeCipherSpec after NewSessionTicket")
			}
		}
		p.Master = o.ResumeMaster
		p.keys = KeyBlock(p.Suite, p.Master, p.ClientRandom, p.ServerRandom)
		p.inEnc, p.seqIn = true, 0
		want := FinishedVerify(p.Master, false, p.transcript)
		fin, err := p.expect(HSFinished)
		if err != nil {
			return err
		}
		if !bytes.Equal(fin, want) {
			return errors.New("server Finished (resumption) does not match")
		}
		if err := p.send("ChangeCipherSpec", Out{RecType: RecCCS, Data: []byte{1}}); err != nil {
			return err
		}
		if err := p.send("Finished", Out{RecType: RecHS, Data: hsMsg(HSFinished, FinishedVerify(p.Master, true, p.transcript))}); err != nil {
			return err
		}
		p.Log = append(p.Log, "resumed")
		p.Resumed = true
		return p.appPhase(o.Send)
	}
	if typ != HSCertificate {
		return fmt.Errorf("expected Certificate, got %d", typ)
	}
	p.PeerCerts = parseCerts(body)
	if len(p.PeerCerts) < 2 {
		return errors.New("server sent fewer than two certificates")
	}
	signPub, err := pubFromCert(p.PeerCerts[0])
	if err != nil {
		return err
	}
	encPub, err := pubFromCert(p.PeerCerts[1])
	if err != nil {
		return err
	}
	ske, err := p.expect(HSServerKeyEx)
	if err != nil {
		return err
	}
	if len(ske) < 2 || int(ske[0])<<8|int(ske[1]) != len(ske)-2 {
		return errors.New("ServerKeyExchange length")
	}
	var sig struct{ R, S *big.Int }
	if rest, err := asn1.Unmarshal(ske[2:], &sig); err != nil || len(rest) != 0 {
		return fmt.Errorf("ServerKeyExchange signature encoding: %v", err)
	}
	if !rsm2.Std.Verify(signPub, rsm2.DefaultUID, SKEInput(p.ClientRandom, p.ServerRandom, p.PeerCerts[1]), sig.R, sig.S) {
		return errors.New("ServerKeyExchange signature does not verify")
	}
	typ, _, err = p.readHS()
	if err != nil {
		return err
	}
	certRequested := false
	if typ == HSCertRequest {
		certRequested = true
		if typ, _, err = p.readHS(); err != nil {
			return err
		}
	}
	if typ != HSServerDone {
		return fmt.Errorf("expected ServerHelloDone, got %d", typ)
	}
	sendsCert := certRequested && o.Cert != nil
	if certRequested {
		m := certMsg()
		if sendsCert {
			m = certMsg(append([][]byte{o.Cert}, o.ExtraCerts...)...)
		}
		if err := p.send("ClientCertificate", Out{RecType: RecHS, Data: m}); err != nil {
			return err
		}
	}
	pms := append([]byte{byte(Version >> 8), byte(Version & 0xff)}, p.rnd(46)...)
	raw, _, _, retry := rsm2.Std.Encrypt(encPub, pms, p.sm2Nonce(), rsm2.C1C3C2)
	if retry {
		return errors.New("nonce retry")
	}
	ct, _ := asn1.Marshal(sm2CipherASN1{new(big.Int).SetBytes(raw[1:33]), new(big.Int).SetBytes(raw[33:65]), raw[65:97], raw[97:]})
	if err := p.send("ClientKeyExchange", Out{RecType: RecHS, Data: hsMsg(HSClientKeyEx, append([]byte{byte(len(ct) >> 8), byte(len(ct))}, ct...))}); err != nil {
		return err
	}
	p.deriveKeys(pms)
	if sendsCert && !o.OmitCertVerify {
		d := o.CVSignD
		if d == nil {
			d = o.CertD
		}
		if d != nil {
			sig := sm2SigDER(d, rsm2.Std.BaseMul(d), rsm3.Sum(p.transcript), p.sm2Nonce())
			if o.SigMangle != nil {
				sig = o.SigMangle(sig)
			}
			if err := p.send("CertificateVerify", Out{RecType: RecHS, Data: hsMsg(HSCertVerify, append([]byte{byte(len(sig) >> 8), byte(len(sig))}, sig...))}); err != nil {
				return err
			}
		}
	}
	if err := p.send("ChangeCipherSpec", Out{RecType: RecCCS, Data: []byte{1}}); err != nil {
		return err
	}
	if err := p.send("Finished", Out{RecType: RecHS, Data: hsMsg(HSFinished, FinishedVerify(p.Master, true, p.transcript))}); err != nil {
		return err
	}
	typ, _, err = p.readHS()
	if err != nil {
		return err
	}
	if typ == 4 { // NewSessionTicket
		if typ, _, err = p.readHS(); err != nil {
			return err
		}
	}
	if typ != 0xff {
		return fmt.Errorf("expected ChangeCipherSpec, got handshake %d", typ)
	}
	p.inEnc, p.seqIn = true, 0
	want := FinishedVerify(p.Master, false, p.transcript)
	fin, err := p.expect(HSFinished)
	if err != nil {
		return err
	}
	if !bytes.Equal(fin, want) {
		return errors.New("server Finished does not match")
	}
	return p.appPhase(o.Send)
}

// appPhase sends data, then close_notify, and reads until the peer's close_notify or end of stream.
func (p *Peer) appPhase(send []byte) error {
	p.Log = append(p.Log, "handshake complete")
	if len(send) > 0 {
		if err := p.send("AppData", Out{RecType: RecApp, Data: send}); err != nil {
			return err
		}
	}
	if err := p.send("CloseNotify", Out{RecType: RecAlert, Data: []byte{1, 0}}); err != nil {
		return err
	}
	for {
		typ, data, err := p.readRecord()
		if err != nil {
			if err == io.EOF {
				return nil
			}
			return err
		}
		switch typ {
		case RecApp:
			p.AppIn = append(p.AppIn, data...)
		case RecAlert:
			if len(data) == 2 && data[1] == 0 {
				p.GotCloseNotify = true
				return nil
			}
			if len(data) == 2 {
				return ErrAlert{data[0], data[1]}
			}
		}
	}
}

// Completed reports whether the scripted endpoint reached the end of the handshake.
func (p *Peer) Completed() bool {
	for _, l := range p.Log {
		if l == "handshake complete" {
			return true
		}
	}
	return false
}
