package rgmssl

// A scripted TLS 1.2 client that RESUMES a session from a ticket (RFC 5077 abbreviated handshake) with the suite
// TLS_ECDHE_RSA_WITH_AES_128_GCM_SHA256 (0xc02f), written from RFC 5246 / 5288 / 5077 with the standard library's
// SHA-256, HMAC and AES-GCM. It knows the master secret of the original session (the harness opens the ticket with the
// server's own keys), so it can finish an abbreviated handshake whatever it put into its ClientHello - which lets a
// check tell "the server turned the deviating hello away" from "the server went along with it".

import (
	"crypto/aes"
	"crypto/cipher"
	"crypto/hmac"
	"crypto/sha256"
	"errors"
	"fmt"
	"io"
)

type TLSResumeOpts struct {
	Ticket       []byte
	Master       []byte
	Version      uint16   // ClientHello.client_version and record version; default 0x0303
	Suites       []uint16 // default {0xc02f}
	Compressions []byte   // default {0}
	SessionID    []byte   // default 32 bytes derived from the seed
	Random       []byte   // 32 bytes
	// Hello, if set, rewrites the finished ClientHello handshake message (header included); the transcript follows it.
	Hello func(msg []byte) []byte
	// JunkFinished: the client's Finished carries wrong verify_data
	JunkFinished bool
	AppData      []byte // sent after the handshake; the server's answer is read into AppIn
}

type TLSResumeResult struct {
	Resumed      bool   // the server answered with an abbreviated handshake (ServerHello, [NewSessionTicket], CCS, Finished)
	FullFallback bool   // the server went on with a full handshake (Certificate after ServerHello)
	Completed    bool   // our Finished was accepted: application data came back
	Alert        *[2]byte
	NewTicket    []byte
	AppIn        []byte
	Log          []string
	ServerSuite  uint16
	ServerVers   uint16
}

func prf12(secret []byte, label string, seed []byte, n int) []byte {
	ls := append([]byte(label), seed...)
	h := func(parts ...[]byte) []byte {
		m := hmac.New(sha256.New, secret)
		for _, p := range parts {
			m.Write(p)
		}
		return m.Sum(nil)
	}
	a := h(ls)
	var out []byte
	for len(out) < n {
		out = append(out, h(a, ls)...)
		a = h(a)
	}
	return out[:n]
}

type tlsHalf struct {
	aead cipher.AEAD
	iv   []byte
	seq  uint64
	on   bool
}

func seq8(s uint64) []byte {
	return []byte{byte(s >> 56), byte(s >> 48), byte(s >> 40), byte(s >> 32), byte(s >> 24), byte(s >> 16), byte(s >> 8), byte(s)}
}

func (h *tlsHalf) seal(typ byte, vers uint16, plain []byte) []byte {
	if !h.on {
		return append([]byte{typ, byte(vers >> 8), byte(vers), byte(len(plain) >> 8), byte(len(plain))}, plain...)
	}
	explicit := seq8(h.seq)
	nonce := append(append([]byte{}, h.iv...), explicit...)
	aad := append(seq8(h.seq), typ, byte(vers>>8), byte(vers), byte(len(plain)>>8), byte(len(plain)))
	ct := h.aead.Seal(nil, nonce, plain, aad)
	h.seq++
	body := append(explicit, ct...)
	return append([]byte{typ, byte(vers >> 8), byte(vers), byte(len(body) >> 8), byte(len(body))}, body...)
}

func (h *tlsHalf) open(typ byte, vers uint16, body []byte) ([]byte, error) {
	if !h.on {
		return body, nil
	}
	if len(body) < 8+16 {
		return nil, errors.New("tlsresume: protected record too short")
	}
	nonce := append(append([]byte{}, h.iv...), body[:8]...)
	n := len(body) - 8 - 16
	aad := append(seq8(h.seq), typ, byte(vers>>8), byte(vers), byte(n>>8), byte(n))
	pt, err := h.aead.Open(nil, nonce, body[8:], aad)
	if err != nil {
		return nil, errors.New("tlsresume: record does not open under the session keys")
	}
	h.seq++
	return pt, nil
}

// ResumeTLS12 runs the script over rw and reports what the server did.
func ResumeTLS12(rw io.ReadWriter, o TLSResumeOpts) (*TLSResumeResult, error) {
	res := &TLSResumeResult{}
	vers := o.Version
	if vers == 0 {
		vers = 0x0303
	}
	suites := o.Suites
	if suites == nil {
		suites = []uint16{0xc02f}
	}
	comp := o.Compressions
	if comp == nil {
		comp = []byte{0}
	}
	sid := o.SessionID
	if sid == nil {
		sid = make([]byte, 32)
		for i := range sid {
			sid[i] = byte(0xA0 + i)
		}
	}
	if len(o.Random) != 32 {
		return res, errors.New("tlsresume: need a 32-byte client random")
	}
	// ---- ClientHello
	body := []byte{byte(vers >> 8), byte(vers)}
	body = append(body, o.Random...)
	body = append(body, byte(len(sid)))
	body = append(body, sid...)
	body = append(body, byte(len(suites)*2>>8), byte(len(suites)*2))
	for _, s := range suites {
		body = append(body, byte(s>>8), byte(s))
	}
	body = append(body, byte(len(comp)))
	body = append(body, comp...)
	var ext []byte
	// supported_groups, ec_point_formats, signature_algorithms (what an ECDHE client sends), session_ticket
	ext = append(ext, 0x00, 0x0a, 0x00, 0x04, 0x00, 0x02, 0x00, 0x17)
	ext = append(ext, 0x00, 0x0b, 0x00, 0x02, 0x01, 0x00)
	ext = append(ext, 0x00, 0x0d, 0x00, 0x06, 0x00, 0x04, 0x04, 0x01, 0x04, 0x03)
	ext = append(ext, 0x00, 0x23, byte(len(o.Ticket)>>8), byte(len(o.Ticket)))
	ext = append(ext, o.Ticket...)
	body = append(body, byte(len(ext)>>8), byte(len(ext)))
	body = append(body, ext...)
	hello := hsMsg(1, body)
	if o.Hello != nil {
		hello = o.Hello(hello)
	}
	transcript := append([]byte{}, hello...)
	in, out := &tlsHalf{}, &tlsHalf{}
	recVers := vers
	if recVers > 0x0303 || recVers < 0x0301 {
		recVers = 0x0301
	}
	if _, err := rw.Write(out.seal(22, recVers, hello)); err != nil {
		return res, err
	}
	res.Log = append(res.Log, "sent ClientHello")
	// ---- reading
	var inBuf, hsBuf []byte
	readRecord := func() (byte, []byte, error) {
		for {
			if len(inBuf) >= 5 {
				n := int(inBuf[3])<<8 | int(inBuf[4])
				if len(inBuf) >= 5+n {
					typ, v, b := inBuf[0], uint16(inBuf[1])<<8|uint16(inBuf[2]), inBuf[5:5+n]
					inBuf = inBuf[5+n:]
					pt, err := in.open(typ, v, b)
					return typ, pt, err
				}
			}
			tmp := make([]byte, 8192)
			k, err := rw.Read(tmp)
			inBuf = append(inBuf, tmp[:k]...)
			if k == 0 && err != nil {
				return 0, nil, err
			}
		}
	}
	var serverRandom []byte
	// readHS returns the next handshake message, or reports a ChangeCipherSpec (typ 0xff) / alert
	readHS := func() (byte, []byte, []byte, error) {
		for {
			if len(hsBuf) >= 4 {
				n := int(hsBuf[1])<<16 | int(hsBuf[2])<<8 | int(hsBuf[3])
				if len(hsBuf) >= 4+n {
					raw := hsBuf[:4+n]
					hsBuf = hsBuf[4+n:]
					return raw[0], raw[4:], raw, nil
				}
			}
			typ, b, err := readRecord()
			if err != nil {
				return 0, nil, nil, err
			}
			switch typ {
			case 22:
				hsBuf = append(hsBuf, b...)
			case 20:
				return 0xff, nil, nil, nil
			case 21:
				if len(b) == 2 {
					res.Alert = &[2]byte{b[0], b[1]}
				}
				return 0, nil, nil, fmt.Errorf("tlsresume: alert %v", b)
			default:
				return 0, nil, nil, fmt.Errorf("tlsresume: unexpected record type %d", typ)
			}
		}
	}
	typ, b, raw, err := readHS()
	if err != nil {
		return res, err
	}
	if typ != 2 || len(b) < 35 {
		return res, fmt.Errorf("tlsresume: expected ServerHello, got handshake type %d", typ)
	}
	transcript = append(transcript, raw...)
	res.ServerVers = uint16(b[0])<<8 | uint16(b[1])
	serverRandom = b[2:34]
	sl := int(b[34])
	if len(b) < 35+sl+3 {
		return res, errors.New("tlsresume: short ServerHello")
	}
	echoed := b[35 : 35+sl]
	res.ServerSuite = uint16(b[35+sl])<<8 | uint16(b[36+sl])
	res.Log = append(res.Log, fmt.Sprintf("ServerHello vers=%04x suite=%04x sid_echoed=%v", res.ServerVers, res.ServerSuite, string(echoed) == string(sid)))
	// what follows decides: NewSessionTicket / ChangeCipherSpec = abbreviated, Certificate = full handshake
	for {
		typ, b, raw, err = readHS()
		if err != nil {
			return res, err
		}
		if typ == 4 {
			transcript = append(transcript, raw...)
			if len(b) >= 6 {
				res.NewTicket = append([]byte{}, b[6:]...)
			}
			res.Log = append(res.Log, "NewSessionTicket")
			continue
		}
		break
	}
	if typ == 11 {
		res.FullFallback = true
		res.Log = append(res.Log, "Certificate: the server fell back to a full handshake")
		return res, nil
	}
	if typ != 0xff {
		return res, fmt.Errorf("tlsresume: expected ChangeCipherSpec, got handshake type %d", typ)
	}
	res.Resumed = true
	if res.ServerSuite != 0xc02f || res.ServerVers != 0x0303 {
		return res, fmt.Errorf("tlsresume: resumed with suite %04x version %04x, the script only speaks c02f/0303", res.ServerSuite, res.ServerVers)
	}
	// ---- keys
	kb := prf12(o.Master, "key expansion", append(append([]byte{}, serverRandom...), o.Random...), 2*16+2*4)
	mk := func(key, iv []byte) *tlsHalf {
		blk, _ := aes.NewCipher(key)
		a, _ := cipher.NewGCM(blk)
		return &tlsHalf{aead: a, iv: iv, on: true}
	}
	*out = *mk(kb[0:16], kb[32:36])
	*in = *mk(kb[16:32], kb[36:40])
	typ, b, raw, err = readHS()
	if err != nil {
		return res, err
	}
	if typ != 20 {
		return res, fmt.Errorf("tlsresume: expected Finished, got handshake type %d", typ)
	}
	th := sha256.Sum256(transcript)
	if want := prf12(o.Master, "server finished", th[:], 12); string(want) != string(b) {
		return res, errors.New("tlsresume: the server's Finished does not match the transcript under the session's master secret")
	}
	transcript = append(transcript, raw...)
	res.Log = append(res.Log, "server Finished verified")
	plainHalf := &tlsHalf{}
	if _, err := rw.Write(plainHalf.seal(20, 0x0303, []byte{1})); err != nil {
		return res, err
	}
	th = sha256.Sum256(transcript)
	vd := prf12(o.Master, "client finished", th[:], 12)
	if o.JunkFinished {
		vd[0] ^= 0x40
	}
	if _, err := rw.Write(out.seal(22, 0x0303, hsMsg(20, vd))); err != nil {
		return res, err
	}
	res.Log = append(res.Log, "sent ChangeCipherSpec, Finished")
	if len(o.AppData) > 0 {
		if _, err := rw.Write(out.seal(23, 0x0303, o.AppData)); err != nil {
			return res, err
		}
	}
	for {
		t, b, err := readRecord()
		if err != nil {
			return res, nil // end of stream without data: not completed
		}
		switch t {
		case 23:
			res.AppIn = append(res.AppIn, b...)
			res.Completed = true
			if len(res.AppIn) >= 1 {
				rw.Write(out.seal(21, 0x0303, []byte{1, 0}))
				return res, nil
			}
		case 21:
			if len(b) == 2 {
				res.Alert = &[2]byte{b[0], b[1]}
			}
			return res, nil
		}
	}
}

func newGCM(key []byte) cipher.AEAD {
	blk, err := aes.NewCipher(key)
	if err != nil {
		panic(err)
	}
	a, err := cipher.NewGCM(blk)
	if err != nil {
		panic(err)
	}
	return a
}
