package rgmssl

// A scripted SSL 3.0 / TLS 1.0-1.2 CLIENT that goes as far as a well-formed ClientKeyExchange and then stops (the caller
// closes the connection): ClientHello with one cipher suite at a chosen version, the server's flight is read up to
// ServerHelloDone, and the key exchange message is a genuine one - a PKCS#1 v1.5 encryption of a pre-master secret
// under the server's certified RSA key, or a P-256 point for the ECDHE suites. The server then has everything it needs
// to derive the master secret and the connection keys for whatever (version, suite) it negotiated, and is left waiting
// for a ChangeCipherSpec that never comes. Written from RFC 6101 / 2246 / 5246 / 4492 with the standard library only.

import (
	"crypto/ecdh"
	"crypto/rand"
	"crypto/rsa"
	"crypto/x509"
	"errors"
	"fmt"
	"io"
)

type TLSPartialOpts struct {
	Version uint16 // ClientHello.client_version and record version
	Suite   uint16
	Random  []byte // 32 bytes
	ECDHE   bool   // the suite's key exchange is ECDHE (a P-256 point is sent), otherwise RSA
}

type TLSPartialResult struct {
	ServerVers, ServerSuite uint16
	SentCKE                 bool
	Alert                   *[2]byte
	Log                     []string
}

func PartialTLSClient(rw io.ReadWriter, o TLSPartialOpts) (*TLSPartialResult, error) {
	res := &TLSPartialResult{}
	if len(o.Random) != 32 {
		return res, errors.New("tlspartial: need a 32-byte client random")
	}
	rv := o.Version
	if rv > 0x0303 || rv < 0x0300 {
		rv = 0x0301
	}
	writeRec := func(typ byte, b []byte) error {
		_, err := rw.Write(append([]byte{typ, byte(rv >> 8), byte(rv), byte(len(b) >> 8), byte(len(b))}, b...))
		return err
	}
	ch := []byte{byte(o.Version >> 8), byte(o.Version)}
	ch = append(ch, o.Random...)
	ch = append(ch, 0)
	ch = append(ch, 0, 2, byte(o.Suite>>8), byte(o.Suite))
	ch = append(ch, 1, 0)
	if o.Version >= 0x0301 {
		ext := []byte{0, 10, 0, 4, 0, 2, 0, 23, 0, 11, 0, 2, 1, 0}
		if o.Version >= 0x0303 {
			ext = append(ext, 0, 13, 0, 6, 0, 4, 4, 1, 2, 1)
		}
		ch = append(ch, byte(len(ext)>>8), byte(len(ext)))
		ch = append(ch, ext...)
	}
	if err := writeRec(22, hsMsg(1, ch)); err != nil {
		return res, err
	}
	res.Log = append(res.Log, "sent ClientHello")
	var inBuf, hsBuf []byte
	readHS := func() (byte, []byte, error) {
		for {
			if len(hsBuf) >= 4 {
				n := int(hsBuf[1])<<16 | int(hsBuf[2])<<8 | int(hsBuf[3])
				if len(hsBuf) >= 4+n {
					typ, body := hsBuf[0], hsBuf[4:4+n]
					hsBuf = hsBuf[4+n:]
					return typ, body, nil
				}
			}
			for len(inBuf) < 5 || len(inBuf) < 5+(int(inBuf[3])<<8|int(inBuf[4])) {
				tmp := make([]byte, 8192)
				k, err := rw.Read(tmp)
				inBuf = append(inBuf, tmp[:k]...)
				if k == 0 && err != nil {
					return 0, nil, err
				}
			}
			n := int(inBuf[3])<<8 | int(inBuf[4])
			typ, b := inBuf[0], inBuf[5:5+n]
			inBuf = inBuf[5+n:]
			switch typ {
			case 22:
				hsBuf = append(hsBuf, b...)
			case 21:
				if len(b) == 2 {
					res.Alert = &[2]byte{b[0], b[1]}
				}
				res.Log = append(res.Log, fmt.Sprintf("alert %v", b))
				return 0, nil, fmt.Errorf("tlspartial: alert %v", b)
			default:
				return 0, nil, fmt.Errorf("tlspartial: unexpected record type %d", typ)
			}
		}
	}
	var pub *rsa.PublicKey
	for done := false; !done; {
		typ, b, err := readHS()
		if err != nil {
			return res, err
		}
		switch typ {
		case 2:
			if len(b) < 38 {
				return res, errors.New("tlspartial: short ServerHello")
			}
			res.ServerVers = uint16(b[0])<<8 | uint16(b[1])
			sid := int(b[34])
			if len(b) < 35+sid+2 {
				return res, errors.New("tlspartial: short ServerHello")
			}
			res.ServerSuite = uint16(b[35+sid])<<8 | uint16(b[36+sid])
			res.Log = append(res.Log, fmt.Sprintf("ServerHello %04x %04x", res.ServerVers, res.ServerSuite))
		case 11:
			if len(b) < 6 {
				return res, errors.New("tlspartial: short Certificate")
			}
			n := int(b[3])<<16 | int(b[4])<<8 | int(b[5])
			if len(b) < 6+n {
				return res, errors.New("tlspartial: short Certificate")
			}
			if c, err := x509.ParseCertificate(b[6 : 6+n]); err == nil {
				pub, _ = c.PublicKey.(*rsa.PublicKey)
			}
		case 14:
			done = true
		}
	}
	var cke []byte
	if o.ECDHE {
		k, err := ecdh.P256().GenerateKey(rand.Reader)
		if err != nil {
			return res, err
		}
		pt := k.PublicKey().Bytes()
		cke = append([]byte{byte(len(pt))}, pt...)
	} else {
		if pub == nil {
			return res, errors.New("tlspartial: the server's certificate carries no RSA key")
		}
		pms := make([]byte, 48)
		rand.Read(pms)
		pms[0], pms[1] = byte(o.Version>>8), byte(o.Version)
		enc, err := rsa.EncryptPKCS1v15(rand.Reader, pub, pms)
		if err != nil {
			return res, err
		}
		if res.ServerVers == 0x0300 {
			cke = enc // SSL 3.0: no length prefix
		} else {
			cke = append([]byte{byte(len(enc) >> 8), byte(len(enc))}, enc...)
		}
	}
	rv = res.ServerVers
	if err := writeRec(22, hsMsg(16, cke)); err != nil {
		return res, err
	}
	res.SentCKE = true
	res.Log = append(res.Log, "sent ClientKeyExchange")
	return res, nil
}
