package rgmssl

// A scripted TLS 1.2 SERVER with RSA key exchange and TLS_RSA_WITH_AES_128_GCM_SHA256 (0x009c), written from RFC 5246 /
// 5288 with the standard library's RSA, SHA-256, HMAC and AES-GCM. It holds the private key of its certificate, so it
// can carry a full handshake to its end whatever it put on the wire (its transcript follows what it really sent): the
// TLS-mode client of the library under test then has nothing but its own checks between a deviation and a completed
// handshake. Deviations come through the same Plan hook as for the GM/T 0024 peers (steps "ServerHello", "Certificate",
// "ServerHelloDone", "ChangeCipherSpec", "Finished").

import (
	"crypto/rand"
	"crypto/rsa"
	"crypto/sha256"
	"errors"
	"fmt"
	"io"
)

type TLSServerOpts struct {
	CertDER      [][]byte
	Key          *rsa.PrivateKey
	HelloVersion uint16 // ServerHello.server_version, default 0x0303
	RecVersion   uint16 // record-layer version of everything the server writes, default 0x0303
	Random       []byte // 32 bytes
	Echo         []byte // application data sent after the handshake
	IgnoreAlerts bool
}

type TLSServerResult struct {
	Completed bool // the client's Finished verified and ours was sent; application data was exchanged
	ClientFin bool // the client's Finished verified
	Alert     *[2]byte
	AppIn     []byte
	Log       []string
}

// ServeTLS12RSA runs the script over rw.
func ServeTLS12RSA(rw io.ReadWriter, o TLSServerOpts, plan *Plan) (*TLSServerResult, error) {
	res := &TLSServerResult{}
	hv, rv := o.HelloVersion, o.RecVersion
	if hv == 0 {
		hv = 0x0303
	}
	if rv == 0 {
		rv = 0x0303
	}
	if len(o.Random) != 32 {
		return res, errors.New("tlsserver: need a 32-byte server random")
	}
	in, out := &tlsHalf{}, &tlsHalf{}
	var transcript []byte
	var inBuf, hsBuf []byte
	readRecord := func() (byte, []byte, error) {
		for {
			if len(inBuf) >= 5 {
				n := int(inBuf[3])<<8 | int(inBuf[4])
				if len(inBuf) >= 5+n {
					typ, v, b := inBuf[0], uint16(inBuf[1])<<8|uint16(inBuf[2]), inBuf[5:5+n]
					inBuf = inBuf[5+n:]
					pt, err := in.open(typ, v, b)
					return typ, pt, err
				}
			}
			tmp := make([]byte, 8192)
			k, err := rw.Read(tmp)
			inBuf = append(inBuf, tmp[:k]...)
			if k == 0 && err != nil {
				return 0, nil, err
			}
		}
	}
	readHS := func() (byte, []byte, []byte, error) {
		for {
			if len(hsBuf) >= 4 {
				n := int(hsBuf[1])<<16 | int(hsBuf[2])<<8 | int(hsBuf[3])
				if len(hsBuf) >= 4+n {
					raw := hsBuf[:4+n]
					hsBuf = hsBuf[4+n:]
					return raw[0], raw[4:], raw, nil
				}
			}
			typ, b, err := readRecord()
			if err != nil {
				return 0, nil, nil, err
			}
			switch typ {
			case 22:
				hsBuf = append(hsBuf, b...)
			case 20:
				return 0xff, nil, nil, nil
			case 21:
				if len(b) == 2 {
					res.Alert = &[2]byte{b[0], b[1]}
				}
				res.Log = append(res.Log, fmt.Sprintf("alert %v", b))
				if o.IgnoreAlerts && len(b) == 2 && b[0] == 1 {
					continue
				}
				return 0, nil, nil, fmt.Errorf("tlsserver: alert %v", b)
			default:
				return 0, nil, nil, fmt.Errorf("tlsserver: unexpected record type %d", typ)
			}
		}
	}
	send := func(step string, x Out) error {
		for _, y := range plan.apply(step, x) {
			if y.RawRecord {
				if _, err := rw.Write(y.Data); err != nil {
					return err
				}
				continue
			}
			if y.RecType == RecHS && !y.NoTranscript {
				transcript = append(transcript, y.Data...)
			}
			parts := [][]byte{y.Data}
			if y.SplitAt > 0 && y.SplitAt < len(y.Data) {
				parts = [][]byte{y.Data[:y.SplitAt], y.Data[y.SplitAt:]}
			}
			for _, part := range parts {
				for first := true; first || len(part) > 0; first = false {
					n := len(part)
					if n > 16384 && !y.NoFragment {
						n = 16384
					}
					if _, err := rw.Write(out.seal(y.RecType, rv, part[:n])); err != nil {
						return err
					}
					part = part[n:]
				}
			}
		}
		res.Log = append(res.Log, "sent "+step)
		if plan != nil && plan.CloseAfter == step {
			if c, ok := rw.(io.Closer); ok {
				c.Close()
			}
			return errors.New("plan: connection closed after " + step)
		}
		return nil
	}
	// ---- ClientHello
	typ, b, raw, err := readHS()
	if err != nil {
		return res, err
	}
	if typ != 1 || len(b) < 35 {
		return res, fmt.Errorf("tlsserver: expected ClientHello, got type %d", typ)
	}
	transcript = append(transcript, raw...)
	clientRandom := append([]byte{}, b[2:34]...)
	res.Log = append(res.Log, "recv ClientHello")
	// ---- server flight
	sh := []byte{byte(hv >> 8), byte(hv)}
	sh = append(sh, o.Random...)
	sh = append(sh, 0)          // empty session id
	sh = append(sh, 0x00, 0x9c) // TLS_RSA_WITH_AES_128_GCM_SHA256
	sh = append(sh, 0)          // null compression
	if err := send("ServerHello", Out{RecType: RecHS, Data: hsMsg(2, sh)}); err != nil {
		return res, err
	}
	if err := send("Certificate", Out{RecType: RecHS, Data: certMsg(o.CertDER...)}); err != nil {
		return res, err
	}
	if err := send("ServerHelloDone", Out{RecType: RecHS, Data: hsMsg(14, nil)}); err != nil {
		return res, err
	}
	// ---- ClientKeyExchange
	typ, b, raw, err = readHS()
	if err != nil {
		return res, err
	}
	if typ != 16 || len(b) < 2 {
		return res, fmt.Errorf("tlsserver: expected ClientKeyExchange, got type %d", typ)
	}
	transcript = append(transcript, raw...)
	res.Log = append(res.Log, "recv ClientKeyExchange")
	pms, err := rsa.DecryptPKCS1v15(rand.Reader, o.Key, b[2:])
	if err != nil || len(pms) != 48 {
		return res, errors.New("tlsserver: pre-master secret does not decrypt")
	}
	master := prf12(pms, "master secret", append(append([]byte{}, clientRandom...), o.Random...), 48)
	kb := prf12(master, "key expansion", append(append([]byte{}, o.Random...), clientRandom...), 2*16+2*4)
	typ, _, _, err = readHS()
	if err != nil {
		return res, err
	}
	if typ != 0xff {
		return res, fmt.Errorf("tlsserver: expected ChangeCipherSpec, got handshake type %d", typ)
	}
	mk := func(key, iv []byte) *tlsHalf {
		a := newGCM(key)
		return &tlsHalf{aead: a, iv: iv, on: true}
	}
	*in = *mk(kb[0:16], kb[32:36])
	typ, b, raw, err = readHS()
	if err != nil {
		return res, err
	}
	if typ != 20 {
		return res, fmt.Errorf("tlsserver: expected Finished, got type %d", typ)
	}
	th := sha256.Sum256(transcript)
	if want := prf12(master, "client finished", th[:], 12); string(want) != string(b) {
		return res, errors.New("tlsserver: the client's Finished does not match the transcript")
	}
	res.ClientFin = true
	transcript = append(transcript, raw...)
	res.Log = append(res.Log, "client Finished verified")
	if err := send("ChangeCipherSpec", Out{RecType: RecCCS, Data: []byte{1}}); err != nil {
		return res, err
	}
	*out = *mk(kb[16:32], kb[36:40])
	th = sha256.Sum256(transcript)
	if err := send("Finished", Out{RecType: RecHS, Data: hsMsg(20, prf12(master, "server finished", th[:], 12))}); err != nil {
		return res, err
	}
	if len(o.Echo) > 0 {
		if _, err := rw.Write(out.seal(23, rv, o.Echo)); err != nil {
			return res, err
		}
	}
	for {
		t, b, err := readRecord()
		if err != nil {
			return res, nil
		}
		switch t {
		case 23:
			res.AppIn = append(res.AppIn, b...)
			res.Completed = true
			rw.Write(out.seal(21, rv, []byte{1, 0}))
			return res, nil
		case 21:
			if len(b) == 2 {
				res.Alert = &[2]byte{b[0], b[1]}
			}
			return res, nil
		}
	}
}
