// Package rsm3 is a straight transcription of GM/T 0004-2012 (SM3). One-shot, no
// streaming, no shared code with the implementation under test.
package rsm3

import "encoding/binary"

func rotl(x uint32, n uint) uint32 { n %= 32; return x<<n | x>>(32-n) }

func p0(x uint32) uint32 { return x ^ rotl(x, 9) ^ rotl(x, 17) }
func p1(x uint32) uint32 { return x ^ rotl(x, 15) ^ rotl(x, 23) }

func ff(j int, x, y, z uint32) uint32 {
	if j < 16 {
		return x ^ y ^ z
	}
	return (x & y) | (x & z) | (y & z)
}
func gg(j int, x, y, z uint32) uint32 {
	if j < 16 {
		return x ^ y ^ z
	}
	return (x & y) | (^x & z)
}
func tj(j int) uint32 {
	if j < 16 {
		return 0x79cc4519
	}
	return 0x7a879d8a
}

var iv = [8]uint32{0x7380166f, 0x4914b2b9, 0x172442d7, 0xda8a0600, 0xa96f30bc, 0x163138aa, 0xe38dee4d, 0xb0fb0e4e}

func cf(v *[8]uint32, b []byte) {
	var w [68]uint32
	var w1 [64]uint32
	for i := 0; i < 16; i++ {
		w[i] = binary.BigEndian.Uint32(b[4*i:])
	}
	for j := 16; j < 68; j++ {
		w[j] = p1(w[j-16]^w[j-9]^rotl(w[j-3], 15)) ^ rotl(w[j-13], 7) ^ w[j-6]
	}
	for j := 0; j < 64; j++ {
		w1[j] = w[j] ^ w[j+4]
	}
	a, bb, c, d, e, f, g, h := v[0], v[1], v[2], v[3], v[4], v[5], v[6], v[7]
	for j := 0; j < 64; j++ {
		ss1 := rotl(rotl(a, 12)+e+rotl(tj(j), uint(j)), 7)
		ss2 := ss1 ^ rotl(a, 12)
		tt1 := ff(j, a, bb, c) + d + ss2 + w1[j]
		tt2 := gg(j, e, f, g) + h + ss1 + w[j]
		d = c
		c = rotl(bb, 9)
		bb = a
		a = tt1
		h = g
		g = rotl(f, 19)
		f = e
		e = p0(tt2)
	}
	v[0] ^= a
	v[1] ^= bb
	v[2] ^= c
	v[3] ^= d
	v[4] ^= e
	v[5] ^= f
	v[6] ^= g
	v[7] ^= h
}

// Sum returns the SM3 digest of m.
func Sum(m []byte) []byte {
	l := uint64(len(m)) * 8
	msg := make([]byte, 0, len(m)+72)
	msg = append(msg, m...)
	msg = append(msg, 0x80)
	for len(msg)%64 != 56 {
		msg = append(msg, 0)
	}
	var lb [8]byte
	binary.BigEndian.PutUint64(lb[:], l)
	msg = append(msg, lb[:]...)
	v := iv
	for i := 0; i < len(msg); i += 64 {
		cf(&v, msg[i:i+64])
	}
	out := make([]byte, 32)
	for i := 0; i < 8; i++ {
		binary.BigEndian.PutUint32(out[4*i:], v[i])
	}
	return out
}

// HMAC is HMAC-SM3 from the RFC 2104 definition.
func HMAC(key, msg []byte) []byte {
	k := make([]byte, 64)
	if len(key) > 64 {
		copy(k, Sum(key))
	} else {
		copy(k, key)
	}
	ip := make([]byte, 64, 64+len(msg))
	op := make([]byte, 64, 96)
	for i := range k {
		ip[i] = k[i] ^ 0x36
		op[i] = k[i] ^ 0x5c
	}
	inner := Sum(append(ip, msg...))
	return Sum(append(op, inner...))
}

// PBKDF2 is RFC 8018 PBKDF2 with HMAC-SM3.
func PBKDF2(pw, salt []byte, iter, keyLen int) []byte {
	var out []byte
	for blk := uint32(1); len(out) < keyLen; blk++ {
		s := append(append([]byte{}, salt...), byte(blk>>24), byte(blk>>16), byte(blk>>8), byte(blk))
		u := HMAC(pw, s)
		t := append([]byte{}, u...)
		for i := 1; i < iter; i++ {
			u = HMAC(pw, u)
			for j := range t {
				t[j] ^= u[j]
			}
		}
		out = append(out, t...)
	}
	return out[:keyLen]
}

// Stream is the same digest computed incrementally (for inputs too long to hold in memory); New returns an empty one.
type Stream struct {
	v    [8]uint32
	tail []byte
	n    uint64
}

func New() *Stream { return &Stream{v: iv} }

func (s *Stream) Write(p []byte) {
	s.n += uint64(len(p))
	s.tail = append(s.tail, p...)
	i := 0
	for ; i+64 <= len(s.tail); i += 64 {
		cf(&s.v, s.tail[i:i+64])
	}
	s.tail = append(s.tail[:0], s.tail[i:]...)
}

func (s *Stream) Sum(_ []byte) []byte {
	msg := append(append([]byte{}, s.tail...), 0x80)
	for len(msg)%64 != 56 {
		msg = append(msg, 0)
	}
	var lb [8]byte
	binary.BigEndian.PutUint64(lb[:], s.n*8)
	msg = append(msg, lb[:]...)
	v := s.v
	for i := 0; i < len(msg); i += 64 {
		cf(&v, msg[i:i+64])
	}
	out := make([]byte, 32)
	for i := 0; i < 8; i++ {
		binary.BigEndian.PutUint32(out[4*i:], v[i])
	}
	return out
}
