// Package rder is a small strict-DER reader written for the oracles (signature
// SEQUENCE{INTEGER,INTEGER}, generic TLV walking for perturbation).
package rder

import (
	"errors"
	"math/big"
)

type TLV struct {
	Tag        byte
	HdrLen     int
	Len        int
	Start      int // offset of the tag byte in the enclosing buffer
	Indefinite bool
}

// ReadStrict parses one DER TLV header at b[off:] with minimal definite length.
func ReadStrict(b []byte, off int) (TLV, error) {
	if off+2 > len(b) {
		return TLV{}, errors.New("short")
	}
	t := TLV{Tag: b[off], Start: off}
	if t.Tag&0x1f == 0x1f {
		return t, errors.New("high tag number")
	}
	l := int(b[off+1])
	switch {
	case l < 0x80:
		t.HdrLen, t.Len = 2, l
	case l == 0x80:
		return t, errors.New("indefinite length")
	default:
		n := l & 0x7f
		if n > 4 || off+2+n > len(b) {
			return t, errors.New("length too long")
		}
		v := 0
		for i := 0; i < n; i++ {
			v = v<<8 | int(b[off+2+i])
		}
		if b[off+2] == 0 || v < 0x80 {
			return t, errors.New("non-minimal length")
		}
		t.HdrLen, t.Len = 2+n, v
	}
	if off+t.HdrLen+t.Len > len(b) {
		return t, errors.New("truncated")
	}
	return t, nil
}

func strictInt(b []byte) (*big.Int, error) {
	if len(b) == 0 {
		return nil, errors.New("empty integer")
	}
	if len(b) > 1 {
		if (b[0] == 0 && b[1]&0x80 == 0) || (b[0] == 0xff && b[1]&0x80 != 0) {
			return nil, errors.New("non-minimal integer")
		}
	}
	v := new(big.Int).SetBytes(b)
	if b[0]&0x80 != 0 {
		v.Sub(v, new(big.Int).Lsh(big.NewInt(1), uint(8*len(b))))
	}
	return v, nil
}

// StrictSig parses a strict DER SEQUENCE of exactly two INTEGERs.
func StrictSig(sig []byte) (r, s *big.Int, err error) {
	seq, err := ReadStrict(sig, 0)
	if err != nil {
		return nil, nil, err
	}
	if seq.Tag != 0x30 || seq.HdrLen+seq.Len != len(sig) {
		return nil, nil, errors.New("not a single SEQUENCE")
	}
	body := sig[seq.HdrLen:]
	off := 0
	var out [2]*big.Int
	for i := 0; i < 2; i++ {
		t, err := ReadStrict(body, off)
		if err != nil {
			return nil, nil, err
		}
		if t.Tag != 0x02 {
			return nil, nil, errors.New("not INTEGER")
		}
		v, err := strictInt(body[off+t.HdrLen : off+t.HdrLen+t.Len])
		if err != nil {
			return nil, nil, err
		}
		out[i] = v
		off += t.HdrLen + t.Len
	}
	if off != len(body) {
		return nil, nil, errors.New("trailing data in SEQUENCE")
	}
	return out[0], out[1], nil
}

// EncInt is the DER INTEGER encoding of v (v may be negative).
func EncInt(v *big.Int) []byte {
	var body []byte
	if v.Sign() >= 0 {
		body = v.Bytes()
		if len(body) == 0 || body[0]&0x80 != 0 {
			body = append([]byte{0}, body...)
		}
	} else {
		n := (v.BitLen() + 8) / 8
		m := new(big.Int).Add(v, new(big.Int).Lsh(big.NewInt(1), uint(8*n)))
		body = m.Bytes()
		for len(body) < n {
			body = append([]byte{0xff}, body...)
		}
		for len(body) > 1 && body[0] == 0xff && body[1]&0x80 != 0 {
			body = body[1:]
		}
	}
	return append(EncLen(0x02, len(body)), body...)
}

// EncLen returns tag + minimal definite length header.
func EncLen(tag byte, n int) []byte {
	switch {
	case n < 0x80:
		return []byte{tag, byte(n)}
	case n < 0x100:
		return []byte{tag, 0x81, byte(n)}
	case n < 0x10000:
		return []byte{tag, 0x82, byte(n >> 8), byte(n)}
	default:
		return []byte{tag, 0x83, byte(n >> 16), byte(n >> 8), byte(n)}
	}
}

func EncSeq(parts ...[]byte) []byte {
	var body []byte
	for _, p := range parts {
		body = append(body, p...)
	}
	return append(EncLen(0x30, len(body)), body...)
}

func EncSig(r, s *big.Int) []byte { return EncSeq(EncInt(r), EncInt(s)) }

// Walk is a tolerant TLV walker: returns the headers of every TLV it can reach (descending
// into constructed ones), never panics; used to aim length/tag rewrites.
func Walk(b []byte) []TLV {
	var out []TLV
	var rec func(lo, hi, depth int)
	rec = func(lo, hi, depth int) {
		off := lo
		for off+2 <= hi && depth < 32 {
			tag := b[off]
			l := int(b[off+1])
			hdr := 2
			if l >= 0x80 {
				n := l & 0x7f
				if n == 0 || n > 4 || off+2+n > hi {
					return
				}
				l = 0
				for i := 0; i < n; i++ {
					l = l<<8 | int(b[off+2+i])
				}
				hdr = 2 + n
			}
			if l < 0 || off+hdr+l > hi {
				return
			}
			out = append(out, TLV{Tag: tag, HdrLen: hdr, Len: l, Start: off})
			if tag&0x20 != 0 {
				rec(off+hdr, off+hdr+l, depth+1)
			} else if (tag == 0x04 || tag == 0x03) && l > 2 {
				// OCTET/BIT STRING wrapping DER: try, but only keep if it parses to the end
				in := off + hdr
				if tag == 0x03 {
					in++
				}
				save := len(out)
				rec(in, off+hdr+l, depth+1)
				_ = save
			}
			off += hdr + l
		}
	}
	rec(0, len(b), 0)
	return out
}
