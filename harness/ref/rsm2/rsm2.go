// Package rsm2 is a reference implementation of GM/T 0003 (SM2) over math/big with
// affine short-Weierstrass arithmetic and an explicit point at infinity. The curve
// is an argument so invalid-curve experiments can reuse the arithmetic.
package rsm2

import (
	"errors"
	"math/big"

	"verifharness/ref/rsm3"
)

type Curve struct {
	P, A, B, N, Gx, Gy *big.Int
}

type Point struct {
	X, Y *big.Int
	Inf  bool
}

func hx(s string) *big.Int {
	v, ok := new(big.Int).SetString(s, 16)
	if !ok {
		panic("bad hex")
	}
	return v
}

// SM2 returns the GM/T 0003.5 recommended curve (typed from the standard).
func SM2() *Curve {
	return &Curve{
		P:  hx("FFFFFFFEFFFFFFFFFFFFFFFFFFFFFFFFFFFFFFFF00000000FFFFFFFFFFFFFFFF"),
		A:  hx("FFFFFFFEFFFFFFFFFFFFFFFFFFFFFFFFFFFFFFFF00000000FFFFFFFFFFFFFFFC"),
		B:  hx("28E9FA9E9D9F5E344D5A9E4BCF6509A7F39789F515AB8F92DDBCBD414D940E93"),
		N:  hx("FFFFFFFEFFFFFFFFFFFFFFFFFFFFFFFF7203DF6B21C6052B53BBF40939D54123"),
		Gx: hx("32C4AE2C1F1981195F9904466A39C9948FE30BBFF2660BE1715A4589334C74C7"),
		Gy: hx("BC3736A2F4F6779C59BDCEE36B692153D0A9877CC62A474002DF32E52139F0A0"),
	}
}

var Std = SM2()

func Infinity() Point { return Point{X: new(big.Int), Y: new(big.Int), Inf: true} }

func (c *Curve) G() Point { return Point{X: new(big.Int).Set(c.Gx), Y: new(big.Int).Set(c.Gy)} }

// FromAffine interprets (0,0) as infinity (the implementation's convention).
func FromAffine(x, y *big.Int) Point {
	if x.Sign() == 0 && y.Sign() == 0 {
		return Infinity()
	}
	return Point{X: new(big.Int).Set(x), Y: new(big.Int).Set(y)}
}

func (p Point) Affine() (*big.Int, *big.Int) {
	if p.Inf {
		return new(big.Int), new(big.Int)
	}
	return new(big.Int).Set(p.X), new(big.Int).Set(p.Y)
}

func (p Point) Equal(q Point) bool {
	if p.Inf || q.Inf {
		return p.Inf == q.Inf
	}
	return p.X.Cmp(q.X) == 0 && p.Y.Cmp(q.Y) == 0
}

func (c *Curve) OnCurve(x, y *big.Int) bool {
	if x.Sign() < 0 || y.Sign() < 0 || x.Cmp(c.P) >= 0 || y.Cmp(c.P) >= 0 {
		return false
	}
	l := new(big.Int).Mul(y, y)
	l.Mod(l, c.P)
	r := new(big.Int).Mul(x, x)
	r.Add(r, c.A)
	r.Mul(r, x)
	r.Add(r, c.B)
	r.Mod(r, c.P)
	return l.Cmp(r) == 0
}

func (c *Curve) Neg(p Point) Point {
	if p.Inf {
		return p
	}
	y := new(big.Int).Sub(c.P, p.Y)
	y.Mod(y, c.P)
	return Point{X: new(big.Int).Set(p.X), Y: y}
}

func (c *Curve) Double(p Point) Point {
	if p.Inf || p.Y.Sign() == 0 {
		return Infinity()
	}
	// lambda = (3x^2 + a) / 2y
	num := new(big.Int).Mul(p.X, p.X)
	num.Mul(num, big.NewInt(3))
	num.Add(num, c.A)
	den := new(big.Int).Lsh(p.Y, 1)
	den.ModInverse(den.Mod(den, c.P), c.P)
	l := num.Mul(num, den)
	l.Mod(l, c.P)
	return c.chord(l, p, p)
}

func (c *Curve) chord(l *big.Int, p, q Point) Point {
	x3 := new(big.Int).Mul(l, l)
	x3.Sub(x3, p.X)
	x3.Sub(x3, q.X)
	x3.Mod(x3, c.P)
	y3 := new(big.Int).Sub(p.X, x3)
	y3.Mul(y3, l)
	y3.Sub(y3, p.Y)
	y3.Mod(y3, c.P)
	return Point{X: x3, Y: y3}
}

func (c *Curve) Add(p, q Point) Point {
	if p.Inf {
		return q
	}
	if q.Inf {
		return p
	}
	if p.X.Cmp(q.X) == 0 {
		if p.Y.Cmp(q.Y) == 0 {
			return c.Double(p)
		}
		return Infinity()
	}
	num := new(big.Int).Sub(q.Y, p.Y)
	den := new(big.Int).Sub(q.X, p.X)
	den.Mod(den, c.P)
	den.ModInverse(den, c.P)
	l := num.Mul(num, den)
	l.Mod(l, c.P)
	return c.chord(l, p, q)
}

// MulAffine is plain MSB-first double-and-add on the integer k >= 0 in affine coordinates
// (no reduction by n: the group law does not need it, and on an invalid curve n is not
// the order). It is the definitional version; Mul below is the fast one, cross-checked
// against this in TestRefSelf.
func (c *Curve) MulAffine(p Point, k *big.Int) Point {
	r := Infinity()
	for i := k.BitLen() - 1; i >= 0; i-- {
		r = c.Double(r)
		if k.Bit(i) == 1 {
			r = c.Add(r, p)
		}
	}
	return r
}

type jac struct{ x, y, z *big.Int }

func (c *Curve) jdouble(p jac) jac {
	if p.z.Sign() == 0 || p.y.Sign() == 0 {
		return jac{big.NewInt(1), big.NewInt(1), new(big.Int)}
	}
	P := c.P
	yy := new(big.Int).Mul(p.y, p.y)
	yy.Mod(yy, P)
	s := new(big.Int).Mul(p.x, yy)
	s.Lsh(s, 2).Mod(s, P)
	zz := new(big.Int).Mul(p.z, p.z)
	zz.Mod(zz, P)
	m := new(big.Int).Mul(p.x, p.x)
	m.Mul(m, big.NewInt(3))
	az4 := new(big.Int).Mul(zz, zz)
	az4.Mod(az4, P).Mul(az4, c.A)
	m.Add(m, az4).Mod(m, P)
	x3 := new(big.Int).Mul(m, m)
	x3.Sub(x3, new(big.Int).Lsh(s, 1)).Mod(x3, P)
	y3 := new(big.Int).Sub(s, x3)
	y3.Mul(y3, m)
	y4 := new(big.Int).Mul(yy, yy)
	y4.Lsh(y4, 3)
	y3.Sub(y3, y4).Mod(y3, P)
	z3 := new(big.Int).Mul(p.y, p.z)
	z3.Lsh(z3, 1).Mod(z3, P)
	return jac{x3, y3, z3}
}

// jaddAffine adds the affine point q (finite) to p.
func (c *Curve) jaddAffine(p jac, q Point) jac {
	if p.z.Sign() == 0 {
		return jac{new(big.Int).Set(q.X), new(big.Int).Set(q.Y), big.NewInt(1)}
	}
	P := c.P
	zz := new(big.Int).Mul(p.z, p.z)
	zz.Mod(zz, P)
	u2 := new(big.Int).Mul(q.X, zz)
	u2.Mod(u2, P)
	s2 := new(big.Int).Mul(q.Y, zz)
	s2.Mul(s2, p.z).Mod(s2, P)
	h := new(big.Int).Sub(u2, p.x)
	h.Mod(h, P)
	r := new(big.Int).Sub(s2, p.y)
	r.Mod(r, P)
	if h.Sign() == 0 {
		if r.Sign() == 0 {
			return c.jdouble(p)
		}
		return jac{big.NewInt(1), big.NewInt(1), new(big.Int)}
	}
	hh := new(big.Int).Mul(h, h)
	hh.Mod(hh, P)
	hhh := new(big.Int).Mul(hh, h)
	hhh.Mod(hhh, P)
	v := new(big.Int).Mul(p.x, hh)
	v.Mod(v, P)
	x3 := new(big.Int).Mul(r, r)
	x3.Sub(x3, hhh).Sub(x3, new(big.Int).Lsh(v, 1)).Mod(x3, P)
	y3 := new(big.Int).Sub(v, x3)
	y3.Mul(y3, r)
	t := new(big.Int).Mul(p.y, hhh)
	y3.Sub(y3, t).Mod(y3, P)
	z3 := new(big.Int).Mul(p.z, h)
	z3.Mod(z3, P)
	return jac{x3, y3, z3}
}

// Mul computes [k]p (k >= 0, not reduced) with Jacobian double-and-add and one final
// inversion; same definition as MulAffine, ~20x faster.
func (c *Curve) Mul(p Point, k *big.Int) Point {
	if p.Inf || k.Sign() == 0 {
		return Infinity()
	}
	r := jac{big.NewInt(1), big.NewInt(1), new(big.Int)}
	for i := k.BitLen() - 1; i >= 0; i-- {
		r = c.jdouble(r)
		if k.Bit(i) == 1 {
			r = c.jaddAffine(r, p)
		}
	}
	if r.z.Sign() == 0 {
		return Infinity()
	}
	zi := new(big.Int).ModInverse(r.z, c.P)
	zi2 := new(big.Int).Mul(zi, zi)
	zi2.Mod(zi2, c.P)
	x := new(big.Int).Mul(r.x, zi2)
	x.Mod(x, c.P)
	y := new(big.Int).Mul(r.y, zi2)
	y.Mul(y, zi).Mod(y, c.P)
	return Point{X: x, Y: y}
}

func (c *Curve) BaseMul(k *big.Int) Point { return c.Mul(c.G(), k) }

func Pad32(v *big.Int) []byte {
	b := v.Bytes()
	if len(b) >= 32 {
		return b
	}
	out := make([]byte, 32)
	copy(out[32-len(b):], b)
	return out
}

var DefaultUID = []byte("1234567812345678")

// ZA = H(ENTL || ID || a || b || xG || yG || xA || yA)
func (c *Curve) ZA(pub Point, uid []byte) ([]byte, error) {
	if len(uid) >= 8192 {
		return nil, errors.New("uid too long")
	}
	entl := uint16(len(uid) * 8)
	var m []byte
	m = append(m, byte(entl>>8), byte(entl))
	m = append(m, uid...)
	m = append(m, Pad32(c.A)...)
	m = append(m, Pad32(c.B)...)
	m = append(m, Pad32(c.Gx)...)
	m = append(m, Pad32(c.Gy)...)
	m = append(m, Pad32(pub.X)...)
	m = append(m, Pad32(pub.Y)...)
	return rsm3.Sum(m), nil
}

// E = H(ZA || M) as integer.
func (c *Curve) E(pub Point, uid, msg []byte) (*big.Int, error) {
	za, err := c.ZA(pub, uid)
	if err != nil {
		return nil, err
	}
	return new(big.Int).SetBytes(rsm3.Sum(append(za, msg...))), nil
}

// SignE computes (r,s) for digest integer e and nonce k per GM/T 0003.2 A1-A7.
// ok=false when the standard says "pick another k".
func (c *Curve) SignE(d, e, k *big.Int) (r, s *big.Int, ok bool) {
	p := c.BaseMul(k)
	if p.Inf {
		return nil, nil, false
	}
	r = new(big.Int).Add(e, p.X)
	r.Mod(r, c.N)
	if r.Sign() == 0 {
		return nil, nil, false
	}
	if new(big.Int).Add(r, k).Cmp(c.N) == 0 {
		return nil, nil, false
	}
	inv := new(big.Int).Add(d, big.NewInt(1))
	inv.ModInverse(inv, c.N)
	s = new(big.Int).Mul(r, d)
	s.Sub(k, s)
	s.Mul(s, inv)
	s.Mod(s, c.N)
	if s.Sign() == 0 {
		return nil, nil, false
	}
	return r, s, true
}

// VerifyE implements GM/T 0003.2 B1-B7 on digest integer e.
func (c *Curve) VerifyE(pub Point, e, r, s *big.Int) bool {
	one := big.NewInt(1)
	if r.Cmp(one) < 0 || s.Cmp(one) < 0 || r.Cmp(c.N) >= 0 || s.Cmp(c.N) >= 0 {
		return false
	}
	t := new(big.Int).Add(r, s)
	t.Mod(t, c.N)
	if t.Sign() == 0 {
		return false
	}
	pt := c.Add(c.BaseMul(s), c.Mul(pub, t))
	if pt.Inf {
		return false
	}
	R := new(big.Int).Add(e, pt.X)
	R.Mod(R, c.N)
	return R.Cmp(r) == 0
}

func (c *Curve) Verify(pub Point, uid, msg []byte, r, s *big.Int) bool {
	e, err := c.E(pub, uid, msg)
	if err != nil {
		return false
	}
	return c.VerifyE(pub, e, r, s)
}

// KDF per GM/T 0003.4 5.4.3 (klen in bytes). allZero reports t == 0.
func KDF(klen int, parts ...[]byte) (out []byte, allZero bool) {
	var z []byte
	for _, p := range parts {
		z = append(z, p...)
	}
	for ct := uint32(1); len(out) < klen; ct++ {
		out = append(out, rsm3.Sum(append(append([]byte{}, z...), byte(ct>>24), byte(ct>>16), byte(ct>>8), byte(ct)))...)
	}
	out = out[:klen]
	allZero = true
	for _, b := range out {
		if b != 0 {
			allZero = false
		}
	}
	return
}

const (
	C1C3C2 = 0
	C1C2C3 = 1
)

// Encrypt returns 04||x1||y1||C3||C2 (mode C1C3C2) or 04||x1||y1||C2||C3.
// retry=true when the KDF output is all zero (standard: pick another k).
func (c *Curve) Encrypt(pub Point, msg []byte, k *big.Int, mode int) (ct []byte, x2, y2 *big.Int, retry bool) {
	c1 := c.BaseMul(k)
	s := c.Mul(pub, k)
	x2b, y2b := Pad32(s.X), Pad32(s.Y)
	t, zero := KDF(len(msg), x2b, y2b)
	if zero {
		return nil, s.X, s.Y, true
	}
	c2 := make([]byte, len(msg))
	for i := range msg {
		c2[i] = msg[i] ^ t[i]
	}
	h := append(append(append([]byte{}, x2b...), msg...), y2b...)
	c3 := rsm3.Sum(h)
	ct = append(ct, 4)
	ct = append(ct, Pad32(c1.X)...)
	ct = append(ct, Pad32(c1.Y)...)
	if mode == C1C2C3 {
		ct = append(ct, c2...)
		ct = append(ct, c3...)
	} else {
		ct = append(ct, c3...)
		ct = append(ct, c2...)
	}
	return ct, s.X, s.Y, false
}

// Decrypt per GM/T 0003.4 7.1 including the C1-on-curve check.
func (c *Curve) Decrypt(d *big.Int, ct []byte, mode int) ([]byte, error) {
	if len(ct) < 97 || ct[0] != 4 {
		return nil, errors.New("short or bad prefix")
	}
	x1 := new(big.Int).SetBytes(ct[1:33])
	y1 := new(big.Int).SetBytes(ct[33:65])
	if !c.OnCurve(x1, y1) {
		return nil, errors.New("C1 not on curve")
	}
	var c2, c3 []byte
	if mode == C1C2C3 {
		c2, c3 = ct[65:len(ct)-32], ct[len(ct)-32:]
	} else {
		c3, c2 = ct[65:97], ct[97:]
	}
	s := c.Mul(Point{X: x1, Y: y1}, d)
	if s.Inf {
		return nil, errors.New("S infinite")
	}
	x2b, y2b := Pad32(s.X), Pad32(s.Y)
	t, zero := KDF(len(c2), x2b, y2b)
	if zero {
		return nil, errors.New("kdf zero")
	}
	m := make([]byte, len(c2))
	for i := range c2 {
		m[i] = c2[i] ^ t[i]
	}
	u := rsm3.Sum(append(append(append([]byte{}, x2b...), m...), y2b...))
	for i := range u {
		if u[i] != c3[i] {
			return nil, errors.New("C3 mismatch")
		}
	}
	return m, nil
}

// XBar = 2^w + (x & (2^w - 1)), w = ceil(ceil(log2 n)/2) - 1.
func (c *Curve) XBar(x *big.Int) *big.Int {
	w := uint((c.N.BitLen()+1)/2 - 1)
	m := new(big.Int).Lsh(big.NewInt(1), w)
	r := new(big.Int).And(x, new(big.Int).Sub(m, big.NewInt(1)))
	return r.Add(r, m)
}

// Exchange computes the caller's view of GM/T 0003.3: shared key K, S1=SB (tag 02)
// and S2=SA (tag 03). initiator: caller is A. d/r: caller's long-term and ephemeral
// private keys; peer/peerR: other side's long-term and ephemeral public points.
func (c *Curve) Exchange(klen int, ida, idb []byte, initiator bool, d, r *big.Int, peer, peerR Point) (k, s1, s2 []byte, err error) {
	self := c.BaseMul(d)
	selfR := c.BaseMul(r)
	if peerR.Inf || !c.OnCurve(peerR.X, peerR.Y) {
		return nil, nil, nil, errors.New("peer ephemeral not on curve")
	}
	t := new(big.Int).Mul(c.XBar(selfR.X), r)
	t.Add(t, d)
	t.Mod(t, c.N)
	v := c.Mul(c.Add(peer, c.Mul(peerR, c.XBar(peerR.X))), t) // cofactor h = 1
	if v.Inf {
		return nil, nil, nil, errors.New("V is infinity")
	}
	var pa, pb, ra, rb Point
	if initiator {
		pa, pb, ra, rb = self, peer, selfR, peerR
	} else {
		pa, pb, ra, rb = peer, self, peerR, selfR
	}
	za, err := c.ZA(pa, ida)
	if err != nil {
		return nil, nil, nil, err
	}
	zb, err := c.ZA(pb, idb)
	if err != nil {
		return nil, nil, nil, err
	}
	xv, yv := Pad32(v.X), Pad32(v.Y)
	k, _ = KDF(klen, xv, yv, za, zb)
	var in []byte
	for _, p := range [][]byte{xv, za, zb, Pad32(ra.X), Pad32(ra.Y), Pad32(rb.X), Pad32(rb.Y)} {
		in = append(in, p...)
	}
	h := rsm3.Sum(in)
	s1 = rsm3.Sum(append(append([]byte{2}, yv...), h...))
	s2 = rsm3.Sum(append(append([]byte{3}, yv...), h...))
	return k, s1, s2, nil
}
