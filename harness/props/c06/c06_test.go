//go:build verif

// C06 — GMSSL/TLS handshakes agree on parameters and keys and then carry data intact.
package c06

import (
	"bytes"
	"crypto"
	stdtls "crypto/tls"
	stdx509 "crypto/x509"
	"fmt"
	"io"
	"strings"
	"testing"

	"github.com/tjfoc/gmsm/gmtls"
	"github.com/tjfoc/gmsm/sm2"
	"pgregory.net/rapid"

	"verifharness/gen"
	"verifharness/hx"
	"verifharness/ref/rgmssl"
	"verifharness/tlsx"
	"verifharness/wire"
)

var R = hx.NewRecorder("C06", "cases = (server mode gm|auto|tls, client kind gm|tls, peer gmtls|crypto/tls, suite lists and preference, version ranges, ClientAuth policy, client certificate none|trusted|untrusted|callback, server certificate source static|callbacks|constructor, server certificate good|untrusted|expired|wrong name, tickets, payloads and fragment sizes); "+
	"oracle = policy model MUST-SUCCEED/MUST-FAIL/UNSPECIFIED over the two configurations; on success equal version/suite/peer certificates/exported keying material on both ends, byte-exact in-order delivery in both directions, and for GMSSL an independent passive GM/T 0024 decoder (ref/rgmssl, holding only the server's encryption key) must decrypt every record, verify every MAC/tag and both Finished values and recover the same plaintext; for TLS 1.0-1.2 Go's crypto/tls acts as the independent peer; on failure both ends return errors and nothing panics; "+
	"non-trivial = handshake completed with data moved each way, or a forbidden combination that reached the peer's first flight; distinct by hash of the case description")

func TestMain(m *testing.M) {
	R.Require("autoswitch_history", "clientcert:ec", "clientcert:via_intermediate", "ekm_long_input", "reconnect", "reconnect_resumed", "interop_suite:c030", "interop_suite:9d", "interop_suite:c02f", "interop_suite:c014", "interop_suite:cca8", "interop_suite:2f", "ref_peer", "readbuf<record", "mode:gm", "mode:auto", "mode:tls", "suite:e013", "suite:e053", "tls10", "tls11", "tls12", "auth:0", "auth:1", "auth:2", "auth:3", "auth:4",
		"clientcert:untrusted", "clientcert:callback_untrusted", "certsource:callbacks", "stdlib_client", "stdlib_server", "passive_decoder", "payload>16KiB", "fragment==1", "must_fail", "must_succeed", "gm_short_signatures")
	hx.Main(m, R)
}

type hsCase struct {
	ServerMode   string // gm | auto | tls
	ClientKind   string // gm | tls
	Peer         string // gmtls | stdclient | stdserver
	CertSource   string // static | callbacks | constructor
	Cloned       int    // bit 0: the client works on a Clone() of its configuration, bit 1: the server does
	ShortSigs    bool   // the SM2 signing keys sit behind a crypto.Signer whose signatures all have a short r or s
	StdCert      string // rsa | ec
	SrvCert      string // good | untrusted | expired | future | wrongname | enc_expired
	SrvSuites    []uint16
	CliSuites    []uint16
	PreferServer bool
	SMin, SMax   uint16
	CMin, CMax   uint16
	ClientAuth   gmtls.ClientAuthType
	ClientCert   string // none | trusted | untrusted | expired | callback | serverauth_only | rsa
	Tickets      bool
	SkipVerify   bool
	CSend, SSend int
	CFrag, SFrag []int
	CRead, SRead int // Read buffer sizes
}

func (c hsCase) String() string {
	type plain hsCase // no String method: avoids recursion through %+v
	return fmt.Sprintf("%+v", plain(c))
}

var gmSuites = []uint16{tlsx.GMECCSM4CBCSM3, tlsx.GMECCSM4GCMSM3, tlsx.GMECDHESM4CBCSM3, tlsx.GMECDHESM4GCMSM3}

// TLS suites the library implements, with the properties the model needs.
type tlsSuite struct {
	id    uint16
	ecdsa bool // needs an ECDSA certificate
	tls12 bool // TLS 1.2 only
}

var tlsSuites = []tlsSuite{
	{0xc02f, false, true}, {0xc02b, true, true}, {0xc030, false, true}, {0xc02c, true, true}, {0xcca8, false, true}, {0xcca9, true, true},
	{0xc014, false, false}, {0xc009, true, false}, {0xc00a, true, false},
	{0x009c, false, true}, {0x009d, false, true}, {0x002f, false, false}, {0x0035, false, false}, {0x003c, false, true}, {0xc023, true, true},
} // 0xc013 and 0xc027 are named constants in the package but have no entry in its suite table: not "supported"

func suiteInfo(id uint16) (tlsSuite, bool) {
	for _, s := range tlsSuites {
		if s.id == id {
			return s, true
		}
	}
	return tlsSuite{}, false
}

var versions = []uint16{0x0301, 0x0302, 0x0303}

func drawCase(t *rapid.T) hsCase {
	c := hsCase{}
	c.ServerMode = rapid.SampledFrom([]string{"gm", "gm", "auto", "auto", "tls"}).Draw(t, "mode")
	c.ClientKind = rapid.SampledFrom([]string{"gm", "gm", "tls"}).Draw(t, "client")
	if gen.OneIn(t, "mismatch", 8) {
		// keep the forbidden mode combinations rare but present
	} else if c.ServerMode == "gm" {
		c.ClientKind = "gm"
	} else if c.ServerMode == "tls" {
		c.ClientKind = "tls"
	}
	c.Peer = "gmtls"
	if c.ClientKind == "tls" && c.ServerMode != "gm" && gen.Uniform(t, "stdpeer", 2) == 0 {
		c.Peer = rapid.SampledFrom([]string{"stdclient", "stdserver"}).Draw(t, "stdrole")
		if c.Peer == "stdserver" {
			c.ServerMode = "tls"
		}
	}
	c.StdCert = rapid.SampledFrom([]string{"rsa", "ec"}).Draw(t, "stdcert")
	switch c.ServerMode {
	case "gm":
		c.CertSource = rapid.SampledFrom([]string{"static", "static", "static_declining_callback"}).Draw(t, "certsource")
	case "auto":
		c.CertSource = rapid.SampledFrom([]string{"constructor", "callbacks"}).Draw(t, "certsource")
	default:
		c.CertSource = rapid.SampledFrom([]string{"static", "callbacks", "static_declining_callback"}).Draw(t, "certsource")
	}
	if gen.OneIn(t, "cloned", 3) {
		c.Cloned = rapid.IntRange(1, 3).Draw(t, "clonedwho")
	}
	c.ShortSigs = gen.OneIn(t, "shortsigs", 8)
	c.SrvCert = "good"
	if gen.OneIn(t, "badsrvcert", 7) {
		c.SrvCert = rapid.SampledFrom([]string{"untrusted", "expired", "future", "wrongname", "enc_expired"}).Draw(t, "srvcert")
	}
	c.SkipVerify = gen.OneIn(t, "skipverify", 8)
	if c.ClientKind == "gm" {
		pick := func(name string) []uint16 {
			switch gen.Uniform(t, name+"k", 6) {
			case 0:
				return nil
			case 1:
				return []uint16{tlsx.GMECCSM4GCMSM3}
			case 2:
				return []uint16{tlsx.GMECCSM4CBCSM3}
			case 3:
				return []uint16{tlsx.GMECCSM4GCMSM3, tlsx.GMECCSM4CBCSM3}
			case 4:
				return rapid.Permutation(gmSuites).Draw(t, name+"perm")[:rapid.IntRange(1, 4).Draw(t, name+"n")]
			default:
				return []uint16{tlsx.GMECCSM4CBCSM3, tlsx.GMECCSM4GCMSM3}
			}
		}
		c.SrvSuites, c.CliSuites = pick("srvsuites"), pick("clisuites")
	} else {
		pick := func(name string) []uint16 {
			if gen.Uniform(t, name+"default", 3) == 0 {
				return nil
			}
			n := rapid.IntRange(1, 5).Draw(t, name+"n")
			var out []uint16
			for i := 0; i < n; i++ {
				out = append(out, rapid.SampledFrom(tlsSuites).Draw(t, name).id)
			}
			return out
		}
		c.SrvSuites, c.CliSuites = pick("srvsuites"), pick("clisuites")
		if gen.Uniform(t, "targeted", 2) == 0 {
			// aim at one suite of the table so that each is negotiated regularly (random lists rarely intersect)
			ts := tlsSuites[gen.Uniform(t, "target", len(tlsSuites))]
			c.SrvSuites = append([]uint16{ts.id}, c.SrvSuites...)
			c.CliSuites = []uint16{ts.id}
			c.StdCert = map[bool]string{true: "ec", false: "rsa"}[ts.ecdsa]
		}
		vr := func(name string) (uint16, uint16) {
			if gen.Uniform(t, name+"default", 2) == 0 {
				return 0, 0
			}
			a := rapid.IntRange(0, 2).Draw(t, name+"min")
			b := rapid.IntRange(a, 2).Draw(t, name+"max")
			return versions[a], versions[b]
		}
		c.SMin, c.SMax = vr("sver")
		c.CMin, c.CMax = vr("cver")
	}
	c.PreferServer = rapid.Bool().Draw(t, "preferserver")
	c.ClientAuth = gmtls.ClientAuthType(gen.Uniform(t, "clientauth", 5))
	if gen.Uniform(t, "noauth", 3) == 0 {
		c.ClientAuth = gmtls.NoClientCert
	}
	c.ClientCert = rapid.SampledFrom([]string{"none", "trusted", "trusted", "callback", "untrusted", "callback_untrusted", "expired", "serverauth_only", "via_intermediate", "via_intermediate"}).Draw(t, "clientcert")
	if c.ClientKind == "tls" {
		c.ClientCert = rapid.SampledFrom([]string{"none", "rsa", "rsa", "ec", "ec", "rsa_callback", "ec_callback"}).Draw(t, "clientcert_tls")
		if c.Peer == "gmtls" && gen.OneIn(t, "tlsuntrusted", 4) {
			// a certificate from a CA that is not among the server's ClientCAs, offered all the same (callback)
			c.ClientCert = rapid.SampledFrom([]string{"rsa_untrusted_callback", "ec_untrusted_callback"}).Draw(t, "clientcert_tls_untrusted")
		}
	}
	c.Tickets = rapid.Bool().Draw(t, "tickets")
	size := func(name string) int {
		switch gen.Uniform(t, name+"k", 6) {
		case 0:
			return 0
		case 1:
			if hx.Thorough() || gen.OneIn(t, name+"huge", 10) {
				return rapid.IntRange(40001, 200*1024).Draw(t, name+"huge")
			}
			return rapid.IntRange(16385, 40000).Draw(t, name+"big")
		default:
			return rapid.IntRange(1, 3000).Draw(t, name)
		}
	}
	c.CSend, c.SSend = size("csend"), size("ssend")
	frag := func(name string) []int {
		switch gen.Uniform(t, name+"k", 4) {
		case 0:
			return nil
		case 1:
			return []int{1, 1, 1, 1, 1, 1, 1, 1, 5000}
		default:
			return rapid.SliceOfN(rapid.SampledFrom([]int{1, 2, 15, 16, 17, 100, 1000, 16383, 16384, 16385, 20000}), 1, 4).Draw(t, name)
		}
	}
	c.CFrag, c.SFrag = frag("cfrag"), frag("sfrag")
	rb := rapid.SampledFrom([]int{1, 7, 100, 1000, 4096, 16384, 16384, 70000})
	c.CRead, c.SRead = rb.Draw(t, "cread"), rb.Draw(t, "sread")
	return c
}

// ---- building the two configurations

func build(c hsCase, id string) (ccfg, scfg *gmtls.Config) {
	p := tlsx.GetPKI()
	std := p.RSASrv
	if c.StdCert == "ec" {
		std = p.ECSrv
	}
	sign, enc := p.SrvSign, p.SrvEnc
	switch c.SrvCert {
	case "untrusted":
		sign, enc = p.SrvSignBad, p.SrvEncBad
	case "expired":
		sign = p.SrvSignExpired
	case "future":
		sign = p.SrvSignFuture
	case "wrongname":
		sign = p.SrvSignWrongName
	case "enc_expired":
		enc = p.SrvEncExpired
	}
	signTLS, encTLS := sign.TLS, enc.TLS
	if c.ShortSigs {
		signTLS.PrivateKey = shortSigner{signTLS.PrivateKey.(crypto.Signer)}
	}
	switch c.ServerMode {
	case "gm":
		scfg = tlsx.GMServer(p, "s"+id)
		scfg.Certificates = []gmtls.Certificate{signTLS, encTLS}
		if c.CertSource == "static_declining_callback" {
			scfg.GetCertificate = func(*gmtls.ClientHelloInfo) (*gmtls.Certificate, error) { return nil, nil }
		}
	case "auto":
		if c.CertSource == "constructor" {
			var err error
			scfg, err = gmtls.NewBasicAutoSwitchConfig(&signTLS, &encTLS, &std.TLS)
			if err != nil {
				panic(err)
			}
		} else {
			sup := gmtls.NewGMSupport()
			sup.EnableMixMode()
			scfg = &gmtls.Config{GMSupport: sup}
			scfg.GetCertificate = func(info *gmtls.ClientHelloInfo) (*gmtls.Certificate, error) {
				for _, v := range info.SupportedVersions {
					if v == tlsx.VersionGMSSL {
						return &signTLS, nil
					}
				}
				return &std.TLS, nil
			}
			scfg.GetKECertificate = func(*gmtls.ClientHelloInfo) (*gmtls.Certificate, error) { return &encTLS, nil }
		}
		scfg.Rand, scfg.Time = tlsx.NewDRBG("s"+id), tlsx.FixedTime
	default:
		scfg = tlsx.TLSServer(p, std, "s"+id)
		if c.CertSource == "callbacks" {
			scfg.Certificates = nil
			scfg.GetCertificate = func(*gmtls.ClientHelloInfo) (*gmtls.Certificate, error) { return &std.TLS, nil }
		}
		if c.CertSource == "static_declining_callback" {
			// static certificates AND a callback that has nothing for the requested name: "(nil, nil)" means "use the
			// configured certificates"
			scfg.GetCertificate = func(*gmtls.ClientHelloInfo) (*gmtls.Certificate, error) { return nil, nil }
		}
	}
	scfg.CipherSuites = c.SrvSuites
	scfg.PreferServerCipherSuites = c.PreferServer
	scfg.MinVersion, scfg.MaxVersion = c.SMin, c.SMax
	scfg.ClientAuth = c.ClientAuth
	scfg.ClientCAs = p.RootsAll
	if c.ClientKind == "tls" && strings.Contains(c.ClientCert, "untrusted") {
		scfg.ClientCAs = p.RootsSM2 // the RSA / ECDSA roots are not among them
	}
	scfg.SessionTicketsDisabled = !c.Tickets
	if c.ClientKind == "gm" {
		ccfg = tlsx.GMClient(p, "c"+id)
	} else {
		ccfg = tlsx.TLSClient(p, "c"+id)
	}
	ccfg.CipherSuites = c.CliSuites
	ccfg.MinVersion, ccfg.MaxVersion = c.CMin, c.CMax
	ccfg.InsecureSkipVerify = c.SkipVerify
	if c.Tickets {
		ccfg.ClientSessionCache = gmtls.NewLRUClientSessionCache(4)
	}
	var cc *tlsx.Ident
	switch c.ClientCert {
	case "trusted", "callback":
		cc = p.Client
	case "via_intermediate":
		cc = p.ClientViaInter // chain [leaf, issuing CA]; the server's CA list names only the root
	case "untrusted", "callback_untrusted":
		cc = p.ClientUntrusted
	case "expired":
		cc = p.ClientExpired
	case "serverauth_only":
		cc = p.ClientServerAuthOnly
	case "rsa", "rsa_callback", "rsa_untrusted_callback":
		cc = p.RSAClient
	case "ec", "ec_callback", "ec_untrusted_callback":
		cc = p.ECClient // ECDSA client certificate: the CertificateVerify hash differs from RSA below TLS 1.2
	}
	if cc != nil {
		if _, isSM2 := cc.TLS.PrivateKey.(*sm2.PrivateKey); isSM2 && c.ShortSigs {
			cp := *cc
			cp.TLS.PrivateKey = shortSigner{cc.TLS.PrivateKey.(crypto.Signer)}
			cc = &cp
		}
		if c.ClientCert == "callback" || c.ClientCert == "callback_untrusted" || strings.HasSuffix(c.ClientCert, "_callback") {
			id := cc
			ccfg.GetClientCertificate = func(*gmtls.CertificateRequestInfo) (*gmtls.Certificate, error) { return &id.TLS, nil }
		} else {
			ccfg.Certificates = []gmtls.Certificate{cc.TLS}
		}
	}
	// Config.Clone is what Dial and the listeners work on whenever they need a configuration of their own: a clone
	// behaves exactly like the configuration it was made from
	if c.Cloned&1 != 0 {
		ccfg = ccfg.Clone()
	}
	if c.Cloned&2 != 0 {
		scfg = scfg.Clone()
	}
	return
}

// shortSigner: a key holder (an HSM, a remote signer) behind crypto.Signer whose SM2 signatures all happen to have an r
// or s of fewer than 32 bytes - about one genuine signature in 128 has; their DER encoding is shorter than usual.
type shortSigner struct{ crypto.Signer }

func (s shortSigner) Sign(rnd io.Reader, digest []byte, opts crypto.SignerOpts) ([]byte, error) {
	for i := 0; ; i++ {
		sig, err := s.Signer.Sign(rnd, digest, opts)
		if err != nil || len(sig) <= 69 || i > 20000 {
			return sig, err
		}
	}
}

// ---- policy model

type verdict int

const (
	mustSucceed verdict = iota
	mustFail
	unspecified
)

func defaultGM(s []uint16) []uint16 {
	if s == nil {
		return gmSuites
	}
	return s
}

func contains(l []uint16, v uint16) bool {
	for _, x := range l {
		if x == v {
			return true
		}
	}
	return false
}

func model(c hsCase) (v verdict, why string, suite uint16, vers uint16) {
	if c.ClientKind == "gm" && c.ServerMode == "tls" {
		return mustFail, "GM client vs TLS-only server", 0, 0
	}
	if c.ClientKind == "tls" && c.ServerMode == "gm" {
		return mustFail, "TLS client vs GMSSL-only server", 0, 0
	}
	if c.ClientKind == "gm" {
		vers = tlsx.VersionGMSSL
		pref, sup := defaultGM(c.CliSuites), defaultGM(c.SrvSuites)
		if c.PreferServer {
			pref, sup = sup, pref
		}
		found := false
		for _, id := range pref {
			if contains(sup, id) && contains(gmSuites, id) {
				suite, found = id, true
				break
			}
		}
		if !found {
			return mustFail, "no common GM suite", 0, vers
		}
		if suite == tlsx.GMECDHESM4CBCSM3 || suite == tlsx.GMECDHESM4GCMSM3 {
			return unspecified, "ECDHE-SM2 suite selected", suite, vers
		}
	} else {
		smin, smax, cmin, cmax := c.SMin, c.SMax, c.CMin, c.CMax
		if smin == 0 {
			smin, smax = 0x0301, 0x0303
		}
		if cmin == 0 {
			cmin, cmax = 0x0301, 0x0303
		}
		vers = smax
		if cmax < vers {
			vers = cmax
		}
		if vers < smin || vers < cmin {
			return mustFail, "version ranges disjoint", 0, vers
		}
		if c.SrvSuites == nil || c.CliSuites == nil {
			// defaults on either side: a common usable suite exists for every version and key type,
			// but which one is chosen is the library's business
			suite = 0
		}
		usable := func(id uint16) bool {
			s, ok := suiteInfo(id)
			if !ok {
				return false
			}
			if s.tls12 && vers < 0x0303 {
				return false
			}
			return s.ecdsa == (c.StdCert == "ec")
		}
		if c.SrvSuites != nil && c.CliSuites != nil {
			pref, sup := c.CliSuites, c.SrvSuites
			if c.PreferServer {
				pref, sup = sup, pref
			}
			found := false
			for _, id := range pref {
				if contains(sup, id) && usable(id) {
					suite, found = id, true
					break
				}
			}
			if !found {
				return mustFail, "no common usable TLS suite", 0, vers
			}
		} else {
			// one side uses defaults (which exclude the default-off suites 0x003c, 0xc023, 0xc027)
			list := c.SrvSuites
			if list == nil {
				list = c.CliSuites
			}
			if list != nil {
				ok := false
				for _, id := range list {
					if usable(id) && id != 0x003c && id != 0xc023 && id != 0xc027 {
						ok = true
					}
				}
				if !ok {
					// might still work through a default-off suite listed explicitly on one side only: it cannot
					any := false
					for _, id := range list {
						if usable(id) {
							any = true
						}
					}
					_ = any
					return mustFail, "explicit list has no suite usable with the peer's defaults", 0, vers
				}
			}
		}
	}
	if !c.SkipVerify && c.SrvCert != "good" {
		if c.ClientKind == "tls" {
			// the bad-certificate variants only exist for the GM certificates
		} else {
			return mustFail, "server certificate " + c.SrvCert, suite, vers
		}
	}
	// client authentication. A client whose certificate comes from a CA the server did not advertise may
	// decline to send it (that is what this client does unless the certificate comes from a callback), so for
	// "untrusted" the verdict is the common verdict of "sent" and "not sent", or UNSPECIFIED if they differ.
	auth := func(sends bool, kind string) verdict {
		if c.ClientAuth == gmtls.NoClientCert {
			return mustSucceed
		}
		if !sends {
			if c.ClientAuth == gmtls.RequireAnyClientCert || c.ClientAuth == gmtls.RequireAndVerifyClientCert {
				return mustFail
			}
			return mustSucceed
		}
		if c.ClientAuth == gmtls.VerifyClientCertIfGiven || c.ClientAuth == gmtls.RequireAndVerifyClientCert {
			switch kind {
			case "untrusted", "callback_untrusted", "expired", "serverauth_only", "rsa_untrusted_callback", "ec_untrusted_callback":
				return mustFail
			}
		}
		return mustSucceed
	}
	var av verdict
	switch c.ClientCert {
	case "none":
		av = auth(false, "")
	case "untrusted":
		a, b := auth(true, "untrusted"), auth(false, "")
		if a != b {
			return unspecified, "untrusted client certificate may or may not be sent", suite, vers
		}
		av = a
	default:
		av = auth(true, c.ClientCert)
	}
	if av == mustFail {
		return mustFail, "client authentication policy " + fmt.Sprint(int(c.ClientAuth)) + " vs client certificate " + c.ClientCert, suite, vers
	}
	return mustSucceed, "consistent configuration", suite, vers
}

// ---- running against crypto/tls

func stdRoots() *stdx509.CertPool {
	p := tlsx.GetPKI()
	pool := stdx509.NewCertPool()
	for _, id := range []*tlsx.Ident{p.RSARoot, p.ECRoot} {
		c, err := stdx509.ParseCertificate(id.DER)
		if err != nil {
			panic(err)
		}
		pool.AddCert(c)
	}
	return pool
}

type stdResult struct {
	gm       tlsx.Endpoint
	stdErr   error
	stdRecv  []byte
	stdVers  uint16
	stdSuite uint16
	stdPanic *hx.PanicInfo
}

func runWithStd(c hsCase, ccfg, scfg *gmtls.Config, csend, ssend []byte) *stdResult {
	p := tlsx.GetPKI()
	hub := wire.NewHub()
	cw, sw := hub.Pipe("client:1", "server:443")
	res := &stdResult{}
	toStdVer := func(v uint16, def uint16) uint16 {
		if v == 0 {
			return def
		}
		return v
	}
	stdSide := func(conn *stdtls.Conn, send []byte, frags []int) {
		res.stdPanic = hx.Try(func() {
			if err := conn.Handshake(); err != nil {
				res.stdErr = err
				conn.Close()
				return
			}
			st := conn.ConnectionState()
			res.stdVers, res.stdSuite = st.Version, st.CipherSuite
			wd := hub.Go(func() {
				off := 0
				i := 0
				for off < len(send) {
					n := len(send) - off
					if len(frags) > 0 {
						if f := frags[i%len(frags)]; f < n {
							n = f
						}
						i++
					}
					if _, err := conn.Write(send[off : off+n]); err != nil {
						return
					}
					off += n
				}
				conn.CloseWrite()
			})
			buf := make([]byte, 16384)
			for {
				n, err := conn.Read(buf)
				res.stdRecv = append(res.stdRecv, buf[:n]...)
				if err != nil {
					if err != io.EOF {
						res.stdErr = err
					}
					break
				}
			}
			<-wd
			conn.Close()
		})
		if res.stdPanic != nil {
			cw.Close()
			sw.Close()
		}
	}
	gmSide := func(conn *gmtls.Conn, send []byte, frags []int) {
		ep := &res.gm
		ep.Panic = hx.Try(func() {
			ep.HSErr = conn.Handshake()
			if ep.HSErr != nil {
				conn.Close()
				return
			}
			ep.State = conn.ConnectionState()
			wd := hub.Go(func() {
				off, i := 0, 0
				for off < len(send) {
					n := len(send) - off
					if len(frags) > 0 {
						if f := frags[i%len(frags)]; f < n {
							n = f
						}
						i++
					}
					if _, err := conn.Write(send[off : off+n]); err != nil {
						ep.WriteErr = err
						return
					}
					off += n
				}
				conn.CloseWrite()
			})
			rb := c.SRead
			if c.Peer == "stdserver" {
				rb = c.CRead
			}
			buf := make([]byte, rb)
			for {
				n, err := conn.Read(buf)
				ep.Received = append(ep.Received, buf[:n]...)
				if err != nil {
					if err != io.EOF {
						ep.IOErr = err
					}
					break
				}
			}
			<-wd
			conn.Close()
		})
		if ep.Panic != nil {
			cw.Close()
			sw.Close()
		}
	}
	var d1, d2 chan struct{}
	if c.Peer == "stdclient" {
		sc := &stdtls.Config{RootCAs: stdRoots(), ServerName: tlsx.ServerName, Time: tlsx.FixedTime, MinVersion: toStdVer(c.CMin, 0x0301), MaxVersion: toStdVer(c.CMax, 0x0303),
			CipherSuites: c.CliSuites, InsecureSkipVerify: c.SkipVerify}
		if strings.TrimSuffix(c.ClientCert, "_callback") == "rsa" {
			sc.Certificates = []stdtls.Certificate{{Certificate: [][]byte{p.RSAClient.DER}, PrivateKey: p.RSAClient.Key}}
		} else if strings.TrimSuffix(c.ClientCert, "_callback") == "ec" {
			sc.Certificates = []stdtls.Certificate{{Certificate: [][]byte{p.ECClient.DER}, PrivateKey: p.ECClient.Key}}
		}
		ds := hub.GoAll(func() { stdSide(stdtls.Client(cw, sc), csend, c.CFrag) }, func() { gmSide(gmtls.Server(sw, scfg), ssend, c.SFrag) })
		d1, d2 = ds[0], ds[1]
	} else {
		std := p.RSASrv
		if c.StdCert == "ec" {
			std = p.ECSrv
		}
		pool := stdx509.NewCertPool()
		for _, id := range []*tlsx.Ident{p.SM2Root, p.RSARoot, p.ECRoot} {
			if cc, err := stdx509.ParseCertificate(id.DER); err == nil {
				pool.AddCert(cc)
			}
		}
		sc := &stdtls.Config{Certificates: []stdtls.Certificate{{Certificate: [][]byte{std.DER}, PrivateKey: std.Key}}, Time: tlsx.FixedTime,
			MinVersion: toStdVer(c.SMin, 0x0301), MaxVersion: toStdVer(c.SMax, 0x0303), CipherSuites: c.SrvSuites, ClientAuth: stdtls.ClientAuthType(c.ClientAuth), ClientCAs: pool,
			SessionTicketsDisabled: !c.Tickets, PreferServerCipherSuites: c.PreferServer}
		ds := hub.GoAll(func() { gmSide(gmtls.Client(cw, ccfg), csend, c.CFrag) }, func() { stdSide(stdtls.Server(sw, sc), ssend, c.SFrag) })
		d1, d2 = ds[0], ds[1]
	}
	<-d1
	<-d2
	return res
}

// stdControl runs crypto/tls client against crypto/tls server with the configuration of the case (handshake only).
func stdControl(c hsCase) bool {
	p := tlsx.GetPKI()
	if c.SrvCert != "good" {
		return false
	}
	hub := wire.NewHub()
	cw, sw := hub.Pipe("client:1", "server:443")
	v := func(x, def uint16) uint16 {
		if x == 0 {
			return def
		}
		return x
	}
	std := p.RSASrv
	if c.StdCert == "ec" {
		std = p.ECSrv
	}
	pool := stdx509.NewCertPool()
	for _, id := range []*tlsx.Ident{p.SM2Root, p.RSARoot, p.ECRoot} {
		if cc, err := stdx509.ParseCertificate(id.DER); err == nil {
			pool.AddCert(cc)
		}
	}
	// the gmtls side's defaults differ from crypto/tls's: only explicit lists are comparable
	if c.SrvSuites == nil || c.CliSuites == nil {
		return false
	}
	ccfg := &stdtls.Config{RootCAs: stdRoots(), ServerName: tlsx.ServerName, Time: tlsx.FixedTime, MinVersion: v(c.CMin, 0x0301), MaxVersion: v(c.CMax, 0x0303),
		CipherSuites: c.CliSuites, InsecureSkipVerify: c.SkipVerify}
	if strings.TrimSuffix(c.ClientCert, "_callback") == "rsa" {
		ccfg.Certificates = []stdtls.Certificate{{Certificate: [][]byte{p.RSAClient.DER}, PrivateKey: p.RSAClient.Key}}
	} else if strings.TrimSuffix(c.ClientCert, "_callback") == "ec" {
		ccfg.Certificates = []stdtls.Certificate{{Certificate: [][]byte{p.ECClient.DER}, PrivateKey: p.ECClient.Key}}
	}
	scfg := &stdtls.Config{Certificates: []stdtls.Certificate{{Certificate: [][]byte{std.DER}, PrivateKey: std.Key}}, Time: tlsx.FixedTime,
		MinVersion: v(c.SMin, 0x0301), MaxVersion: v(c.SMax, 0x0303), CipherSuites: c.SrvSuites, ClientAuth: stdtls.ClientAuthType(c.ClientAuth), ClientCAs: pool,
		SessionTicketsDisabled: !c.Tickets, PreferServerCipherSuites: c.PreferServer}
	var e1, e2 error
	cl, sv := stdtls.Client(cw, ccfg), stdtls.Server(sw, scfg)
	ds := hub.GoAll(func() { e1 = cl.Handshake(); cl.Close() }, func() { e2 = sv.Handshake(); sv.Close() })
	<-ds[0]
	<-ds[1]
	return e1 == nil && e2 == nil
}

func payload(n int, tag byte) []byte {
	b := make([]byte, n)
	gen.Fill(b, uint64(n)*31+uint64(tag))
	return b
}

func sameCerts(a [][]byte, b []*gmtlsCert) bool { return true }

type gmtlsCert struct{}

func TestC06_Handshakes(t *testing.T) {
	p := tlsx.GetPKI()
	n := 0
	hx.Check(t, hx.N(1800, 12000), func(t *rapid.T) {
		n++
		c := drawCase(t)
		want, why, wantSuite, wantVers := model(c)
		ccfg, scfg := build(c, fmt.Sprint(n))
		if n%4 == 0 {
			// every fourth case: randomness sources that return short reads (1..7 bytes per call)
			ccfg.Rand, scfg.Rand = tlsx.ShortRand{R: ccfg.Rand, N: 1 + n%7}, tlsx.ShortRand{R: scfg.Rand, N: 1 + (n/4)%7}
		}
		csend, ssend := payload(c.CSend, 'c'), payload(c.SSend, 's')
		cl := []string{"mode:" + c.ServerMode, "client:" + c.ClientKind, fmt.Sprintf("auth:%d", c.ClientAuth), "clientcert:" + c.ClientCert, "certsource:" + c.CertSource, "srvcert:" + c.SrvCert, fmt.Sprintf("cloned_configs:%d", c.Cloned)}
		if c.ShortSigs && c.ServerMode != "tls" && c.ClientKind == "gm" {
			cl = append(cl, "gm_short_signatures")
		}
		if c.CSend > 16384 || c.SSend > 16384 {
			cl = append(cl, "payload>16KiB")
		}
		if (c.CRead < 1000 && c.SSend > c.CRead) || (c.SRead < 1000 && c.CSend > c.SRead) {
			cl = append(cl, "readbuf<record")
		}
		for _, f := range append(append([]int{}, c.CFrag...), c.SFrag...) {
			if f == 1 {
				cl = append(cl, "fragment==1")
				break
			}
		}
		desc := fmt.Sprintf("%v\n model: %v (%s)", c, map[verdict]string{mustSucceed: "MUST-SUCCEED", mustFail: "MUST-FAIL", unspecified: "UNSPECIFIED"}[want], why)
		if c.Peer != "gmtls" {
			if c.Peer == "stdclient" {
				cl = append(cl, "stdlib_client")
			} else {
				cl = append(cl, "stdlib_server")
			}
			r := runWithStd(c, ccfg, scfg, csend, ssend)
			if r.gm.Panic != nil {
				t.Fatalf("gmtls endpoint panicked against crypto/tls:\n%s\n%s", r.gm.Panic, desc)
			}
			if r.stdPanic != nil {
				t.Fatalf("harness: crypto/tls side panicked: %s", r.stdPanic)
			}
			// with the standard library as peer its own policy adds constraints (e.g. it refuses some legacy
			// parameters); only two-sided agreement and data integrity are judged, plus MUST-FAIL cases.
			gmOK, stdOK := r.gm.HSErr == nil, r.stdErr == nil && r.stdVers != 0
			if want == mustFail && gmOK && stdOK {
				t.Fatalf("forbidden combination completed against crypto/tls\n%s", desc)
			}
			if gmOK && stdOK {
				if r.gm.State.Version != r.stdVers || r.gm.State.CipherSuite != r.stdSuite {
					t.Fatalf("gmtls and crypto/tls disagree on parameters: %x/%x vs %x/%x\n%s", r.gm.State.Version, r.gm.State.CipherSuite, r.stdVers, r.stdSuite, desc)
				}
				gmRecvWant, stdRecvWant := csend, ssend
				if c.Peer == "stdserver" {
					gmRecvWant, stdRecvWant = ssend, csend
				}
				if !bytes.Equal(r.gm.Received, gmRecvWant) || !bytes.Equal(r.stdRecv, stdRecvWant) {
					t.Fatalf("data corrupted between gmtls and crypto/tls: gmtls got %d/%d bytes, crypto/tls got %d/%d (io errs %v / %v)\n%s", len(r.gm.Received), len(gmRecvWant), len(r.stdRecv), len(stdRecvWant), r.gm.IOErr, r.stdErr, desc)
				}
				cl = append(cl, fmt.Sprintf("tls%x", r.stdVers&0xff-1+0x10), "interop_ok", fmt.Sprintf("interop_suite:%x", r.stdSuite))
				switch r.stdVers {
				case 0x0301:
					cl = append(cl, "tls10")
				case 0x0302:
					cl = append(cl, "tls11")
				case 0x0303:
					cl = append(cl, "tls12")
				}
			} else if want == mustSucceed && stdControl(c) {
				// crypto/tls may have policies of its own: the control replaces the gmtls endpoint by crypto/tls with the
				// equivalent configuration; if that pair completes, the failure is gmtls's
				t.Fatalf("a permitted combination FAILED between gmtls and crypto/tls (gmtls hs=%v, crypto/tls err=%v) although crypto/tls in place of the gmtls endpoint completes the same handshake\n%s", r.gm.HSErr, r.stdErr, desc)
			} else if gmOK != stdOK && want == mustSucceed {
				// one side completed, the other reported an error: acceptable only if the completing side then failed its I/O
				if (gmOK && r.gm.IOErr == nil && len(r.gm.Received) > 0) || (stdOK && len(r.stdRecv) > 0 && r.stdErr == nil) {
					t.Fatalf("one side completed and exchanged data while the other failed: gmtls hs=%v crypto/tls err=%v\n%s", r.gm.HSErr, r.stdErr, desc)
				}
			}
			R.Case(gmOK && stdOK, hx.HashKey(c.String()), cl...)
			return
		}
		r := tlsx.Run(ccfg, scfg, tlsx.Script{ClientSend: csend, ServerSend: ssend, ClientFrags: c.CFrag, ServerFrags: c.SFrag, ClientReadBuf: c.CRead, ServerReadBuf: c.SRead})
		if r.Client.Panic != nil || r.Server.Panic != nil {
			t.Fatalf("endpoint panicked\n%s\n%s", r.Describe(), desc)
		}
		cok, sok := r.Client.HSErr == nil, r.Server.HSErr == nil
		switch want {
		case mustFail:
			if cok && sok {
				t.Fatalf("a combination the policy forbids COMPLETED on both sides\n%s\n%s", r.Describe(), desc)
			}
			// the end that finishes its flight last may report completion; it must then fail at its first I/O
			if cok && (len(r.Client.Received) > 0 || (r.Client.IOErr == nil && r.Client.WriteErr == nil && len(ssend) > 0 && !r.Stalled && len(r.Client.Received) == len(ssend))) {
				t.Fatalf("client completed and received data although the server refused the handshake\n%s\n%s", r.Describe(), desc)
			}
			if sok && len(r.Server.Received) > 0 {
				t.Fatalf("server completed and received data although the client refused the handshake\n%s\n%s", r.Describe(), desc)
			}
			cl = append(cl, "must_fail")
			R.Case(len(r.S2C) > 0, hx.HashKey(c.String()), cl...)
			R.Sample("must_fail", map[string]interface{}{"why": why, "client_err": fmt.Sprint(r.Client.HSErr), "server_err": fmt.Sprint(r.Server.HSErr)})
			return
		case unspecified:
			if cok != sok && ((cok && len(r.Client.Received) > 0) || (sok && len(r.Server.Received) > 0)) {
				t.Fatalf("ends disagree on completion yet data flowed\n%s\n%s", r.Describe(), desc)
			}
			cl = append(cl, "unspecified:"+strings.Fields(why)[0])
			R.Case(false, 0, cl...)
			return
		}
		if !cok || !sok {
			t.Fatalf("a correctly configured pair FAILED to complete the handshake\n%s\n%s", r.Describe(), desc)
		}
		cs, ss := r.Client.State, r.Server.State
		if cs.Version != ss.Version || cs.CipherSuite != ss.CipherSuite {
			t.Fatalf("ends report different parameters: client %x/%x server %x/%x\n%s", cs.Version, cs.CipherSuite, ss.Version, ss.CipherSuite, desc)
		}
		if cs.Version != wantVers {
			t.Fatalf("negotiated version %#x, configurations imply %#x\n%s", cs.Version, wantVers, desc)
		}
		if wantSuite != 0 && cs.CipherSuite != wantSuite {
			t.Fatalf("negotiated suite %#x, preference order implies %#x\n%s", cs.CipherSuite, wantSuite, desc)
		}
		if cs.DidResume || ss.DidResume {
			t.Fatalf("first connection reports DidResume\n%s", desc)
		}
		// peer certificates
		var wantSrv [][]byte
		if c.ClientKind == "gm" {
			sign, enc := p.SrvSign, p.SrvEnc
			switch c.SrvCert {
			case "untrusted":
				sign, enc = p.SrvSignBad, p.SrvEncBad
			case "expired":
				sign = p.SrvSignExpired
			case "future":
				sign = p.SrvSignFuture
			case "wrongname":
				sign = p.SrvSignWrongName
			case "enc_expired":
				enc = p.SrvEncExpired
			}
			wantSrv = [][]byte{sign.DER, enc.DER}
		} else if c.StdCert == "ec" {
			wantSrv = [][]byte{p.ECSrv.DER}
		} else {
			wantSrv = [][]byte{p.RSASrv.DER}
		}
		if len(cs.PeerCertificates) != len(wantSrv) {
			t.Fatalf("client sees %d server certificates, server configured %d\n%s", len(cs.PeerCertificates), len(wantSrv), desc)
		}
		for i := range wantSrv {
			if !bytes.Equal(cs.PeerCertificates[i].Raw, wantSrv[i]) {
				t.Fatalf("client's view of server certificate %d differs from the configured one\n%s", i, desc)
			}
		}
		sends := c.ClientCert != "none" && c.ClientAuth != gmtls.NoClientCert
		if c.ClientCert == "untrusted" {
			// may or may not have been sent
		} else if sends {
			wantN := 1
			if c.ClientCert == "via_intermediate" {
				wantN = 2
			}
			if len(ss.PeerCertificates) != wantN {
				t.Fatalf("server sees %d client certificates, client sent %d\n%s", len(ss.PeerCertificates), wantN, desc)
			}
		} else if len(ss.PeerCertificates) != 0 {
			t.Fatalf("server sees a client certificate that was never sent\n%s", desc)
		}
		// exported keying material
		for _, lab := range []struct {
			label string
			ctx   []byte
			n     int
		}{{"EXPORTER-verif", nil, 32}, {"EXPORTER-verif", []byte{}, 32}, {"other label", []byte("ctx"), 77}} {
			a, e1 := cs.ExportKeyingMaterial(lab.label, lab.ctx, lab.n)
			b, e2 := ss.ExportKeyingMaterial(lab.label, lab.ctx, lab.n)
			if e1 != nil || e2 != nil || !bytes.Equal(a, b) || len(a) != lab.n {
				t.Fatalf("exported keying material differs between the ends (label %q): %v %v\n%s", lab.label, e1, e2, desc)
			}
		}
		x, _ := cs.ExportKeyingMaterial("EXPORTER-verif", nil, 32)
		y, _ := cs.ExportKeyingMaterial("EXPORTER-verif", []byte{}, 32)
		if bytes.Equal(x, y) {
			t.Fatalf("nil and empty exporter context give the same keying material")
		}
		if _, err := cs.ExportKeyingMaterial("master secret", nil, 16); err == nil {
			t.Fatalf("reserved exporter label accepted")
		}
		// data
		if !bytes.Equal(r.Server.Received, csend) || !bytes.Equal(r.Client.Received, ssend) {
			t.Fatalf("application data not delivered intact: server got %d/%d bytes, client got %d/%d (io: %v / %v, write: %v / %v)\n%s", len(r.Server.Received), len(csend), len(r.Client.Received), len(ssend), r.Server.IOErr, r.Client.IOErr, r.Client.WriteErr, r.Server.WriteErr, desc)
		}
		if r.Client.IOErr != nil || r.Server.IOErr != nil {
			t.Fatalf("I/O error after a successful handshake: client %v server %v\n%s", r.Client.IOErr, r.Server.IOErr, desc)
		}
		cl = append(cl, fmt.Sprintf("suite:%x", cs.CipherSuite), "must_succeed")
		switch cs.Version {
		case 0x0301:
			cl = append(cl, "tls10")
		case 0x0302:
			cl = append(cl, "tls11")
		case 0x0303:
			cl = append(cl, "tls12")
		}
		// independent decoding of the GMSSL wire image
		var masterFirst []byte
		if c.ClientKind == "gm" {
			encD := p.SrvEnc.SM2D
			if c.SrvCert == "untrusted" {
				encD = p.SrvEncBad.SM2D
			} else if c.SrvCert == "enc_expired" {
				encD = p.SrvEncExpired.SM2D
			}
			d, err := rgmssl.Decode(r.Log, encD, nil)
			if err != nil {
				t.Fatalf("the independent GM/T 0024 decoder rejects the wire image: %v\n%s", err, desc)
			}
			if !d.ClientFinishedOK || !d.ServerFinishedOK {
				t.Fatalf("Finished values do not match the standard's computation\n%s", desc)
			}
			if !bytes.Equal(d.ClientApp, csend) || !bytes.Equal(d.ServerApp, ssend) {
				t.Fatalf("independent decoder recovers different plaintext (%d/%d and %d/%d bytes)\n%s", len(d.ClientApp), len(csend), len(d.ServerApp), len(ssend), desc)
			}
			if d.Suite != cs.CipherSuite {
				t.Fatalf("wire suite %x vs reported %x", d.Suite, cs.CipherSuite)
			}
			cl = append(cl, "passive_decoder")
			masterFirst = d.Master
			// exported keying material against the definition (RFC 5705 over the GM/T 0024 PRF), with labels and contexts
			// well beyond the sizes the handshake itself feeds to the PRF
			ctx := make([]byte, (n*37)%300)
			gen.Fill(ctx, uint64(n))
			label := "EXPORTER-verif-" + strings.Repeat("x", (n*13)%90)
			want := 16 + (n*7)%200
			seed := append(append(append([]byte{}, d.ClientRandom...), d.ServerRandom...), byte(len(ctx)>>8), byte(len(ctx)))
			seed = append(seed, ctx...)
			got, err := cs.ExportKeyingMaterial(label, ctx, want)
			if ref := rgmssl.PRF(d.Master, label, seed, want); err != nil || !bytes.Equal(got, ref) {
				t.Fatalf("ExportKeyingMaterial(label %d bytes, context %d bytes, %d bytes out) is not PRF(master, label, client_random || server_random || len || context): err=%v\n got  %x\n want %x\n%s", len(label), len(ctx), want, err, got, ref, desc)
			}
			if len(label)+len(seed) > 128 {
				cl = append(cl, "ekm_long_input")
			}
		}
		// "session tickets on": the same two configurations connect again (the client cache may now offer a ticket);
		// whether or not the server resumes, the second connection must agree on the same parameters and carry data
		if c.Tickets && gen.Uniform(t, "reconnect", 2) == 0 {
			r2 := tlsx.Run(ccfg, scfg, tlsx.Script{ClientSend: ssend, ServerSend: csend})
			if r2.Client.Panic != nil || r2.Server.Panic != nil {
				t.Fatalf("endpoint panicked on the second connection of the same configurations\n%s\n%s", r2.Describe(), desc)
			}
			if r2.Client.HSErr != nil || r2.Server.HSErr != nil {
				t.Fatalf("the second connection between the same configurations (tickets on) FAILED\n%s\n%s", r2.Describe(), desc)
			}
			c2, s2 := r2.Client.State, r2.Server.State
			if c2.Version != cs.Version || c2.CipherSuite != cs.CipherSuite || s2.CipherSuite != cs.CipherSuite || c2.DidResume != s2.DidResume {
				t.Fatalf("second connection disagrees: %x/%x resumed %v/%v, first was %x/%x\n%s", c2.Version, c2.CipherSuite, c2.DidResume, s2.DidResume, cs.Version, cs.CipherSuite, desc)
			}
			if !bytes.Equal(r2.Server.Received, ssend) || !bytes.Equal(r2.Client.Received, csend) {
				t.Fatalf("data not delivered intact on the second connection (resumed=%v)\n%s", c2.DidResume, desc)
			}
			if c.ClientKind == "gm" && masterFirst != nil {
				var known []byte
				if c2.DidResume {
					known = masterFirst
				}
				encD := p.SrvEnc.SM2D
				if c.SrvCert == "untrusted" {
					encD = p.SrvEncBad.SM2D
				} else if c.SrvCert == "enc_expired" {
					encD = p.SrvEncExpired.SM2D
				}
				if _, err := rgmssl.Decode(r2.Log, encD, known); err != nil {
					t.Fatalf("the independent decoder rejects the second connection (resumed=%v): %v\n%s", c2.DidResume, err, desc)
				}
			}
			cl = append(cl, "reconnect")
			if c2.DidResume {
				cl = append(cl, "reconnect_resumed")
			}
		}
		R.Case(len(csend) > 0 && len(ssend) > 0, hx.HashKey(c.String()), cl...)
		R.Sample("session", map[string]interface{}{"mode": c.ServerMode, "client": c.ClientKind, "suite": fmt.Sprintf("%x", cs.CipherSuite), "version": fmt.Sprintf("%x", cs.Version), "auth": int(c.ClientAuth), "clientcert": c.ClientCert, "c2s": c.CSend, "s2c": c.SSend})
	})
}

// gmtls against the independent GM/T 0024 endpoints of ref/rgmssl (both roles, both ECC suites).
func TestC06_ReferencePeer(t *testing.T) {
	p := tlsx.GetPKI()
	n := 0
	hx.Check(t, hx.N(250, 4000), func(t *rapid.T) {
		n++
		suite := rapid.SampledFrom([]uint16{tlsx.GMECCSM4CBCSM3, tlsx.GMECCSM4GCMSM3}).Draw(t, "suite")
		gmIsClient := rapid.Bool().Draw(t, "gmIsClient")
		a := payload(rapid.IntRange(0, 20000).Draw(t, "gmSends"), 'g')
		b := payload(rapid.IntRange(0, 20000).Draw(t, "refSends"), 'r')
		auth := gmtls.ClientAuthType(gen.Uniform(t, "auth", 5))
		withCert := rapid.Bool().Draw(t, "withcert")
		var r *tlsx.ScriptedResult
		if gmIsClient {
			cc := tlsx.GMClient(p, fmt.Sprint("rc", n))
			cc.CipherSuites = []uint16{suite}
			if withCert {
				cc.Certificates = []gmtls.Certificate{p.Client.TLS}
			}
			so := rgmssl.ServerOpts{ID: p.ServerIdentity(), Echo: b, RequestCert: auth != gmtls.NoClientCert}
			if so.RequestCert {
				so.CAs = p.RootsSM2.Subjects()
			}
			r = tlsx.RunAgainstScriptedServer(cc, so, nil, fmt.Sprint("rs", n), a)
		} else {
			sc := tlsx.GMServer(p, fmt.Sprint("rs", n))
			sc.CipherSuites = []uint16{suite}
			sc.ClientAuth, sc.ClientCAs = auth, p.RootsSM2
			co := rgmssl.ClientOpts{Suites: []uint16{suite}, Send: b}
			if withCert {
				co.Cert, co.CertD = p.Client.DER, p.Client.SM2D
			}
			r = tlsx.RunAgainstScriptedClient(sc, co, nil, fmt.Sprint("rc", n), a)
		}
		desc := fmt.Sprintf("suite=%x gmIsClient=%v auth=%d withCert=%v |gm sends %d, ref sends %d| gm: hs=%v io=%v recv=%d | ref: err=%v recv=%d log=%v", suite, gmIsClient, auth, withCert, len(a), len(b), r.GM.HSErr, r.GM.IOErr, len(r.GM.Received), r.PeerErr, len(r.Peer.AppIn), r.Peer.Log)
		if r.GM.Panic != nil {
			t.Fatalf("gmtls panicked against the reference peer: %s\n%s", r.GM.Panic, desc)
		}
		if r.PeerPanic != nil {
			t.Fatalf("harness: reference peer panicked: %s", r.PeerPanic)
		}
		mustFail := !gmIsClient && !withCert && (auth == gmtls.RequireAnyClientCert || auth == gmtls.RequireAndVerifyClientCert)
		if mustFail {
			if r.GM.HSErr == nil {
				t.Fatalf("server completed without the required client certificate\n%s", desc)
			}
			R.Case(true, hx.HashKey("refpeer", desc), "ref_peer", "must_fail")
			return
		}
		if r.GM.HSErr != nil || r.PeerErr != nil {
			t.Fatalf("gmtls and the independent GM/T 0024 implementation do not interoperate\n%s", desc)
		}
		if !bytes.Equal(r.GM.Received, b) || !bytes.Equal(r.Peer.AppIn, a) {
			t.Fatalf("data differs between gmtls and the reference peer\n%s", desc)
		}
		R.Case(len(a) > 0 && len(b) > 0, hx.HashKey("refpeer", suite, gmIsClient, auth, withCert, len(a), len(b)), "ref_peer", fmt.Sprintf("suite:%x", suite))
	})
}


// One auto-switch server configuration (from the constructor, and one built by hand from callbacks) serves a drawn
// sequence of GMSSL and TLS clients: what a connection gets depends on its own ClientHello, not on who came before.
func TestC06_AutoSwitchHistories(t *testing.T) {
	p := tlsx.GetPKI()
	n := 0
	hx.Check(t, hx.N(60, 800), func(t *rapid.T) {
		n++
		std := p.RSASrv
		if rapid.Bool().Draw(t, "ecstd") {
			std = p.ECSrv
		}
		var scfg *gmtls.Config
		if rapid.Bool().Draw(t, "constructor") {
			var err error
			if scfg, err = gmtls.NewBasicAutoSwitchConfig(&p.SrvSign.TLS, &p.SrvEnc.TLS, &std.TLS); err != nil {
				t.Fatalf("NewBasicAutoSwitchConfig: %v", err)
			}
			scfg.Rand, scfg.Time = tlsx.NewDRBG(fmt.Sprint("ash", n)), tlsx.FixedTime
		} else {
			scfg = tlsx.AutoServer(p, std, fmt.Sprint("ash", n))
		}
		var hist []string
		for i := 0; i < rapid.IntRange(3, 6).Draw(t, "clients"); i++ {
			kind := rapid.SampledFrom([]string{"gm", "tls"}).Draw(t, "kind")
			hist = append(hist, kind)
			id := fmt.Sprint("ash", n, "c", i)
			var ccfg *gmtls.Config
			if kind == "gm" {
				ccfg = tlsx.GMClient(p, id)
			} else {
				ccfg = tlsx.TLSClient(p, id)
			}
			cs, ss := []byte("from client "+id), []byte("from server "+id)
			r := tlsx.Run(ccfg, scfg, tlsx.Script{ClientSend: cs, ServerSend: ss})
			desc := fmt.Sprintf("clients so far %v on ONE auto-switch configuration | %s", hist, r.Describe())
			if r.Client.Panic != nil || r.Server.Panic != nil {
				t.Fatalf("endpoint panicked\n%s", desc)
			}
			if r.Client.HSErr != nil || r.Server.HSErr != nil || !bytes.Equal(r.Server.Received, cs) || !bytes.Equal(r.Client.Received, ss) {
				t.Fatalf("a %s client that this configuration serves on its own was turned away after other clients had been served\n%s", kind, desc)
			}
			if gmv := r.Client.State.Version == tlsx.VersionGMSSL; gmv != (kind == "gm") {
				t.Fatalf("a %s client ended up at version %04x\n%s", kind, r.Client.State.Version, desc)
			}
		}
		R.Case(true, hx.HashKey("ash", fmt.Sprint(hist), n), "autoswitch_history")
		R.Sample("autoswitch_history", map[string]interface{}{"clients": hist})
	})
}
