//go:build verif

// C16 — resumption preserves the session or falls back; tickets are authenticated.
package c16

import (
	"bytes"
	"crypto/hmac"
	"crypto/md5"
	"crypto/sha1"
	"crypto/sha256"
	"hash"
	"fmt"
	"strings"
	"testing"

	"github.com/tjfoc/gmsm/gmtls"
	"pgregory.net/rapid"

	"verifharness/gen"
	"verifharness/hx"
	"verifharness/ref/rgmssl"
	"verifharness/tlsx"
	"verifharness/wire"
)

var R = hx.NewRecorder("C16", "cases = histories (rapid state machine) of up to 6 (quick) / 12 (thorough) connections between one client session cache (capacity 1..3, keyed by server address) and two server configurations, interleaved with ticket-key rotations (keeping or dropping the old key), disabling tickets, changing suite lists and client-auth policy, switching servers and cache evictions, in GMSSL and TLS mode; scripted reference clients offering genuine, altered (every byte), truncated and extended tickets; hook-level ticket mutation sweeps; "+
	"oracle = model of what must / must not / may resume; DidResume equal on both ends; a resumed GMSSL connection must decode under the ORIGINAL master secret with the new randoms (independent passive decoder), keep version, suite and peer certificates; a non-resumed one must be a full handshake; data round trip after every connection; non-trivial = a connection that offered a ticket; distinct by hash of the history")

func TestMain(m *testing.M) {
	R.Require("clones_of_a_configuration_without_tickets", "per_client_config", "resumed_by_a_clone", "tls_ticket:tampered", "tls_ticket:genuine", "version_changed", "ticket_opened", "ekm_reference", "original_master_proved", "resumed_gm", "resumed_tls", "rotated_old_key_accepted", "rotated_dropped", "tampered", "evicted", "policy_now_forbids_certs", "policy_now_requires_certs", "policy_now_verifies_untrusted_cert:gm=true", "policy_now_verifies_untrusted_cert:gm=false", "resumed_identity_verified:gm=true", "resumed_identity_verified:gm=false", "tickets_disabled", "server_switched", "suite_removed", "must_resume", "must_not_resume")
	hx.Main(m, R)
}

type srvState struct {
	keys       [][32]byte // current ticket keys, primary first
	disabled   bool
	suites     []uint16 // nil = default
	clientAuth gmtls.ClientAuthType
	maxVers    uint16 // TLS mode only
}

type sessModel struct {
	suite, vers   uint16
	master        []byte // GMSSL: from the passive decoder of the full handshake
	server        int
	key           [32]byte // primary ticket key at issue time
	hadClientCert bool
	srvCerts      [][]byte
}

func keyN(n int) (k [32]byte) {
	for i := range k {
		k[i] = byte(n*37 + i + 1)
	}
	return
}

type lruModel struct {
	cap   int
	order []string // front first
	m     map[string]*sessModel
}

func (l *lruModel) get(k string) *sessModel {
	s, ok := l.m[k]
	if !ok {
		return nil
	}
	l.touch(k)
	return s
}

func (l *lruModel) touch(k string) {
	for i, x := range l.order {
		if x == k {
			l.order = append(l.order[:i], l.order[i+1:]...)
			break
		}
	}
	l.order = append([]string{k}, l.order...)
}

func (l *lruModel) put(k string, s *sessModel) (evicted string) {
	if _, ok := l.m[k]; ok {
		l.m[k] = s
		l.touch(k)
		return ""
	}
	if len(l.order) >= l.cap {
		back := l.order[len(l.order)-1]
		l.order = l.order[:len(l.order)-1]
		delete(l.m, back)
		evicted = back
	}
	l.m[k] = s
	l.order = append([]string{k}, l.order...)
	return
}

func contains(l []uint16, v uint16) bool {
	for _, x := range l {
		if x == v {
			return true
		}
	}
	return false
}

func TestC16_Histories(t *testing.T) {
	p := tlsx.GetPKI()
	maxConns := 6
	if hx.Thorough() {
		maxConns = 12
	}
	hn := 0
	hx.Check(t, hx.N(400, 4000), func(t *rapid.T) {
		hn++
		gm := rapid.Bool().Draw(t, "gmssl")
		cacheCap := rapid.IntRange(1, 3).Draw(t, "cacheCap")
		withClientCert := rapid.Bool().Draw(t, "clientHasCert")
		// one history in three of those with a client certificate: the certificate does not chain to the server's ClientCAs
		// (acceptable under the requesting policies, not under the verifying ones)
		certUntrusted := withClientCert && gen.OneIn(t, "clientCertUntrusted", 3)
		perClientCfg := gen.OneIn(t, "perClientConfig", 4)
		suiteChoices := []uint16{tlsx.GMECCSM4CBCSM3, tlsx.GMECCSM4GCMSM3}
		if !gm {
			suiteChoices = []uint16{0xc02f, 0xc014, 0xcca8}
			if gen.OneIn(t, "rsakx", 3) {
				// static-RSA key exchange suites: sessions of these resume like any other
				suiteChoices = []uint16{0x009c, 0x002f, 0x0035}
			}
		}
		cache := gmtls.NewLRUClientSessionCache(cacheCap)
		model := &lruModel{cap: cacheCap, m: map[string]*sessModel{}}
		srv := []*srvState{
			{keys: [][32]byte{keyN(1)}, suites: suiteChoices, maxVers: 0x0303},
			{keys: [][32]byte{keyN(100)}, suites: suiteChoices, maxVers: 0x0303},
		}
		if gen.OneIn(t, "defaultsuites", 4) {
			srv[0].suites = nil
		}
		srv[0].clientAuth = gmtls.ClientAuthType(gen.Uniform(t, "auth0", 5))
		srv[1].clientAuth = gmtls.ClientAuthType(gen.Uniform(t, "auth1", 5))
		if certUntrusted {
			// sessions can only come into being under the policies that take any certificate
			srv[0].clientAuth = gmtls.ClientAuthType(1 + gen.Uniform(t, "auth0u", 2))
		}
		nextKey := 2
		conns := 0
		var hist []string
		offered := 0
		classes := map[string]bool{}
		names := []string{"a.test:443", "b.test:443", "c.test:443", "d.test:443"}

		connect := func(t *rapid.T, si int, name string) {
			conns++
			s := srv[si]
			id := fmt.Sprintf("h%dc%d", hn, conns)
			var cc, sc *gmtls.Config
			if gm {
				cc, sc = tlsx.GMClient(p, "c"+id), tlsx.GMServer(p, "s"+id)
				if rapid.Bool().Draw(t, "auto") {
					sc = tlsx.AutoServer(p, p.RSASrv, "s"+id)
				}
			} else {
				cc, sc = tlsx.TLSClient(p, "c"+id), tlsx.TLSServer(p, p.RSASrv, "s"+id)
				cc.MinVersion, cc.MaxVersion = 0x0301, 0x0303
				sc.MinVersion, sc.MaxVersion = 0x0301, s.maxVers
			}
			cc.ServerName = ""
			cc.InsecureSkipVerify = true // the cache is keyed by address; identity checks are C08's subject
			cc.ClientSessionCache = cache
			cc.CipherSuites = suiteChoices
			if withClientCert {
				if gm {
					cc.Certificates = []gmtls.Certificate{p.Client.TLS}
				} else {
					cc.Certificates = []gmtls.Certificate{p.RSAClient.TLS}
				}
			}
			sc.SetSessionTicketKeys(s.keys)
			sc.SessionTicketsDisabled = s.disabled
			sc.CipherSuites = s.suites
			sc.ClientAuth = s.clientAuth
			sc.ClientCAs = p.RootsAll
			if certUntrusted {
				sc.ClientCAs = p.RootsStd
				if !gm {
					sc.ClientCAs = p.RootsSM2
				}
				// (the client offers its certificate whatever authorities the request names)
				held := cc.Certificates[0]
				cc.GetClientCertificate = func(*gmtls.CertificateRequestInfo) (*gmtls.Certificate, error) { return &held, nil }
			}
			verifying := s.clientAuth == gmtls.VerifyClientCertIfGiven || s.clientAuth == gmtls.RequireAndVerifyClientCert
			// ---- model: what will the client offer, what may the server do
			cached := model.get(name)
			verdict := "either"
			why := ""
			switch {
			case cached == nil:
				verdict, why = "must_not", "no cached session"
			case s.disabled:
				verdict, why = "must_not", "tickets disabled"
			case cached.server != si:
				verdict, why = "must_not", "ticket issued by another server"
			case !gm && cached.vers != s.maxVers:
				verdict, why = "must_not", "session is for another protocol version"
			case !hasKey(s.keys, cached.key):
				verdict, why = "must_not", "issuing key no longer configured"
			case s.suites != nil && !contains(s.suites, cached.suite):
				verdict, why = "must_not", "suite no longer supported by the server"
			case cached.hadClientCert && certUntrusted && verifying:
				verdict, why = "must_not", "the session's client certificate does not verify under the policy now in force"
			case cached.hadClientCert && s.clientAuth == gmtls.NoClientCert:
				verdict, why = "must_not", "session carries client certificates, policy now forbids them"
			case !cached.hadClientCert && (s.clientAuth == gmtls.RequireAnyClientCert || s.clientAuth == gmtls.RequireAndVerifyClientCert):
				verdict, why = "must_not", "policy now requires client certificates, session has none"
			case s.suites != nil:
				verdict, why = "must", "valid ticket, configuration lists the suite"
			default:
				why = "default suite list (carve-out)"
			}
			// a client without a certificate cannot satisfy a requiring policy: the connection itself must fail
			needCert := s.clientAuth == gmtls.RequireAnyClientCert || s.clientAuth == gmtls.RequireAndVerifyClientCert
			expectFail := needCert && !withClientCert && verdict != "must"
			resumeOrFail := false
			if certUntrusted && verifying && verdict != "must" {
				// a full handshake is out (the certificate is offered and does not verify); a session that carries the
				// certificate may not be resumed either; one without it may (verdict "either": resumed, or failed)
				expectFail = true
				resumeOrFail = verdict == "either"
			}
			if !gm && s.maxVers < 0x0303 && s.suites != nil && !contains(s.suites, 0xc014) && !contains(s.suites, 0x002f) && !contains(s.suites, 0x0035) {
				expectFail = true // no configured suite is usable below TLS 1.2
			}
			if perClientCfg {
				// the listener's configuration hands every client a configuration value of its own (same contents, no ticket
				// keys of its own): it works with the listener's ticket keys, so the history reads as without the callback
				base := sc
				base.GetConfigForClient = func(*gmtls.ClientHelloInfo) (*gmtls.Config, error) {
					return &gmtls.Config{GMSupport: base.GMSupport, Certificates: base.Certificates, GetCertificate: base.GetCertificate, GetKECertificate: base.GetKECertificate,
						CipherSuites: base.CipherSuites, ClientAuth: base.ClientAuth, ClientCAs: base.ClientCAs, Rand: base.Rand, Time: base.Time,
						MinVersion: base.MinVersion, MaxVersion: base.MaxVersion, SessionTicketsDisabled: base.SessionTicketsDisabled}, nil
				}
				classes["per_client_config"] = true
			}
			payloadC, payloadS := []byte("from client "+id), []byte("from server "+id)
			r := tlsx.Run(cc, sc, tlsx.Script{ClientSend: payloadC, ServerSend: payloadS, ServerAddr: name, ClientAddr: "client:" + id})
			desc := fmt.Sprintf("history %v\n connection %d: server %d name %s gm=%v | model: %s (%s) | %s", hist, conns, si, name, gm, verdict, why, r.Describe())
			hist = append(hist, fmt.Sprintf("connect(s%d,%s)", si, name))
			if r.Client.Panic != nil || r.Server.Panic != nil {
				t.Fatalf("endpoint panicked\n%s", desc)
			}
			cok, sok := r.Client.HSErr == nil, r.Server.HSErr == nil
			if expectFail && resumeOrFail && cok && sok && r.Client.State.DidResume && r.Server.State.DidResume {
				expectFail = false
			}
			if expectFail {
				if cok && sok {
					t.Fatalf("connection completed although the configurations admit no full handshake and the session may not be resumed\n%s", desc)
				}
				if cached != nil && strings.HasPrefix(why, "policy now requires") {
					offered++
					classes["policy_now_requires_certs"] = true
					classes["must_not_resume"] = true
				}
				if cached != nil && strings.HasPrefix(why, "the session's client certificate") {
					offered++
					classes["policy_now_verifies_untrusted_cert"] = true
					classes[fmt.Sprintf("policy_now_verifies_untrusted_cert:gm=%v", gm)] = true
					classes["must_not_resume"] = true
				}
				return
			}
			if !cok || !sok {
				t.Fatalf("connection failed; the server must either resume or silently fall back to a full handshake\n%s", desc)
			}
			cs, ss := r.Client.State, r.Server.State
			if cs.DidResume != ss.DidResume {
				t.Fatalf("client says DidResume=%v, server says %v\n%s", cs.DidResume, ss.DidResume, desc)
			}
			if !bytes.Equal(r.Server.Received, payloadC) || !bytes.Equal(r.Client.Received, payloadS) {
				t.Fatalf("data not delivered intact after the handshake (resumed=%v)\n%s", cs.DidResume, desc)
			}
			if len(ss.PeerCertificates) > 0 && verifying {
				// the identity a server reports under a verifying policy is a verified one, resumed or not
				if len(ss.VerifiedChains) == 0 {
					t.Fatalf("the server reports a client certificate under a verifying policy without any verified chain (resumed=%v)\n%s", cs.DidResume, desc)
				}
				if cs.DidResume {
					classes[fmt.Sprintf("resumed_identity_verified:gm=%v", gm)] = true
				}
			}
			if cached != nil {
				offered++
			}
			switch verdict {
			case "must_not":
				if cs.DidResume {
					t.Fatalf("session RESUMED although it must not: %s\n%s", why, desc)
				}
				classes["must_not_resume"] = true
				switch why {
				case "tickets disabled":
					classes["tickets_disabled"] = true
				case "ticket issued by another server":
					classes["server_switched"] = true
				case "issuing key no longer configured":
					classes["rotated_dropped"] = true
				case "session is for another protocol version":
					classes["version_changed"] = true
				case "suite no longer supported by the server":
					classes["suite_removed"] = true
				}
				if strings.HasPrefix(why, "session carries") {
					classes["policy_now_forbids_certs"] = true
				}
				if strings.HasPrefix(why, "policy now requires") {
					classes["policy_now_requires_certs"] = true
				}
			case "must":
				if !cs.DidResume {
					t.Fatalf("a valid ticket under an unchanged configuration that lists the suite was NOT resumed\n%s", desc)
				}
				classes["must_resume"] = true
			}
			var d *rgmssl.Decoded
			if gm {
				var err error
				var known []byte
				if cached != nil {
					known = cached.master
				}
				d, err = rgmssl.Decode(r.Log, p.SrvEnc.SM2D, known)
				if err != nil {
					t.Fatalf("independent decoder rejects the connection (resumed=%v: a resumed session must use the ORIGINAL master secret): %v\n%s", cs.DidResume, err, desc)
				}
				if d.Resumed != cs.DidResume {
					t.Fatalf("wire shows resumed=%v, endpoints report %v\n%s", d.Resumed, cs.DidResume, desc)
				}
				if !bytes.Equal(d.ClientApp, payloadC) || !bytes.Equal(d.ServerApp, payloadS) {
					t.Fatalf("independent decoder recovers different application data\n%s", desc)
				}
			}
			// the master secret of this connection, as sealed by the server into the ticket it issued on it
			// (opened with the server's own keys through the hook), and the exporter computed from it by a
			// reference PRF over the randoms seen on the wire
			cr, sr, issuedTicket := plainFlight(r.Log)
			var connMaster []byte
			if issuedTicket != nil {
				kc := &gmtls.Config{}
				kc.SetSessionTicketKeys(s.keys)
				ok, tv, ts, tm, old := gmtls.VerifDecryptTicket(kc, issuedTicket)
				if !ok || old {
					t.Fatalf("the ticket issued on this connection does not open under the server's primary key (ok=%v old=%v)\n%s", ok, old, desc)
				}
				if tv != cs.Version || ts != cs.CipherSuite {
					t.Fatalf("issued ticket records version/suite %x/%x, connection has %x/%x\n%s", tv, ts, cs.Version, cs.CipherSuite, desc)
				}
				connMaster = tm
				classes["ticket_opened"] = true
			}
			if d != nil {
				if connMaster != nil && !bytes.Equal(connMaster, d.Master) {
					t.Fatalf("issued ticket seals another master secret than the one the connection uses\n%s", desc)
				}
				connMaster = d.Master
			}
			if connMaster == nil && cs.DidResume && cached.master != nil {
				// no ticket re-issued (TLS mode, same primary key): the exporter check below then decides whether the
				// connection runs under the original master secret
				connMaster = cached.master
			}
			ekmC, e1 := cs.ExportKeyingMaterial("EXPERIMENTAL c16", []byte(id), 32)
			ekmS, e2 := ss.ExportKeyingMaterial("EXPERIMENTAL c16", []byte(id), 32)
			if e1 != nil || e2 != nil || !bytes.Equal(ekmC, ekmS) {
				t.Fatalf("exported keying material differs between the ends (resumed=%v): %v %v\n%s", cs.DidResume, e1, e2, desc)
			}
			if connMaster != nil && len(cr) == 32 && len(sr) == 32 {
				seed := append(append(append([]byte{}, cr...), sr...), byte(0), byte(len(id)))
				seed = append(seed, id...)
				var want []byte
				if gm {
					want = rgmssl.PRF(connMaster, "EXPERIMENTAL c16", seed, 32)
				} else if cs.Version == 0x0303 {
					want = refPRF12(connMaster, "EXPERIMENTAL c16", seed, 32)
				} else {
					want = refPRF10(connMaster, "EXPERIMENTAL c16", seed, 32)
				}
				if !bytes.Equal(want, ekmC) {
					t.Fatalf("exporter value is not PRF(master secret of this session, randoms of this connection) (resumed=%v)\n%s", cs.DidResume, desc)
				}
				classes["ekm_reference"] = true
			}
			if cs.DidResume && cached.master != nil {
				if connMaster == nil {
					t.Fatalf("harness: master secret of a resumed connection not observable\n%s", desc)
				}
				if !bytes.Equal(connMaster, cached.master) {
					t.Fatalf("the resumed connection does not run under the ORIGINAL master secret\n%s", desc)
				}
				classes["original_master_proved"] = true
			}
			if cs.DidResume {
				if cs.CipherSuite != cached.suite || cs.Version != cached.vers || ss.CipherSuite != cached.suite {
					t.Fatalf("resumed session changed parameters: now %x/%x, originally %x/%x\n%s", cs.Version, cs.CipherSuite, cached.vers, cached.suite, desc)
				}
				if len(cs.PeerCertificates) != len(cached.srvCerts) {
					t.Fatalf("client of a resumed session sees %d server certificates, originally %d\n%s", len(cs.PeerCertificates), len(cached.srvCerts), desc)
				}
				for i := range cached.srvCerts {
					if !bytes.Equal(cs.PeerCertificates[i].Raw, cached.srvCerts[i]) {
						t.Fatalf("resumed session shows a different server certificate\n%s", desc)
					}
				}
				if cached.hadClientCert != (len(ss.PeerCertificates) > 0) {
					t.Fatalf("server of a resumed session sees %d client certificates, original session hadClientCert=%v\n%s", len(ss.PeerCertificates), cached.hadClientCert, desc)
				}
				if gm {
					classes["resumed_gm"] = true
				} else {
					classes["resumed_tls"] = true
				}
				if cached.key != s.keys[0] {
					classes["rotated_old_key_accepted"] = true
					// a ticket under an old key is refreshed: the cache now holds one under the primary key
					nm := *cached
					nm.key = s.keys[0]
					model.put(name, &nm)
				}
			} else {
				// must have been a full handshake: the server's Certificate message is on the wire
				if len(cs.PeerCertificates) == 0 {
					t.Fatalf("not resumed, yet no server certificate was presented\n%s", desc)
				}
				if !s.disabled {
					nm := &sessModel{suite: cs.CipherSuite, vers: cs.Version, server: si, key: s.keys[0], hadClientCert: len(ss.PeerCertificates) > 0}
					nm.master = connMaster
					for _, c := range cs.PeerCertificates {
						nm.srvCerts = append(nm.srvCerts, c.Raw)
					}
					if ev := model.put(name, nm); ev != "" {
						classes["evicted"] = true
					}
				}
			}
		}
		t.Repeat(map[string]func(*rapid.T){
			"connect": func(t *rapid.T) {
				if conns >= maxConns {
					t.Skip("enough connections")
				}
				connect(t, rapid.IntRange(0, 1).Draw(t, "server"), rapid.SampledFrom(names[:cacheCap+1]).Draw(t, "name"))
			},
			"reconnect": func(t *rapid.T) {
				if conns >= maxConns || len(model.order) == 0 {
					t.Skip("nothing cached")
				}
				name := rapid.SampledFrom(model.order).Draw(t, "cachedName")
				connect(t, model.m[name].server, name)
			},
			// one invalidating (or deliberately harmless) change aimed at a cached session, then reconnect
			"changeThenReconnect": func(t *rapid.T) {
				if conns >= maxConns || len(model.order) == 0 {
					t.Skip("nothing cached")
				}
				name := rapid.SampledFrom(model.order).Draw(t, "cachedName")
				cs := model.m[name]
				s := srv[cs.server]
				si := cs.server
				switch k := rapid.SampledFrom([]string{"retire_oldest", "retire_oldest", "version", "rotate_keep", "rotate_drop", "disable", "remove_suite", "auth_conflict", "auth_verify", "auth_compatible", "other_server"}).Draw(t, "change"); k {
				case "version":
					if gm {
						t.Skip("GMSSL has one version")
					}
					s.maxVers = rapid.SampledFrom([]uint16{0x0301, 0x0302, 0x0303}).Draw(t, "maxVers")
				case "rotate_keep":
					s.keys = append([][32]byte{keyN(nextKey)}, s.keys...)
					nextKey++
					if len(s.keys) > 3 {
						s.keys = s.keys[:3]
					}
				case "retire_oldest":
					// the oldest key is retired, the primary stays: tickets sealed (or refreshed) under the primary survive
					if len(s.keys) < 2 {
						s.keys = append([][32]byte{keyN(nextKey)}, s.keys...)
						nextKey++
						hist = append(hist, "rotate(keep)")
						connect(t, si, name) // resumes and is refreshed under the new primary
					}
					s.keys = s.keys[:len(s.keys)-1]
					hist = append(hist, "retire_oldest")
				case "rotate_drop":
					s.keys = [][32]byte{keyN(nextKey)}
					nextKey++
				case "disable":
					s.disabled = true
				case "remove_suite":
					var rest []uint16
					for _, x := range suiteChoices {
						if x != cs.suite {
							rest = append(rest, x)
						}
					}
					s.suites = rest
				case "auth_conflict":
					if cs.hadClientCert {
						s.clientAuth = gmtls.NoClientCert
					} else {
						s.clientAuth = gmtls.ClientAuthType(3 + gen.Uniform(t, "req", 2))
					}
				case "auth_verify":
				// the policy now verifies what it only asked for before: a session carrying a certificate that chains to
				// ClientCAs resumes with a verified identity, one carrying another certificate may not be resumed
				s.clientAuth = gmtls.ClientAuthType(3 + gen.Uniform(t, "verifying", 2))
			case "auth_compatible":
					s.clientAuth = gmtls.ClientAuthType(1 + gen.Uniform(t, "compat", 2))
				case "other_server":
					si = 1 - si
				}
				hist = append(hist, "change")
				connect(t, si, name)
			},
			"rotate": func(t *rapid.T) {
				s := srv[rapid.IntRange(0, 1).Draw(t, "server")]
				nk := keyN(nextKey)
				nextKey++
				if rapid.Bool().Draw(t, "keepOld") {
					s.keys = append([][32]byte{nk}, s.keys...)
					if len(s.keys) > 3 {
						s.keys = s.keys[:3]
					}
					hist = append(hist, "rotate(keep)")
				} else {
					s.keys = [][32]byte{nk}
					hist = append(hist, "rotate(drop)")
				}
			},
			"toggleTickets": func(t *rapid.T) {
				s := srv[rapid.IntRange(0, 1).Draw(t, "server")]
				s.disabled = !s.disabled
				hist = append(hist, fmt.Sprintf("ticketsDisabled=%v", s.disabled))
			},
			"changeSuites": func(t *rapid.T) {
				s := srv[rapid.IntRange(0, 1).Draw(t, "server")]
				s.suites = rapid.SampledFrom([][]uint16{suiteChoices, suiteChoices[:1], suiteChoices[1:2], nil}).Draw(t, "suites")
				hist = append(hist, fmt.Sprintf("suites=%x", s.suites))
			},
			"changeClientAuth": func(t *rapid.T) {
				s := srv[rapid.IntRange(0, 1).Draw(t, "server")]
				s.clientAuth = gmtls.ClientAuthType(gen.Uniform(t, "auth", 5))
				hist = append(hist, fmt.Sprintf("clientAuth=%d", s.clientAuth))
			},
		})
		var cl []string
		for c := range classes {
			cl = append(cl, c)
		}
		R.Case(offered > 0, hx.HashKey(fmt.Sprint(hist), gm, cacheCap, withClientCert, certUntrusted), cl...)
		R.Sample("history", map[string]interface{}{"gmssl": gm, "cache": cacheCap, "ops": hist})
	})
}

// plainFlight reassembles the unprotected records of a captured connection (everything before each side's
// ChangeCipherSpec) and returns the client random, the server random and the last NewSessionTicket's ticket.
func plainFlight(log []rgmssl.Chunk) (cr, sr, ticket []byte) {
	for _, fromClient := range []bool{true, false} {
		var stream, hs []byte
		for _, c := range log {
			if c.FromClient == fromClient {
				stream = append(stream, c.Data...)
			}
		}
		for len(stream) >= 5 {
			n := int(stream[3])<<8 | int(stream[4])
			if len(stream) < 5+n || stream[0] == 20 {
				break
			}
			if stream[0] == 22 {
				hs = append(hs, stream[5:5+n]...)
			}
			stream = stream[5+n:]
		}
		for len(hs) >= 4 {
			n := int(hs[1])<<16 | int(hs[2])<<8 | int(hs[3])
			if len(hs) < 4+n {
				break
			}
			body := hs[4 : 4+n]
			switch {
			case hs[0] == 1 && fromClient && n >= 34:
				cr = body[2:34]
			case hs[0] == 2 && !fromClient && n >= 34:
				sr = body[2:34]
			case hs[0] == 4 && !fromClient && n >= 6:
				ticket = body[6:]
			}
			hs = hs[4+n:]
		}
	}
	return
}

// refPRF12 is the TLS 1.2 PRF with SHA-256 (RFC 5246 section 5), written from the RFC.
func refPRF12(secret []byte, label string, seed []byte, n int) []byte {
	ls := append([]byte(label), seed...)
	h := func(parts ...[]byte) []byte {
		m := hmac.New(sha256.New, secret)
		for _, p := range parts {
			m.Write(p)
		}
		return m.Sum(nil)
	}
	a := h(ls)
	var out []byte
	for len(out) < n {
		out = append(out, h(a, ls)...)
		a = h(a)
	}
	return out[:n]
}

// refPRF10 is the TLS 1.0/1.1 PRF (RFC 2246 section 5): P_MD5(S1) xor P_SHA-1(S2).
func refPRF10(secret []byte, label string, seed []byte, n int) []byte {
	ls := append([]byte(label), seed...)
	half := (len(secret) + 1) / 2
	pHash := func(newH func() hash.Hash, key []byte) []byte {
		h := func(parts ...[]byte) []byte {
			m := hmac.New(newH, key)
			for _, p := range parts {
				m.Write(p)
			}
			return m.Sum(nil)
		}
		a := h(ls)
		var out []byte
		for len(out) < n {
			out = append(out, h(a, ls)...)
			a = h(a)
		}
		return out[:n]
	}
	x, y := pHash(md5.New, secret[:half]), pHash(sha1.New, secret[len(secret)-half:])
	for i := range x {
		x[i] ^= y[i]
	}
	return x
}

func hasKey(keys [][32]byte, k [32]byte) bool {
	for _, x := range keys {
		if x == k {
			return true
		}
	}
	return false
}

// ---- tickets offered by the independent reference client: genuine, altered, truncated, extended

// Long-lived server Config OBJECTS, some of them Clone()s of others, each with its own ticket-key history: rotating the
// keys of one configuration must not change what another one accepts (a clone owns its key list from the moment it is
// made). Model: per object the key list it was given; a cached session resumes exactly when the object it is offered
// to holds the key its ticket was sealed under.
func TestC16_ClonedConfigs(t *testing.T) {
	p := tlsx.GetPKI()
	hn := 0
	hx.Check(t, hx.N(120, 2500), func(t *rapid.T) {
		hn++
		gm := rapid.Bool().Draw(t, "gmssl")
		mk := func(id string) *gmtls.Config {
			if gm {
				sc := tlsx.GMServer(p, "s"+id)
				sc.CipherSuites = []uint16{tlsx.GMECCSM4CBCSM3, tlsx.GMECCSM4GCMSM3}
				return sc
			}
			sc := tlsx.TLSServer(p, p.RSASrv, "s"+id)
			sc.CipherSuites = []uint16{0xc02f, 0xc014}
			return sc
		}
		cfgs := []*gmtls.Config{mk(fmt.Sprint("cl", hn))}
		keys := [][][32]byte{{keyN(1)}}
		// a quarter of the histories: the original configuration has tickets disabled - and so has every clone of it:
		// nothing is ever resumed, whatever keys the objects hold
		ticketsDisabled := gen.OneIn(t, "ticketsDisabled", 4)
		cfgs[0].SessionTicketsDisabled = ticketsDisabled
		cfgs[0].SetSessionTicketKeys(keys[0])
		nextKey := 2
		cache := gmtls.NewLRUClientSessionCache(8)
		sess := map[string][32]byte{} // cache key (server name) -> ticket key of the cached session
		var hist []string
		conns, resumedUnderClone, refusedAfterForeignRotation := 0, false, false
		lastRotated := -1
		t.Repeat(map[string]func(*rapid.T){
			"connect": func(t *rapid.T) {
				if conns >= 8 {
					t.Skip("enough")
				}
				conns++
				i := rapid.IntRange(0, len(cfgs)-1).Draw(t, "cfg")
				name := rapid.SampledFrom([]string{"a.test:443", "b.test:443"}).Draw(t, "name")
				id := fmt.Sprintf("cl%dc%d", hn, conns)
				var cc *gmtls.Config
				if gm {
					cc = tlsx.GMClient(p, "c"+id)
				} else {
					cc = tlsx.TLSClient(p, "c"+id)
					cc.MinVersion, cc.MaxVersion = 0x0303, 0x0303
				}
				cc.ServerName, cc.InsecureSkipVerify, cc.ClientSessionCache = "", true, cache
				k, cached := sess[name]
				want := cached && hasKey(keys[i], k) && !ticketsDisabled
				r := tlsx.Run(cc, cfgs[i], tlsx.Script{ClientSend: []byte("c" + id), ServerSend: []byte("s" + id), ServerAddr: name, ClientAddr: "client:" + id})
				hist = append(hist, fmt.Sprintf("connect(cfg%d,%s)", i, name))
				desc := fmt.Sprintf("history %v | gm=%v | model: cached=%v want resume=%v | %s", hist, gm, cached, want, r.Describe())
				if r.Client.Panic != nil || r.Server.Panic != nil {
					t.Fatalf("endpoint panicked\n%s", desc)
				}
				if r.Client.HSErr != nil || r.Server.HSErr != nil {
					t.Fatalf("connection failed; the server must resume or silently fall back\n%s", desc)
				}
				if got := r.Client.State.DidResume; got != want || r.Server.State.DidResume != want {
					t.Fatalf("resumed=%v/%v, but the configuration object holds (want=%v) the key of the cached session's ticket\n%s", got, r.Server.State.DidResume, want, desc)
				}
				if want && i > 0 {
					resumedUnderClone = true
				}
				if cached && !want && lastRotated >= 0 {
					refusedAfterForeignRotation = true
				}
				if !ticketsDisabled {
					sess[name] = keys[i][0]
				}
			},
			"rotate": func(t *rapid.T) {
				i := rapid.IntRange(0, len(cfgs)-1).Draw(t, "cfg")
				nk := [][32]byte{keyN(nextKey)}
				nextKey++
				if rapid.Bool().Draw(t, "keep") {
					nk = append(nk, keys[i]...)
					if len(nk) > 3 {
						nk = nk[:3]
					}
				}
				keys[i] = nk
				cfgs[i].SetSessionTicketKeys(nk)
				lastRotated = i
				hist = append(hist, fmt.Sprintf("rotate(cfg%d,%d keys)", i, len(nk)))
			},
			"retire": func(t *rapid.T) {
				// the primary key stays, the oldest decrypt-only key goes
				i := rapid.IntRange(0, len(cfgs)-1).Draw(t, "cfg")
				if len(keys[i]) < 2 {
					t.Skip("nothing to retire")
				}
				keys[i] = append([][32]byte{}, keys[i][:len(keys[i])-1]...)
				cfgs[i].SetSessionTicketKeys(keys[i])
				hist = append(hist, fmt.Sprintf("retire(cfg%d,%d keys left)", i, len(keys[i])))
			},
			"clone": func(t *rapid.T) {
				if len(cfgs) >= 4 {
					t.Skip("enough objects")
				}
				i := rapid.IntRange(0, len(cfgs)-1).Draw(t, "cfg")
				cfgs = append(cfgs, cfgs[i].Clone())
				keys = append(keys, append([][32]byte{}, keys[i]...))
				hist = append(hist, fmt.Sprintf("clone(cfg%d)", i))
			},
		})
		cl := []string{"cloned_configs"}
		if resumedUnderClone {
			cl = append(cl, "resumed_by_a_clone")
		}
		if refusedAfterForeignRotation {
			cl = append(cl, "clone_refused_foreign_key")
		}
		if ticketsDisabled && len(cfgs) >= 2 && conns >= 2 {
			cl = append(cl, "clones_of_a_configuration_without_tickets")
		}
		R.Case(conns >= 2 && len(cfgs) >= 2, hx.HashKey("clone", fmt.Sprint(hist), gm), cl...)
		R.Sample("cloned_configs", map[string]interface{}{"history": hist, "gm": gm})
	})
}

// TLS mode: the keyed scripted TLS 1.2 client (rgmssl.ResumeTLS12) offers genuine, altered, truncated, extended, foreign
// and rotated-away tickets to the TLS-only and the auto-switch server. Only the ticket the server issued, under a key
// it still holds, may lead to an abbreviated handshake; everything else falls back to a full one (which the script does
// not follow) - and a resumed handshake completes only under the session's own master secret.
func TestC16_TLSTicketTampering(t *testing.T) {
	p := tlsx.GetPKI()
	n := 0
	var cnt int64
	for _, mode := range []string{"tlsserver", "autoserver"} {
		mk := func(id string, keys [][32]byte) *gmtls.Config {
			var sc *gmtls.Config
			if mode == "tlsserver" {
				sc = tlsx.TLSServer(p, p.RSASrv, "s"+id)
			} else {
				sc = tlsx.AutoServer(p, p.RSASrv, "s"+id)
			}
			sc.CipherSuites = []uint16{0xc02f, 0xc014}
			sc.SetSessionTicketKeys(keys)
			return sc
		}
		issue := func(id string, keys [][32]byte) (ticket, master []byte) {
			cc := tlsx.TLSClient(p, "c"+id)
			cc.CipherSuites = []uint16{0xc02f}
			cc.MinVersion, cc.MaxVersion = 0x0303, 0x0303
			cc.ClientSessionCache = gmtls.NewLRUClientSessionCache(1)
			sc := mk(id, keys)
			r := tlsx.Run(cc, sc, tlsx.Script{ClientSend: []byte("first")})
			if r.Client.HSErr != nil || r.Server.HSErr != nil {
				t.Fatalf("harness: honest first connection failed: %s", r.Describe())
			}
			_, _, ticket = plainFlight(r.Log)
			ok, _, _, m, _ := gmtls.VerifDecryptTicket(sc, ticket)
			if ticket == nil || !ok {
				t.Fatalf("harness: no usable ticket from the first connection")
			}
			return ticket, m
		}
		k1, k2 := [][32]byte{keyN(41)}, [][32]byte{keyN(42), keyN(41)}
		ticket, master := issue("tt"+mode, k1)
		otherTicket, _ := issue("tto"+mode, k1)
		type tc struct {
			name   string
			ticket []byte
			master []byte
			keys   [][32]byte
			resume bool
		}
		cases := []tc{
			{"genuine", ticket, master, k1, true},
			{"genuine_after_rotation_keeping_the_key", ticket, master, k2, true},
			{"genuine_after_rotation_dropping_the_key", ticket, master, [][32]byte{keyN(43)}, false},
			{"empty", []byte{}, master, k1, false},
			{"extended", append(append([]byte{}, ticket...), 0), master, k1, false},
			{"other_session_ticket_with_this_master", otherTicket, master, k1, false},
		}
		step := 1
		if !hx.Thorough() {
			step = 3
		}
		for i := 0; i < len(ticket); i += step {
			tk := append([]byte{}, ticket...)
			tk[i] ^= 1 << uint(i%8)
			cases = append(cases, tc{fmt.Sprintf("byte %d flipped", i), tk, master, k1, false})
			if i%7 == 0 {
				cases = append(cases, tc{fmt.Sprintf("truncated to %d", i), ticket[:i], master, k1, false})
			}
		}
		for _, c := range cases {
			n++
			o := rgmssl.TLSResumeOpts{Ticket: c.ticket, Master: c.master, Random: bytes.Repeat([]byte{byte(n)}, 32), AppData: []byte("x")}
			var rr *rgmssl.TLSResumeResult
			sc := mk(fmt.Sprint("tt", n), c.keys)
			r := tlsx.RunServerAgainst(sc, []byte("y"), func(rw *wire.Conn) error {
				var err error
				rr, err = rgmssl.ResumeTLS12(rw, o)
				return err
			})
			desc := fmt.Sprintf("%s, ticket %s | server: hs=%v | scripted client: err=%v log=%v", mode, c.name, r.GM.HSErr, r.PeerErr, rr.Log)
			if r.GM.Panic != nil {
				t.Fatalf("the server PANICKED: %v\n%s", r.GM.Panic.Val, desc)
			}
			if c.resume {
				if !rr.Resumed || !rr.Completed || r.GM.HSErr != nil || !r.GM.State.DidResume {
					t.Fatalf("a genuine ticket under a key the server holds was not resumed to completion\n%s", desc)
				}
				if strings.Contains(c.name, "rotation") {
					// resumed under an old key: the server refreshes the ticket under its primary key
					kc := &gmtls.Config{}
					kc.SetSessionTicketKeys(c.keys)
					ok, _, _, m, old := gmtls.VerifDecryptTicket(kc, rr.NewTicket)
					if rr.NewTicket == nil || !ok || old || !bytes.Equal(m, master) {
						t.Fatalf("a session resumed under a retired key was not re-issued under the primary key with the same master secret (ticket=%d bytes ok=%v old=%v)\n%s", len(rr.NewTicket), ok, old, desc)
					}
				}
			} else {
				if rr.Completed || (rr.Resumed && c.name != "other_session_ticket_with_this_master") || r.GM.State.DidResume && r.GM.HSErr == nil {
					t.Fatalf("the server went along with a ticket it must not accept (resumed=%v completed=%v)\n%s", rr.Resumed, rr.Completed, desc)
				}
				if !rr.Resumed && !rr.FullFallback && c.name != "other_session_ticket_with_this_master" {
					t.Fatalf("an unusable ticket must lead to a silent full handshake, not to a failure\n%s", desc)
				}
			}
			cnt++
			cl := "tls_ticket:tampered"
			if c.resume {
				cl = "tls_ticket:genuine"
			}
			R.Case(true, hx.HashKey("tlstk", mode, c.name), cl, "tls_ticket_scripted")
		}
	}
	R.Subspace("TLS-mode tickets: genuine / rotated / foreign / every (quick: third) byte flipped / truncations, against TLS-only and auto-switch servers, keyed scripted client", cnt, true)
}

func TestC16_TicketTampering(t *testing.T) {
	p := tlsx.GetPKI()
	n := 0
	type issued struct {
		ticket, master []byte
		suite          uint16
	}
	mkServer := func(id string, suite uint16) *gmtls.Config {
		sc := tlsx.GMServer(p, id)
		sc.SetSessionTicketKeys([][32]byte{keyN(7)})
		sc.CipherSuites = []uint16{suite}
		return sc
	}
	get := func(suite uint16, id string) issued {
		r := tlsx.RunAgainstScriptedClient(mkServer("iss"+id, suite), rgmssl.ClientOpts{Suites: []uint16{suite}, SessionTicket: []byte{}}, nil, "iss"+id, nil)
		if r.PeerErr != nil || r.Peer.Ticket == nil {
			panic(fmt.Sprintf("no ticket issued: %v %v", r.PeerErr, r.Peer.Log))
		}
		return issued{r.Peer.Ticket, r.Peer.Master, suite}
	}
	try := func(t interface{ Fatalf(string, ...any) }, is issued, ticket []byte, wantResume bool, what, id string) {
		r := tlsx.RunAgainstScriptedClient(mkServer("use"+id, is.suite), rgmssl.ClientOpts{Suites: []uint16{is.suite}, SessionTicket: ticket, SessionID: bytes.Repeat([]byte{9}, 16), ResumeMaster: is.master, Send: []byte("hi")}, nil, "use"+id, []byte("yo"))
		desc := fmt.Sprintf("%s | server hs=%v DidResume=%v | reference client err=%v resumed=%v log=%v", what, r.GM.HSErr, r.GM.State.DidResume, r.PeerErr, r.Peer.Resumed, r.Peer.Log)
		if r.GM.Panic != nil {
			t.Fatalf("server panicked: %s\n%s", r.GM.Panic, desc)
		}
		if r.GM.HSErr != nil || r.PeerErr != nil {
			t.Fatalf("the connection must complete (resumed or by silent fall-back)\n%s", desc)
		}
		if r.GM.State.DidResume != r.Peer.Resumed {
			t.Fatalf("server and client disagree about resumption\n%s", desc)
		}
		if wantResume && !r.Peer.Resumed {
			t.Fatalf("a genuine ticket under the same explicit configuration was not resumed\n%s", desc)
		}
		if !wantResume && r.Peer.Resumed {
			t.Fatalf("the server RESUMED from a ticket that differs from the one it issued\n%s", desc)
		}
		if string(r.GM.Received) != "hi" || string(r.Peer.AppIn) != "yo" {
			t.Fatalf("data not exchanged after the handshake\n%s", desc)
		}
	}
	hx.Check(t, hx.N(150, 2500), func(t *rapid.T) {
		n++
		suite := rapid.SampledFrom([]uint16{tlsx.GMECCSM4CBCSM3, tlsx.GMECCSM4GCMSM3}).Draw(t, "suite")
		is := get(suite, fmt.Sprint(n))
		kind := rapid.SampledFrom([]string{"genuine", "byte", "byte", "truncate", "extend", "empty", "other_session", "suite_not_offered"}).Draw(t, "kind")
		tk := append([]byte{}, is.ticket...)
		want := false
		switch kind {
		case "genuine":
			want = true
		case "byte":
			i := rapid.IntRange(0, len(tk)-1).Draw(t, "pos")
			tk[i] ^= 1 << uint(rapid.IntRange(0, 7).Draw(t, "bit"))
		case "truncate":
			tk = tk[:rapid.IntRange(0, len(tk)-1).Draw(t, "cut")]
		case "extend":
			tk = append(tk, rapid.SliceOfN(rapid.Byte(), 1, 20).Draw(t, "ext")...)
		case "empty":
			tk = []byte{}
		case "suite_not_offered":
			// a genuine ticket, but the client no longer offers the session's suite: the server (which supports both
			// suites) must fall back to a full handshake with the suite that is offered
			other := tlsx.GMECCSM4CBCSM3
			if suite == other {
				other = tlsx.GMECCSM4GCMSM3
			}
			sc := tlsx.GMServer(p, fmt.Sprint("sno", n))
			sc.SetSessionTicketKeys([][32]byte{keyN(7)})
			sc.CipherSuites = []uint16{suite, other}
			r := tlsx.RunAgainstScriptedClient(sc, rgmssl.ClientOpts{Suites: []uint16{other}, SessionTicket: is.ticket, SessionID: []byte{5}, ResumeMaster: is.master, Send: []byte("hi")}, nil, fmt.Sprint("sno", n), []byte("yo"))
			if r.GM.Panic != nil {
				t.Fatalf("server panicked: %s", r.GM.Panic)
			}
			if r.Peer.Resumed || r.GM.State.DidResume {
				t.Fatalf("server RESUMED a session whose suite %x the client does not offer (offered %x)", suite, other)
			}
			if r.GM.HSErr != nil || r.PeerErr != nil || r.GM.State.CipherSuite != other {
				t.Fatalf("no silent fall-back to a full handshake with the offered suite: server hs=%v suite=%x, client err=%v log=%v", r.GM.HSErr, r.GM.State.CipherSuite, r.PeerErr, r.Peer.Log)
			}
			R.Case(true, hx.HashKey("tk", kind, n), "ticket:"+kind, "must_not_resume")
			return
		case "other_session":
			// a genuine ticket of another session, offered while claiming this session's master secret
			other := get(suite, fmt.Sprint(n, "o"))
			tk = other.ticket
			want = true // the server resumes the OTHER session: the reference client then fails Finished
			r := tlsx.RunAgainstScriptedClient(mkServer("mix"+fmt.Sprint(n), suite), rgmssl.ClientOpts{Suites: []uint16{suite}, SessionTicket: tk, SessionID: []byte{1}, ResumeMaster: is.master}, nil, "mix", nil)
			if r.PeerErr == nil && r.Peer.Resumed {
				t.Fatalf("a ticket of one session resumed with the master secret of another")
			}
			R.Case(true, hx.HashKey("tk", kind, n), "tampered", "ticket:"+kind)
			return
		}
		try(t, is, tk, want, fmt.Sprintf("ticket %s (%d -> %d bytes)", kind, len(is.ticket), len(tk)), fmt.Sprint(n))
		cl := []string{"ticket:" + kind}
		if !want {
			cl = append(cl, "tampered")
		}
		R.Case(true, hx.HashKey("tk", kind, tk), cl...)
	})
	if hx.Thorough() {
		is := get(tlsx.GMECCSM4CBCSM3, "exh")
		lo, hi := hx.ShardRange(0, len(is.ticket))
		var cnt int64
		for i := lo; i < hi; i++ {
			for _, x := range []byte{0x01, 0x80} {
				tk := append([]byte{}, is.ticket...)
				tk[i] ^= x
				try(t, is, tk, false, fmt.Sprintf("ticket byte %d ^ %#x", i, x), fmt.Sprint("x", i, x))
				cnt++
			}
			try(t, is, is.ticket[:i], false, fmt.Sprintf("ticket truncated to %d", i), fmt.Sprint("t", i))
			cnt++
		}
		R.Subspace("every byte (2 flips) and every truncation of one issued ticket, through full connections", cnt, true)
	}
}

// hook level: the ticket decoder itself, every single-bit change, truncation, extension; key rotation
func TestC16_TicketDecoder(t *testing.T) {
	p := tlsx.GetPKI()
	hx.Check(t, hx.N(150, 2000), func(t *rapid.T) {
		cfg := &gmtls.Config{Rand: tlsx.NewDRBG(fmt.Sprint(rapid.Uint64().Draw(t, "seed")))}
		nkeys := rapid.IntRange(1, 3).Draw(t, "nkeys")
		var keys [][32]byte
		for i := 0; i < nkeys; i++ {
			keys = append(keys, keyN(rapid.IntRange(1, 50).Draw(t, "key")+i*50))
		}
		cfg.SetSessionTicketKeys(keys)
		master := gen.BytesN(48).Draw(t, "master")
		certs := [][]byte{p.Client.DER}[:rapid.IntRange(0, 1).Draw(t, "ncerts")]
		vers, suite := uint16(0x0101), uint16(0xe013)
		tk, err := gmtls.VerifEncryptTicket(cfg, vers, suite, master, certs)
		if err != nil {
			t.Fatalf("encryptTicket: %v", err)
		}
		ok, v2, s2, m2, old := gmtls.VerifDecryptTicket(cfg, tk)
		if !ok || v2 != vers || s2 != suite || !bytes.Equal(m2, master) || old {
			t.Fatalf("genuine ticket does not decrypt to its session state")
		}
		// under a rotated configuration
		rot := &gmtls.Config{}
		rot.SetSessionTicketKeys(append([][32]byte{keyN(200)}, keys...))
		if ok, _, _, _, old := gmtls.VerifDecryptTicket(rot, tk); !ok || !old {
			t.Fatalf("ticket under a retained old key: ok=%v usedOldKey=%v", ok, old)
		}
		dropped := &gmtls.Config{}
		dropped.SetSessionTicketKeys([][32]byte{keyN(201)})
		if ok, _, _, _, _ := gmtls.VerifDecryptTicket(dropped, tk); ok {
			t.Fatalf("ticket accepted although its key is no longer configured")
		}
		dis := &gmtls.Config{SessionTicketsDisabled: true}
		dis.SetSessionTicketKeys(keys)
		if ok, _, _, _, _ := gmtls.VerifDecryptTicket(dis, tk); ok {
			t.Fatalf("ticket accepted although tickets are disabled")
		}
		// every single-bit change
		for i := 0; i < len(tk)*8; i++ {
			m := append([]byte{}, tk...)
			m[i/8] ^= 1 << uint(i%8)
			if ok, _, _, _, _ := gmtls.VerifDecryptTicket(cfg, m); ok {
				t.Fatalf("ticket with bit %d flipped was ACCEPTED", i)
			}
		}
		for cut := 0; cut < len(tk); cut++ {
			var ok bool
			if pn := hx.Try(func() { ok, _, _, _, _ = gmtls.VerifDecryptTicket(cfg, tk[:cut]) }); pn != nil {
				t.Fatalf("decryptTicket panicked on a %d-byte truncation: %v", cut, pn.Val)
			}
			if ok {
				t.Fatalf("ticket truncated to %d bytes was ACCEPTED", cut)
			}
		}
		if ok, _, _, _, _ := gmtls.VerifDecryptTicket(cfg, append(append([]byte{}, tk...), 0)); ok {
			t.Fatalf("extended ticket accepted")
		}
		R.Case(true, hx.HashKey("dec", tk), "ticket_decoder", "tampered")
	})
}

var _ = wire.SplitRecords
