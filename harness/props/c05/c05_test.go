//go:build verif

// C05 — SM4 block encryption is the GM/T 0002 permutation; decryption inverts; history independent.
package c05

import (
	"bytes"
	"crypto/cipher"
	"encoding/binary"
	"fmt"
	"os"
	"os/exec"
	"strings"
	"testing"

	"github.com/tjfoc/gmsm/sm4"
	"pgregory.net/rapid"

	"verifharness/gen"
	"verifharness/hx"
	"verifharness/ref/rsm4"
)

var R = hx.NewRecorder("C05", "cases = (key, block, direction, buffer layout) and call histories on one cipher object; "+
	"oracle = independent SM4 (ref/rsm4: byte S-box + rotations, validated on the GM/T 0002 single and 1,000,000-iteration vectors); "+
	"non-trivial = key not constant-byte; distinct by hash of (key, block, op)")

// firstOp runs ONE kind of call as the very first use of the package in a fresh process ("the result for a block does
// not depend on which blocks the same cipher object processed before" - nor on what the process did before): lazily
// built tables must be ready whichever entry point comes first.
func firstOp(kind string) int {
	key := hx.MustHex("0123456789abcdeffedcba9876543210")
	pt := hx.MustHex("0123456789abcdeffedcba9876543210")
	ct := hx.MustHex("681edf34d206965e86b3e94f536e4246")
	fail := func(f string, a ...interface{}) int {
		fmt.Printf("FIRST-OP MISMATCH ("+kind+"): "+f+"\n", a...)
		return 1
	}
	switch kind {
	case "decrypt", "decrypt_inplace", "encrypt":
		c, err := sm4.NewCipher(key)
		if err != nil {
			return fail("NewCipher: %v", err)
		}
		out := make([]byte, 16)
		switch kind {
		case "decrypt":
			c.Decrypt(out, ct)
			if !bytes.Equal(out, pt) {
				return fail("Decrypt as first operation = %x, want %x", out, pt)
			}
		case "decrypt_inplace":
			copy(out, ct)
			c.Decrypt(out, out)
			if !bytes.Equal(out, pt) {
				return fail("in-place Decrypt as first operation = %x, want %x", out, pt)
			}
		default:
			c.Encrypt(out, pt)
			if !bytes.Equal(out, ct) {
				return fail("Encrypt as first operation = %x, want %x", out, ct)
			}
		}
	case "ecb_decrypt", "cbc_decrypt":
		// one block of the standard vector followed by the padding block, computed by the reference
		r := rsm4.Must(key)
		padded := append(append([]byte{}, pt...), bytes.Repeat([]byte{16}, 16)...)
		in := make([]byte, 32)
		if kind == "ecb_decrypt" {
			r.Encrypt(in[:16], padded[:16])
			r.Encrypt(in[16:], padded[16:])
			out, err := sm4.Sm4Ecb(key, in, false)
			if err != nil || !bytes.Equal(out, pt) {
				return fail("Sm4Ecb decrypt as first operation = %x (err %v), want %x", out, err, pt)
			}
		} else {
			prev := make([]byte, 16) // default IV: zero
			for i := 0; i < 32; i += 16 {
				x := make([]byte, 16)
				for j := range x {
					x[j] = padded[i+j] ^ prev[j]
				}
				r.Encrypt(in[i:i+16], x)
				prev = in[i : i+16]
			}
			out, err := sm4.Sm4Cbc(key, in, false)
			if err != nil || !bytes.Equal(out, pt) {
				return fail("Sm4Cbc decrypt as first operation = %x (err %v), want %x", out, err, pt)
			}
		}
	}
	return 0
}

func TestC05_FirstOperation(t *testing.T) {
	exe, err := os.Executable()
	if err != nil {
		t.Skip("no executable path")
	}
	for _, kind := range []string{"decrypt", "decrypt_inplace", "encrypt", "ecb_decrypt", "cbc_decrypt"} {
		cmd := exec.Command(exe, "-test.run=^$")
		cmd.Env = append(os.Environ(), "C05_CHILD="+kind)
		out, err := cmd.CombinedOutput()
		if err != nil {
			t.Fatalf("as the FIRST use of the package in a fresh process, %s gives a wrong result: %v\n%s", kind, err, out)
		}
		R.Case(true, hx.HashKey("firstop", kind), "first_operation")
	}
}

func TestMain(m *testing.M) {
	if k := os.Getenv("C05_CHILD"); k != "" {
		os.Exit(firstOp(k))
	}
	R.Require("first_operation", "key_buffer_reuse", "keylen_independent_of_package_iv", "key_buffer_wiped_before_first_use", "helper_calls_between_objects", "sbox_sweep_complete", "dst==src", "history>=3", "recovered_misuse_in_history", "badkeylen")
	R.Assume("ref/rsm4 reproduces both GM/T 0002 vectors (TestRefSelf in setup; single-block vector re-checked here)")
	hx.Main(m, R)
}

func refSelf(t testing.TB) {
	k := hx.MustHex("0123456789abcdeffedcba9876543210")
	b := append([]byte{}, k...)
	rsm4.Must(k).Encrypt(b, b)
	if fmt.Sprintf("%x", b) != "681edf34d206965e86b3e94f536e4246" {
		t.Fatal("reference SM4 broken")
	}
}

func constKey(k []byte) bool {
	for _, b := range k {
		if b != k[0] {
			return false
		}
	}
	return true
}

func mustNew(t interface{ Fatalf(string, ...any) }, key []byte) cipher.Block {
	c, err := sm4.NewCipher(key)
	if err != nil || c == nil {
		t.Fatalf("NewCipher(16-byte key) failed: %v", err)
	}
	if c.BlockSize() != 16 {
		t.Fatalf("BlockSize=%d", c.BlockSize())
	}
	return c
}

func checkBlock(t interface{ Fatalf(string, ...any) }, c cipher.Block, r *rsm4.Cipher, key, blk []byte, ctx string) {
	want := make([]byte, 16)
	r.Encrypt(want, blk)
	src := append([]byte{}, blk...)
	got := make([]byte, 16)
	c.Encrypt(got, src)
	if !bytes.Equal(got, want) {
		t.Fatalf("%s Encrypt key=%x block=%x: got %x want %x", ctx, key, blk, got, want)
	}
	if !bytes.Equal(src, blk) {
		t.Fatalf("%s Encrypt modified its source buffer", ctx)
	}
	back := make([]byte, 16)
	c.Decrypt(back, got)
	if !bytes.Equal(back, blk) {
		t.Fatalf("%s Decrypt(Encrypt(b)) key=%x block=%x: got %x", ctx, key, blk, back)
	}
	wantD := make([]byte, 16)
	r.Decrypt(wantD, blk)
	c.Decrypt(got, src)
	if !bytes.Equal(got, wantD) {
		t.Fatalf("%s Decrypt key=%x block=%x: got %x want %x", ctx, key, blk, got, wantD)
	}
	// in place
	inp := append([]byte{}, blk...)
	c.Encrypt(inp, inp)
	if !bytes.Equal(inp, want) {
		t.Fatalf("%s in-place Encrypt key=%x block=%x: got %x want %x", ctx, key, blk, inp, want)
	}
	c.Decrypt(inp, inp)
	if !bytes.Equal(inp, blk) {
		t.Fatalf("%s in-place Decrypt: got %x want %x", ctx, inp, blk)
	}
}

func TestC05_Random(t *testing.T) {
	refSelf(t)
	hx.Check(t, hx.N(20000, 400000), func(t *rapid.T) {
		key := gen.BytesN(16).Draw(t, "key")
		blk := gen.BytesN(16).Draw(t, "block")
		if rapid.IntRange(0, 7).Draw(t, "onebit") == 0 {
			blk = make([]byte, 16)
			i := rapid.IntRange(0, 127).Draw(t, "bit")
			blk[i/8] = 1 << uint(i%8)
		}
		c := mustNew(t, key)
		checkBlock(t, c, rsm4.Must(key), key, blk, "random")
		R.Case(!constKey(key), hx.HashKey(key, blk), "random", "dst==src")
		R.Sample("block", map[string]string{"key": hx.Hex(key), "block": hx.Hex(blk)})
	})
}

// Every byte value in every S-box lane of the first round (and, by decryption, of the last
// round key order), plus every byte value in every plaintext position.
func TestC05_SboxSweep(t *testing.T) {
	refSelf(t)
	nkeys := 3
	if hx.Thorough() {
		nkeys = 64
	}
	lo, hi := hx.ShardRange(0, nkeys)
	var n int64
	for ki := lo; ki < hi; ki++ {
		key := make([]byte, 16)
		gen.Fill(key, uint64(hx.Seed())*7919+uint64(ki)+1)
		if ki == 0 {
			key = hx.MustHex("0123456789abcdeffedcba9876543210")
		}
		c := mustNew(t, key)
		r := rsm4.Must(key)
		rk := r.RoundKeys()
		for lane := 0; lane < 4; lane++ {
			for v := 0; v < 256; v++ {
				// encryption round 1 input to tau: X1^X2^X3^rk[0]; decryption: ...^rk[31]
				for _, rk0 := range []uint32{rk[0], rk[31]} {
					blk := make([]byte, 16)
					gen.Fill(blk[:12], uint64(ki*4096+lane*256+v))
					x1 := binary.BigEndian.Uint32(blk[4:])
					x2 := binary.BigEndian.Uint32(blk[8:])
					target := uint32(v) << (8 * uint(lane))
					// other lanes: vary with v as well so all four tables see all entries over the sweep
					target |= uint32(byte(v*7+lane)) << (8 * uint((lane+1)%4))
					binary.BigEndian.PutUint32(blk[12:], target^x1^x2^rk0)
					checkBlock(t, c, r, key, blk, fmt.Sprintf("sbox-lane%d-v%02x", lane, v))
					n++
				}
			}
		}
		for pos := 0; pos < 16; pos++ {
			for v := 0; v < 256; v++ {
				blk := make([]byte, 16)
				gen.Fill(blk, uint64(ki*8192+pos*256+v)+99)
				blk[pos] = byte(v)
				checkBlock(t, c, r, key, blk, fmt.Sprintf("pos%d-v%02x", pos, v))
				n++
			}
		}
		R.Case(true, hx.HashKey("sweep", key), "sbox_sweep_complete")
	}
	R.Subspace("S-box sweep: 4 lanes x 256 values x {first,last} round key + 16 positions x 256 values, per key", n, true)
}

// Histories on ONE cipher object: result of call i must not depend on calls < i.
func TestC05_History(t *testing.T) {
	refSelf(t)
	hx.Check(t, hx.N(3000, 60000), func(t *rapid.T) {
		key := gen.BytesN(16).Draw(t, "key")
		c := mustNew(t, key)
		r := rsm4.Must(key)
		steps := 0
		inplace := false
		misused := false
		var hist []string
		t.Repeat(map[string]func(*rapid.T){
			"op": func(t *rapid.T) {
				blk := gen.BytesN(16).Draw(t, "block")
				dec := rapid.Bool().Draw(t, "decrypt")
				layout := rapid.SampledFrom([]string{"disjoint", "same", "adjacent", "open_ended", "open_ended_same"}).Draw(t, "layout")
				want := make([]byte, 16)
				if dec {
					r.Decrypt(want, blk)
				} else {
					r.Encrypt(want, blk)
				}
				var dst, src []byte
				buf := make([]byte, 48)
				switch layout {
				case "same":
					src = buf[16:32]
					dst = src
					inplace = true
				case "adjacent":
					src = buf[0:16]
					dst = buf[16:32]
				case "open_ended":
					// cipher.Block: "Encrypt encrypts the FIRST block in src into dst" - slices longer than a block
					// are legal (a caller walking a buffer passes buf[off:]); only 16 bytes may be read and written
					long := make([]byte, 96)
					gen.Fill(long, uint64(steps)+77)
					src = long[0:48]
					dst = long[48:96]
				case "open_ended_same":
					long := make([]byte, 64)
					gen.Fill(long, uint64(steps)+99)
					src = long
					dst = long
					inplace = true
				default:
					src = make([]byte, 16)
					dst = make([]byte, 16)
				}
				copy(src, blk)
				dstBefore := append([]byte{}, dst...)
				srcBefore := append([]byte{}, src...)
				if dec {
					c.Decrypt(dst, src)
				} else {
					c.Encrypt(dst, src)
				}
				if len(dst) > 16 {
					if !bytes.Equal(dst[16:], dstBefore[16:]) {
						t.Fatalf("history %v layout=%s: the call changed bytes of dst beyond the first block", hist, layout)
					}
					if layout == "open_ended" && !bytes.Equal(src, srcBefore) {
						t.Fatalf("history %v layout=%s: source modified", hist, layout)
					}
					dst, src = dst[:16], src[:16]
				}
				if !bytes.Equal(dst, want) {
					t.Fatalf("history %v then dec=%v layout=%s key=%x block=%x: got %x want %x", hist, dec, layout, key, blk, dst, want)
				}
				if layout != "same" && layout != "open_ended_same" && !bytes.Equal(src, blk) {
					t.Fatalf("source modified (layout %s)", layout)
				}
				if layout == "adjacent" && !bytes.Equal(buf[32:], make([]byte, 16)) {
					t.Fatalf("wrote past dst")
				}
				steps++
				hist = append(hist, fmt.Sprintf("%v/%s", dec, layout))
			},
			// a call the cipher.Block contract does not allow (source or destination shorter than a block): it may panic - the
			// caller recovers, as a server does around a request - but whatever it does, the object keeps working afterwards
			"misuse": func(t *rapid.T) {
				dec := rapid.Bool().Draw(t, "decrypt")
				short := rapid.IntRange(0, 15).Draw(t, "shortlen")
				shortDst := rapid.Bool().Draw(t, "shortdst")
				src, dst := make([]byte, 16), make([]byte, 16)
				if shortDst {
					dst = dst[:short]
				} else {
					src = src[:short]
				}
				hx.Try(func() {
					if dec {
						c.Decrypt(dst, src)
					} else {
						c.Encrypt(dst, src)
					}
				})
				misused = true
				hist = append(hist, fmt.Sprintf("misuse(dec=%v,short=%d,dst=%v)", dec, short, shortDst))
			},
		})
		if misused {
			R.Class("recovered_misuse_in_history")
		}
		cl := []string{}
		if steps >= 3 {
			cl = append(cl, "history>=3")
		}
		if inplace {
			cl = append(cl, "dst==src")
		}
		R.Case(!constKey(key) && steps >= 2, hx.HashKey(key, fmt.Sprint(hist)), cl...)
		R.Sample("history", map[string]interface{}{"key": hx.Hex(key), "ops": hist})
	})
}

// One key buffer rewritten in place between NewCipher calls (and after them): every cipher object must be keyed with
// the bytes the buffer held when it was created, not with an earlier or later content of the same array.
func TestC05_KeyBufferReuse(t *testing.T) {
	refSelf(t)
	hx.Check(t, hx.N(1500, 20000), func(t *rapid.T) {
		buf := make([]byte, 16, 16+rapid.IntRange(0, 8).Draw(t, "spare"))
		n := rapid.IntRange(2, 5).Draw(t, "nkeys")
		blk := gen.BytesN(16).Draw(t, "block")
		var keys [][]byte
		var objs []cipher.Block
		for i := 0; i < n; i++ {
			k := gen.BytesN(16).Draw(t, "key")
			if i > 0 && rapid.Bool().Draw(t, "onebit") {
				// a one-bit neighbour of the previous key
				k = append([]byte{}, keys[i-1]...)
				k[rapid.IntRange(0, 15).Draw(t, "byte")] ^= 1 << uint(rapid.IntRange(0, 7).Draw(t, "bit"))
			}
			if rapid.Bool().Draw(t, "interlude") {
				// other use of the package between the creation of two cipher objects - a mode helper encrypting and
				// decrypting under some unrelated key - is none of the live objects' business
				hk := gen.BytesN(16).Draw(t, "helperkey")
				msg := gen.Bytes(rapid.IntRange(0, 40)).Draw(t, "helpermsg")
				helper := rapid.SampledFrom([]string{"ecb", "cbc", "cfb", "ofb"}).Draw(t, "helper")
				call := func(in []byte, enc bool) ([]byte, error) {
					switch helper {
					case "ecb":
						return sm4.Sm4Ecb(hk, in, enc)
					case "cbc":
						return sm4.Sm4Cbc(hk, in, enc)
					case "cfb":
						return sm4.Sm4CFB(hk, in, enc)
					}
					return sm4.Sm4OFB(hk, in, enc)
				}
				ct, err := call(msg, true)
				if err != nil {
					t.Fatalf("helper %s encrypt: %v", helper, err)
				}
				if back, err := call(ct, false); err != nil || !bytes.Equal(back, msg) {
					t.Fatalf("helper %s does not invert itself: %v", helper, err)
				}
				R.Class("helper_calls_between_objects")
			}
			copy(buf, k)
			c, err := sm4.NewCipher(buf)
			if err != nil {
				t.Fatalf("NewCipher: %v", err)
			}
			keys, objs = append(keys, k), append(objs, c)
			if !bytes.Equal(buf, k) {
				t.Fatalf("NewCipher modified the caller's key buffer")
			}
			if rapid.Bool().Draw(t, "wipe") {
				// the caller wipes its key buffer as soon as NewCipher has returned, before the object was ever used
				for j := range buf {
					buf[j] = 0xEE
				}
				R.Class("key_buffer_wiped_before_first_use")
			}
			// every object made so far, including those whose key buffer has since been overwritten
			for j, o := range objs {
				want, got := make([]byte, 16), make([]byte, 16)
				rsm4.Must(keys[j]).Encrypt(want, blk)
				o.Encrypt(got, blk)
				if !bytes.Equal(got, want) {
					t.Fatalf("cipher #%d (key %x, created from a buffer that now holds key #%d %x): Encrypt(%x) = %x, GM/T 0002 gives %x", j, keys[j], i, k, blk, got, want)
				}
				o.Decrypt(got, want)
				if !bytes.Equal(got, blk) {
					t.Fatalf("cipher #%d (key %x) after the key buffer was rewritten: Decrypt does not invert", j, keys[j])
				}
			}
		}
		R.Case(true, hx.HashKey("reuse", keys, blk), "key_buffer_reuse")
	})
}

func TestC05_KeyLengths(t *testing.T) {
	// every length 0..64 with several kinds of content: a key is 16 BYTES whatever the bytes are - not its hexadecimal,
	// base64 or otherwise printable spelling
	fills := map[string]func(n int) []byte{
		"pattern": func(n int) []byte { k := make([]byte, n); gen.Fill(k, uint64(n)+uint64(hx.Seed())); return k },
		"zeros":   func(n int) []byte { return make([]byte, n) },
		"ff":      func(n int) []byte { return bytes.Repeat([]byte{0xff}, n) },
		"hex_lower": func(n int) []byte {
			return []byte(strings.Repeat("0123456789abcdeffedcba9876543210", 3)[:n])
		},
		"hex_upper": func(n int) []byte {
			return []byte(strings.Repeat("0123456789ABCDEFFEDCBA9876543210", 3)[:n])
		},
		"base64": func(n int) []byte { return []byte(strings.Repeat("ASNFZ4mrze/+3LqYdlQyEA==", 3)[:n]) },
		"digits": func(n int) []byte { return []byte(strings.Repeat("0123456789", 7)[:n]) },
	}
	var cnt int64
	// the block cipher has no business with the package-level IV of the mode helpers, whatever an application has put
	// there (the variable is exported): the sweep runs under the default IV and under IVs of other lengths
	savedIV := sm4.IV
	defer func() { sm4.IV = savedIV }()
	for ivName, iv := range map[string][]byte{"default": savedIV, "nil": nil, "12 bytes": make([]byte, 12), "32 bytes": bytes.Repeat([]byte{7}, 32)} {
		sm4.IV = iv
		for _, n := range []int{0, 12, 15, 16, 17, 32} {
			key := fills["pattern"](n)
			var c cipher.Block
			var err error
			if p := hx.Try(func() { c, err = sm4.NewCipher(key) }); p != nil {
				t.Fatalf("NewCipher(len %d) panicked while the package IV is %s: %v", n, ivName, p.Val)
			}
			if (n == 16) != (err == nil && c != nil) {
				t.Fatalf("NewCipher(len %d) = (%v, %v) while the package IV of the mode helpers is %s", n, c != nil, err, ivName)
			}
			if n == 16 {
				want, got := make([]byte, 16), make([]byte, 16)
				rsm4.Must(key).Encrypt(want, key)
				c.Encrypt(got, key)
				if !bytes.Equal(got, want) {
					t.Fatalf("Encrypt differs from GM/T 0002 while the package IV is %s", ivName)
				}
			}
			cnt++
		}
	}
	sm4.IV = savedIV
	R.Case(true, hx.HashKey("keylen-iv"), "keylen_independent_of_package_iv")
	for name, fill := range fills {
		for n := 0; n <= 64; n++ {
			key := fill(n)
			var c cipher.Block
			var err error
			p := hx.Try(func() { c, err = sm4.NewCipher(key) })
			if p != nil {
				t.Fatalf("NewCipher(len %d, %s) panicked: %v", n, name, p.Val)
			}
			cnt++
			if n == 16 {
				if err != nil || c == nil {
					t.Fatalf("NewCipher(len 16, %s) rejected: %v", name, err)
				}
				want, got := make([]byte, 16), make([]byte, 16)
				rsm4.Must(key).Encrypt(want, key)
				c.Encrypt(got, key)
				if !bytes.Equal(got, want) {
					t.Fatalf("NewCipher(%q): Encrypt differs from GM/T 0002 under these 16 bytes", key)
				}
				R.Case(true, hx.HashKey("keylen", n, name), "goodkeylen")
				continue
			}
			if err == nil || c != nil {
				t.Fatalf("NewCipher accepted a %d-byte key (%s fill %q) (err=%v, block=%v)", n, name, key, err, c)
			}
			// the mode helpers take the same keys
			for hn, h := range map[string]func([]byte, []byte, bool) ([]byte, error){"ecb": sm4.Sm4Ecb, "cbc": sm4.Sm4Cbc, "cfb": sm4.Sm4CFB, "ofb": sm4.Sm4OFB} {
				var out []byte
				if p := hx.Try(func() { out, err = h(key, []byte("sixteen byte msg"), true) }); p != nil {
					t.Fatalf("%s helper panicked on a %d-byte key: %v", hn, n, p.Val)
				}
				if err == nil || out != nil {
					t.Fatalf("the %s helper accepted a %d-byte key (%s fill %q)", hn, n, name, key)
				}
			}
			R.Case(true, hx.HashKey("keylen", n, name), "badkeylen")
		}
	}
	R.Subspace("key lengths 0..64 x 7 kinds of content (binary patterns, hexadecimal / base64 / decimal text), NewCipher and the four mode helpers", cnt, true)
}

func TestC05_Replay(t *testing.T) {
	refSelf(t)
	key := hx.MustHex("0123456789abcdeffedcba9876543210")
	c := mustNew(t, key)
	b := append([]byte{}, key...)
	c.Encrypt(b, b)
	if fmt.Sprintf("%x", b) != "681edf34d206965e86b3e94f536e4246" {
		t.Fatalf("GM/T 0002 vector: %x", b)
	}
	n := 100000
	if hx.Thorough() {
		n = 1000000
	}
	b = append([]byte{}, key...)
	rb := append([]byte{}, key...)
	r := rsm4.Must(key)
	for i := 0; i < n; i++ {
		c.Encrypt(b, b)
		r.Encrypt(rb, rb)
	}
	if !bytes.Equal(b, rb) {
		t.Fatalf("%d-fold iteration: got %x want %x", n, b, rb)
	}
	if n == 1000000 && fmt.Sprintf("%x", b) != "595298c7c6fd271f0402f804c33d3f66" {
		t.Fatalf("1M vector: %x", b)
	}
	R.Case(true, hx.HashKey("iter", n), "iterated_vector")
}
