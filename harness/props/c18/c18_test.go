//go:build verif

// C18 — decoders of untrusted bytes fail closed: a value or an error, never a panic or runaway.
package c18

import (
	"bytes"
	"crypto/rand"
	"crypto/rsa"
	stdx509 "crypto/x509"
	"crypto/x509/pkix"
	"encoding/asn1"
	"encoding/hex"
	"encoding/pem"
	"fmt"
	"net"
	"math/big"
	"os"
	"runtime"
	"sort"
	"strings"
	"testing"
	"time"
	"unicode/utf16"

	"github.com/tjfoc/gmsm/gmtls"
	"github.com/tjfoc/gmsm/pkcs12"
	"github.com/tjfoc/gmsm/sm2"
	"github.com/tjfoc/gmsm/sm4"
	gx "github.com/tjfoc/gmsm/x509"
	"pgregory.net/rapid"

	"verifharness/gen"
	"verifharness/hx"
	"verifharness/ref/rder"
	"verifharness/ref/rsm2"
	"verifharness/sm2x"
	"verifharness/tlsx"
	"verifharness/wire"
)

var R = hx.NewRecorder("C18", "cases = (decoder, valid seed encoding produced by the library, perturbation: truncation | byte substitution from {00,01,7f,80,ff,b^1,b^80} | TLV length rewrite {0,len-1,len+1,0x80,0x84ffffffff,non-minimal} | tag swap | extension | empty | random) plus deep BER nesting; "+
	"oracle = the call returns (no panic, recovered by the harness), allocation stays within 1024*len+8MiB (thorough), TLS messages that parse re-marshal to something that parses; non-trivial = input differs from the seed and is non-empty; distinct by hash of (decoder, input)")

var cv = rsm2.Std

type decoder struct {
	name  string
	asn1  bool
	seeds [][]byte
	call  func(b []byte)
}

var decoders []decoder

func pemOf(typ string, der []byte) []byte {
	return pem.EncodeToMemory(&pem.Block{Type: typ, Bytes: der})
}

func must(err error) {
	if err != nil {
		panic(err)
	}
}

// iterationsTooHigh: the statement exempts password-stretching counts carried by the format. An input is skipped only
// when the decoder stretches a password AND the input declares more than 4096 iterations in the place where the formats
// carry that count: an INTEGER that directly follows an OCTET STRING (the salt) - PBKDF2-params, PKCS#12 pbeParams and
// MacData all have that shape. (Until round 12 ANY small INTEGER above 4096 anywhere in the input caused the skip, for
// every decoder - and the serial numbers of the harness PKI start at 5001, so every input that embedded one of its
// certificates was skipped unseen; see DESIGN.md, log of check corrections.)
func iterationsTooHigh(d *decoder, b []byte) bool {
	if !strings.Contains(d.name, "pwd") && !strings.Contains(d.name, "pkcs12") {
		return false
	}
	tlvs := rder.Walk(b)
	saltEnds := map[int]bool{}
	for _, tl := range tlvs {
		if tl.Tag == 0x04 {
			saltEnds[tl.Start+tl.HdrLen+tl.Len] = true
		}
	}
	for _, tl := range tlvs {
		if tl.Tag == 0x02 && tl.Len >= 2 && tl.Len <= 8 && saltEnds[tl.Start] {
			v := new(big.Int).SetBytes(b[tl.Start+tl.HdrLen : tl.Start+tl.HdrLen+tl.Len])
			if v.Cmp(big.NewInt(4096)) > 0 && b[tl.Start+tl.HdrLen]&0x80 == 0 {
				return true
			}
		}
	}
	return false
}

func captureHandshakeMessages() (gmMsgs, tlsMsgs [][]byte) {
	p := tlsx.GetPKI()
	split := func(stream []byte) (out [][]byte) {
		var hs []byte
		for _, rec := range wire.SplitRecords(stream) {
			if rec[0] == 20 { // ChangeCipherSpec: everything after is encrypted
				break
			}
			if rec[0] == 22 {
				hs = append(hs, rec[5:]...)
			}
		}
		for len(hs) >= 4 {
			n := int(hs[1])<<16 | int(hs[2])<<8 | int(hs[3])
			if len(hs) < 4+n {
				break
			}
			out = append(out, append([]byte(nil), hs[:4+n]...))
			hs = hs[4+n:]
		}
		return
	}
	cc := tlsx.GMClient(p, "c18c")
	cc.Certificates = []gmtls.Certificate{p.Client.TLS}
	sc := tlsx.GMServer(p, "c18s")
	sc.ClientAuth = gmtls.RequireAndVerifyClientCert
	sc.ClientCAs = p.RootsSM2
	r := tlsx.Run(cc, sc, tlsx.Script{NoData: true})
	if r.Client.HSErr != nil || r.Server.HSErr != nil {
		panic(fmt.Sprintf("seed GM handshake failed: %s", r.Describe()))
	}
	gmMsgs = append(split(r.C2S), split(r.S2C)...)
	tc := tlsx.TLSClient(p, "c18tc")
	tc.Certificates = []gmtls.Certificate{p.RSAClient.TLS}
	ts := tlsx.TLSServer(p, p.RSASrv, "c18ts")
	ts.ClientAuth = gmtls.RequireAnyClientCert
	// a hello pair that carries the optional extensions too (ALPN with several entries, tickets, SCT / OCSP requests
	// and stapled answers), so that their list parsers have valid seeds
	tc.NextProtos, ts.NextProtos = []string{"h2", "http/1.1", "x"}, []string{"http/1.1", "h2"}
	tc.ClientSessionCache = gmtls.NewLRUClientSessionCache(2)
	ts.ClientCAs = p.RootsAll
	stapled := p.RSASrv.TLS
	stapled.OCSPStaple = []byte("ocsp staple for the seed corpus")
	stapled.SignedCertificateTimestamps = [][]byte{[]byte("sct one"), []byte("sct number two")}
	ts.Certificates = []gmtls.Certificate{stapled}
	r = tlsx.Run(tc, ts, tlsx.Script{NoData: true})
	if r.Client.HSErr != nil || r.Server.HSErr != nil {
		panic(fmt.Sprintf("seed TLS handshake failed: %s", r.Describe()))
	}
	tlsMsgs = append(split(r.C2S), split(r.S2C)...)
	fin := append([]byte{20, 0, 0, 12}, bytes.Repeat([]byte{0xab}, 12)...)
	gmMsgs = append(gmMsgs, fin)
	tlsMsgs = append(tlsMsgs, fin)
	return
}

func setup() {
	d, _ := new(big.Int).SetString("3945208F7B2144B13F36E38AC6D39F95889393692860B51A42FB81EF4DF7C5B8", 16)
	key := gen.Key{D: d, Pub: cv.BaseMul(d)}
	priv := sm2x.Priv(key)
	pub := &priv.PublicKey
	p := tlsx.GetPKI()
	add := func(name string, asn bool, seeds [][]byte, f func([]byte)) {
		decoders = append(decoders, decoder{name, asn, seeds, f})
	}
	// certificates, CSRs, CRLs
	certDER := p.SrvSign.DER
	// a certificate that carries every extension the library's template can express (so that every extension parser has
	// a valid starting point): key usages, basic constraints with a path length, key identifiers, authority information
	// access (OCSP and CA issuers), subject alternative names of three forms, critical name constraints, CRL distribution
	// points, policies, an unknown extended key usage and a private extension
	richTpl := &gx.Certificate{SerialNumber: big.NewInt(77), Subject: pkix.Name{CommonName: "rich", Organization: []string{"verif"}, Country: []string{"CN"}},
		NotBefore: tlsx.Now.Add(-time.Hour), NotAfter: tlsx.Now.Add(time.Hour), SignatureAlgorithm: gx.SM2WithSM3,
		KeyUsage: gx.KeyUsageDigitalSignature | gx.KeyUsageCertSign, ExtKeyUsage: []gx.ExtKeyUsage{gx.ExtKeyUsageServerAuth, gx.ExtKeyUsageClientAuth},
		UnknownExtKeyUsage: []asn1.ObjectIdentifier{{1, 2, 3, 4, 5}}, BasicConstraintsValid: true, IsCA: true, MaxPathLen: 1,
		SubjectKeyId: []byte{1, 2, 3, 4}, OCSPServer: []string{"http://ocsp.test/"}, IssuingCertificateURL: []string{"http://ca.test/ca.cer"},
		DNSNames: []string{"a.test", "*.b.test"}, EmailAddresses: []string{"x@a.test"}, IPAddresses: []net.IP{net.IPv4(10, 0, 0, 1).To4(), net.ParseIP("2001:db8::1")},
		PermittedDNSDomainsCritical: true, PermittedDNSDomains: []string{"a.test", ".b.test"},
		CRLDistributionPoints: []string{"http://crl.test/a.crl", "http://crl2.test/b.crl"}, PolicyIdentifiers: []asn1.ObjectIdentifier{{2, 5, 29, 32, 0}, {1, 2, 156, 1}},
		ExtraExtensions:       []pkix.Extension{{Id: asn1.ObjectIdentifier{1, 2, 3, 4, 5, 6}, Value: []byte{5, 0}}}}
	richDER, err := gx.CreateCertificate(richTpl, p.SM2Root.Cert, &priv.PublicKey, p.SM2Root.Key)
	must(err)
	if rc, err := gx.ParseCertificate(richDER); err != nil || len(rc.CRLDistributionPoints) != 2 || len(rc.OCSPServer) != 1 {
		panic(fmt.Sprint("harness: the rich certificate does not parse back: ", err))
	}
	add("ParseCertificate", true, [][]byte{richDER, certDER, p.RSASrv.DER, p.SM2Root.DER}, func(b []byte) { gx.ParseCertificate(b) })
	add("ParseCertificates", true, [][]byte{append(append([]byte{}, certDER...), p.SrvEnc.DER...)}, func(b []byte) { gx.ParseCertificates(b) })
	csr, err := gx.CreateCertificateRequest(rand.Reader, &gx.CertificateRequest{Subject: pkix.Name{CommonName: "csr"}, DNSNames: []string{"a.b"}, SignatureAlgorithm: gx.SM2WithSM3}, priv)
	must(err)
	add("ParseCertificateRequest", true, [][]byte{csr}, func(b []byte) {
		if c, err := gx.ParseCertificateRequest(b); err == nil {
			c.CheckSignature()
		}
	})
	crl, err := p.SM2Root.Cert.CreateCRL(rand.Reader, p.SM2Root.Key, []pkix.RevokedCertificate{{SerialNumber: big.NewInt(5), RevocationTime: tlsx.Now}}, tlsx.Now, tlsx.Now.Add(time.Hour))
	must(err)
	add("ParseCRL", true, [][]byte{crl, pemOf("X509 CRL", crl)}, func(b []byte) {
		if c, err := gx.ParseCRL(b); err == nil {
			p.SM2Root.Cert.CheckCRLSignature(c)
		}
	})
	add("ParseDERCRL", true, [][]byte{crl}, func(b []byte) { gx.ParseDERCRL(b) })
	// PKCS#7
	gx.ContentEncryptionAlgorithm = gx.EncryptionAlgorithmDESCBC
	envDES, err := gx.PKCS7EncryptSM2([]byte("enveloped content 0123456789"), []*gx.Certificate{p.SrvEnc.Cert}, sm2.C1C3C2)
	must(err)
	gx.ContentEncryptionAlgorithm = gx.EncryptionAlgorithmAES128GCM
	envGCM, err := gx.PKCS7EncryptSM2([]byte("enveloped content 0123456789"), []*gx.Certificate{p.SrvEnc.Cert}, sm2.C1C3C2)
	must(err)
	gx.ContentEncryptionAlgorithm = gx.EncryptionAlgorithmDESCBC
	rk, err := rsa.GenerateKey(rand.Reader, 1024)
	must(err)
	rtpl := &stdx509.Certificate{SerialNumber: big.NewInt(3), Subject: pkix.Name{CommonName: "r"}, NotBefore: tlsx.Now.Add(-time.Hour), NotAfter: tlsx.Now.Add(time.Hour)}
	rder_, err := stdx509.CreateCertificate(rand.Reader, rtpl, rtpl, &rk.PublicKey, rk)
	must(err)
	rcert, err := gx.ParseCertificate(rder_)
	must(err)
	sd, err := gx.NewSignedData([]byte("signed content"))
	must(err)
	must(sd.AddSigner(rcert, rk, gx.SignerInfoConfig{}))
	signed, err := sd.Finish()
	must(err)
	envRSA, err := gx.PKCS7Encrypt([]byte("rsa enveloped"), []*gx.Certificate{rcert})
	must(err)
	encKey := p.SrvEnc.Key.(*sm2.PrivateKey)
	add("ParsePKCS7+use", true, [][]byte{envDES, envGCM, signed, envRSA}, func(b []byte) {
		p7, err := gx.ParsePKCS7(b)
		if err != nil || p7 == nil {
			return
		}
		p7.Verify()
		p7.GetOnlySigner()
		p7.DecryptSM2(p.SrvEnc.Cert, encKey, sm2.C1C3C2)
		p7.Decrypt(rcert, rk)
		var s string
		p7.UnmarshalSignedAttribute(asn1.ObjectIdentifier{1, 2, 840, 113549, 1, 9, 3}, &s)
	})
	add("DegenerateCertificate", true, [][]byte{certDER}, func(b []byte) { gx.DegenerateCertificate(b) })
	// keys
	p8, err := gx.MarshalSm2PrivateKey(priv, nil)
	must(err)
	p8e, err := gx.MarshalSm2PrivateKey(priv, []byte("pw"))
	must(err)
	add("ParsePKCS8PrivateKey", true, [][]byte{p8}, func(b []byte) { gx.ParsePKCS8PrivateKey(b, nil) })
	add("ParsePKCS8PrivateKey(pwd)", true, [][]byte{p8e}, func(b []byte) { gx.ParsePKCS8PrivateKey(b, []byte("pw")) })
	ecpriv, err := pkcs12.MarshalECPrivateKey(priv)
	must(err)
	add("ParseSm2PrivateKey", true, [][]byte{ecpriv}, func(b []byte) { gx.ParseSm2PrivateKey(b) })
	pubDER, err := gx.MarshalSm2PublicKey(pub)
	must(err)
	add("ParseSm2PublicKey", true, [][]byte{pubDER}, func(b []byte) {
		if k, err := gx.ParseSm2PublicKey(b); err == nil && k != nil && k.X != nil {
			k.Verify([]byte("m"), []byte{0x30, 0x06, 2, 1, 1, 2, 1, 1})
		}
	})
	pkix_, err := gx.MarshalPKIXPublicKey(pub)
	must(err)
	rpk, err := gx.MarshalPKIXPublicKey(&rk.PublicKey)
	must(err)
	add("ParsePKIXPublicKey", true, [][]byte{pkix_, rpk}, func(b []byte) { gx.ParsePKIXPublicKey(b) })
	add("ParsePKCS1PrivateKey", true, [][]byte{stdx509.MarshalPKCS1PrivateKey(rk)}, func(b []byte) { gx.ParsePKCS1PrivateKey(b) })
	kpem, err := gx.WritePrivateKeyToPem(priv, nil)
	must(err)
	kpemE, err := gx.WritePrivateKeyToPem(priv, []byte("pw"))
	must(err)
	ppem, err := gx.WritePublicKeyToPem(pub)
	must(err)
	// PEM files as they occur: several blocks in one file (certificate and key, parameters before the key, a chain), text
	// around the blocks, the block the reader wants not in first place
	certPEM0, csrPEM0 := pemOf("CERTIFICATE", certDER), pemOf("CERTIFICATE REQUEST", csr)
	params := pemOf("EC PARAMETERS", []byte{0x06, 0x08, 0x2a, 0x81, 0x1c, 0xcf, 0x55, 0x01, 0x82, 0x2d})
	cat := func(parts ...[]byte) []byte { return bytes.Join(parts, nil) }
	multi := func(own []byte) [][]byte {
		return [][]byte{own, cat(certPEM0, own), cat(params, own), cat(own, certPEM0), cat([]byte("Bag Attributes\n  friendlyName: x\n"), own, []byte("trailing text\n")),
			cat(ppem, own, csrPEM0), cat(own, own)}
	}
	add("ReadPrivateKeyFromPem", false, multi(kpem), func(b []byte) { gx.ReadPrivateKeyFromPem(b, nil) })
	add("ReadPrivateKeyFromPem(pwd)", false, multi(kpemE), func(b []byte) { gx.ReadPrivateKeyFromPem(b, []byte("pw")) })
	add("ReadPublicKeyFromPem", false, multi(ppem), func(b []byte) { gx.ReadPublicKeyFromPem(b) })
	add("ReadCertificateFromPem", false, multi(certPEM0), func(b []byte) { gx.ReadCertificateFromPem(b) })
	add("ReadCertificateRequestFromPem", false, multi(csrPEM0), func(b []byte) { gx.ReadCertificateRequestFromPem(b) })
	add("ReadPrivateKeyFromHex", false, [][]byte{[]byte(gx.WritePrivateKeyToHex(priv))}, func(b []byte) { gx.ReadPrivateKeyFromHex(string(b)) })
	add("ReadPublicKeyFromHex", false, [][]byte{[]byte(gx.WritePublicKeyToHex(pub))}, func(b []byte) { gx.ReadPublicKeyFromHex(string(b)) })
	add("AppendCertsFromPEM", false, [][]byte{append(pemOf("CERTIFICATE", certDER), pemOf("CERTIFICATE", p.SM2Root.DER)...)}, func(b []byte) { gx.NewCertPool().AppendCertsFromPEM(b) })
	certPEM := pemOf("CERTIFICATE", key2cert(priv))
	add("X509KeyPair(cert)", false, [][]byte{certPEM}, func(b []byte) { gmtls.X509KeyPair(b, kpem) })
	add("X509KeyPair(key)", false, [][]byte{kpem}, func(b []byte) { gmtls.X509KeyPair(certPEM, b) })
	add("GMX509KeyPairsSingle", false, [][]byte{certPEM}, func(b []byte) { gmtls.GMX509KeyPairsSingle(b, kpem) })
	// PKCS#12
	pfx, err := pkcs12.Encode(priv, p.SrvSign.Cert, nil, "pw")
	must(err)
	add("pkcs12.DecodeAll", true, [][]byte{pfx}, func(b []byte) { pkcs12.DecodeAll(b, "pw") })
	add("pkcs12.Decode", true, [][]byte{pfx}, func(b []byte) { pkcs12.Decode(b, "pw") })
	add("pkcs12.ToPEM", true, [][]byte{pfx}, func(b []byte) { pkcs12.ToPEM(b, "pw") })
	// the same decoders behind a VALID MAC: after the perturbation the stored MAC digest is replaced by the one the
	// new content needs (hook), as somebody who knows the password could do; the parsers and the decryption behind
	// the MAC check are then reached by every mutant instead of by none
	remac := func(b []byte) []byte {
		stored, wanted, err := pkcs12.VerifMacDigests(b, "pw")
		if err != nil || len(stored) != len(wanted) || len(stored) == 0 {
			return b
		}
		if i := bytes.LastIndex(b, stored); i >= 0 {
			out := append([]byte(nil), b...)
			copy(out[i:], wanted)
			return out
		}
		return b
	}
	p12seeds := [][]byte{pfx}
	if withAttr, ok := p12WithAttributes(pfx, []byte{0x8b, 0xc1, 0x4e, 0x66, 0x00, 0x31}, []byte{0x00, 0x63, 0x00, 0x73, 0x00, 0x70, 0x00, 0x00}); ok {
		p12seeds = append(p12seeds, withAttr) // a bundle whose key bag carries friendlyName and CSP-name attributes
	} else {
		panic("harness: could not build the PKCS#12 seed with attributes")
	}
	// a bundle whose first safe is an UNENCRYPTED, EMPTY SafeContents (no certificate bag anywhere) next to the usual key
	// bag: structurally fine, MAC restored - the decoders have to notice that there is no certificate
	{
		encData := []byte{0x06, 0x09, 0x2a, 0x86, 0x48, 0x86, 0xf7, 0x0d, 0x01, 0x07, 0x06}
		emptyDataCI := []byte{0x06, 0x09, 0x2a, 0x86, 0x48, 0x86, 0xf7, 0x0d, 0x01, 0x07, 0x01, 0xa0, 0x04, 0x04, 0x02, 0x30, 0x00}
		noCerts, ok := gen.DERReplaceWhere(pfx, func(t rder.TLV, c []byte) bool { return t.Tag == 0x30 && bytes.HasPrefix(c, encData) }, 0x30, func([]byte) []byte { return emptyDataCI })
		if !ok {
			panic("harness: encrypted safe not found in the PKCS#12 seed")
		}
		p12seeds = append(p12seeds, remac(noCerts))
	}
	// the file-based convenience reader on top of DecodeAll (it picks the key and the first certificate out of the result)
	add("pkcs12.SM2P12Decrypt(reMAC)", true, p12seeds, func(b []byte) {
		f, err := os.CreateTemp("", "c18p12-*.p12")
		if err != nil {
			return
		}
		name := f.Name()
		defer os.Remove(name)
		f.Write(remac(b))
		f.Close()
		pkcs12.SM2P12Decrypt(name, "pw")
	})
	add("pkcs12.DecodeAll(reMAC)", true, p12seeds, func(b []byte) { pkcs12.DecodeAll(remac(b), "pw") })
	add("pkcs12.ToPEM(reMAC)", true, p12seeds, func(b []byte) { pkcs12.ToPEM(remac(b), "pw") })
	// SM2 ciphertexts, signatures, points
	ct, _, _, _ := cv.Encrypt(key.Pub, []byte("sm2 plaintext for decoder seeds"), big.NewInt(424242), rsm2.C1C3C2)
	ct2, _, _, _ := cv.Encrypt(key.Pub, []byte("x"), big.NewInt(99), rsm2.C1C2C3)
	add("sm2.Decrypt", false, [][]byte{ct}, func(b []byte) { sm2.Decrypt(priv, b, sm2.C1C3C2) })
	add("sm2.Decrypt(C1C2C3)", false, [][]byte{ct2}, func(b []byte) { sm2.Decrypt(priv, b, sm2.C1C2C3) })
	add("PrivateKey.Decrypt", false, [][]byte{ct}, func(b []byte) { priv.Decrypt(nil, b, nil) })
	ctASN, err := sm2.CipherMarshal(ct)
	must(err)
	add("sm2.DecryptAsn1", true, [][]byte{ctASN}, func(b []byte) { sm2.DecryptAsn1(priv, b) })
	add("sm2.CipherUnmarshal", true, [][]byte{ctASN}, func(b []byte) { sm2.CipherUnmarshal(b) })
	add("sm2.CipherMarshal", false, [][]byte{ct}, func(b []byte) { sm2.CipherMarshal(b) })
	sig := rder.EncSig(big.NewInt(123456789), new(big.Int).Sub(cv.N, big.NewInt(5)))
	add("sm2.SignDataToSignDigit", true, [][]byte{sig}, func(b []byte) { sm2.SignDataToSignDigit(b) })
	add("PublicKey.Verify", true, [][]byte{sig}, func(b []byte) { pub.Verify([]byte("msg"), b) })
	add("sm2.Decompress", false, [][]byte{sm2.Compress(pub)}, func(b []byte) {
		if k := sm2.Decompress(b); k != nil && k.X != nil && k.Y != nil {
			k.Curve.IsOnCurve(k.X, k.Y)
		}
	})
	sk, err := sm4.WriteKeyToPem([]byte("0123456789abcdef"), nil)
	must(err)
	ske, err := sm4.WriteKeyToPem([]byte("0123456789abcdef"), []byte("pw"))
	must(err)
	add("sm4.ReadKeyFromPem", false, [][]byte{sk}, func(b []byte) { sm4.ReadKeyFromPem(b, nil) })
	add("sm4.ReadKeyFromPem(pwd)", false, [][]byte{ske}, func(b []byte) { sm4.ReadKeyFromPem(b, []byte("pw")) })
	// TLS handshake messages, session state, tickets
	gmMsgs, tlsMsgs := captureHandshakeMessages()
	tlsLaw := func(gm bool) func([]byte) {
		return func(b []byte) {
			known, ok, out, ok2 := gmtls.VerifUnmarshalHandshake(b, gm)
			if known && ok && !ok2 {
				panic(fmt.Sprintf("handshake message type %d parsed, but its re-marshalled form %x does not parse", b[0], out))
			}
		}
	}
	add("tls.unmarshal(GM)", false, gmMsgs, tlsLaw(true))
	add("tls.unmarshal(TLS)", false, tlsMsgs, tlsLaw(false))
	enc, ok, eq := gmtls.VerifSessionState(0x0303, 0xc02f, bytes.Repeat([]byte{7}, 48), [][]byte{certDER, p.SM2Root.DER})
	if !ok || !eq {
		panic("sessionState round trip broken")
	}
	add("sessionState.unmarshal", false, [][]byte{enc}, func(b []byte) { gmtls.VerifUnmarshalSessionState(b) })
	tcfg := &gmtls.Config{Rand: tlsx.NewDRBG("ticket")}
	tcfg.SetSessionTicketKeys([][32]byte{{1, 2, 3}, {4, 5, 6}})
	ticket, err := gmtls.VerifEncryptTicket(tcfg, 0x0101, 0xe013, bytes.Repeat([]byte{9}, 48), [][]byte{certDER})
	must(err)
	if ok, _, _, _, _ := gmtls.VerifDecryptTicket(tcfg, ticket); !ok {
		panic("ticket round trip broken")
	}
	add("decryptTicket", false, [][]byte{ticket}, func(b []byte) { gmtls.VerifDecryptTicket(tcfg, b) })
	sort.Slice(decoders, func(i, j int) bool { return decoders[i].name < decoders[j].name })
}

func key2cert(priv *sm2.PrivateKey) []byte {
	tpl := &gx.Certificate{SerialNumber: big.NewInt(2), Subject: pkix.Name{CommonName: "kp"}, NotBefore: tlsx.Now.Add(-time.Hour), NotAfter: tlsx.Now.Add(time.Hour), SignatureAlgorithm: gx.SM2WithSM3}
	der, err := gx.CreateCertificate(tpl, tpl, &priv.PublicKey, priv)
	must(err)
	return der
}

func TestMain(m *testing.M) {
	setup()
	for _, d := range decoders {
		for _, k := range []string{"truncation", "byte_subst", "empty"} {
			R.Require(d.name + "/" + k)
		}
		if d.asn1 {
			R.Require(d.name+"/len_rewrite", d.name+"/tag_swap")
		}
	}
	R.Require("huge_length_sweep", "p12_attr_decoded", "p12_attr_odd", "ber_depth>=1000", "vec_len_sweep", "hello_ext_sweep", "der_value_sweep", "parameter_size_sweep", "choice_tag_sweep")
	R.Assume("inputs that declare more than 4096 key-stretching iterations are skipped and counted as discarded (the statement exempts format-carried stretching)")
	hx.Main(m, R)
}

const hangLimit = 30 * time.Second

func runOne(t interface{ Fatalf(string, ...any) }, d *decoder, in []byte, kind string) {
	if iterationsTooHigh(d, in) {
		R.Discard()
		return
	}
	var before, after runtime.MemStats
	measure := hx.Thorough()
	if measure {
		runtime.ReadMemStats(&before)
	}
	p, hung := hx.TryBounded(hangLimit, func() { d.call(append([]byte(nil), in...)) })
	if measure {
		runtime.ReadMemStats(&after)
	}
	if hung {
		// "never loops without bound; time stays within a small multiple of the input size": the slowest call on a
		// valid seed takes milliseconds (key stretching capped at 4096 iterations), the limit is tens of seconds
		hx.Hang(R, "TestC18/"+d.name, fmt.Sprintf("%s did not return within %v on a %s input (%d bytes); valid inputs take milliseconds\n input hex: %s", d.name, hangLimit, kind, len(in), hex.EncodeToString(in)))
	}
	if p != nil {
		t.Fatalf("%s panicked on a %s input (%d bytes): %v\n input hex: %s\n%s", d.name, kind, len(in), p.Val, hex.EncodeToString(in), p.Stack)
	}
	if measure {
		if alloc := after.TotalAlloc - before.TotalAlloc; alloc > uint64(1024*len(in)+8<<20) {
			t.Fatalf("%s allocated %d bytes for a %d-byte %s input (bound 1024*len+8MiB)\n input hex: %s", d.name, alloc, len(in), kind, hx.Hex(in))
		}
	}
}

func TestC18_Perturbations(t *testing.T) {
	per := hx.N(1500, 12000)
	for i := range decoders {
		d := &decoders[i]
		if hx.Shards() > 1 && i%hx.Shards() != hx.Shard() && hx.Shards() <= len(decoders) {
			// thorough: decoders are distributed over the shards, each shard still samples all kinds
			continue
		}
		t.Run(d.name, func(t *testing.T) {
			hx.Check(t, per, func(t *rapid.T) {
				seed := rapid.SampledFrom(d.seeds).Draw(t, "seed")
				pt := gen.Perturb(seed, d.asn1).Draw(t, "perturbation")
				runOne(t, d, pt.Data, pt.Kind)
				R.Case(len(pt.Data) > 0 && !bytes.Equal(pt.Data, seed), hx.HashKey(d.name, pt.Data), d.name+"/"+pt.Kind)
				if gen.OneIn(t, "sample", 50) {
					R.Sample(d.name, map[string]interface{}{"kind": pt.Kind, "note": pt.Note, "len": len(pt.Data), "head": hx.Hex(pt.Data)})
				}
			})
		})
	}
}

// every TLV of every ASN.1 seed (up to 2 KiB) with its length replaced by each of the 32/64-bit edge values: offset+length
// arithmetic must not wrap into a panic
func TestC18_HugeLengths(t *testing.T) {
	var n int64
	for i := range decoders {
		if i%hx.Shards() != hx.Shard() {
			continue
		}
		d := &decoders[i]
		if !d.asn1 {
			continue
		}
		for _, seed := range d.seeds {
			if len(seed) > 2048 {
				continue
			}
			for _, tl := range rder.Walk(seed) {
				for _, nl := range gen.HugeLens {
					m := append(append(append([]byte(nil), seed[:tl.Start+1]...), nl...), seed[tl.Start+tl.HdrLen:]...)
					runOne(t, d, m, "len_rewrite")
					n++
				}
			}
		}
		R.Case(true, hx.HashKey("huge", d.name), "huge_length_sweep")
	}
	R.Subspace("every TLV of every ASN.1 seed <= 2 KiB x 10 long-form lengths at the 32/64-bit edges", n, true)
}

// thorough: every truncation and every alphabet substitution of every seed up to 2 KiB
func TestC18_Exhaustive(t *testing.T) {
	if !hx.Thorough() {
		t.Skip("thorough tier only")
	}
	var n int64
	for i := range decoders {
		if i%hx.Shards() != hx.Shard() {
			continue
		}
		d := &decoders[i]
		for _, seed := range d.seeds {
			if len(seed) > 2048 {
				continue
			}
			for cut := 0; cut < len(seed); cut++ {
				runOne(t, d, seed[:cut], "truncation")
				n++
			}
			for pos := 0; pos < len(seed); pos++ {
				for _, v := range []byte{0x00, 0x01, 0x7f, 0x80, 0xff, seed[pos] ^ 1, seed[pos] ^ 0x80} {
					if v == seed[pos] {
						continue
					}
					m := append([]byte(nil), seed...)
					m[pos] = v
					runOne(t, d, m, "byte_subst")
					n++
				}
			}
			if d.asn1 {
				for _, tl := range rder.Walk(seed) {
					for _, nl := range append([][]byte{{0}, rder.EncLen(0, tl.Len+1)[1:], {0x80}}, gen.HugeLens...) {
						m := append(append(append([]byte(nil), seed[:tl.Start+1]...), nl...), seed[tl.Start+tl.HdrLen:]...)
						runOne(t, d, m, "len_rewrite")
						n++
					}
				}
			}
			R.Case(true, hx.HashKey("exh", d.name, seed), "exhaustive_seed")
		}
	}
	R.Subspace("every truncation, 7-value substitution of every byte and 13 length rewrites (incl. the 32/64-bit edge values) of every TLV for each seed <= 2 KiB", n, true)
}

// every position x width 1..3 x a catalogue of values relative to the bytes that follow: length-prefixed vectors
// (TLS messages, raw ciphertexts, hex/compressed encodings) have no TLV structure a generator could walk, and the
// interesting values of a length field (just above what remains, twice what remains, ...) are not in the substitution
// alphabet. Quick: the non-ASN.1 decoders; thorough: every decoder, seeds up to 2 KiB.
func TestC18_VectorLengths(t *testing.T) {
	var n int64
	for i := range decoders {
		d := &decoders[i]
		if d.asn1 && !hx.Thorough() {
			continue
		}
		if hx.Shards() > 1 && i%hx.Shards() != hx.Shard() {
			continue
		}
		for si, seed := range d.seeds {
			if len(seed) > 2048 || len(seed) < 2 {
				continue
			}
			if si > 0 && bytes.Contains(seed, []byte("-----BEGIN")) {
				continue // binary length fields mean nothing inside PEM text: the first (single-block) seed stands for the reader
			}
			for w := 1; w <= 3 && w <= len(seed); w++ {
				for pos := 0; pos+w <= len(seed); pos++ {
					rem := len(seed) - pos - w
					cur := 0
					for j := 0; j < w; j++ {
						cur = cur<<8 | int(seed[pos+j])
					}
					for _, v := range []int{rem + 1, rem + 2, rem - 1, 2 * rem, 2*rem - 2, 2*rem + 2, rem + rem/2, rem / 2, cur + 1, cur + 2, cur - 1, cur - 2, 2 * cur, 1<<(8*uint(w)) - 1} {
						if v < 0 || v == cur || v >= 1<<(8*uint(w)) {
							continue
						}
						m := append([]byte(nil), seed...)
						for j, x := w-1, v; j >= 0; j-- {
							m[pos+j] = byte(x)
							x >>= 8
						}
						runOne(t, d, m, "vec_len")
						n++
					}
				}
			}
			R.Case(true, hx.HashKey("veclen", d.name, seed), "vec_len_sweep")
		}
	}
	R.Subspace("every position x width 1..3 x 14 length-like values for each seed <= 2 KiB (quick: non-ASN.1 decoders only)", n, true)
}

// well-formed DER with unusual VALUES: the content of each TLV of each seed is replaced (zero-padded or negative
// integers, empty / doubled / shortened strings and sets, members dropped or duplicated) and every enclosing length is
// re-encoded. Length rewrites stop at the first framing check; these reach the code that interprets the values.
func TestC18_ConsistentDER(t *testing.T) {
	var n int64
	for i := range decoders {
		d := &decoders[i]
		if hx.Shards() > 1 && i%hx.Shards() != hx.Shard() {
			continue
		}
		used := false
		for si, seed := range d.seeds {
			if len(seed) > 4096 {
				continue
			}
			limit := 400
			if !hx.Thorough() && si > 0 {
				limit = 60 // quick: the first seed of a decoder in full, the others in their outer layers
			}
			if blk, _ := pem.Decode(seed); blk != nil && len(blk.Headers) == 0 {
				// PEM readers: the DER inside the armour is mutated and armoured again
				for _, m := range gen.DERConsistent(blk.Bytes, limit) {
					runOne(t, d, pem.EncodeToMemory(&pem.Block{Type: blk.Type, Bytes: m.Data}), "der_value")
					n++
				}
				used = true
				continue
			}
			if !d.asn1 {
				continue
			}
			for _, m := range gen.DERConsistent(seed, limit) {
				runOne(t, d, m.Data, "der_value")
				n++
			}
			used = true
		}
		if !used {
			continue
		}
		R.Case(true, hx.HashKey("derfix", d.name), "der_value_sweep")
	}
	R.Subspace("length-consistent value replacements of every TLV of the ASN.1 seeds", n, true)
}

// ClientHello / ServerHello with the extension block rebuilt consistently around bodies that are empty, cut short,
// extended, duplicated, dropped or moved: per-extension parsers are reached with every enclosing length correct
func TestC18_HelloExtensions(t *testing.T) {
	var n int64
	for i := range decoders {
		d := &decoders[i]
		if !strings.HasPrefix(d.name, "tls.unmarshal") {
			continue
		}
		for _, seed := range d.seeds {
			for _, m := range gen.HelloExtMutations(seed, hx.Thorough()) {
				runOne(t, d, m.Data, "hello_ext")
				n++
			}
		}
		R.Case(true, hx.HashKey("helloext", d.name), "hello_ext_sweep")
	}
	if n < 100 {
		t.Fatalf("harness: only %d hello extension mutations generated", n)
	}
	R.Subspace("length-consistent extension mutations of every captured ClientHello/ServerHello", n, true)
}

// p12WithAttributes adds a friendlyName and a Microsoft CSP name attribute (BMPStrings with the given UCS-2 contents) to
// the key bag of a bundle the library encoded, and restores the MAC. (Encode itself never writes these attributes; files
// from other tools carry them, and ToPEM turns them into PEM headers.)
func p12WithAttributes(pfx, friendly, csp []byte) ([]byte, bool) {
	localKeyID := []byte{0x06, 0x09, 0x2a, 0x86, 0x48, 0x86, 0xf7, 0x0d, 0x01, 0x09, 0x15}
	attr := func(oid []byte, bmp []byte) []byte {
		return rder.EncSeq(oid, append(rder.EncLen(0x31, len(rder.EncLen(0x1e, len(bmp)))+len(bmp)), append(rder.EncLen(0x1e, len(bmp)), bmp...)...))
	}
	out, ok := gen.DERReplaceWhere(pfx, func(t rder.TLV, c []byte) bool { return t.Tag == 0x31 && bytes.Contains(c, localKeyID) && t.Len < 200 }, 0x31, func(old []byte) []byte {
		n := append([]byte{}, old...)
		n = append(n, attr([]byte{0x06, 0x09, 0x2a, 0x86, 0x48, 0x86, 0xf7, 0x0d, 0x01, 0x09, 0x14}, friendly)...)
		return append(n, attr([]byte{0x06, 0x09, 0x2b, 0x06, 0x01, 0x04, 0x01, 0x82, 0x37, 0x11, 0x01}, csp)...)
	})
	if !ok {
		return nil, false
	}
	stored, wanted, err := pkcs12.VerifMacDigests(out, "pw")
	if err != nil || len(stored) != len(wanted) || len(stored) == 0 {
		return nil, false
	}
	i := bytes.LastIndex(out, stored)
	if i < 0 {
		return nil, false
	}
	copy(out[i:], wanted)
	return out, true
}

// PKCS#12 bag attributes: every BMPString content of 0..5 bytes over {00, 01, 4e, ff} (quick: 0..4) as friendlyName,
// behind a valid MAC, through ToPEM / DecodeAll / Decode: no panic, no hang; odd lengths are refused by ToPEM; when ToPEM
// answers, the header is the UCS-2 decoding of the content (one trailing zero unit being a terminator).
func TestC18_PKCS12Attributes(t *testing.T) {
	p := tlsx.GetPKI()
	pfx, err := pkcs12.Encode(p.SrvSign.Key, p.SrvSign.Cert, nil, "pw")
	if err != nil {
		t.Fatal(err)
	}
	ucs2 := func(s string) (o []byte) {
		for _, r := range s {
			o = append(o, byte(r>>8), byte(r))
		}
		return
	}
	var contents [][]byte
	for _, s := range []string{"verif key", "证书", "证书一", "Ā", "一", "a\x00", "Microsoft Enhanced Cryptographic Provider v1.0"} {
		contents = append(contents, ucs2(s), append(ucs2(s), 0, 0))
	}
	maxLen := 4
	if hx.Thorough() {
		maxLen = 6
	}
	alphabet := []byte{0x00, 0x01, 0x4e, 0xff}
	var rec func(cur []byte)
	rec = func(cur []byte) {
		contents = append(contents, append([]byte{}, cur...))
		if len(cur) == maxLen {
			return
		}
		for _, a := range alphabet {
			rec(append(cur, a))
		}
	}
	rec(nil)
	var n int64
	for i, c := range contents {
		friendly, csp := c, ucs2("csp")
		if i%3 == 2 {
			friendly, csp = ucs2("name"), c
		}
		in, ok := p12WithAttributes(pfx, friendly, csp)
		if !ok {
			t.Fatalf("harness: could not add attributes to the bundle")
		}
		var blocks []*pem.Block
		var perr error
		if pn, hung := hx.TryBounded(hangLimit, func() { blocks, perr = pkcs12.ToPEM(in, "pw") }); hung {
			hx.Hang(R, "TestC18_PKCS12Attributes", fmt.Sprintf("ToPEM does not return for a bundle whose attribute string is %x", c))
		} else if pn != nil {
			t.Fatalf("pkcs12.ToPEM PANICKED on a bundle (valid MAC) whose friendlyName/CSP-name BMPString content is %x: %v\n%s", c, pn.Val, pn.Stack)
		}
		if pn, hung := hx.TryBounded(hangLimit, func() { pkcs12.DecodeAll(in, "pw"); pkcs12.Decode(in, "pw") }); hung {
			hx.Hang(R, "TestC18_PKCS12Attributes", fmt.Sprintf("DecodeAll/Decode do not return for a bundle whose attribute string is %x", c))
		} else if pn != nil {
			t.Fatalf("pkcs12.DecodeAll/Decode PANICKED on a bundle (valid MAC) whose attribute string is %x: %v\n%s", c, pn.Val, pn.Stack)
		}
		cl := "p12_attr_even"
		if len(c)%2 == 1 {
			cl = "p12_attr_odd"
			if perr == nil {
				t.Fatalf("pkcs12.ToPEM accepted a BMPString of odd length (%x)", c)
			}
		} else if perr == nil {
			units := c
			if l := len(units); l >= 2 && units[l-1] == 0 && units[l-2] == 0 {
				units = units[:l-2]
			}
			var u []uint16
			for j := 0; j+1 < len(units); j += 2 {
				u = append(u, uint16(units[j])<<8|uint16(units[j+1]))
			}
			want := string(utf16.Decode(u))
			key := "friendlyName"
			if i%3 == 2 {
				key = "Microsoft CSP Name"
			}
			found := false
			for _, b := range blocks {
				if v, ok := b.Headers[key]; ok {
					found = true
					if v != want {
						t.Fatalf("pkcs12.ToPEM: header %q is %q for BMPString content %x, want %q", key, v, c, want)
					}
				}
			}
			if !found {
				t.Fatalf("pkcs12.ToPEM returned no %q header for a key bag that carries one (content %x)", key, c)
			}
			cl = "p12_attr_decoded"
		}
		n++
		R.Case(true, hx.HashKey("p12attr", c, i%3), "p12_attributes", cl)
	}
	R.Subspace("PKCS#12 key-bag friendlyName / CSP name BMPString contents: named strings and every byte string up to the length bound over {00,01,4e,ff}, valid MAC", n, true)
}

func TestC18_DeepBER(t *testing.T) {
	depths := []int{1, 10, 63, 64, 65, 66, 100, 1000}
	if hx.Thorough() {
		depths = append(depths, 10000)
	}
	var d *decoder
	for i := range decoders {
		if decoders[i].name == "ParsePKCS7+use" {
			d = &decoders[i]
		}
	}
	for _, depth := range depths {
		for _, indef := range []bool{false, true} {
			in := gen.DeepBER(depth, indef)
			var before, after runtime.MemStats
			runtime.ReadMemStats(&before)
			p := hx.Try(func() { d.call(in) })
			runtime.ReadMemStats(&after)
			if p != nil {
				t.Fatalf("ParsePKCS7 panicked on BER nested %d deep (indefinite=%v): %v", depth, indef, p.Val)
			}
			if alloc := after.TotalAlloc - before.TotalAlloc; alloc > uint64(1024*len(in)+8<<20) {
				t.Fatalf("ParsePKCS7 allocated %d bytes for %d bytes of BER nested %d deep (indefinite=%v): super-linear", alloc, len(in), depth, indef)
			}
			cl := "ber_depth<1000"
			if depth >= 1000 {
				cl = "ber_depth>=1000"
			}
			R.Case(true, hx.HashKey("ber", depth, indef), cl)
		}
	}
	// long-form tag numbers, truncated at every point
	for _, in := range [][]byte{{0x3f}, {0x3f, 0x81}, {0x3f, 0x81, 0x82}, {0x3f, 0x81, 0x01}, {0x3f, 0x81, 0x01, 0x80}, {0x30, 0x84}, {0x30, 0x84, 0x01}, {0x30, 0x80}, {0x30, 0x80, 0x00}, {0x30, 0x81}, {0x24, 0x80, 0x04}} {
		if p := hx.Try(func() { d.call(in) }); p != nil {
			t.Fatalf("ParsePKCS7(%x) panicked: %v", in, p.Val)
		}
		R.Case(true, hx.HashKey("bertrunc", in), "ber_truncated_header")
	}
}

// FuzzC18 is the coverage-guided companion of the perturbation sweeps (thorough tier only, run by the driver):
// the corpus starts from every valid seed of every decoder; the oracle is the same runOne (no panic, bounded allocation).
func FuzzC18(f *testing.F) {
	for i := range decoders {
		for _, s := range decoders[i].seeds {
			if len(s) <= 8192 {
				f.Add(uint8(i), s)
			}
		}
	}
	f.Fuzz(func(t *testing.T, idx uint8, data []byte) {
		if len(data) > 1<<16 {
			return
		}
		runOne(t, &decoders[int(idx)%len(decoders)], data, "fuzz")
	})
}

// Algorithm PARAMETERS of an otherwise intact message, opened by its rightful recipient: the decoders named "...+use" go
// on to decrypt or verify, so a parameter block (nonce, IV, tag length, salt, iteration count, wrapped key) of an unusual
// size is handed to a cipher only AFTER every signature / key-unwrap check has passed. Each short OCTET STRING of each
// seed is replaced by strings of every length 0..40, and each short INTEGER by every one-byte value and a few long ones;
// all enclosing lengths are re-encoded.
func TestC18_ParameterSizes(t *testing.T) {
	var n int64
	for i := range decoders {
		d := &decoders[i]
		if !d.asn1 || !(strings.Contains(d.name, "+use") || strings.Contains(d.name, "reMAC") || strings.Contains(d.name, "(pwd)")) {
			continue
		}
		for _, seed := range d.seeds {
			if blk, _ := pem.Decode(seed); blk != nil || len(seed) > 4096 {
				continue
			}
			paramSizes(seed, func(m []byte) {
				runOne(t, d, m, "parameter_size")
				n++
			})
		}
		R.Case(true, hx.HashKey("paramsize", d.name), "parameter_size_sweep")
	}
	R.Subspace("every OCTET STRING <= 40 bytes x lengths 0..40 and every INTEGER <= 4 bytes x 259 values, of the seeds of the decoders that decrypt or verify after parsing", n, true)
}

// paramSizes calls emit with every re-encoding of der in which one short primitive string (OCTET STRING or a
// context-tagged primitive, <= 40 bytes) has another length 0..40, or one short INTEGER another value. Elements that the
// library writes with the tag octet 0x10 (a SEQUENCE without the constructed bit, as its GCM parameters are) are opened too.
func paramSizes(der []byte, emit func([]byte)) {
	for _, tl := range rder.Walk(der) {
		tl := tl
		here := func(x rder.TLV, _ []byte) bool { return x.Start == tl.Start && x.Tag == tl.Tag && x.Len == tl.Len }
		old := der[tl.Start+tl.HdrLen : tl.Start+tl.HdrLen+tl.Len]
		put := func(c []byte) {
			if m, ok := gen.DERReplaceWhere(der, here, tl.Tag, func([]byte) []byte { return c }); ok {
				emit(m)
			}
		}
		switch {
		case tl.Tag == 0x10 && tl.Len > 0:
			paramSizes(append([]byte(nil), old...), put)
		case (tl.Tag == 0x04 || (tl.Tag >= 0x80 && tl.Tag <= 0x9e)) && tl.Len <= 40:
			for l := 0; l <= 40; l++ {
				if l != tl.Len {
					b := make([]byte, l)
					copy(b, old)
					put(b)
				}
			}
		case tl.Tag == 0x02 && tl.Len <= 4:
			for v := 0; v < 256; v++ {
				put([]byte{byte(v)})
			}
			put([]byte{0x7f, 0xff, 0xff, 0xff})
			put([]byte{0x00, 0xff, 0xff, 0xff, 0xff})
			put([]byte{0x01, 0x00})
			// an OPTIONAL INTEGER member the encoder leaves out (PBKDF2-params.keyLength, a DEFAULT iteration count ...)
			// written out behind this one, with small, negative and large values
			for _, v := range [][]byte{{0}, {1}, {16}, {32}, {33}, {0x7f}, {0xff}, {0xe0}, {0x80}, {0x00, 0x80}, {0x01, 0x00}, {0x80, 0x00}, {0xff, 0x7f}, {0x7f, 0xff, 0xff, 0xff}, {0x80, 0x00, 0x00, 0x00}} {
				if sib, ok := insertAfter(der, tl, append([]byte{0x02, byte(len(v))}, v...)); ok {
					emit(sib)
				}
			}
		}
	}
}

// insertAfter re-encodes der with the element extra placed right behind the TLV tl inside tl's parent; all enclosing
// lengths are adjusted. ok=false when tl has no enclosing constructed TLV.
func insertAfter(der []byte, tl rder.TLV, extra []byte) ([]byte, bool) {
	var parent *rder.TLV
	for _, c := range rder.Walk(der) {
		c := c
		if c.Tag&0x20 != 0 && c.Start < tl.Start && tl.Start+tl.HdrLen+tl.Len <= c.Start+c.HdrLen+c.Len {
			parent = &c // the innermost one wins: Walk lists outer before inner
		}
	}
	if parent == nil {
		return nil, false
	}
	ps, pe := parent.Start+parent.HdrLen, parent.Start+parent.HdrLen+parent.Len
	cut := tl.Start + tl.HdrLen + tl.Len
	body := append(append(append([]byte(nil), der[ps:cut]...), extra...), der[cut:pe]...)
	p := *parent
	return gen.DERReplaceWhere(der, func(x rder.TLV, _ []byte) bool { return x.Start == p.Start && x.Tag == p.Tag && x.Len == p.Len }, p.Tag, func([]byte) []byte { return body })
}

// CHOICE alternatives: every context-tagged element (GeneralName forms, the [0]/[1]/[2] members of distribution points,
// authority key identifiers, explicit wrappers ...) of every ASN.1 seed is given each of the other context tag numbers
// 0..8, primitive and constructed. A parser that walks a list of alternatives must get past the ones it does not use.
func TestC18_ChoiceTags(t *testing.T) {
	var n int64
	for i := range decoders {
		d := &decoders[i]
		if !d.asn1 {
			continue
		}
		for si, seed := range d.seeds {
			if len(seed) > 4096 || (si > 0 && !hx.Thorough() && len(seed) > 1200) {
				continue
			}
			for _, tl := range rder.Walk(seed) {
				if tl.Tag&0xc0 != 0x80 || tl.Tag&0x1f > 8 {
					continue
				}
				for num := byte(0); num <= 8; num++ {
					for _, form := range []byte{0x80, 0xa0} {
						if nt := form | num; nt != tl.Tag {
							m := append([]byte(nil), seed...)
							m[tl.Start] = nt
							runOne(t, d, m, "choice_tag")
							n++
						}
					}
				}
			}
		}
		R.Case(true, hx.HashKey("choicetag", d.name), "choice_tag_sweep")
	}
	R.Subspace("every context-tagged TLV of the ASN.1 seeds x context tags [0]..[8], primitive and constructed", n, true)
}
