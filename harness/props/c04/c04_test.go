//go:build verif

// C04 — SM3 is the GM/T 0004 digest for every input and chunking; hash.Hash contract.
package c04

import (
	"bytes"
	"crypto/hmac"
	"fmt"
	"hash"
	"io"
	"testing"

	"github.com/tjfoc/gmsm/sm3"
	"golang.org/x/crypto/pbkdf2"
	"pgregory.net/rapid"

	"verifharness/gen"
	"verifharness/hx"
	"verifharness/ref/rsm3"
)

var R = hx.NewRecorder("C04", "cases = (message, write partition) / (operation history over one hash object) / (hmac|pbkdf2 key,msg); "+
	"oracle = independent SM3 transcription (ref/rsm3, validated on GM/T 0004 vectors) applied to the model byte string; "+
	"non-trivial = message length >= 1 and (>= 2 writes or a Sum before the end or a derived construction); distinct by hash of (message, plan)")

func TestMain(m *testing.M) {
	R.Require("len=55", "len=56", "len=63", "len=64", "len=119", "len=120", "empty_write", "sum_prefix_nospare", "sum_prefix_spare", "reset_mid", "stream>=2MiB", "oneshot_size_threshold")
	R.Assume("ref/rsm3 reproduces the GM/T 0004 example digests (checked by TestRefSelf and again here)")
	hx.Main(m, R)
}

func refSelf(t *testing.T) {
	if fmt.Sprintf("%x", rsm3.Sum([]byte("abc"))) != "66c7f0f462eeedd9d1f2d46bdc10e4e24167c4875cf2f7a2297da02b8f4ba8e0" {
		t.Fatal("reference SM3 broken")
	}
}

// hostileWrite hands the hash a private copy of data that sits in a larger buffer (spare capacity
// filled with a canary), checks that the hash did not write behind it, and then scribbles over
// the copy: a hash that keeps a reference to the caller's slice instead of copying shows up in
// the next digest.
func hostileWrite(t interface{ Fatalf(string, ...any) }, h io.Writer, data []byte, spare int) {
	buf := gen.WithCap(data, spare, 0x3C)
	n, err := h.Write(buf)
	if n != len(data) || err != nil {
		t.Fatalf("Write returned %d,%v for %d bytes", n, err, len(data))
	}
	if !bytes.Equal(buf, data) || !gen.SpareIntact(buf, 0x3C) {
		t.Fatalf("Write modified the caller's buffer or the memory behind it")
	}
	full := buf[:cap(buf)]
	for i := range full {
		full[i] = 0xDD
	}
}

func lenClass(n int) string {
	switch n {
	case 55, 56, 63, 64, 119, 120:
		return fmt.Sprintf("len=%d", n)
	}
	if n == 0 {
		return "len=0"
	}
	if n%64 == 0 {
		return "len%64==0"
	}
	return ""
}

// one-shot and single-write for every length in a range, content from the seed.
func TestC04_LengthsExhaustive(t *testing.T) {
	refSelf(t)
	max := 300
	if hx.Thorough() {
		max = 8192
	}
	lo, hi := hx.ShardRange(0, max+1)
	for n := lo; n < hi; n++ {
		m := make([]byte, n)
		gen.Fill(m, uint64(hx.Seed())*1000003+uint64(n))
		want := rsm3.Sum(m)
		if got := sm3.Sm3Sum(m); !bytes.Equal(got, want) {
			t.Fatalf("Sm3Sum len=%d: got %x want %x", n, got, want)
		}
		h := sm3.New()
		h.Write(m)
		if got := h.Sum(nil); !bytes.Equal(got, want) {
			t.Fatalf("New/Write/Sum len=%d: got %x want %x", n, got, want)
		}
		// split at every position for short messages, at a few for long ones
		step := 1
		if n > 200 {
			step = n/7 + 1
		}
		for cut := 0; cut <= n; cut += step {
			h := sm3.New()
			h.Write(m[:cut])
			h.Write(m[cut:])
			if got := h.Sum(nil); !bytes.Equal(got, want) {
				t.Fatalf("split len=%d cut=%d: got %x want %x", n, cut, got, want)
			}
			R.Case(n >= 1, hx.HashKey("split", n, cut, hx.Seed()), lenClass(n))
		}
	}
	R.Subspace(fmt.Sprintf("all message lengths 0..%d (one-shot, single write, two-way splits)", max), int64(hi-lo), true)
}

// One-shot and single-write digests at the sizes where implementations switch strategy: every power of two from 256 bytes
// to 1 MiB (thorough: 16 MiB), with the neighbours that are not multiples of the block size, and drawn lengths in between.
func TestC04_OneShotSizeThresholds(t *testing.T) {
	refSelf(t)
	top := 20
	if hx.Thorough() {
		top = 24
	}
	var sizes []int
	for k := 8; k <= top; k++ {
		for _, d := range []int{-65, -64, -63, -1, 0, 1, 31, 63, 64, 65, 97} {
			sizes = append(sizes, 1<<k+d)
		}
	}
	rng := uint64(hx.Seed())*0x9E3779B97F4A7C15 + 12345
	for i := 0; i < 60; i++ {
		rng = rng*6364136223846793005 + 1442695040888963407
		sizes = append(sizes, 2049+int(rng>>33)%200000)
	}
	for i, n := range sizes {
		if i%hx.Shards() != hx.Shard() {
			continue
		}
		m := make([]byte, n)
		gen.Fill(m, uint64(hx.Seed())*7919+uint64(n))
		want := rsm3.Sum(m)
		if got := sm3.Sm3Sum(m); !bytes.Equal(got, want) {
			t.Fatalf("Sm3Sum of %d bytes: got %x, GM/T 0004 gives %x", n, got, want)
		}
		h := sm3.New()
		h.Write(m)
		if got := h.Sum(nil); !bytes.Equal(got, want) {
			t.Fatalf("New/Write/Sum of %d bytes: got %x, GM/T 0004 gives %x", n, got, want)
		}
		R.Case(true, hx.HashKey("thr", n, hx.Seed()), "oneshot_size_threshold", lenClass(n))
	}
}

func TestC04_Chunking(t *testing.T) {
	refSelf(t)
	maxLen := 2048
	if hx.Thorough() {
		maxLen = 8192
	}
	hx.Check(t, hx.N(3000, 40000), func(t *rapid.T) {
		m := gen.Bytes(gen.LenAround(64, maxLen)).Draw(t, "msg")
		plan := gen.Chunks(len(m), 8).Draw(t, "plan")
		h := sm3.New()
		off := 0
		empty := false
		for _, c := range plan {
			if c == 0 {
				empty = true
			}
			hostileWrite(t, h, m[off:off+c], rapid.SampledFrom([]int{0, 1, 64, 200}).Draw(t, "spare"))
			off += c
		}
		want := rsm3.Sum(m)
		got := h.Sum(nil)
		if !bytes.Equal(got, want) {
			t.Fatalf("chunked digest mismatch len=%d plan=%v: got %x want %x", len(m), plan, got, want)
		}
		mc := gen.WithCap(m, 80, 0x3C)
		if one := sm3.Sm3Sum(mc); !bytes.Equal(one, want) {
			t.Fatalf("one-shot mismatch len=%d: got %x want %x", len(m), one, want)
		}
		if !bytes.Equal(mc, m) || !gen.SpareIntact(mc, 0x3C) {
			t.Fatalf("Sm3Sum wrote into its argument or the memory behind it (len=%d)", len(m))
		}
		cls := []string{lenClass(len(m))}
		if empty {
			cls = append(cls, "empty_write")
		}
		R.Case(len(m) >= 1 && len(plan) >= 2, hx.HashKey(m, fmt.Sprint(plan)), cls...)
		R.Sample("chunking", map[string]interface{}{"len": len(m), "plan": plan, "digest": hx.Hex(got)})
	})
}

// Stateful: any interleaving of Write / Sum(nil) / Sum(prefix) / Reset against a model byte slice.
func TestC04_StateMachine(t *testing.T) {
	refSelf(t)
	hx.Check(t, hx.N(2500, 30000), func(t *rapid.T) {
		h := sm3.New()
		var model []byte
		var hist []string
		sums := 0
		var held, heldWant [][]byte
		writesAfterSum := false
		classes := map[string]bool{}
		check := func(prefix []byte, spare int) {
			in := gen.WithCap(prefix, spare, 0xA5)
			keep := append([]byte{}, prefix...)
			out := h.Sum(in)
			want := append(append([]byte{}, prefix...), rsm3.Sum(model)...)
			if !bytes.Equal(out, want) {
				t.Fatalf("history %v: Sum(prefix %d bytes, spare %d) = %x, want prefix||SM3(model)= %x", hist, len(prefix), spare, out, want)
			}
			if !bytes.Equal(in[:len(prefix)], keep) {
				t.Fatalf("history %v: Sum modified the caller's prefix bytes", hist)
			}
			// the returned slice belongs to the caller. Half of the time it is scribbled on (that must not affect the hash), the
			// other half it is kept: no later call on the object may change a digest the caller still holds (crypto/hmac and
			// every P_hash loop keep A(i) from one Sum while asking for the next)
			if (sums+len(hist))%2 == 0 {
				for i := range out {
					out[i] ^= 0xA7
				}
			} else {
				held = append(held, out)
				heldWant = append(heldWant, want)
			}
			for i := range held {
				if !bytes.Equal(held[i], heldWant[i]) {
					t.Fatalf("history %v: a digest returned by an earlier Sum (#%d) changed under a later call: now %x, was %x", hist, i, held[i], heldWant[i])
				}
			}
			sums++
		}
		t.Repeat(map[string]func(*rapid.T){
			"write": func(t *rapid.T) {
				// mostly short writes around the block size; one in five is 0.9-2.5 KiB (the unprocessed tail then lives in
				// the back of a large buffer with spare capacity behind it)
				xl := gen.LenAround(64, 200)
				if gen.OneIn(t, "bigwrite", 5) {
					xl = rapid.IntRange(900, 2500)
				}
				x := gen.Bytes(xl).Draw(t, "x")
				hostileWrite(t, h, x, rapid.SampledFrom([]int{0, 0, 7, 64, 100}).Draw(t, "wspare"))
				model = append(model, x...)
				hist = append(hist, fmt.Sprintf("W%d", len(x)))
				if len(x) == 0 {
					classes["empty_write"] = true
				}
				if sums > 0 {
					writesAfterSum = true
				}
			},
			"sumnil": func(t *rapid.T) {
				hist = append(hist, "S")
				check(nil, 0)
			},
			"sumprefix": func(t *rapid.T) {
				p := gen.Bytes(rapid.IntRange(1, 80)).Draw(t, "prefix")
				spare := rapid.SampledFrom([]int{0, 0, 1, 31, 32, 100}).Draw(t, "spare")
				hist = append(hist, fmt.Sprintf("P%d/%d", len(p), spare))
				if spare < 32 {
					classes["sum_prefix_nospare"] = true
				} else {
					classes["sum_prefix_spare"] = true
				}
				check(p, spare)
			},
			"reset": func(t *rapid.T) {
				h.Reset()
				if len(model) > 0 {
					classes["reset_mid"] = true
				}
				model = model[:0]
				hist = append(hist, "R")
			},
			"": func(t *rapid.T) {
				if h.Size() != 32 || h.BlockSize() != 64 {
					t.Fatalf("Size/BlockSize = %d/%d", h.Size(), h.BlockSize())
				}
			},
		})
		// final: digest equals the model's digest, twice (Sum must not disturb state)
		check(nil, 0)
		check(nil, 0)
		var cl []string
		for c := range classes {
			cl = append(cl, c)
		}
		cl = append(cl, lenClass(len(model)))
		R.Case(len(hist) >= 2 && (sums > 2 || writesAfterSum), hx.HashKey(fmt.Sprint(hist), model), cl...)
		R.Sample("history", map[string]interface{}{"ops": hist, "final_model_len": len(model)})
	})
}

func TestC04_HMAC_PBKDF2(t *testing.T) {
	refSelf(t)
	hx.Check(t, hx.N(1200, 15000), func(t *rapid.T) {
		key := gen.Bytes(gen.LenAround(64, 200)).Draw(t, "key")
		msg := gen.Bytes(gen.LenAround(64, 300)).Draw(t, "msg")
		plan := gen.Chunks(len(msg), 4).Draw(t, "plan")
		mac := hmac.New(func() hash.Hash { return sm3.New() }, key)
		off := 0
		for _, c := range plan {
			mac.Write(msg[off : off+c])
			off += c
		}
		got := mac.Sum(nil)
		want := rsm3.HMAC(key, msg)
		if !bytes.Equal(got, want) {
			t.Fatalf("HMAC-SM3 key=%x msg=%x: got %x want %x", key, msg, got, want)
		}
		// hmac reuses the hash after Reset: second message on the same object
		mac.Reset()
		mac.Write(key)
		if got2, want2 := mac.Sum(nil), rsm3.HMAC(key, key); !bytes.Equal(got2, want2) {
			t.Fatalf("HMAC-SM3 after Reset: got %x want %x", got2, want2)
		}
		// one MAC object reused for a series of messages through Reset (crypto/hmac restores its keyed state from a
		// snapshot when the hash offers one): lengths around the padding and block boundaries, each compared with the
		// definition
		for round := 0; round < 4; round++ {
			m := gen.Bytes(gen.LenAround(64, 200)).Draw(t, "reuseMsg")
			if round%2 == 1 {
				m = gen.BytesN(rapid.IntRange(50, 75).Draw(t, "padZone")).Draw(t, "reuseMsgPad")
			}
			mac.Reset()
			cut := rapid.IntRange(0, len(m)).Draw(t, "reuseCut")
			mac.Write(m[:cut])
			mac.Write(m[cut:])
			if g, w := mac.Sum(nil), rsm3.HMAC(key, m); !bytes.Equal(g, w) {
				t.Fatalf("HMAC-SM3 object reused through Reset, message %d (%d bytes): got %x want %x", round, len(m), g, w)
			}
		}
		// P_SM3 (the TLS PRF's P_hash) written the usual way over ONE crypto/hmac object: A(i) is held from one Sum(nil)
		// while the next Sum(nil) produces the output block
		{
			seed := msg
			a := seed
			var gotP, wantP []byte
			wa := seed
			for blk := 0; blk < 3; blk++ {
				mac.Reset()
				mac.Write(a)
				a = mac.Sum(nil)
				mac.Reset()
				mac.Write(a)
				mac.Write(seed)
				gotP = append(gotP, mac.Sum(nil)...)
				wa = rsm3.HMAC(key, wa)
				wantP = append(wantP, rsm3.HMAC(key, append(append([]byte{}, wa...), seed...))...)
			}
			if !bytes.Equal(gotP, wantP) {
				t.Fatalf("P_SM3 over one crypto/hmac object: got %x want %x", gotP, wantP)
			}
		}
		iter := rapid.IntRange(1, 12).Draw(t, "iter")
		klen := rapid.SampledFrom([]int{1, 16, 31, 32, 33, 48, 64, 65}).Draw(t, "klen")
		salt := gen.Bytes(rapid.IntRange(0, 80)).Draw(t, "salt")
		dk := pbkdf2.Key(key, salt, iter, klen, func() hash.Hash { return sm3.New() })
		if wantdk := rsm3.PBKDF2(key, salt, iter, klen); !bytes.Equal(dk, wantdk) {
			t.Fatalf("PBKDF2-SM3 pw=%x salt=%x iter=%d klen=%d: got %x want %x", key, salt, iter, klen, dk, wantdk)
		}
		cl := "hmac_key<=64"
		if len(key) > 64 {
			cl = "hmac_key>64"
		}
		R.Case(true, hx.HashKey("hmac", key, msg, salt, iter, klen), cl)
		R.Sample("hmac_pbkdf2", map[string]interface{}{"keylen": len(key), "msglen": len(msg), "iter": iter, "klen": klen, "mac": hx.Hex(got)})
	})
}

// Multi-megabyte streams written in generated chunkings (thorough: bigger).
func TestC04_Streams(t *testing.T) {
	refSelf(t)
	// sizes whose BIT length needs the fourth byte of the 64-bit length field (>= 2 MiB = 2^24 bits), thorough also the
	// fifth (>= 512 MiB = 2^32 bits; hashed once, below)
	sizes := []int{1 << 20, 2<<20 + 300, 5<<20 + 17}
	if hx.Thorough() {
		sizes = []int{1 << 20, 3<<20 + 17, 16 << 20, 33<<20 + 5}
	}
	{
		// the incremental reference agrees with the one-shot reference
		chk := make([]byte, 200000)
		gen.Fill(chk, 7)
		r := rsm3.New()
		r.Write(chk[:63])
		r.Write(chk[63:70000])
		r.Write(chk[70000:])
		if !bytes.Equal(r.Sum(nil), rsm3.Sum(chk)) {
			t.Fatalf("harness: incremental reference SM3 disagrees with the one-shot reference")
		}
	}
	if hx.Thorough() && hx.Shard() == 0 {
		// 2^32 + 2^27 + 8*77 bits: written in 1 MiB pieces of a repeating pattern, compared with the reference fed the same way
		h, r := sm3.New(), rsm3.New()
		piece := make([]byte, 1<<20)
		gen.Fill(piece, 0xC04)
		for i := 0; i < 512+16; i++ {
			h.Write(piece)
			r.Write(piece)
		}
		h.Write(piece[:77])
		r.Write(piece[:77])
		if got, want := h.Sum(nil), r.Sum(nil); !bytes.Equal(got, want) {
			t.Fatalf("stream of 528 MiB + 77 bytes: got %x want %x", got, want)
		}
		R.Case(true, hx.HashKey("stream", "528MiB"), "stream>=512MiB")
	}
	hx.Check(t, hx.N(4, 8), func(t *rapid.T) {
		size := rapid.SampledFrom(sizes).Draw(t, "size") + rapid.IntRange(-70, 70).Draw(t, "delta")
		m := make([]byte, size)
		gen.Fill(m, rapid.Uint64().Draw(t, "seed"))
		h := sm3.New()
		off := 0
		writes := 0
		var scratch []byte
		for off < size {
			c := rapid.SampledFrom([]int{1, 63, 64, 65, 4096, 65536, 1<<20 + 1}).Draw(t, "chunk")
			if off+c > size {
				c = size - off
			}
			scratch = append(scratch[:0], m[off:off+c]...) // one reused scratch buffer, like io.Copy
			h.Write(scratch)
			off += c
			writes++
			if writes > 4000 { // keep the tail cheap
				h.Write(m[off:])
				off = size
			}
		}
		if got, want := h.Sum(nil), rsm3.Sum(m); !bytes.Equal(got, want) {
			t.Fatalf("stream size=%d: got %x want %x", size, got, want)
		}
		cl := "stream>=1MiB"
		if size >= 2<<20 {
			cl = "stream>=2MiB"
		}
		R.Case(true, hx.HashKey("stream", size, writes), cl)
	})
}

// Replay corpus: fixed regression cases (published vectors, earlier failures).
func TestC04_Replay(t *testing.T) {
	refSelf(t)
	if got := fmt.Sprintf("%x", sm3.Sm3Sum([]byte("abc"))); got != "66c7f0f462eeedd9d1f2d46bdc10e4e24167c4875cf2f7a2297da02b8f4ba8e0" {
		t.Fatalf("abc: %s", got)
	}
	// Sum(prefix) must return prefix||digest of the data written so far, not hash the prefix.
	h := sm3.New()
	h.Write([]byte("abc"))
	out := h.Sum([]byte("pre"))
	if want := append([]byte("pre"), rsm3.Sum([]byte("abc"))...); !bytes.Equal(out, want) {
		t.Fatalf("Sum(prefix): got %x want %x", out, want)
	}
	if got := h.Sum(nil); !bytes.Equal(got, rsm3.Sum([]byte("abc"))) {
		t.Fatalf("Sum(prefix) changed the running state: %x", got)
	}
	R.Case(true, hx.HashKey("replay-sum-prefix"), "replay")
}
