//go:build verif

// C17 — PKCS#7 / PKCS#12 containers return what was put in, only to the right holder.
package c17

import (
	"bytes"
	"crypto"
	"crypto/ecdsa"
	"crypto/elliptic"
	"crypto/rand"
	"crypto/rsa"
	"crypto/sha1"
	"crypto/sha256"
	stdx509 "crypto/x509"
	"crypto/x509/pkix"
	"encoding/asn1"
	"fmt"
	"math/big"
	"sort"
	"strings"
	"testing"
	"time"

	"github.com/tjfoc/gmsm/pkcs12"
	"github.com/tjfoc/gmsm/sm2"
	gx "github.com/tjfoc/gmsm/x509"
	// every hash the Go ecosystem registers with crypto.RegisterHash is linked into this binary (as it is into many
	// applications): the x509 package's own Hash numbering overlaps crypto.Hash only in part - x509.SM3 is 16, which is
	// crypto.BLAKE2s_256 - and must never be served from that registry
	_ "golang.org/x/crypto/blake2b"
	_ "golang.org/x/crypto/blake2s"
	_ "golang.org/x/crypto/md4"
	_ "golang.org/x/crypto/ripemd160"
	_ "golang.org/x/crypto/sha3"
	"pgregory.net/rapid"

	"verifharness/gen"
	"verifharness/hx"
	"verifharness/ref/rder"
	"verifharness/ref/rsm2"
	"verifharness/ref/rsm3"
	"verifharness/sm2x"
)

var R = hx.NewRecorder("C17", "cases = enveloped-data (content, content-encryption algorithm, SM2 ordering, 1..3 SM2 or RSA recipients, decrypting party), signed-data built by the library (RSA) and by the harness with encoding/asn1 (SM2, RSA; with/without signed attributes; attached/detached) plus semantic mutations, PKCS#12 bundles (key, certificate, CA certs, password) with wrong passwords and byte corruptions; "+
	"oracle = byte-exact recovery by each recipient and error for everyone else, Verify()==nil <=> nothing was altered (signature cross-checked with ref/rsm2), PKCS#12 decode == encode input under the right password, error under any other, never a different key/certificate after corruption; non-trivial = non-empty content or a negative case; distinct by hash of inputs")

var cv = rsm2.Std

// tryB: every library call of this package is CPU-bound; one that has not returned after 30 s (they take milliseconds)
// is reported as non-termination instead of stalling the run.
func tryB(f func()) *hx.PanicInfo {
	p, hung := hx.TryBounded(30*time.Second, f)
	if hung {
		hx.Hang(R, "TestC17", "a PKCS#7 / PKCS#12 call did not return within 30 s (valid inputs take milliseconds)")
	}
	return p
}

func TestMain(m *testing.M) {
	R.Require("ber_mixed_forms", "signed_ber_mixed_forms", "wrapped_key_c3_altered", "recipients>1", "gcm", "descbc", "c1c2c3", "c1c3c2", "rsa_recipient", "non_recipient", "wrong_key", "sm2_signed_attrs", "sm2_signed_noattrs", "rsa_signed_library", "detached",
		"mut:content", "mut:attr", "mut:digest_attr", "mut:signature", "mut:other_key_cert", "p12_pwd_nonascii", "p12_wrong_pwd", "p12_corrupt", "p12_cacerts", "p12_long_pwd", "signers>1", "p12_mac_removed_then_modified", "p12_key_y_ends_in_01..08", "signers_with_different_digests", "rsa_signer_form:0", "rsa_signer_form:1", "rsa_signer_form:2", "rsa_signer_form:3")
	hx.Main(m, R)
}

var (
	rsaKeys  []*rsa.PrivateKey
	rsaCerts []*gx.Certificate
	p256Key  *ecdsa.PrivateKey
	p256Cert *gx.Certificate
	stdCAs   []*stdx509.Certificate
	serial   int64 = 1000
)

func initKeys(t testing.TB) {
	if rsaKeys != nil {
		return
	}
	for i := 0; i < 3; i++ {
		k, err := rsa.GenerateKey(rand.Reader, 1024)
		if err != nil {
			t.Fatal(err)
		}
		rsaKeys = append(rsaKeys, k)
		if i == 0 {
			// certificate 0 is issued by a CA (issuer name != subject name, CA serial == leaf serial):
			// issuer-and-serial matching must use the ISSUER name of the certificate
			rsaCerts = append(rsaCerts, issuedStdCert(t, &k.PublicKey, fmt.Sprintf("rsa %d", i)))
		} else {
			rsaCerts = append(rsaCerts, stdCert(t, &k.PublicKey, k, fmt.Sprintf("rsa %d", i)))
		}
	}
	p256Key, _ = ecdsa.GenerateKey(elliptic.P256(), rand.Reader)
	p256Cert = stdCert(t, &p256Key.PublicKey, p256Key, "p256")
	// CA certificates for the bundles: two with names of their own, a re-issued "ca 0" (same subject, another key and
	// serial number), and one that happens to carry the subject of the fixed end-entity certificate
	for i, cn := range []string{"ca 0", "ca 1", "ca 0", "p256"} {
		_ = i
		k, _ := ecdsa.GenerateKey(elliptic.P256(), rand.Reader)
		c := stdCert(t, &k.PublicKey, k, cn)
		sc, err := stdx509.ParseCertificate(c.Raw)
		if err != nil {
			t.Fatal(err)
		}
		stdCAs = append(stdCAs, sc)
	}
}

var (
	issuingKey  *rsa.PrivateKey
	issuingCert *stdx509.Certificate
)

func issuedStdCert(t testing.TB, pub interface{}, cn string) *gx.Certificate {
	if issuingKey == nil {
		issuingKey, _ = rsa.GenerateKey(rand.Reader, 1024)
		tmpl := &stdx509.Certificate{SerialNumber: big.NewInt(5555), Subject: pkix.Name{CommonName: "issuing ca"}, NotBefore: time.Unix(1600000000, 0), NotAfter: time.Unix(1900000000, 0),
			KeyUsage: stdx509.KeyUsageCertSign, BasicConstraintsValid: true, IsCA: true}
		der, err := stdx509.CreateCertificate(rand.Reader, tmpl, tmpl, &issuingKey.PublicKey, issuingKey)
		if err != nil {
			t.Fatal(err)
		}
		issuingCert, _ = stdx509.ParseCertificate(der)
	}
	tmpl := &stdx509.Certificate{SerialNumber: big.NewInt(5555), Subject: pkix.Name{CommonName: cn}, NotBefore: time.Unix(1600000000, 0), NotAfter: time.Unix(1900000000, 0),
		KeyUsage: stdx509.KeyUsageDigitalSignature | stdx509.KeyUsageKeyEncipherment}
	der, err := stdx509.CreateCertificate(rand.Reader, tmpl, issuingCert, pub, issuingKey)
	if err != nil {
		t.Fatal(err)
	}
	c, err := gx.ParseCertificate(der)
	if err != nil {
		t.Fatal(err)
	}
	return c
}

func stdCert(t testing.TB, pub, priv interface{}, cn string) *gx.Certificate {
	serial++
	tmpl := &stdx509.Certificate{SerialNumber: big.NewInt(serial), Subject: pkix.Name{CommonName: cn}, Issuer: pkix.Name{CommonName: cn},
		NotBefore: time.Unix(1600000000, 0), NotAfter: time.Unix(1900000000, 0), KeyUsage: stdx509.KeyUsageDigitalSignature | stdx509.KeyUsageKeyEncipherment}
	der, err := stdx509.CreateCertificate(rand.Reader, tmpl, tmpl, pub, priv)
	if err != nil {
		t.Fatal(err)
	}
	c, err := gx.ParseCertificate(der)
	if err != nil {
		t.Fatal(err)
	}
	return c
}

func sm2Cert(t interface{ Fatalf(string, ...any) }, k gen.Key, cn string, ser int64) *gx.Certificate {
	tpl := &gx.Certificate{SerialNumber: big.NewInt(ser), Subject: pkix.Name{CommonName: cn, Organization: []string{"verif"}}, NotBefore: time.Unix(1600000000, 0), NotAfter: time.Unix(1900000000, 0),
		SignatureAlgorithm: gx.SM2WithSM3, KeyUsage: gx.KeyUsageDigitalSignature | gx.KeyUsageKeyEncipherment}
	parent, signer := tpl, sm2x.Priv(k)
	if ser%2 == 0 {
		// every other certificate is issued by a CA with another name (and the same serial number as the leaf)
		ca := gen.Key{D: big.NewInt(424243), Pub: cv.BaseMul(big.NewInt(424243))}
		parent = &gx.Certificate{SerialNumber: big.NewInt(ser), Subject: pkix.Name{CommonName: "sm2 issuing ca", Organization: []string{"verif"}}}
		signer = sm2x.Priv(ca)
	}
	der, err := gx.CreateCertificate(tpl, parent, sm2x.Pub(k.Pub), signer)
	if err != nil {
		t.Fatalf("CreateCertificate: %v", err)
	}
	c, err := gx.ParseCertificate(der)
	if err != nil {
		t.Fatalf("ParseCertificate: %v", err)
	}
	return c
}

func contentGen(max int) *rapid.Generator[[]byte] {
	return rapid.Custom(func(t *rapid.T) []byte {
		n := rapid.OneOf(gen.LenAround(8, 64), gen.LenAround(16, 300), rapid.IntRange(0, max)).Draw(t, "clen")
		return gen.BytesN(n).Draw(t, "content")
	})
}

// ------------------------------------------------------------------ enveloped data

// children returns the TLVs directly inside the constructed DER value t of b.
func children(b []byte, t rder.TLV) (out []rder.TLV) {
	for off, end := t.Start+t.HdrLen, t.Start+t.HdrLen+t.Len; off < end; {
		c, err := rder.ReadStrict(b, off)
		if err != nil {
			return out
		}
		out = append(out, c)
		off += c.HdrLen + c.Len
	}
	return out
}

func envelopeKeys(env []byte) (keys []rder.TLV) {
	ci, err := rder.ReadStrict(env, 0)
	if err != nil {
		return nil
	}
	top := children(env, ci)
	if len(top) != 2 {
		return nil
	}
	wrapped := children(env, top[1])
	if len(wrapped) != 1 {
		return nil
	}
	ed := children(env, wrapped[0])
	if len(ed) < 3 || ed[1].Tag != 0x31 {
		return nil
	}
	for _, ri := range children(env, ed[1]) {
		f := children(env, ri)
		if len(f) > 0 && f[len(f)-1].Tag == 0x04 {
			keys = append(keys, f[len(f)-1])
		}
	}
	return keys
}

func TestC17_Enveloped(t *testing.T) {
	initKeys(t)
	defer func() { gx.ContentEncryptionAlgorithm = gx.EncryptionAlgorithmDESCBC }()
	max := 4096
	if hx.Thorough() {
		max = 65536
	}
	hx.Check(t, hx.N(400, 6000), func(t *rapid.T) {
		content := contentGen(max).Draw(t, "content")
		alg := rapid.SampledFrom([]int{gx.EncryptionAlgorithmDESCBC, gx.EncryptionAlgorithmAES128GCM}).Draw(t, "alg")
		gx.ContentEncryptionAlgorithm = alg
		useRSA := gen.OneIn(t, "rsa", 4)
		nrec := rapid.IntRange(1, 3).Draw(t, "nrec")
		cl := []string{map[int]string{gx.EncryptionAlgorithmDESCBC: "descbc", gx.EncryptionAlgorithmAES128GCM: "gcm"}[alg]}
		if nrec > 1 {
			cl = append(cl, "recipients>1")
		}
		var env []byte
		var err error
		mode := sm2.C1C3C2
		var keys []gen.Key
		var certs []*gx.Certificate
		if useRSA {
			certs = rsaCerts[:nrec]
			if p := tryB(func() { env, err = gx.PKCS7Encrypt(content, certs) }); p != nil {
				t.Fatalf("PKCS7Encrypt panicked: %v\n%s", p.Val, p.Stack)
			}
			cl = append(cl, "rsa_recipient")
		} else {
			mode = rapid.SampledFrom([]int{sm2.C1C3C2, sm2.C1C2C3}).Draw(t, "mode")
			cl = append(cl, map[int]string{sm2.C1C3C2: "c1c3c2", sm2.C1C2C3: "c1c2c3"}[mode])
			for i := 0; i < nrec; i++ {
				k := gen.KeyPair(hx.Root()).Draw(t, "rk")
				for _, o := range keys {
					if o.D.Cmp(k.D) == 0 {
						// a distinct, valid replacement (d+i+1 can leave [1, n-2] when d is at the top of the range)
						nd := new(big.Int).Add(k.D, big.NewInt(int64(i+1)))
						nd.Mod(nd, new(big.Int).Sub(cv.N, big.NewInt(2))).Add(nd, big.NewInt(1))
						k = gen.Key{D: nd, Pub: cv.BaseMul(nd)}
					}
				}
				keys = append(keys, k)
				certs = append(certs, sm2Cert(t, k, fmt.Sprintf("recipient %d", i), int64(100+i)))
			}
			if p := tryB(func() { env, err = gx.PKCS7EncryptSM2(content, certs, mode) }); p != nil {
				t.Fatalf("PKCS7EncryptSM2 panicked: %v\n%s", p.Val, p.Stack)
			}
		}
		if err != nil {
			t.Fatalf("PKCS7 encrypt (%d bytes, alg %d): %v", len(content), alg, err)
		}
		dec := func(der []byte, cert *gx.Certificate, key interface{}) (out []byte, err error, pn *hx.PanicInfo) {
			pn = tryB(func() {
				var p7 *gx.PKCS7
				if p7, err = gx.ParsePKCS7(der); err != nil {
					return
				}
				if useRSA {
					out, err = p7.Decrypt(cert, key.(*rsa.PrivateKey))
				} else {
					out, err = p7.DecryptSM2(cert, key.(*sm2.PrivateKey), mode)
				}
			})
			return
		}
		keyOf := func(i int) interface{} {
			if useRSA {
				return rsaKeys[i]
			}
			return sm2x.Priv(keys[i])
		}
		// the same envelope with the encrypted content as a primitive [0] IMPLICIT OCTET STRING (what OpenSSL writes) instead
		// of the constructed form this library writes: both must open alike
		if rapid.Bool().Draw(t, "primitiveContent") {
			prim, ok := gen.DERReplaceWhere(env, func(tl rder.TLV, c []byte) bool {
				if tl.Tag != 0xa0 || len(c) < 2 || c[0] != 0x04 {
					return false
				}
				in, err := rder.ReadStrict(c, 0)
				return err == nil && in.HdrLen+in.Len == len(c)
			}, 0x80, func(old []byte) []byte {
				in, _ := rder.ReadStrict(old, 0)
				return old[in.HdrLen:]
			})
			if !ok {
				t.Fatalf("harness: encrypted content not found in the envelope")
			}
			env = prim
			cl = append(cl, "primitive_encrypted_content")
		}
		// the same envelope as mixed-form BER: a drawn subset of its constructed values in the indefinite-length form, the
		// others definite (what streaming encoders of other toolkits produce); ParsePKCS7 normalises BER, so it opens alike
		if rapid.IntRange(0, 2).Draw(t, "ber") == 0 {
			mask := rapid.Uint64().Draw(t, "bermask")
			if rapid.Bool().Draw(t, "bersparse") {
				mask &= rapid.Uint64().Draw(t, "bermask2")
			}
			ber, nind := gen.BERMixed(env, func(k int) bool { return mask>>(uint(k)%64)&1 == 1 })
			if nind > 0 {
				for i := 0; i < nrec; i++ {
					out, err, pn := dec(ber, certs[i], keyOf(i))
					if pn != nil {
						t.Fatalf("decrypt of the BER form panicked: %v\n%s", pn.Val, pn.Stack)
					}
					if err != nil || !bytes.Equal(out, content) {
						t.Fatalf("recipient %d cannot open the envelope re-encoded as BER with %d of its constructed values in the indefinite-length form (mask %x, %d -> %d bytes): err=%v", i, nind, mask, len(env), len(ber), err)
					}
				}
				cl = append(cl, "ber_mixed_forms")
			}
		}
		// one parsed object serves every recipient, each of them twice: opening an envelope must not use it up
		{
			var shared *gx.PKCS7
			if pn := tryB(func() { shared, err = gx.ParsePKCS7(env) }); pn != nil || err != nil {
				t.Fatalf("ParsePKCS7 of the envelope: err=%v panic=%v", err, pn)
			}
			for round := 0; round < 2; round++ {
				for i := 0; i < nrec; i++ {
					var out []byte
					var derr error
					pn := tryB(func() {
						if useRSA {
							out, derr = shared.Decrypt(certs[i], rsaKeys[i])
						} else {
							out, derr = shared.DecryptSM2(certs[i], sm2x.Priv(keys[i]), mode)
						}
					})
					if pn != nil {
						t.Fatalf("decrypt on a shared parsed envelope panicked: %v\n%s", pn.Val, pn.Stack)
					}
					if derr != nil || !bytes.Equal(out, content) {
						t.Fatalf("recipient %d, decryption #%d on ONE parsed envelope (alg=%d, %v) did not recover the %d-byte content: err=%v got %d bytes", i, round*nrec+i+1, alg, cl, len(content), derr, len(out))
					}
				}
			}
			cl = append(cl, "parsed_envelope_reused")
		}
		for i := 0; i < nrec; i++ {
			out, err, pn := dec(env, certs[i], keyOf(i))
			if pn != nil {
				t.Fatalf("decrypt by recipient %d panicked: %v\n%s", i, pn.Val, pn.Stack)
			}
			if err != nil || !bytes.Equal(out, content) {
				t.Fatalf("recipient %d/%d (rsa=%v alg=%d mode=%d) did not recover the %d-byte content: err=%v got %d bytes", i, nrec, useRSA, alg, mode, len(content), err, len(out))
			}
		}
		// non-recipient certificate
		var nrCert *gx.Certificate
		var nrKey interface{}
		if useRSA {
			nrCert, nrKey = rsaCerts[2], rsaKeys[2]
			if nrec == 3 {
				nrCert, nrKey = nil, nil
			}
		} else {
			ok := gen.Key{D: big.NewInt(987654321), Pub: cv.BaseMul(big.NewInt(987654321))}
			nrCert, nrKey = sm2Cert(t, ok, "outsider", 999), sm2x.Priv(ok)
		}
		if nrCert != nil {
			out, err, pn := dec(env, nrCert, nrKey)
			if pn != nil {
				t.Fatalf("decrypt by a non-recipient panicked: %v\n%s", pn.Val, pn.Stack)
			}
			if err == nil {
				t.Fatalf("a NON-recipient recovered content (%d bytes)", len(out))
			}
			cl = append(cl, "non_recipient")
		}
		// recipient certificate, but another key of the same type
		var wk interface{}
		if useRSA {
			wk = rsaKeys[(0+1)%3]
		} else {
			w := gen.Key{D: big.NewInt(555555), Pub: cv.BaseMul(big.NewInt(555555))}
			wk = sm2x.Priv(w)
		}
		out, err, pn := dec(env, certs[0], wk)
		if pn != nil {
			t.Fatalf("decrypt with a wrong key panicked: %v\n%s", pn.Val, pn.Stack)
		}
		if err == nil && bytes.Equal(out, content) {
			t.Fatalf("content recovered with a key that is not the recipient's")
		}
		if err == nil && alg == gx.EncryptionAlgorithmAES128GCM {
			t.Fatalf("AES-GCM content 'decrypted' without error under a wrong key")
		}
		if !useRSA {
			// the SM2 unwrap itself fails under a foreign key (the hash C3 does not match): no content key, no content - not
			// even garbage that happens to end in a valid DES padding. A dozen further foreign keys per envelope.
			if err == nil {
				t.Fatalf("a foreign SM2 key 'opened' the envelope without error (%d bytes of content)", len(out))
			}
			for j := int64(0); j < 12; j++ {
				fd := new(big.Int).Add(big.NewInt(777000+j), new(big.Int).Lsh(big.NewInt(int64(len(content))+j+1), 100))
				fk := sm2x.Priv(gen.Key{D: fd, Pub: cv.BaseMul(fd)})
				o2, e2, pn2 := dec(env, certs[0], fk)
				if pn2 != nil {
					t.Fatalf("decrypt with a foreign key panicked: %v", pn2.Val)
				}
				if e2 == nil {
					t.Fatalf("a foreign SM2 key 'opened' the envelope without error (%d bytes, equal to the content: %v; alg %d, mode %d)", len(o2), bytes.Equal(o2, content), alg, mode)
				}
			}
		}
		cl = append(cl, "wrong_key")
		// the hash C3 inside a recipient's wrapped content key is part of the SM2 ciphertext's integrity: one bit of it
		// changed and that recipient must be refused (the others are not affected)
		if !useRSA {
			// encryptedKey of every RecipientInfo, found by walking the structure (ContentInfo -> [0] -> EnvelopedData ->
			// SET OF RecipientInfo -> last field): the raw SM2 ciphertext 04 || x || y || (C3 || C2 | C2 || C3)
			c3 := envelopeKeys(env)
			if len(c3) != nrec {
				t.Fatalf("harness: found %d C3 fields for %d recipients", len(c3), nrec)
			}
			victim := rapid.IntRange(0, nrec-1).Draw(t, "c3victim")
			mut := append([]byte{}, env...)
			c3off := c3[victim].Start + c3[victim].HdrLen + 65 // C1C3C2: behind 04 || x || y
			if mode == sm2.C1C2C3 {
				c3off = c3[victim].Start + c3[victim].HdrLen + c3[victim].Len - 32
			}
			mut[c3off+rapid.IntRange(0, 31).Draw(t, "c3pos")] ^= 1 << uint(rapid.IntRange(0, 7).Draw(t, "c3bit"))
			// (recipientInfos is a SET OF: the order on the wire need not be the order of the certificates - exactly one
			// recipient, whichever it is, must now be refused, and every other one must still recover the content)
			refused := 0
			for i := 0; i < nrec; i++ {
				out, err, pn := dec(mut, certs[i], keyOf(i))
				if pn != nil {
					t.Fatalf("decrypt of an envelope with an altered C3 panicked: %v\n%s", pn.Val, pn.Stack)
				}
				if err != nil {
					refused++
				} else if !bytes.Equal(out, content) {
					t.Fatalf("recipient %d got %d bytes of OTHER content after one wrapped key's C3 was altered", i, len(out))
				}
			}
			if refused != 1 {
				t.Fatalf("one recipient's wrapped content key had a bit of its hash C3 altered: %d of %d recipients were refused, want exactly 1 (mode %d, alg %d)", refused, nrec, mode, alg)
			}
			cl = append(cl, "wrapped_key_c3_altered")
			// ... and the wrapped key of one recipient cut down to every shorter length class (re-encoded, so that the envelope
			// stays well-formed): that recipient gets an error - never a panic -, nobody else is affected
			vk := c3[victim]
			for _, keep := range []int{0, 1, 2, 33, 64, 65, 96, 97, vk.Len - 1} {
				if keep >= vk.Len {
					continue
				}
				cut, ok := gen.DERReplaceWhere(env, func(tl rder.TLV, _ []byte) bool { return tl.Start == vk.Start && tl.Tag == 0x04 && tl.Len == vk.Len }, 0x04,
					func(old []byte) []byte { return old[:keep] })
				if !ok {
					t.Fatalf("harness: wrapped key not found again")
				}
				refused := 0
				for i := 0; i < nrec; i++ {
					out, err, pn := dec(cut, certs[i], keyOf(i))
					if pn != nil {
						t.Fatalf("decrypt PANICKED on an envelope whose wrapped key was cut to %d of %d bytes: %v\n%s", keep, vk.Len, pn.Val, pn.Stack)
					}
					if err != nil {
						refused++
					} else if !bytes.Equal(out, content) {
						t.Fatalf("recipient %d got OTHER content after a wrapped key was cut to %d bytes", i, keep)
					}
				}
				if refused != 1 {
					t.Fatalf("one wrapped key cut to %d of %d bytes: %d of %d recipients refused, want exactly 1", keep, vk.Len, refused, nrec)
				}
			}
			cl = append(cl, "wrapped_key_truncated")
		}
		// corruption: sampled single-byte substitutions
		nm := 6
		for i := 0; i < nm; i++ {
			pos := rapid.IntRange(0, len(env)-1).Draw(t, "cpos")
			b := env[pos]
			nb := rapid.SampledFrom([]byte{0x00, 0x01, 0x7f, 0x80, 0xff, b ^ 1, b ^ 0x80}).Draw(t, "cval")
			if nb == b {
				continue
			}
			mut := append([]byte{}, env...)
			mut[pos] = nb
			out, err, pn := dec(mut, certs[0], keyOf(0))
			if pn != nil {
				t.Fatalf("decrypt of a corrupted envelope panicked (byte %d: %#x->%#x): %v\n%s", pos, b, nb, pn.Val, pn.Stack)
			}
			if err == nil && !bytes.Equal(out, content) && alg == gx.EncryptionAlgorithmAES128GCM {
				t.Fatalf("corrupted AES-GCM envelope (byte %d: %#x->%#x) decrypted to DIFFERENT content without error", pos, b, nb)
			}
			R.Case(true, hx.HashKey("envmut", mut), "env_corrupt")
		}
		R.Case(len(content) > 0, hx.HashKey(env), cl...)
		R.Sample("enveloped", map[string]interface{}{"len": len(content), "alg": alg, "rsa": useRSA, "recipients": nrec, "mode": mode})
	})
}

// ------------------------------------------------------------------ signed data

type algID = pkix.AlgorithmIdentifier

type hContentInfo struct {
	ContentType asn1.ObjectIdentifier
	Content     asn1.RawValue `asn1:"explicit,optional,tag:0"`
}

type hIssuerSerial struct {
	Issuer asn1.RawValue
	Serial *big.Int
}

type hAttr struct {
	Type  asn1.ObjectIdentifier
	Value asn1.RawValue `asn1:"set"`
}

type hSignerInfo struct {
	Version   int
	IAS       hIssuerSerial
	DigestAlg algID
	Attrs     asn1.RawValue `asn1:"optional,tag:0"`
	SigAlg    algID
	Sig       []byte
}

type hSignedData struct {
	Version    int
	DigestAlgs []algID `asn1:"set"`
	CI         hContentInfo
	Certs      asn1.RawValue `asn1:"optional,tag:0"`
	Signers    []hSignerInfo `asn1:"set"`
}

var (
	oidData       = asn1.ObjectIdentifier{1, 2, 840, 113549, 1, 7, 1}
	oidSignedData = asn1.ObjectIdentifier{1, 2, 840, 113549, 1, 7, 2}
	oidSMSigned   = asn1.ObjectIdentifier{1, 2, 156, 10197, 6, 1, 4, 2, 2}
	oidCT         = asn1.ObjectIdentifier{1, 2, 840, 113549, 1, 9, 3}
	oidMD         = asn1.ObjectIdentifier{1, 2, 840, 113549, 1, 9, 4}
	oidExtraAttr  = asn1.ObjectIdentifier{1, 2, 3, 4, 5, 6, 7}
	oidSM3hash    = asn1.ObjectIdentifier{1, 2, 156, 10197, 1, 401}
	oidSM2sig     = asn1.ObjectIdentifier{1, 2, 156, 10197, 1, 501}
	oidSHA1       = asn1.ObjectIdentifier{1, 3, 14, 3, 2, 26}
	oidSHA1RSA    = asn1.ObjectIdentifier{1, 2, 840, 113549, 1, 1, 5}
	oidSHA256     = asn1.ObjectIdentifier{2, 16, 840, 1, 101, 3, 4, 2, 1}
	oidSHA256RSA  = asn1.ObjectIdentifier{1, 2, 840, 113549, 1, 1, 11}
	oidRSAEnc     = asn1.ObjectIdentifier{1, 2, 840, 113549, 1, 1, 1}
)

type attrKV struct {
	typ asn1.ObjectIdentifier
	val interface{}
}

// encodeAttrs returns the DER SET OF Attribute content (sorted), i.e. the bytes that follow the SET header.
func encodeAttrs(kvs []attrKV) []byte {
	var enc [][]byte
	for _, kv := range kvs {
		v, err := asn1.Marshal(kv.val)
		if err != nil {
			panic(err)
		}
		a, err := asn1.Marshal(hAttr{Type: kv.typ, Value: asn1.RawValue{Tag: 17, IsCompound: true, Bytes: v}})
		if err != nil {
			panic(err)
		}
		enc = append(enc, a)
	}
	sort.Slice(enc, func(i, j int) bool { return bytes.Compare(enc[i], enc[j]) < 0 })
	return bytes.Join(enc, nil)
}

func derSet(content []byte) []byte {
	b, err := asn1.Marshal(asn1.RawValue{Class: 0, Tag: 17, IsCompound: true, Bytes: content})
	if err != nil {
		panic(err)
	}
	return b
}

type sdSpec struct {
	sm2        bool
	smOuterOID bool
	content    []byte
	detached   bool
	withAttrs  bool
	extra      []byte
	signerKey  interface{} // *gen.Key or *rsa.PrivateKey
	second     bool        // a second, RSA, signer (rsaKeys[2]) whose digest algorithm differs from the first signer's
	rsaForm    int         // RSA signers: 0 SHA-1 + sha1WithRSAEncryption, 1 SHA-1 + rsaEncryption, 2 SHA-256 + sha256WithRSAEncryption, 3 SHA-256 + rsaEncryption (the usual CMS form)
	cert       *gx.Certificate
	// mutations applied after signing
	mut string
}

func hashOf(s *sdSpec, data []byte) []byte {
	if s.sm2 {
		return rsm3.Sum(data)
	}
	if s.rsaForm >= 2 {
		h := sha256.Sum256(data)
		return h[:]
	}
	h := sha1.Sum(data)
	return h[:]
}

func buildSigned(t *rapid.T, s *sdSpec, otherCert *gx.Certificate, otherKey interface{}) []byte {
	digAlg, sigAlg := algID{Algorithm: oidSHA1}, algID{Algorithm: oidSHA1RSA}
	switch s.rsaForm {
	case 1:
		sigAlg = algID{Algorithm: oidRSAEnc}
	case 2:
		digAlg, sigAlg = algID{Algorithm: oidSHA256}, algID{Algorithm: oidSHA256RSA}
	case 3:
		digAlg, sigAlg = algID{Algorithm: oidSHA256}, algID{Algorithm: oidRSAEnc}
	}
	if s.sm2 {
		digAlg, sigAlg = algID{Algorithm: oidSM3hash}, algID{Algorithm: oidSM2sig}
	}
	kvs := []attrKV{{oidCT, oidData}, {oidMD, hashOf(s, s.content)}, {oidExtraAttr, s.extra}}
	var toSign []byte
	var attrContent []byte
	if s.withAttrs {
		attrContent = encodeAttrs(kvs)
		toSign = derSet(attrContent)
	} else {
		toSign = s.content
	}
	signWith := s.signerKey
	if s.mut == "other_key_sig" {
		signWith = otherKey
	}
	var sig []byte
	switch k := signWith.(type) {
	case *gen.Key:
		e, _ := cv.E(k.Pub, rsm2.DefaultUID, toSign)
		nonce := gen.BigBelow(new(big.Int).Sub(cv.N, big.NewInt(2))).Draw(t, "signonce")
		nonce.Add(nonce, big.NewInt(1))
		r, ss, ok := cv.SignE(k.D, e, nonce)
		if !ok {
			t.Skip("nonce retry")
		}
		var err error
		sig, err = asn1.Marshal(struct{ R, S *big.Int }{r, ss})
		if err != nil {
			t.Fatalf("%v", err)
		}
	case *rsa.PrivateKey:
		h, hid := hashOf(&sdSpec{rsaForm: s.rsaForm}, toSign), crypto.SHA1
		if s.rsaForm >= 2 {
			hid = crypto.SHA256
		}
		var err error
		sig, err = rsa.SignPKCS1v15(rand.Reader, k, hid, h)
		if err != nil {
			t.Fatalf("%v", err)
		}
	}
	content := s.content
	switch s.mut {
	case "content":
		content = append([]byte{}, s.content...)
		if len(content) == 0 {
			content = []byte{0}
		} else {
			content[rapid.IntRange(0, len(content)-1).Draw(t, "mi")] ^= 0x04
		}
	case "attr":
		ex := append([]byte{}, s.extra...)
		ex = append(ex, 'x')
		kvs[2].val = ex
		attrContent = encodeAttrs(kvs)
	case "digest_attr":
		d := append([]byte{}, hashOf(s, s.content)...)
		d[0] ^= 1
		kvs[1].val = d
		attrContent = encodeAttrs(kvs)
	case "signature":
		sig = append([]byte{}, sig...)
		sig[len(sig)-1-rapid.IntRange(0, 8).Draw(t, "sigbyte")] ^= 0x10
	case "sig_reencoded":
		// the same (r, s) with a third INTEGER inside the SEQUENCE: not the signature value that was produced
		if len(sig) > 8 && sig[0] == 0x30 && int(sig[1]) == len(sig)-2 && sig[1] < 0x7b {
			body := append(append([]byte{}, sig[2:]...), 0x02, 0x01, 0x01)
			sig = append([]byte{0x30, byte(len(body))}, body...)
		} else {
			sig = append(append([]byte{}, sig...), 0)
		}
	}
	cert := s.cert
	if s.mut == "other_key_cert" {
		cert = otherCert // same issuer and serial, different key
	}
	si := hSignerInfo{Version: 1, IAS: hIssuerSerial{Issuer: asn1.RawValue{FullBytes: cert.RawIssuer}, Serial: cert.SerialNumber}, DigestAlg: digAlg, SigAlg: sigAlg, Sig: sig}
	if s.withAttrs {
		si.Attrs = asn1.RawValue{Class: 2, Tag: 0, IsCompound: true, Bytes: attrContent}
	}
	digAlgs, signers, certBytes := []algID{digAlg}, []hSignerInfo{si}, append([]byte{}, cert.Raw...)
	if s.second {
		// the other digest family than the first signer's: SHA-256 next to SM3 / SHA-1, SHA-1 next to SHA-256
		form2 := 3
		if !s.sm2 && s.rsaForm >= 2 {
			form2 = 1
		}
		s2 := &sdSpec{rsaForm: form2}
		dig2, sig2 := algID{Algorithm: oidSHA256}, algID{Algorithm: oidRSAEnc}
		hid := crypto.SHA256
		if form2 == 1 {
			dig2, hid = algID{Algorithm: oidSHA1}, crypto.SHA1
		}
		toSign2 := s.content
		var attr2 []byte
		if s.withAttrs {
			attr2 = encodeAttrs([]attrKV{{oidCT, oidData}, {oidMD, hashOf(s2, s.content)}})
			toSign2 = derSet(attr2)
		}
		sg, err := rsa.SignPKCS1v15(rand.Reader, rsaKeys[2], hid, hashOf(s2, toSign2))
		if err != nil {
			t.Fatalf("%v", err)
		}
		c2 := rsaCerts[2]
		si2 := hSignerInfo{Version: 1, IAS: hIssuerSerial{Issuer: asn1.RawValue{FullBytes: c2.RawIssuer}, Serial: c2.SerialNumber}, DigestAlg: dig2, SigAlg: sig2, Sig: sg}
		if s.withAttrs {
			si2.Attrs = asn1.RawValue{Class: 2, Tag: 0, IsCompound: true, Bytes: attr2}
		}
		digAlgs, signers, certBytes = append(digAlgs, dig2), append(signers, si2), append(certBytes, c2.Raw...)
	}
	ci := hContentInfo{ContentType: oidData}
	if !s.detached {
		oct, _ := asn1.Marshal(content)
		ci.Content = asn1.RawValue{Class: 2, Tag: 0, IsCompound: true, Bytes: oct}
	}
	sd := hSignedData{Version: 1, DigestAlgs: digAlgs, CI: ci, Certs: asn1.RawValue{Class: 2, Tag: 0, IsCompound: true, Bytes: certBytes}, Signers: signers}
	inner, err := asn1.Marshal(sd)
	if err != nil {
		t.Fatalf("marshal signedData: %v", err)
	}
	outerOID := oidSignedData
	if s.smOuterOID {
		outerOID = oidSMSigned
	}
	out, err := asn1.Marshal(hContentInfo{ContentType: outerOID, Content: asn1.RawValue{Class: 2, Tag: 0, IsCompound: true, Bytes: inner}})
	if err != nil {
		t.Fatalf("marshal contentInfo: %v", err)
	}
	return out
}

func TestC17_Signed(t *testing.T) {
	initKeys(t)
	hx.Check(t, hx.N(500, 8000), func(t *rapid.T) {
		s := &sdSpec{sm2: !gen.OneIn(t, "rsa", 4), content: contentGen(2000).Draw(t, "content"), detached: gen.OneIn(t, "detached", 4), withAttrs: rapid.Bool().Draw(t, "attrs"),
			extra: rapid.SliceOfN(rapid.Byte(), 0, 20).Draw(t, "extra")}
		// the SET of signed attributes in every DER length form: short (< 128 bytes), 0x81 (128..255), 0x82 (256..65535) and,
		// rarely, 0x83 - the signature covers the SET exactly as encoded
		switch gen.Uniform(t, "attrsize", 6) {
		case 0:
			s.extra = gen.BytesN(rapid.IntRange(60, 170).Draw(t, "extra81")).Draw(t, "extra81b")
		case 1:
			s.extra = gen.BytesN(rapid.IntRange(171, 400).Draw(t, "extra82")).Draw(t, "extra82b")
		case 2:
			if gen.OneIn(t, "extra83", 4) {
				s.extra = gen.BytesN(66000).Draw(t, "extra83b")
			}
		}
		var otherCert *gx.Certificate
		var otherKey interface{}
		if s.sm2 {
			k := gen.KeyPair(hx.Root()).Draw(t, "signer")
			s.signerKey = &k
			s.cert = sm2Cert(t, k, "signer", 4242)
			o := gen.Key{D: big.NewInt(31337), Pub: cv.BaseMul(big.NewInt(31337))}
			if o.D.Cmp(k.D) == 0 {
				o = gen.Key{D: big.NewInt(31338), Pub: cv.BaseMul(big.NewInt(31338))}
			}
			otherKey = &o
			otherCert = sm2Cert(t, o, "signer", 4242) // same subject/issuer name and serial
			s.smOuterOID = rapid.Bool().Draw(t, "smoid")
		} else {
			s.rsaForm = gen.Uniform(t, "rsaform", 4)
			R.Class(fmt.Sprintf("rsa_signer_form:%d", s.rsaForm))
			s.signerKey = rsaKeys[0]
			s.cert = rsaCerts[0]
			otherKey = rsaKeys[1]
			// same issuer+serial with another RSA key
			serial--
			tmpl := &stdx509.Certificate{SerialNumber: s.cert.SerialNumber, Subject: pkix.Name{CommonName: "rsa 0"}, NotBefore: time.Unix(1600000000, 0), NotAfter: time.Unix(1900000000, 0)}
			der, err := stdx509.CreateCertificate(rand.Reader, tmpl, tmpl, &rsaKeys[1].PublicKey, rsaKeys[1])
			if err != nil {
				t.Fatalf("%v", err)
			}
			otherCert, err = gx.ParseCertificate(der)
			if err != nil {
				t.Fatalf("%v", err)
			}
		}
		if gen.OneIn(t, "secondSigner", 4) {
			// two signers whose digest algorithms differ (SM3 or SHA-1 next to SHA-256, SHA-256 next to SHA-1)
			s.second = true
			R.Class("signers_with_different_digests")
		}
		muts := []string{"", "", "content", "signature", "other_key_sig", "other_key_cert"}
		if s.sm2 {
			muts = append(muts, "sig_reencoded")
		}
		if len(s.content) > 0 {
			// the object is genuine; the verifier is handed other content (none, empty, a prefix, an extension)
			muts = append(muts, "verify_nil", "verify_empty", "verify_prefix", "verify_extended")
		}
		if s.withAttrs {
			muts = append(muts, "attr", "digest_attr")
		}
		s.mut = rapid.SampledFrom(muts).Draw(t, "mut")
		if s.detached && s.mut == "content" && !s.withAttrs {
			s.mut = "signature"
		}
		der := buildSigned(t, s, otherCert, otherKey)
		var p7 *gx.PKCS7
		var perr, verr error
		if p := tryB(func() {
			p7, perr = gx.ParsePKCS7(der)
			if perr != nil {
				return
			}
			if s.detached {
				c := s.content
				if s.mut == "content" {
					c = append(append([]byte{}, s.content...), 'z')
				}
				p7.Content = c
			}
			switch s.mut {
			case "verify_nil":
				p7.Content = nil
			case "verify_empty":
				p7.Content = []byte{}
			case "verify_prefix":
				p7.Content = append([]byte{}, s.content[:rapid.IntRange(0, len(s.content)-1).Draw(t, "prefix")]...)
			case "verify_extended":
				p7.Content = append(append([]byte{}, s.content...), 0)
			}
			verr = p7.Verify()
		}); p != nil {
			t.Fatalf("ParsePKCS7/Verify panicked (mut=%q): %v\n%s", s.mut, p.Val, p.Stack)
		}
		kind := "rsa"
		if s.sm2 {
			kind = "sm2"
		}
		cl := []string{}
		if s.withAttrs {
			cl = append(cl, kind+"_signed_attrs")
		} else {
			cl = append(cl, kind+"_signed_noattrs")
		}
		if s.detached {
			cl = append(cl, "detached")
		}
		if s.mut == "" {
			if perr != nil {
				t.Fatalf("ParsePKCS7 of a genuine %s signed-data failed: %v\n%x", kind, perr, der)
			}
			if !s.detached && !bytes.Equal(p7.Content, s.content) {
				t.Fatalf("parsed content differs from signed content")
			}
			if verr != nil {
				t.Fatalf("Verify REJECTED a genuine %s signed-data (attrs=%v detached=%v, %d-byte content): %v", kind, s.withAttrs, s.detached, len(s.content), verr)
			}
			cl = append(cl, "genuine")
		} else {
			if perr == nil && verr == nil {
				t.Fatalf("Verify ACCEPTED a %s signed-data altered by %q (attrs=%v detached=%v)", kind, s.mut, s.withAttrs, s.detached)
			}
			m := s.mut
			if m == "other_key_sig" {
				m = "signature"
			}
			cl = append(cl, "mut:"+m)
		}
		R.Case(len(s.content) > 0 || s.mut != "", hx.HashKey(der), cl...)
		R.Sample("signed", map[string]interface{}{"kind": kind, "attrs": s.withAttrs, "detached": s.detached, "mut": s.mut, "len": len(s.content)})
	})
}

// objects produced by the library's own signer must verify, and stop verifying when altered
func TestC17_LibrarySigner(t *testing.T) {
	initKeys(t)
	hx.Check(t, hx.N(150, 2000), func(t *rapid.T) {
		content := contentGen(1000).Draw(t, "content")
		detach := gen.OneIn(t, "detach", 4)
		nsigners := rapid.IntRange(1, 3).Draw(t, "nsigners")
		var der []byte
		var err error
		extraLen := 0
		if p := tryB(func() {
			var sd *gx.SignedData
			if sd, err = gx.NewSignedData(content); err != nil {
				return
			}
			cfg := gx.SignerInfoConfig{}
			if rapid.Bool().Draw(t, "extraattr") {
				// (sizes that take the SET of signed attributes through the DER length forms: short, 0x81, 0x82)
				extraLen = rapid.SampledFrom([]int{5, 5, 90, 200, 300, 1000}).Draw(t, "extralen")
				cfg.ExtraSignedAttributes = []gx.Attribute{{Type: oidExtraAttr, Value: strings.Repeat("h", extraLen)}}
			}
			if err = sd.AddSigner(rsaCerts[0], rsaKeys[0], cfg); err != nil {
				return
			}
			for i := 1; i < nsigners; i++ {
				if err = sd.AddSigner(rsaCerts[i], rsaKeys[i], gx.SignerInfoConfig{}); err != nil {
					return
				}
			}
			if detach {
				sd.Detach()
			}
			der, err = sd.Finish()
		}); p != nil {
			t.Fatalf("library signer panicked: %v\n%s", p.Val, p.Stack)
		}
		if err != nil {
			t.Fatalf("library signer: %v", err)
		}
		parseIn := der
		if rapid.IntRange(0, 2).Draw(t, "ber") == 0 {
			mask := rapid.Uint64().Draw(t, "bermask") & rapid.Uint64().Draw(t, "bermask2")
			if ber, nind := gen.BERMixed(der, func(k int) bool { return mask>>(uint(k)%64)&1 == 1 }); nind > 0 {
				parseIn = ber
				R.Class("signed_ber_mixed_forms")
			}
		}
		p7, err := gx.ParsePKCS7(parseIn)
		if err != nil {
			t.Fatalf("ParsePKCS7 of the library's own signed-data (%d bytes; as BER: %v): %v", len(parseIn), len(parseIn) != len(der), err)
		}
		if detach {
			p7.Content = content
		}
		if err := p7.Verify(); err != nil {
			t.Fatalf("the library's own (RSA) signed-data does not verify: %v", err)
		}
		// independent check of what the library's signer wrote: the first signer's signature is an RSA PKCS#1 v1.5 / SHA-1
		// signature over the DER encoding of its signed attributes as a SET OF (the [0] IMPLICIT tag replaced by 0x31)
		if extraLen > 0 {
			oidEnc, _ := asn1.Marshal(oidExtraAttr)
			tlvs := rder.Walk(der)
			checked := false
			best := -1
			for i, tl := range tlvs {
				// the innermost [0] that contains the extra attribute's OID is the signer's signedAttrs
				if tl.Tag == 0xa0 && bytes.Contains(der[tl.Start+tl.HdrLen:tl.Start+tl.HdrLen+tl.Len], oidEnc) && (best < 0 || tl.Len < tlvs[best].Len) {
					best = i
				}
			}
			if best >= 0 {
				tl := tlvs[best]
				body := der[tl.Start+tl.HdrLen : tl.Start+tl.HdrLen+tl.Len]
				end := tl.Start + tl.HdrLen + tl.Len
				var sig []byte
				for _, nx := range tlvs[best+1:] {
					if nx.Start >= end && nx.Tag == 0x04 {
						sig = der[nx.Start+nx.HdrLen : nx.Start+nx.HdrLen+nx.Len]
						break
					}
				}
				set := append(rder.EncLen(0x31, len(body)), body...)
				dg := sha1.Sum(set)
				if verr := rsa.VerifyPKCS1v15(&rsaKeys[0].PublicKey, crypto.SHA1, dg[:], sig); verr != nil {
					t.Fatalf("the signature the library wrote is not an RSA/SHA-1 signature over the DER SET of the %d bytes of signed attributes (extra attribute of %d bytes): %v", len(body), extraLen, verr)
				}
				checked = true
			}
			if !checked {
				t.Fatalf("harness: signed attributes of the first signer not found")
			}
			R.Class(fmt.Sprintf("library_signature_checked_independently:attrs_len_form_%d", map[bool]int{true: 2, false: 1}[extraLen >= 200]))
		}
		// altering the content must break it
		p7.Content = append(append([]byte{}, content...), 1)
		if err := p7.Verify(); err == nil {
			t.Fatalf("library signed-data still verifies with altered content")
		}
		// several signers: the object verifies only if EVERY signer's signature does - one altered signature, whichever
		// position it has in the SET, must be enough to fail
		p7.Content = content
		if len(p7.Signers) != nsigners {
			t.Fatalf("parsed %d signers, %d were added", len(p7.Signers), nsigners)
		}
		for i := range p7.Signers {
			orig := p7.Signers[i].EncryptedDigest
			bad := append([]byte{}, orig...)
			bad[len(bad)/2] ^= 0x01
			p7.Signers[i].EncryptedDigest = bad
			var verr error
			if pn := tryB(func() { verr = p7.Verify() }); pn != nil {
				t.Fatalf("Verify panicked: %v", pn.Val)
			}
			if verr == nil {
				t.Fatalf("signed-data with %d signers still verifies after the signature of signer #%d (in wire order) was altered", nsigners, i)
			}
			p7.Signers[i].EncryptedDigest = orig
		}
		if err := p7.Verify(); err != nil {
			t.Fatalf("restored signed-data no longer verifies: %v", err)
		}
		cl := []string{"rsa_signed_library"}
		if detach {
			cl = append(cl, "detached")
		}
		if nsigners > 1 {
			cl = append(cl, "signers>1")
		}
		R.Case(true, hx.HashKey(der), cl...)
	})
}

// ------------------------------------------------------------------ PKCS#12

func pwdGen() *rapid.Generator[string] {
	// the PKCS#12 key derivation works on the BMPString of the password in 64-byte blocks (32 characters): lengths
	// around one and several blocks, ASCII and not
	long := rapid.Custom(func(t *rapid.T) string {
		n := rapid.SampledFrom([]int{30, 31, 32, 33, 63, 64, 65, 100, 200}).Draw(t, "plen")
		unit := rapid.SampledFrom([]string{"abcdefghij", "密码口令", "pä5"}).Draw(t, "unit")
		var rs []rune
		for len(rs) < n {
			rs = append(rs, []rune(unit)...)
		}
		return string(rs[:n])
	})
	return rapid.OneOf(rapid.Just(""), rapid.StringMatching(`[a-zA-Z0-9 !#]{1,16}`), rapid.SampledFrom([]string{"密码口令", "pässwörd", "Пароль1", "ｐａｓｓ"}), long)
}

func TestC17_PKCS12(t *testing.T) {
	initKeys(t)
	hx.Check(t, hx.N(120, 2000), func(t *rapid.T) {
		pwd := pwdGen().Draw(t, "pwd")
		useP256 := gen.OneIn(t, "p256", 5)
		var priv interface{}
		var cert *gx.Certificate
		var wantD, wantX, wantY *big.Int
		dLen := 32
		keyClass := "p12_key:sm2"
		if useP256 {
			priv, cert = p256Key, p256Cert
			wantD, wantX, wantY = p256Key.D, p256Key.X, p256Key.Y
			keyClass = "p12_key:p256_fixed"
		} else if gen.OneIn(t, "stdkey", 3) {
			// the other key types Encode takes: RSA, and ECDSA on each NIST curve with a generated scalar - full width
			// (top byte set), ordinary, or with leading zero bytes
			cert = p256Cert // (the container does not tie the key to the certificate)
			if kind := rapid.SampledFrom([]string{"rsa", "p224", "p256", "p384", "p521", "p521"}).Draw(t, "stdkind"); kind == "rsa" {
				rk := rsaKeys[rapid.IntRange(0, 2).Draw(t, "rsai")]
				priv, wantD, wantX, wantY = rk, rk.D, rk.N, big.NewInt(int64(rk.E))
				dLen = len(rk.D.Bytes())
				keyClass = "p12_key:rsa"
			} else {
				curve := map[string]elliptic.Curve{"p224": elliptic.P224(), "p256": elliptic.P256(), "p384": elliptic.P384(), "p521": elliptic.P521()}[kind]
				dLen = (curve.Params().N.BitLen() + 7) / 8
				raw := gen.BytesN(dLen).Draw(t, "ecscalar")
				shape := rapid.SampledFrom([]string{"full", "any", "lz"}).Draw(t, "ecshape")
				switch shape {
				case "full":
					raw[0] |= 0x80
				case "lz":
					raw[0] = 0
				}
				d := new(big.Int).SetBytes(raw)
				if kind == "p521" {
					d.SetBit(d, 521, 0).SetBit(d, 522, 0).SetBit(d, 523, 0).SetBit(d, 524, 0).SetBit(d, 525, 0).SetBit(d, 526, 0).SetBit(d, 527, 0)
					if shape == "full" {
						d.SetBit(d, 520, 1)
					}
				}
				d.Mod(d, new(big.Int).Sub(curve.Params().N, big.NewInt(1))).Add(d, big.NewInt(1))
				ek := &ecdsa.PrivateKey{D: d}
				ek.Curve = curve
				ek.X, ek.Y = curve.ScalarBaseMult(d.Bytes())
				priv, wantD, wantX, wantY = ek, d, ek.X, ek.Y
				keyClass = "p12_key:" + kind + "_" + shape
			}
		} else {
			k := gen.KeyPair(hx.Root()).Draw(t, "key")
			if tgt := gen.Uniform(t, "ylast", 12); tgt >= 1 && tgt <= 8 {
				// the encrypted key structure ends with the public point: keys whose Y ends in a byte 01..08 make the
				// plaintext end in a value that is also a possible padding length of the 8-byte block cipher
				g1 := cv.BaseMul(big.NewInt(1))
				pt, d := k.Pub, new(big.Int).Set(k.D)
				lim := new(big.Int).Sub(cv.N, big.NewInt(3))
				for i := 0; i < 6000 && d.Cmp(lim) < 0; i++ {
					_, y := pt.Affine()
					if yb := y.Bytes(); len(yb) > 0 && int(yb[len(yb)-1]) == tgt {
						k = gen.Key{D: d, Pub: pt, Class: "y_ends_in_pad_value"}
						R.Class("p12_key_y_ends_in_01..08")
						break
					}
					pt = cv.Add(pt, g1)
					d = new(big.Int).Add(d, big.NewInt(1))
				}
			}
			priv, cert = sm2x.Priv(k), sm2Cert(t, k, "p12 owner", 77)
			wantD = k.D
			wantX, wantY = k.Pub.Affine()
		}
		var cas []*stdx509.Certificate
		// (a subset of the four CA certificates in a drawn order: certificates are told apart by their bytes, not by their
		// names - a renewed CA shares its subject with its predecessor)
		cas = rapid.SliceOfNDistinct(rapid.SampledFrom(stdCAs), 0, 4, func(c *stdx509.Certificate) string { return string(c.Raw) }).Draw(t, "cas")
		nca := len(cas)
		var pfx []byte
		var err error
		if p := tryB(func() { pfx, err = pkcs12.Encode(priv, cert, cas, pwd) }); p != nil {
			t.Fatalf("pkcs12.Encode panicked: %v\n%s", p.Val, p.Stack)
		}
		if err != nil {
			t.Fatalf("pkcs12.Encode(password %q): %v", pwd, err)
		}
		check := func(what string, k interface{}, certs [][]byte) {
			if rk, isRSA := k.(*rsa.PrivateKey); isRSA {
				if _, wantRSA := priv.(*rsa.PrivateKey); !wantRSA || rk.D.Cmp(wantD) != 0 || rk.N.Cmp(wantX) != 0 || rk.E != int(wantY.Int64()) {
					t.Fatalf("%s returned a DIFFERENT (RSA) private key", what)
				}
				if len(certs) == 0 || !bytes.Equal(certs[0], cert.Raw) {
					t.Fatalf("%s returned a different certificate", what)
				}
				return
			}
			ek, ok := k.(*ecdsa.PrivateKey)
			if !ok {
				t.Fatalf("%s returned key of type %T", what, k)
			}
			if ek.Curve.Params().Name != priv.(interface{ Params() *elliptic.CurveParams }).Params().Name {
				t.Fatalf("%s returned a key on curve %s, stored one on %s", what, ek.Curve.Params().Name, priv.(interface{ Params() *elliptic.CurveParams }).Params().Name)
			}
			if ek.D.Cmp(wantD) != 0 || ek.X.Cmp(wantX) != 0 || ek.Y.Cmp(wantY) != 0 {
				t.Fatalf("%s returned a DIFFERENT private key", what)
			}
			if len(certs) == 0 || !bytes.Equal(certs[0], cert.Raw) {
				t.Fatalf("%s returned a different certificate", what)
			}
		}
		var k interface{}
		var cs []*gx.Certificate
		if p := tryB(func() { k, cs, err = pkcs12.DecodeAll(pfx, pwd) }); p != nil {
			t.Fatalf("DecodeAll panicked: %v\n%s", p.Val, p.Stack)
		}
		if err != nil {
			t.Fatalf("DecodeAll with the right password %q: %v", pwd, err)
		}
		var raws [][]byte
		for _, c := range cs {
			raws = append(raws, c.Raw)
		}
		check("DecodeAll", k, raws)
		if len(cs) != 1+nca {
			t.Fatalf("DecodeAll returned %d certificates, want %d", len(cs), 1+nca)
		}
		for i, ca := range cas {
			if !bytes.Equal(cs[1+i].Raw, ca.Raw) {
				t.Fatalf("CA certificate %d changed", i)
			}
		}
		if useP256 && nca == 0 {
			k2, c2, err := pkcs12.Decode(pfx, pwd)
			if err != nil {
				t.Fatalf("Decode: %v", err)
			}
			check("Decode", k2, [][]byte{c2.Raw})
		}
		blocks, err := pkcs12.ToPEM(pfx, pwd)
		if err != nil || len(blocks) != 2+nca {
			t.Fatalf("ToPEM with the right password: %d blocks, err=%v", len(blocks), err)
		}
		sawKey, sawCert := false, false
		for _, b := range blocks {
			if b.Type == "PRIVATE KEY" && bytes.Contains(b.Bytes, wantD.FillBytes(make([]byte, dLen))) {
				sawKey = true
			}
			if b.Type == "CERTIFICATE" && bytes.Equal(b.Bytes, cert.Raw) {
				sawCert = true
			}
		}
		if !sawKey || !sawCert {
			t.Fatalf("ToPEM blocks do not contain the original key (%v) and certificate (%v)", sawKey, sawCert)
		}
		cl := []string{keyClass}
		if nca > 0 {
			cl = append(cl, "p12_cacerts")
		}
		for _, r := range pwd {
			if r > 127 {
				cl = append(cl, "p12_pwd_nonascii")
				break
			}
		}
		// wrong passwords
		wrongs := []string{pwd + "x", "X" + pwd}
		if len(pwd) > 0 {
			rs := []rune(pwd)
			wrongs = append(wrongs, string(rs[:len(rs)-1]))
			if len(rs) > 32 {
				// differs only after the first KDF block; only the first block kept
				tail := append([]rune{}, rs...)
				tail[len(tail)-1]++
				wrongs = append(wrongs, string(tail), string(rs[:32]), string(rs[:32]), string(tail))
				cl = append(cl, "p12_long_pwd")
			}
			c := rs[0]
			if c >= 'a' && c <= 'z' {
				rs[0] = c - 32
				wrongs = append(wrongs, string(rs))
			}
		}
		w := rapid.SampledFrom(wrongs).Draw(t, "wrong")
		if w != pwd {
			for _, name := range []string{"DecodeAll", "Decode", "ToPEM"} {
				var e error
				var n int
				if p := tryB(func() {
					switch name {
					case "DecodeAll":
						_, _, e = pkcs12.DecodeAll(pfx, w)
					case "Decode":
						_, _, e = pkcs12.Decode(pfx, w)
					default:
						var b interface{ Len() int }
						_ = b
						bl, er := pkcs12.ToPEM(pfx, w)
						e, n = er, len(bl)
					}
				}); p != nil {
					t.Fatalf("%s with a wrong password panicked: %v\n%s", name, p.Val, p.Stack)
				}
				if e == nil {
					t.Fatalf("%s ACCEPTED the wrong password %q (right one %q); returned %d blocks", name, w, pwd, n)
				}
			}
			cl = append(cl, "p12_wrong_pwd")
		}
		// corruption: never a different key or certificate
		nm := 10
		if hx.Thorough() {
			nm = 40
		}
		for i := 0; i < nm; i++ {
			pos := rapid.IntRange(0, len(pfx)-1).Draw(t, "cpos")
			b := pfx[pos]
			nb := rapid.SampledFrom([]byte{0x00, 0x01, 0x7f, 0x80, 0xff, b ^ 1, b ^ 0x80}).Draw(t, "cval")
			if nb == b {
				continue
			}
			mut := append([]byte{}, pfx...)
			mut[pos] = nb
			var mk interface{}
			var mc []*gx.Certificate
			var e error
			if p := tryB(func() { mk, mc, e = pkcs12.DecodeAll(mut, pwd) }); p != nil {
				t.Fatalf("DecodeAll of a corrupted bundle panicked (byte %d: %#x->%#x): %v\n%s", pos, b, nb, p.Val, p.Stack)
			}
			if e == nil {
				var gotD *big.Int
				switch k := mk.(type) {
				case *ecdsa.PrivateKey:
					gotD = k.D
				case *rsa.PrivateKey:
					gotD = k.D
				}
				if gotD == nil || gotD.Cmp(wantD) != 0 || len(mc) == 0 || !bytes.Equal(mc[0].Raw, cert.Raw) {
					t.Fatalf("corrupted bundle (byte %d: %#x->%#x) decoded to a DIFFERENT key or certificate", pos, b, nb)
				}
			}
			R.Case(true, hx.HashKey("p12mut", mut), "p12_corrupt")
		}
		// TWO modifications: the integrity value taken out of the way (the macData element dropped, or its tag changed
		// so that it no longer reads as macData) and then any second byte changed. Whatever the decoder makes of a
		// bundle without a usable MAC, it must not hand out a different key or certificate.
		if gen.OneIn(t, "nomac", 3) {
			top := rder.Walk(pfx)[0]
			kids := children(pfx, top)
			if len(kids) != 3 {
				t.Fatalf("harness: PFX with %d members", len(kids))
			}
			mac := kids[2]
			flipped := append([]byte{}, pfx...)
			flipped[mac.Start] = 0x31
			body := pfx[top.Start+top.HdrLen : mac.Start]
			dropped := append(rder.EncLen(0x30, len(body)), body...)
			for vi, variant := range [][]byte{flipped, dropped} {
				for pos := 0; pos < len(variant); pos++ {
					for _, mask := range []byte{0x01, 0x80} {
						mut := append([]byte{}, variant...)
						mut[pos] ^= mask
						var mk interface{}
						var mc []*gx.Certificate
						var e error
						if p := tryB(func() { mk, mc, e = pkcs12.DecodeAll(mut, pwd) }); p != nil {
							t.Fatalf("DecodeAll of a bundle without usable macData panicked (variant %d, byte %d ^ %#x): %v\n%s", vi, pos, mask, p.Val, p.Stack)
						}
						if e != nil {
							continue
						}
						var gotD *big.Int
						switch k := mk.(type) {
						case *ecdsa.PrivateKey:
							gotD = k.D
						case *rsa.PrivateKey:
							gotD = k.D
						}
						if gotD == nil || gotD.Cmp(wantD) != 0 || len(mc) == 0 || !bytes.Equal(mc[0].Raw, cert.Raw) {
							t.Fatalf("bundle with its macData %s and byte %d ^ %#x decoded, under the right password, to a DIFFERENT key or certificate", []string{"made unreadable (tag 0x31)", "dropped"}[vi], pos, mask)
						}
					}
				}
			}
			cl = append(cl, "p12_mac_removed_then_modified")
		}
		R.Case(true, hx.HashKey(pfx), cl...)
		R.Sample("pkcs12", map[string]interface{}{"pwd": pwd, "p256": useP256, "cas": nca, "len": len(pfx)})
	})
	// a password outside the BMP must be refused, not mangled
	if _, err := pkcs12.Encode(sm2x.Priv(gen.Key{D: big.NewInt(5), Pub: cv.BaseMul(big.NewInt(5))}), p256Cert, nil, "pw😀"); err == nil {
		t.Fatalf("pkcs12.Encode accepted a password outside the Basic Multilingual Plane")
	}
}

var _ = sha256.New
