//go:build verif

// C14 — keys, signatures and ciphertexts survive every offered serialization unchanged;
// wrong passwords are rejected; TLS key-pair loaders accept exactly matching pairs.
package c14

import (
	"bytes"
	"crypto/ecdsa"
	"crypto/elliptic"
	"crypto/rand"
	"crypto/rsa"
	stdx509 "crypto/x509"
	"crypto/x509/pkix"
	"encoding/hex"
	"encoding/pem"
	"fmt"
	"math/big"
	"os"
	"path/filepath"
	"strings"
	"testing"
	"time"

	"github.com/tjfoc/gmsm/gmtls"
	"github.com/tjfoc/gmsm/sm2"
	gx509 "github.com/tjfoc/gmsm/x509"
	"pgregory.net/rapid"

	"verifharness/gen"
	"verifharness/hx"
	"verifharness/ref/rder"
	"verifharness/ref/rsm2"
	"verifharness/sm2x"
)

var R = hx.NewRecorder("C14", "cases = (key pair from leading-zero classes, password, serializer) round trips; (r,s) and ciphertext encodings; wrong-password variants; (certificate, key, loader) with matching/mismatching keys for SM2, RSA, ECDSA; "+
	"oracle = inverse(serializer(v)) == v on (d,X,Y)/(r,s)/bytes, decoded public point == ref [d]G, independent DER walk of unencrypted PKCS#8/PKIX, error for every wrong password, loader accepts <=> key matches certificate; "+
	"non-trivial = leading-zero key class or a negative case; distinct by hash of inputs")

var cv = rsm2.Std

// firstDecode: ONE decoder call as the very first use of the library in a fresh process (material prepared by the parent
// and handed over in the environment), compared with the expected key.
func firstDecode(kind string) int {
	data, _ := hex.DecodeString(os.Getenv("C14_DATA"))
	wantD, _ := new(big.Int).SetString(os.Getenv("C14_D"), 16)
	wantX, _ := new(big.Int).SetString(os.Getenv("C14_X"), 16)
	wantY, _ := new(big.Int).SetString(os.Getenv("C14_Y"), 16)
	fail := func(f string, a ...interface{}) int {
		fmt.Printf("FIRST-OP MISMATCH ("+kind+"): "+f+"\n", a...)
		return 1
	}
	checkPub := func(x, y *big.Int) int {
		if x == nil || y == nil || x.Cmp(wantX) != 0 || y.Cmp(wantY) != 0 {
			return fail("decoded public key (%x, %x), want (%x, %x)", x, y, wantX, wantY)
		}
		return 0
	}
	switch kind {
	case "decompress":
		pub := sm2.Decompress(data)
		if pub == nil {
			return fail("Decompress returned nil")
		}
		return checkPub(pub.X, pub.Y)
	case "hexpriv":
		k, err := gx509.ReadPrivateKeyFromHex(string(data))
		if err != nil || k.D.Cmp(wantD) != 0 {
			return fail("ReadPrivateKeyFromHex: %v", err)
		}
		return checkPub(k.X, k.Y)
	case "hexpub":
		k, err := gx509.ReadPublicKeyFromHex(string(data))
		if err != nil {
			return fail("ReadPublicKeyFromHex: %v", err)
		}
		return checkPub(k.X, k.Y)
	case "pkcs8pem":
		k, err := gx509.ReadPrivateKeyFromPem(data, nil)
		if err != nil || k.D.Cmp(wantD) != 0 {
			return fail("ReadPrivateKeyFromPem: %v", err)
		}
		return checkPub(k.X, k.Y)
	case "pubpem":
		k, err := gx509.ReadPublicKeyFromPem(data)
		if err != nil {
			return fail("ReadPublicKeyFromPem: %v", err)
		}
		return checkPub(k.X, k.Y)
	}
	return fail("unknown kind")
}

func TestC14_FirstDecode(t *testing.T) {
	k := gen.Key{D: big.NewInt(0x51f3a9), Pub: cv.BaseMul(big.NewInt(0x51f3a9))}
	priv, pub := sm2x.Priv(k), sm2x.Pub(k.Pub)
	pemB, err := gx509.WritePrivateKeyToPem(priv, nil)
	if err != nil {
		t.Fatal(err)
	}
	pp, err := gx509.WritePublicKeyToPem(pub)
	if err != nil {
		t.Fatal(err)
	}
	material := map[string][]byte{
		"decompress": sm2.Compress(pub),
		"hexpriv":    []byte(gx509.WritePrivateKeyToHex(priv)),
		"hexpub":     []byte(gx509.WritePublicKeyToHex(pub)),
		"pkcs8pem":   pemB,
		"pubpem":     pp,
	}
	x, y := k.Pub.Affine()
	for kind, data := range material {
		os.Setenv("C14_DATA", hex.EncodeToString(data))
		os.Setenv("C14_D", k.D.Text(16))
		os.Setenv("C14_X", x.Text(16))
		os.Setenv("C14_Y", y.Text(16))
		if failed := hx.FirstOpChildren("C14_CHILD", []string{kind}); len(failed) > 0 {
			t.Fatalf("as the FIRST use of the library in a fresh process, decoding (%s) fails:\n%s", kind, failed[kind])
		}
		R.Case(true, hx.HashKey("firstdecode", kind), "first_decode")
	}
	os.Unsetenv("C14_DATA")
}

func TestMain(m *testing.M) {
	if k := os.Getenv("C14_CHILD"); k != "" {
		os.Exit(firstDecode(k))
	}
	R.Require("first_decode", "loader_history", "pubkey_x_ge_n")
	for _, s := range []string{"pkcs8pem", "pkcs8pem_pwd", "pubpem", "pkix", "hexpriv", "hexpub", "compress", "sigder", "cipherasn1"} {
		R.Require(s+"/lz_d", s+"/lz_x", s+"/lz_y")
	}
	R.Require("cert_chain_file", "hex_odd", "pwd_wrong", "mismatch_negated_key", "mismatch_embedded_point_of_certificate", "X509KeyPair/match", "X509KeyPair/mismatch", "GMX509KeyPairs/match", "GMX509KeyPairs/mismatch", "GMX509KeyPairsSingle/match", "GMX509KeyPairsSingle/mismatch", "LoadX509KeyPair/match", "LoadGMX509KeyPair/match", "LoadGMX509KeyPairs/match")
	hx.Main(m, R)
}

func lzTags(k gen.Key) []string {
	var out []string
	for _, c := range []string{"lz_d", "lz_x", "lz_y"} {
		if strings.Contains(k.Class, c) {
			out = append(out, c)
		}
	}
	if len(out) == 0 {
		out = []string{"plain"}
	}
	return out
}

func sameKey(t *rapid.T, what string, got *sm2.PrivateKey, k gen.Key) {
	if got == nil || got.D == nil || got.X == nil || got.Y == nil {
		t.Fatalf("%s: decoded key has nil fields", what)
	}
	x, y := k.Pub.Affine()
	if got.D.Cmp(k.D) != 0 || got.X.Cmp(x) != 0 || got.Y.Cmp(y) != 0 {
		t.Fatalf("%s: round trip changed the key: d=%x X=%x Y=%x, want d=%x X=%x Y=%x", what, got.D, got.X, got.Y, k.D, x, y)
	}
}

func samePub(t *rapid.T, what string, gx, gy *big.Int, k gen.Key) {
	x, y := k.Pub.Affine()
	if gx == nil || gy == nil || gx.Cmp(x) != 0 || gy.Cmp(y) != 0 {
		t.Fatalf("%s: round trip changed the public key: (%x,%x) want (%x,%x)", what, gx, gy, x, y)
	}
}

func pwdGen() *rapid.Generator[[]byte] {
	return rapid.Custom(func(t *rapid.T) []byte {
		switch rapid.IntRange(0, 5).Draw(t, "pwdkind") {
		case 0:
			return []byte{}
		case 1:
			return []byte(rapid.StringMatching(`[a-zA-Z0-9!@# ]{1,24}`).Draw(t, "ascii"))
		case 2:
			return []byte(rapid.SampledFrom([]string{"密码口令", "pässwörd", "パスワード123", "🔑key"}).Draw(t, "utf8"))
		case 3:
			return gen.BytesN(1024).Draw(t, "kib")
		default:
			return rapid.SliceOfN(rapid.Byte(), 1, 40).Draw(t, "bytes")
		}
	})
}

func wrongPwd(t *rapid.T, pwd []byte) []byte {
	w := append([]byte{}, pwd...)
	switch rapid.IntRange(0, 4).Draw(t, "wrongkind") {
	case 0:
		if len(w) > 0 {
			i := rapid.IntRange(0, len(w)-1).Draw(t, "i")
			w[i] ^= 1 << uint(rapid.IntRange(0, 7).Draw(t, "bit"))
			return w
		}
		return []byte{0}
	case 1:
		for i, c := range w {
			if c >= 'a' && c <= 'z' {
				w[i] = c - 32
				return w
			}
			if c >= 'A' && c <= 'Z' {
				w[i] = c + 32
				return w
			}
		}
		return append(w, 'x')
	case 2:
		return append(w, rapid.Byte().Draw(t, "extra"))
	case 3:
		if len(w) > 0 {
			return w[:len(w)-1]
		}
		return []byte("a")
	default:
		return nil // nil means "no password" for the reader
	}
}

// independent walk of an unencrypted PKCS#8 SM2 key: returns d and the public point bytes
func walkPKCS8(der []byte) (d *big.Int, pub []byte, err error) {
	top, err := rder.ReadStrict(der, 0)
	if err != nil || top.Tag != 0x30 {
		return nil, nil, fmt.Errorf("top: %v", err)
	}
	off := top.HdrLen
	ver, err := rder.ReadStrict(der, off)
	if err != nil || ver.Tag != 0x02 {
		return nil, nil, fmt.Errorf("version")
	}
	off += ver.HdrLen + ver.Len
	alg, err := rder.ReadStrict(der, off)
	if err != nil || alg.Tag != 0x30 {
		return nil, nil, fmt.Errorf("alg")
	}
	off += alg.HdrLen + alg.Len
	oct, err := rder.ReadStrict(der, off)
	if err != nil || oct.Tag != 0x04 {
		return nil, nil, fmt.Errorf("octet")
	}
	inner := der[off+oct.HdrLen : off+oct.HdrLen+oct.Len]
	seq, err := rder.ReadStrict(inner, 0)
	if err != nil || seq.Tag != 0x30 {
		return nil, nil, fmt.Errorf("ecpriv")
	}
	o := seq.HdrLen
	v, err := rder.ReadStrict(inner, o)
	if err != nil || v.Tag != 0x02 {
		return nil, nil, fmt.Errorf("ecver")
	}
	o += v.HdrLen + v.Len
	k, err := rder.ReadStrict(inner, o)
	if err != nil || k.Tag != 0x04 {
		return nil, nil, fmt.Errorf("eckey")
	}
	d = new(big.Int).SetBytes(inner[o+k.HdrLen : o+k.HdrLen+k.Len])
	o += k.HdrLen + k.Len
	for o < len(inner) {
		e, err := rder.ReadStrict(inner, o)
		if err != nil {
			return nil, nil, err
		}
		if e.Tag == 0xa1 {
			bs, err := rder.ReadStrict(inner, o+e.HdrLen)
			if err != nil || bs.Tag != 0x03 {
				return nil, nil, fmt.Errorf("pub bitstring")
			}
			pub = inner[o+e.HdrLen+bs.HdrLen+1 : o+e.HdrLen+bs.HdrLen+bs.Len]
		}
		o += e.HdrLen + e.Len
	}
	return d, pub, nil
}

func walkPKIX(der []byte) ([]byte, error) {
	top, err := rder.ReadStrict(der, 0)
	if err != nil || top.Tag != 0x30 || top.HdrLen+top.Len != len(der) {
		return nil, fmt.Errorf("top")
	}
	alg, err := rder.ReadStrict(der, top.HdrLen)
	if err != nil || alg.Tag != 0x30 {
		return nil, fmt.Errorf("alg")
	}
	off := top.HdrLen + alg.HdrLen + alg.Len
	bs, err := rder.ReadStrict(der, off)
	if err != nil || bs.Tag != 0x03 || der[off+bs.HdrLen] != 0 {
		return nil, fmt.Errorf("bitstring")
	}
	return der[off+bs.HdrLen+1 : off+bs.HdrLen+bs.Len], nil
}

func uncompressed(k gen.Key) []byte {
	return append(append([]byte{4}, rsm2.Pad32(k.Pub.X)...), rsm2.Pad32(k.Pub.Y)...)
}

func TestC14_KeySerializers(t *testing.T) {
	hx.Check(t, hx.N(500, 8000), func(t *rapid.T) {
		k := gen.KeyPair(hx.Root()).Draw(t, "key")
		priv := sm2x.Priv(k)
		pub := sm2x.Pub(k.Pub)
		tags := lzTags(k)
		mark := func(ser string) {
			for _, tg := range tags {
				R.Class(ser + "/" + tg)
			}
		}
		// 1/2: PKCS#8 PEM + DER without password
		pemB, err := gx509.WritePrivateKeyToPem(priv, nil)
		if err != nil {
			t.Fatalf("WritePrivateKeyToPem: %v", err)
		}
		got, err := gx509.ReadPrivateKeyFromPem(pemB, nil)
		if err != nil {
			t.Fatalf("ReadPrivateKeyFromPem: %v", err)
		}
		sameKey(t, "PKCS#8 PEM", got, k)
		der, err := gx509.MarshalSm2PrivateKey(priv, nil)
		if err != nil {
			t.Fatalf("MarshalSm2PrivateKey: %v", err)
		}
		got, err = gx509.ParsePKCS8PrivateKey(der, nil)
		if err != nil {
			t.Fatalf("ParsePKCS8PrivateKey: %v", err)
		}
		sameKey(t, "PKCS#8 DER", got, k)
		wd, wpub, werr := walkPKCS8(der)
		if werr != nil || wd.Cmp(k.D) != 0 || !bytes.Equal(wpub, uncompressed(k)) {
			t.Fatalf("independent DER walk of PKCS#8 output: err=%v d=%x pub=%x", werr, wd, wpub)
		}
		mark("pkcs8pem")
		// with password
		pwd := pwdGen().Draw(t, "pwd")
		pemE, err := gx509.WritePrivateKeyToPem(priv, pwd)
		if err != nil {
			t.Fatalf("WritePrivateKeyToPem(pwd): %v", err)
		}
		got, err = gx509.ReadPrivateKeyFromPem(pemE, pwd)
		if err != nil {
			t.Fatalf("ReadPrivateKeyFromPem(correct password %q): %v", pwd, err)
		}
		sameKey(t, "encrypted PKCS#8 PEM", got, k)
		mark("pkcs8pem_pwd")
		wp := wrongPwd(t, pwd)
		// HMAC zero-pads keys shorter than its block, so passwords that differ only in trailing
		// NUL bytes are the same PBKDF2 key by construction: not a "wrong" password.
		equivalent := wp != nil && len(wp) <= 64 && len(pwd) <= 64 && bytes.Equal(bytes.TrimRight(wp, "\x00"), bytes.TrimRight(pwd, "\x00"))
		if equivalent {
			R.Discard()
		} else if !bytes.Equal(wp, pwd) || (wp == nil) != (pwd == nil) {
			var g2 *sm2.PrivateKey
			var e2 error
			if p := hx.Try(func() { g2, e2 = gx509.ReadPrivateKeyFromPem(pemE, wp) }); p != nil {
				t.Fatalf("ReadPrivateKeyFromPem(wrong password) panicked: %v", p.Val)
			}
			if e2 == nil {
				t.Fatalf("encrypted key decoded with a WRONG password (%q instead of %q): d=%x", wp, pwd, g2.D)
			}
			R.Class("pwd_wrong")
		}
		// unencrypted PEM read with some password must fail too
		if _, e3 := gx509.ReadPrivateKeyFromPem(pemB, []byte("pw")); e3 == nil {
			t.Fatalf("unencrypted key accepted with a password")
		}
		// 3/4: public key PEM / DER
		pp, err := gx509.WritePublicKeyToPem(pub)
		if err != nil {
			t.Fatalf("WritePublicKeyToPem: %v", err)
		}
		gp, err := gx509.ReadPublicKeyFromPem(pp)
		if err != nil {
			t.Fatalf("ReadPublicKeyFromPem: %v", err)
		}
		samePub(t, "public PEM", gp.X, gp.Y, k)
		pd, err := gx509.MarshalSm2PublicKey(pub)
		if err != nil {
			t.Fatalf("MarshalSm2PublicKey: %v", err)
		}
		gp, err = gx509.ParseSm2PublicKey(pd)
		if err != nil {
			t.Fatalf("ParseSm2PublicKey: %v", err)
		}
		samePub(t, "public DER", gp.X, gp.Y, k)
		if raw, e := walkPKIX(pd); e != nil || !bytes.Equal(raw, uncompressed(k)) {
			t.Fatalf("independent DER walk of MarshalSm2PublicKey: %v %x", e, raw)
		}
		mark("pubpem")
		// 5: PKIX
		px, err := gx509.MarshalPKIXPublicKey(pub)
		if err != nil {
			t.Fatalf("MarshalPKIXPublicKey: %v", err)
		}
		if raw, e := walkPKIX(px); e != nil || !bytes.Equal(raw, uncompressed(k)) {
			t.Fatalf("independent DER walk of MarshalPKIXPublicKey: %v %x", e, raw)
		}
		anyp, err := gx509.ParsePKIXPublicKey(px)
		if err != nil {
			t.Fatalf("ParsePKIXPublicKey: %v", err)
		}
		switch q := anyp.(type) {
		case *ecdsa.PublicKey:
			samePub(t, "PKIX", q.X, q.Y, k)
		case *sm2.PublicKey:
			samePub(t, "PKIX", q.X, q.Y, k)
		default:
			t.Fatalf("ParsePKIXPublicKey returned %T", anyp)
		}
		mark("pkix")
		// 6: hex private
		hs := gx509.WritePrivateKeyToHex(priv)
		if len(k.D.Text(16))%2 == 1 {
			R.Class("hex_odd")
		}
		var hk *sm2.PrivateKey
		if p := hx.Try(func() { hk, err = gx509.ReadPrivateKeyFromHex(hs) }); p != nil {
			t.Fatalf("ReadPrivateKeyFromHex(%q) panicked: %v", hs, p.Val)
		}
		if err != nil {
			t.Fatalf("ReadPrivateKeyFromHex(WritePrivateKeyToHex(d=%x)=%q): %v", k.D, hs, err)
		}
		sameKey(t, "hex private", hk, k)
		mark("hexpriv")
		// 7: hex public, with and without 04
		hp := gx509.WritePublicKeyToHex(pub)
		for _, variant := range []string{hp, strings.TrimPrefix(hp, "04"), strings.ToUpper(hp)} {
			q, err := gx509.ReadPublicKeyFromHex(variant)
			if err != nil {
				t.Fatalf("ReadPublicKeyFromHex(%q): %v", variant, err)
			}
			samePub(t, "hex public", q.X, q.Y, k)
		}
		if hp != hex.EncodeToString(uncompressed(k)) {
			t.Fatalf("WritePublicKeyToHex = %s", hp)
		}
		mark("hexpub")
		// 8: compressed point
		cp := sm2.Compress(pub)
		if len(cp) != 33 {
			t.Fatalf("Compress length %d", len(cp))
		}
		var dq *sm2.PublicKey
		if p := hx.Try(func() { dq = sm2.Decompress(cp) }); p != nil {
			t.Fatalf("Decompress(Compress(P)) panicked: %v", p.Val)
		}
		samePub(t, "compressed point", dq.X, dq.Y, k)
		mark("compress")
		R.Case(k.Class != "plain", hx.HashKey("ser", k.D.Bytes(), pwd), tags...)
		R.Sample("key", map[string]interface{}{"class": k.Class, "pwdlen": len(pwd), "hex": hs})
	})
}

func TestC14_SigAndCipherEncodings(t *testing.T) {
	hx.Check(t, hx.N(1500, 20000), func(t *rapid.T) {
		k := gen.KeyPair(hx.Root()).Draw(t, "key")
		tags := lzTags(k)
		intGen := rapid.Custom(func(t *rapid.T) *big.Int {
			switch rapid.IntRange(0, 4).Draw(t, "ik") {
			case 0:
				return big.NewInt(int64(rapid.IntRange(1, 300).Draw(t, "small")))
			case 1:
				return new(big.Int).Sub(cv.N, big.NewInt(int64(rapid.IntRange(1, 300).Draw(t, "nm"))))
			case 2:
				v := new(big.Int).Lsh(big.NewInt(1), uint(rapid.IntRange(1, 255).Draw(t, "bit")))
				return v.Mod(v, cv.N)
			default:
				v := gen.BigBelow(new(big.Int).Sub(cv.N, big.NewInt(1))).Draw(t, "v")
				return v.Add(v, big.NewInt(1))
			}
		})
		r, s := intGen.Draw(t, "r"), intGen.Draw(t, "s")
		enc, err := sm2.SignDigitToSignData(r, s)
		if err != nil {
			t.Fatalf("SignDigitToSignData: %v", err)
		}
		if !bytes.Equal(enc, rder.EncSig(r, s)) {
			t.Fatalf("SignDigitToSignData(%x,%x) = %x, DER is %x", r, s, enc, rder.EncSig(r, s))
		}
		r2, s2, err := sm2.SignDataToSignDigit(enc)
		if err != nil || r2.Cmp(r) != 0 || s2.Cmp(s) != 0 {
			t.Fatalf("SignDataToSignDigit round trip: %v (%x,%x)", err, r2, s2)
		}
		for _, tg := range tags {
			R.Class("sigder/" + tg)
		}
		// ciphertexts, including short C1 coordinates
		pt := gen.BytesN(rapid.IntRange(1, 100).Draw(t, "ptlen")).Draw(t, "pt")
		kn := gen.BigBelow(new(big.Int).Sub(cv.N, big.NewInt(1))).Draw(t, "k")
		kn.Add(kn, big.NewInt(1))
		if rapid.Bool().Draw(t, "shortc1") {
			// walk k until C1 has a leading zero byte in x1 or y1
			c1 := cv.BaseMul(kn)
			g := cv.G()
			for i := 0; i < 1500; i++ {
				if len(c1.X.Bytes()) < 32 || len(c1.Y.Bytes()) < 32 {
					break
				}
				c1 = cv.Add(c1, g)
				kn.Add(kn, big.NewInt(1))
			}
		}
		raw, _, _, retry := cv.Encrypt(k.Pub, pt, kn, rsm2.C1C3C2)
		if retry || kn.Cmp(cv.N) >= 0 {
			R.Discard()
			return
		}
		a, err := sm2.CipherMarshal(raw)
		if err != nil {
			t.Fatalf("CipherMarshal: %v", err)
		}
		back, err := sm2.CipherUnmarshal(a)
		if err != nil || !bytes.Equal(back, raw) {
			t.Fatalf("CipherUnmarshal(CipherMarshal(c)) != c: %v\n c    %x\n back %x", err, raw, back)
		}
		ptb, err := sm2.DecryptAsn1(sm2x.Priv(k), a)
		if err != nil || !bytes.Equal(ptb, pt) {
			t.Fatalf("DecryptAsn1 of marshalled ciphertext: %v", err)
		}
		short := len(new(big.Int).SetBytes(raw[1:33]).Bytes()) < 32 || len(new(big.Int).SetBytes(raw[33:65]).Bytes()) < 32
		cl := []string{}
		if short {
			cl = append(cl, "cipher_short_coordinate")
		}
		for _, tg := range tags {
			R.Class("cipherasn1/" + tg)
		}
		R.Case(true, hx.HashKey("enc", r.Bytes(), s.Bytes(), raw), cl...)
	})
}

// ------------------------------------------------------------------ loaders

type pair struct {
	kind    string // sm2 | rsa | ecdsa
	certPEM []byte
	keyPEM  []byte
	priv    interface{}
}

var (
	rsaKeys   []*rsa.PrivateKey
	ecdsaKeys []*ecdsa.PrivateKey
)

func initKeys(t testing.TB) {
	if rsaKeys != nil {
		return
	}
	for i := 0; i < 2; i++ {
		k, err := rsa.GenerateKey(rand.Reader, 1024)
		if err != nil {
			t.Fatal(err)
		}
		rsaKeys = append(rsaKeys, k)
		e, err := ecdsa.GenerateKey(elliptic.P256(), rand.Reader)
		if err != nil {
			t.Fatal(err)
		}
		ecdsaKeys = append(ecdsaKeys, e)
	}
}

func pemBlock(typ string, b []byte) []byte {
	return pem.EncodeToMemory(&pem.Block{Type: typ, Bytes: b})
}

func stdCert(t testing.TB, pub, priv interface{}, cn string) []byte {
	tmpl := &stdx509.Certificate{SerialNumber: big.NewInt(7), Subject: pkix.Name{CommonName: cn},
		NotBefore: time.Unix(1600000000, 0), NotAfter: time.Unix(1900000000, 0), KeyUsage: stdx509.KeyUsageDigitalSignature}
	der, err := stdx509.CreateCertificate(rand.Reader, tmpl, tmpl, pub, priv)
	if err != nil {
		t.Fatal(err)
	}
	return pemBlock("CERTIFICATE", der)
}

func sm2Cert(t interface{ Fatalf(string, ...any) }, k gen.Key, cn string) []byte {
	tmpl := &gx509.Certificate{SerialNumber: big.NewInt(9), Subject: pkix.Name{CommonName: cn},
		NotBefore: time.Unix(1600000000, 0), NotAfter: time.Unix(1900000000, 0), KeyUsage: gx509.KeyUsageDigitalSignature,
		SignatureAlgorithm: gx509.SM2WithSM3}
	der, err := gx509.CreateCertificate(tmpl, tmpl, sm2x.Pub(k.Pub), sm2x.Priv(k))
	if err != nil {
		t.Fatalf("CreateCertificate: %v", err)
	}
	return pemBlock("CERTIFICATE", der)
}

func sm2KeyPEM(t interface{ Fatalf(string, ...any) }, k gen.Key) []byte {
	b, err := gx509.WritePrivateKeyToPem(sm2x.Priv(k), nil)
	if err != nil {
		t.Fatalf("WritePrivateKeyToPem: %v", err)
	}
	return b
}

// Public keys at the edge of the FIELD: curve points whose x coordinate lies in [n, p) - above the group order, below the
// prime (the first few on-curve x counting down from p-1, both signs of y). No private key is needed for the public-key
// serializers: hexadecimal, compressed, PKIX DER and PEM must give back the same point.
func TestC14_PublicKeysNearP(t *testing.T) {
	found := 0
	for k := int64(1); k < 200 && found < 6; k++ {
		x := new(big.Int).Sub(cv.P, big.NewInt(k))
		// y^2 = x^3 + a x + b; p = 3 mod 4
		rhs := new(big.Int).Mul(x, x)
		rhs.Mul(rhs, x).Add(rhs, new(big.Int).Mul(cv.A, x)).Add(rhs, cv.B).Mod(rhs, cv.P)
		e := new(big.Int).Add(cv.P, big.NewInt(1))
		e.Rsh(e, 2)
		y := new(big.Int).Exp(rhs, e, cv.P)
		if new(big.Int).Exp(y, big.NewInt(2), cv.P).Cmp(rhs) != 0 {
			continue
		}
		found++
		if x.Cmp(cv.N) < 0 {
			t.Fatalf("harness: x below n")
		}
		for _, yy := range []*big.Int{y, new(big.Int).Sub(cv.P, y)} {
			pt := rsm2.Point{X: x, Y: yy}
			pub := sm2x.Pub(pt)
			same := func(what string, got *sm2.PublicKey, err error) {
				if err != nil || got == nil || got.X.Cmp(x) != 0 || got.Y.Cmp(yy) != 0 {
					t.Fatalf("%s does not give back the public key (x = p-%d, a valid curve point with x >= n): err=%v", what, k, err)
				}
			}
			var got *sm2.PublicKey
			var err error
			if pn := hx.Try(func() { got, err = gx509.ReadPublicKeyFromHex(gx509.WritePublicKeyToHex(pub)) }); pn != nil {
				t.Fatalf("hex public key round trip panicked: %v", pn.Val)
			}
			same("ReadPublicKeyFromHex(WritePublicKeyToHex)", got, err)
			if pn := hx.Try(func() { got, err = sm2.Decompress(sm2.Compress(pub)), nil }); pn != nil {
				t.Fatalf("Compress/Decompress panicked: %v", pn.Val)
			}
			same("Decompress(Compress)", got, err)
			var pemb []byte
			if pn := hx.Try(func() {
				if pemb, err = gx509.WritePublicKeyToPem(pub); err == nil {
					got, err = gx509.ReadPublicKeyFromPem(pemb)
				}
			}); pn != nil {
				t.Fatalf("PEM public key round trip panicked: %v", pn.Val)
			}
			same("ReadPublicKeyFromPem(WritePublicKeyToPem)", got, err)
			R.Case(true, hx.HashKey("nearp", k, yy.Bit(0)), "pubkey_x_ge_n")
		}
	}
	if found < 6 {
		t.Fatalf("harness: only %d curve points found near p", found)
	}
}

func TestC14_Loaders(t *testing.T) {
	initKeys(t)
	rsaCert := []([]byte){stdCert(t, &rsaKeys[0].PublicKey, rsaKeys[0], "rsa0"), stdCert(t, &rsaKeys[1].PublicKey, rsaKeys[1], "rsa1")}
	ecCert := []([]byte){stdCert(t, &ecdsaKeys[0].PublicKey, ecdsaKeys[0], "ec0"), stdCert(t, &ecdsaKeys[1].PublicKey, ecdsaKeys[1], "ec1")}
	rsaKeyPEM := func(i int, pkcs8 bool) []byte {
		if pkcs8 {
			b, _ := stdx509.MarshalPKCS8PrivateKey(rsaKeys[i])
			return pemBlock("PRIVATE KEY", b)
		}
		return pemBlock("RSA PRIVATE KEY", stdx509.MarshalPKCS1PrivateKey(rsaKeys[i]))
	}
	ecKeyPEM := func(i int) []byte {
		b, _ := stdx509.MarshalPKCS8PrivateKey(ecdsaKeys[i])
		return pemBlock("PRIVATE KEY", b)
	}
	dir, err := os.MkdirTemp(".", "c14files")
	if err != nil {
		t.Fatal(err)
	}
	defer os.RemoveAll(dir)
	hx.Check(t, hx.N(400, 5000), func(t *rapid.T) {
		certKind := rapid.SampledFrom([]string{"sm2", "sm2", "sm2", "rsa", "ecdsa"}).Draw(t, "certkind")
		keyRel := rapid.SampledFrom([]string{"match", "match", "other_same_type", "other_type"}).Draw(t, "keyrel")
		loader := rapid.SampledFrom([]string{"X509KeyPair", "LoadX509KeyPair", "GMX509KeyPairs", "GMX509KeyPairsSingle", "LoadGMX509KeyPair", "LoadGMX509KeyPairs"}).Draw(t, "loader")
		var certPEM, keyPEM []byte
		var wantKey interface{}
		k1 := gen.KeyPair(hx.Root()).Draw(t, "k1")
		k2 := gen.OtherKey(t, hx.Root(), "k2", k1.D, new(big.Int).Sub(cv.N, k1.D))
		switch certKind {
		case "sm2":
			certPEM = sm2Cert(t, k1, "sm2 leaf")
			if rapid.Bool().Draw(t, "chainfile") {
				// a certificate file with a second certificate behind the leaf (a chain file): the key must match the
				// FIRST certificate; k2 - the "other" key below - is the key of the second one
				certPEM = append(append([]byte{}, certPEM...), sm2Cert(t, k2, "second certificate in the file")...)
				R.Class("cert_chain_file")
			}
			switch keyRel {
			case "match":
				keyPEM, wantKey = sm2KeyPEM(t, k1), k1.D
			case "other_same_type":
				keyPEM = sm2KeyPEM(t, k2)
				if rapid.Bool().Draw(t, "negated") {
					// the negated key n-d: public point (X, p-Y) shares the X coordinate with the certificate
					nd := new(big.Int).Sub(cv.N, k1.D)
					keyPEM = sm2KeyPEM(t, gen.Key{D: nd, Pub: cv.Neg(k1.Pub)})
					R.Class("mismatch_negated_key")
				} else if rapid.Bool().Draw(t, "foreign_point") {
					// the key file holds the OTHER key's scalar, but the optional public-key field inside it (SEC1
					// ECPrivateKey.publicKey) repeats the certificate's point: the key of a key file is its scalar
					blk, _ := pem.Decode(keyPEM)
					if blk == nil {
						t.Fatalf("harness: no PEM block in the key file")
					}
					forged := bytes.Replace(blk.Bytes, uncompressed(k2), uncompressed(k1), -1)
					if bytes.Equal(forged, blk.Bytes) {
						t.Fatalf("harness: embedded public key not found in the PKCS#8 key")
					}
					keyPEM = pemBlock(blk.Type, forged)
					R.Class("mismatch_embedded_point_of_certificate")
				}
			default:
				keyPEM = rapid.SampledFrom([][]byte{rsaKeyPEM(0, false), ecKeyPEM(0), rsaKeyPEM(1, true)}).Draw(t, "otherkey")
			}
		case "rsa":
			certPEM = rsaCert[0]
			switch keyRel {
			case "match":
				keyPEM, wantKey = rsaKeyPEM(0, rapid.Bool().Draw(t, "pkcs8")), rsaKeys[0].D
			case "other_same_type":
				keyPEM = rsaKeyPEM(1, rapid.Bool().Draw(t, "pkcs8"))
			default:
				keyPEM = rapid.SampledFrom([][]byte{sm2KeyPEM(t, k1), ecKeyPEM(0)}).Draw(t, "otherkey")
			}
		default:
			certPEM = ecCert[0]
			switch keyRel {
			case "match":
				keyPEM, wantKey = ecKeyPEM(0), ecdsaKeys[0].D
			case "other_same_type":
				keyPEM = ecKeyPEM(1)
				if rapid.Bool().Draw(t, "negated") {
					nk := &ecdsa.PrivateKey{D: new(big.Int).Sub(elliptic.P256().Params().N, ecdsaKeys[0].D)}
					nk.Curve = elliptic.P256()
					nk.X, nk.Y = new(big.Int).Set(ecdsaKeys[0].X), new(big.Int).Sub(elliptic.P256().Params().P, ecdsaKeys[0].Y)
					b, err := stdx509.MarshalPKCS8PrivateKey(nk)
					if err != nil {
						t.Fatalf("marshal negated key: %v", err)
					}
					keyPEM = pemBlock("PRIVATE KEY", b)
					R.Class("mismatch_negated_key")
				}
			default:
				keyPEM = rapid.SampledFrom([][]byte{sm2KeyPEM(t, k1), rsaKeyPEM(0, false)}).Draw(t, "otherkey")
			}
		}
		// file layouts: the loaders take the first block whose type ends in "PRIVATE KEY" from the key input and the CERTIFICATE
		// blocks from the certificate input, skipping everything else - so one combined file can serve as both inputs
		switch layout := rapid.SampledFrom([]string{"plain", "plain", "cert_then_key", "params_then_key", "key_then_cert", "text_then_key", "combined_both", "cert_after_other"}).Draw(t, "layout"); layout {
		case "cert_then_key":
			keyPEM = append(append([]byte{}, certPEM...), keyPEM...)
			R.Class("layout:" + layout)
		case "params_then_key":
			keyPEM = append(pemBlock("EC PARAMETERS", []byte{0x06, 0x08, 0x2a, 0x81, 0x1c, 0xcf, 0x55, 0x01, 0x82, 0x2d}), keyPEM...)
			R.Class("layout:" + layout)
		case "key_then_cert":
			keyPEM = append(append([]byte{}, keyPEM...), certPEM...)
			R.Class("layout:" + layout)
		case "text_then_key":
			keyPEM = append([]byte("Bag Attributes\n    friendlyName: key\nKey Attributes: <No Attributes>\n"), keyPEM...)
			R.Class("layout:" + layout)
		case "combined_both":
			both := append(append([]byte{}, certPEM...), keyPEM...)
			certPEM, keyPEM = both, both
			R.Class("layout:" + layout)
		case "cert_after_other":
			certPEM = append(pemBlock("EC PARAMETERS", []byte{0x06, 0x08, 0x2a, 0x81, 0x1c, 0xcf, 0x55, 0x01, 0x82, 0x2d}), certPEM...)
			R.Class("layout:" + layout)
		}
		// the encryption pair handed to the two-pair loaders is always a consistent SM2 pair
		encCert, encKey := sm2Cert(t, k2, "sm2 enc"), sm2KeyPEM(t, k2)
		write := func(name string, b []byte) string {
			p := filepath.Join(dir, name)
			if err := os.WriteFile(p, b, 0o600); err != nil {
				t.Fatalf("write: %v", err)
			}
			return p
		}
		var c gmtls.Certificate
		var lerr error
		p := hx.Try(func() {
			switch loader {
			case "X509KeyPair":
				c, lerr = gmtls.X509KeyPair(certPEM, keyPEM)
			case "LoadX509KeyPair":
				c, lerr = gmtls.LoadX509KeyPair(write("c.pem", certPEM), write("k.pem", keyPEM))
			case "GMX509KeyPairs":
				c, lerr = gmtls.GMX509KeyPairs(certPEM, keyPEM, encCert, encKey)
			case "GMX509KeyPairsSingle":
				c, lerr = gmtls.GMX509KeyPairsSingle(certPEM, keyPEM)
			case "LoadGMX509KeyPair":
				c, lerr = gmtls.LoadGMX509KeyPair(write("c.pem", certPEM), write("k.pem", keyPEM))
			case "LoadGMX509KeyPairs":
				c, lerr = gmtls.LoadGMX509KeyPairs(write("c.pem", certPEM), write("k.pem", keyPEM), write("ec.pem", encCert), write("ek.pem", encKey))
			}
		})
		if p != nil {
			t.Fatalf("%s panicked (cert %s, key %s): %v\n%s", loader, certKind, keyRel, p.Val, p.Stack)
		}
		twoPair := loader == "GMX509KeyPairs" || loader == "LoadGMX509KeyPairs"
		if twoPair && certKind != "sm2" {
			// the GM two-pair loaders are specified for SM2 certificates only: either outcome
			if keyRel != "match" && lerr == nil {
				t.Fatalf("%s accepted a %s certificate with a non-matching key", loader, certKind)
			}
			R.Case(true, hx.HashKey("ldr", loader, certKind, keyRel), "unspecified:gm_loader_non_sm2")
			return
		}
		if keyRel == "match" {
			if lerr != nil {
				t.Fatalf("%s REJECTED a matching %s certificate/key pair: %v", loader, certKind, lerr)
			}
			var gotD *big.Int
			switch pk := c.PrivateKey.(type) {
			case *sm2.PrivateKey:
				gotD = pk.D
			case *rsa.PrivateKey:
				gotD = pk.D
			case *ecdsa.PrivateKey:
				gotD = pk.D
			default:
				t.Fatalf("%s returned private key of type %T", loader, c.PrivateKey)
			}
			if gotD.Cmp(wantKey.(*big.Int)) != 0 {
				t.Fatalf("%s returned a different private key than supplied", loader)
			}
			if len(c.Certificate) == 0 {
				t.Fatalf("%s returned no certificate", loader)
			}
		} else if lerr == nil {
			t.Fatalf("%s ACCEPTED a %s certificate with a key that does not match (%s)", loader, certKind, keyRel)
		}
		if keyRel == "match" && certKind == "sm2" {
			// history: the certificate has just been loaded with its own key; the SAME certificate offered with another key
			// right afterwards is as much a mismatch as it would be in a fresh process (and the matching pair still loads)
			other := sm2KeyPEM(t, k2)
			call := func(key []byte) (gmtls.Certificate, error) {
				switch loader {
				case "X509KeyPair":
					return gmtls.X509KeyPair(certPEM, key)
				case "LoadX509KeyPair":
					return gmtls.LoadX509KeyPair(write("c.pem", certPEM), write("k.pem", key))
				case "GMX509KeyPairs":
					return gmtls.GMX509KeyPairs(certPEM, key, encCert, encKey)
				case "GMX509KeyPairsSingle":
					return gmtls.GMX509KeyPairsSingle(certPEM, key)
				case "LoadGMX509KeyPair":
					return gmtls.LoadGMX509KeyPair(write("c.pem", certPEM), write("k.pem", key))
				}
				return gmtls.LoadGMX509KeyPairs(write("c.pem", certPEM), write("k.pem", key), write("ec.pem", encCert), write("ek.pem", encKey))
			}
			var err2, err3 error
			var c3 gmtls.Certificate
			if pn := hx.Try(func() { _, err2 = call(other); c3, err3 = call(keyPEM) }); pn != nil {
				t.Fatalf("%s panicked on the second load of a certificate: %v", loader, pn.Val)
			}
			if err2 == nil {
				t.Fatalf("%s ACCEPTED a certificate with a key that does not match, right after the same certificate had been loaded with its own key", loader)
			}
			if pk, ok := c3.PrivateKey.(*sm2.PrivateKey); err3 != nil || !ok || pk.D.Cmp(k1.D) != 0 {
				t.Fatalf("%s: the matching pair no longer loads after a mismatching attempt: %v", loader, err3)
			}
			R.Class("loader_history")
		}
		rel := "mismatch"
		if keyRel == "match" {
			rel = "match"
		}
		R.Case(true, hx.HashKey("ldr", loader, certKind, keyRel, k1.D.Bytes()), loader+"/"+rel, "cert:"+certKind)
		R.Sample("loader", map[string]string{"loader": loader, "cert": certKind, "key": keyRel})
	})
}

func TestC14_Replay(t *testing.T) {
	// d with a leading zero nibble: hex round trip
	d, _ := new(big.Int).SetString("0abcdef0123456789abcdef0123456789abcdef0123456789abcdef012345678", 16)
	k := gen.Key{D: d, Pub: cv.BaseMul(d)}
	hs := gx509.WritePrivateKeyToHex(sm2x.Priv(k))
	got, err := gx509.ReadPrivateKeyFromHex(hs)
	if err != nil || got.D.Cmp(d) != 0 {
		t.Fatalf("hex round trip of d with odd digit count: %q %v", hs, err)
	}
	R.Case(true, hx.HashKey("replay"), "replay")
}
