//go:build verif

// C13 — SM2 key exchange: both parties derive the same key and the GM/T 0003.3 values.
package c13

import (
	"bytes"
	"crypto/elliptic"
	"fmt"
	"math/big"
	"testing"

	"github.com/tjfoc/gmsm/sm2"
	"pgregory.net/rapid"

	"verifharness/gen"
	"verifharness/hx"
	"verifharness/ref/rsm2"
	"verifharness/sm2x"
)

var R = hx.NewRecorder("C13", "cases = (two long-term keys, two ephemeral keys, two identities, key length) and hostile peer ephemerals (off-curve, infinity, V = infinity construction); "+
	"oracle = ref/rsm2.Exchange per GM/T 0003.3 (validated on the standard's worked example incl. S1/SB and S2/SA) and agreement between initiator and responder; non-trivial = four distinct keys and klen >= 1; distinct by hash of inputs")

var cv = rsm2.Std

func TestMain(m *testing.M) {
	R.Require("V_leading_zero", "eph_leading_zero", "id_empty", "klen%32!=0", "klen>32", "offcurve", "V_infinite", "id_too_long", "key_all_zero", "V_infinite_own_t_zero", "offcurve_foreign_curve", "offcurve_foreign_b", "ids_in_one_buffer", "t_sparse", "eph_minus_G")
	hx.Main(m, R)
}

func idGen() *rapid.Generator[[]byte] {
	return rapid.Custom(func(t *rapid.T) []byte {
		switch rapid.IntRange(0, 5).Draw(t, "idkind") {
		case 0:
			return []byte{}
		case 1:
			return []byte("1234567812345678")
		case 2:
			return gen.BytesN(rapid.SampledFrom([]int{8191, 4000, 257}).Draw(t, "long")).Draw(t, "id")
		default:
			return gen.BytesN(rapid.IntRange(1, 40).Draw(t, "n")).Draw(t, "id")
		}
	})
}

type kx struct {
	a, b, ra, rb gen.Key
	ida, idb     []byte
	klen         int
	shared       bool // both identities are windows of one caller buffer that has room behind them
}

func drawKX(t *rapid.T) kx {
	g := gen.KeyPair(hx.Root())
	c := kx{a: g.Draw(t, "dA"), b: g.Draw(t, "dB"), ra: g.Draw(t, "rA"), rb: g.Draw(t, "rB"), ida: idGen().Draw(t, "idA"), idb: idGen().Draw(t, "idB")}
	c.klen = rapid.OneOf(gen.LenAround(32, 1024), rapid.SampledFrom([]int{1, 16, 31, 32, 33, 48, 64})).Draw(t, "klen")
	if c.klen < 1 {
		c.klen = 1
	}
	c.shared = rapid.IntRange(0, 2).Draw(t, "sharedIDs") == 0
	if gen.OneIn(t, "ephMinusG", 8) {
		// the ephemeral secret n-1 (the standard draws r from [1, n-1]): the ephemeral point is -G, which shares its x
		// coordinate with the base point
		k := gen.Key{D: new(big.Int).Sub(cv.N, big.NewInt(1)), Pub: cv.Neg(cv.G()), Class: "eph_minus_G"}
		if rapid.Bool().Draw(t, "ephMinusGSide") {
			c.ra = k
		} else {
			c.rb = k
		}
	}
	// a long-term key chosen so that t = d + xbar(R)*r mod n is SPARSE (a power of two plus a little): the scalar
	// the implementation multiplies by then has very long runs of zero digits, which random keys never give
	if k := rapid.IntRange(0, 7).Draw(t, "sparseT"); k < 2 {
		tt := new(big.Int).Lsh(big.NewInt(1), uint(rapid.IntRange(129, 255).Draw(t, "tbit")))
		tt.Add(tt, big.NewInt(int64(rapid.SampledFrom([]int{1, 3, 2, 255, 65537}).Draw(t, "tlow"))))
		eph, lt := &c.ra, &c.a
		if k == 1 {
			eph, lt = &c.rb, &c.b
		}
		d := new(big.Int).Mul(cv.XBar(eph.Pub.X), eph.D)
		d.Sub(tt, d).Mod(d, cv.N)
		if d.Sign() > 0 && d.Cmp(new(big.Int).Sub(cv.N, big.NewInt(1))) < 0 {
			*lt = gen.Key{D: d, Pub: cv.BaseMul(d), Class: "sparse_t"}
		}
	}
	return c
}

// vPoint: the shared point as the standard defines it (for classification only).
func vPoint(c kx) rsm2.Point {
	tb := new(big.Int).Mul(cv.XBar(c.rb.Pub.X), c.rb.D)
	tb.Add(tb, c.b.D).Mod(tb, cv.N)
	return cv.Mul(cv.Add(c.a.Pub, cv.Mul(c.ra.Pub, cv.XBar(c.ra.Pub.X))), tb)
}

func run(t interface{ Fatalf(string, ...any) }, c kx) {
	var kA, s1A, s2A, kB, s1B, s2B []byte
	var eA, eB error
	// the key objects are the caller's: long-term keys are reused for many exchanges, so the functions must leave
	// every number in them as it was
	objs := []*sm2.PrivateKey{sm2x.Priv(c.a), sm2x.Priv(c.b), sm2x.Priv(c.ra), sm2x.Priv(c.rb)}
	pubs := []*sm2.PublicKey{sm2x.Pub(c.b.Pub), sm2x.Pub(c.rb.Pub), sm2x.Pub(c.a.Pub), sm2x.Pub(c.ra.Pub)}
	ida, idb := append([]byte{}, c.ida...), append([]byte{}, c.idb...)
	var shared, sharedWas []byte
	if c.shared {
		// one message buffer of the caller: idA | idB | other fields; each identity is a window with capacity behind it
		shared = make([]byte, len(c.ida)+len(c.idb)+192)
		for i := range shared {
			shared[i] = byte(0xA5 ^ i)
		}
		copy(shared, c.ida)
		copy(shared[len(c.ida):], c.idb)
		sharedWas = append([]byte{}, shared...)
		ida, idb = shared[:len(c.ida)], shared[len(c.ida):len(c.ida)+len(c.idb)]
	}
	if p := hx.Try(func() {
		kA, s1A, s2A, eA = sm2.KeyExchangeA(c.klen, ida, idb, objs[0], pubs[0], objs[2], pubs[1])
		kB, s1B, s2B, eB = sm2.KeyExchangeB(c.klen, ida, idb, objs[1], pubs[2], objs[3], pubs[3])
	}); p != nil {
		t.Fatalf("KeyExchange panicked: %v\n%s", p.Val, p.Stack)
	}
	for i, k := range []gen.Key{c.a, c.b, c.ra, c.rb} {
		x, y := k.Pub.Affine()
		if objs[i].D.Cmp(k.D) != 0 || objs[i].X.Cmp(x) != 0 || objs[i].Y.Cmp(y) != 0 {
			t.Fatalf("key exchange MODIFIED the caller's private key object #%d: D %x -> %x", i, k.D, objs[i].D)
		}
	}
	for i, k := range []gen.Key{c.b, c.rb, c.a, c.ra} {
		x, y := k.Pub.Affine()
		if pubs[i].X.Cmp(x) != 0 || pubs[i].Y.Cmp(y) != 0 {
			t.Fatalf("key exchange MODIFIED the caller's public key object #%d", i)
		}
	}
	if !bytes.Equal(ida, c.ida) || !bytes.Equal(idb, c.idb) {
		t.Fatalf("key exchange modified the caller's identity bytes")
	}
	if !bytes.Equal(shared, sharedWas) {
		t.Fatalf("key exchange WROTE into the caller's buffer outside the identity it was given (identities passed as windows of one buffer)")
	}
	wk, ws1, ws2, werr := cv.Exchange(c.klen, c.ida, c.idb, true, c.a.D, c.ra.D, c.b.Pub, c.rb.Pub)
	if werr != nil {
		if eA == nil || eB == nil {
			t.Fatalf("standard says failure (%v) but KeyExchangeA err=%v KeyExchangeB err=%v", werr, eA, eB)
		}
		return
	}
	if eA != nil || eB != nil {
		t.Fatalf("KeyExchange errors on valid inputs: A=%v B=%v", eA, eB)
	}
	desc := fmt.Sprintf("dA=%x dB=%x rA=%x rB=%x idA=%x idB=%x klen=%d", c.a.D, c.b.D, c.ra.D, c.rb.D, c.ida, c.idb, c.klen)
	if !bytes.Equal(kA, kB) || !bytes.Equal(s1A, s1B) || !bytes.Equal(s2A, s2B) {
		t.Fatalf("%s: initiator and responder disagree:\n kA=%x kB=%x\n s1A=%x s1B=%x\n s2A=%x s2B=%x", desc, kA, kB, s1A, s1B, s2A, s2B)
	}
	if len(kA) != c.klen {
		t.Fatalf("%s: key length %d", desc, len(kA))
	}
	if !bytes.Equal(kA, wk) {
		t.Fatalf("%s: shared key %x, GM/T 0003.3 gives %x", desc, kA, wk)
	}
	if !bytes.Equal(s1A, ws1) || !bytes.Equal(s2A, ws2) {
		t.Fatalf("%s: confirmation values\n got  S1=%x S2=%x\n want SB=%x SA=%x (GM/T 0003.3)", desc, s1A, s2A, ws1, ws2)
	}
}

func classes(c kx) []string {
	var cl []string
	v := vPoint(c)
	if !v.Inf && (len(v.X.Bytes()) < 32 || len(v.Y.Bytes()) < 32) {
		cl = append(cl, "V_leading_zero")
	}
	for _, k := range []gen.Key{c.ra, c.rb} {
		if len(k.Pub.X.Bytes()) < 32 || len(k.Pub.Y.Bytes()) < 32 {
			cl = append(cl, "eph_leading_zero")
			break
		}
	}
	if len(c.ida) == 0 || len(c.idb) == 0 {
		cl = append(cl, "id_empty")
	}
	if c.klen%32 != 0 {
		cl = append(cl, "klen%32!=0")
	}
	if c.klen > 32 {
		cl = append(cl, "klen>32")
	}
	if c.shared {
		cl = append(cl, "ids_in_one_buffer")
	}
	if c.ra.Class == "eph_minus_G" || c.rb.Class == "eph_minus_G" {
		cl = append(cl, "eph_minus_G")
	}
	if c.a.Class == "sparse_t" || c.b.Class == "sparse_t" {
		cl = append(cl, "t_sparse")
	}
	return cl
}

func TestC13_Exchange(t *testing.T) {
	hx.Check(t, hx.N(450, 10000), func(t *rapid.T) {
		c := drawKX(t)
		// steer toward a shared point with a leading zero byte: tB = dB + xbar2*rB, so stepping
		// dB by one adds W = PA + [xbar1]RA to V — one affine addition per candidate.
		if rapid.IntRange(0, 3).Draw(t, "vlz") == 0 {
			w := cv.Add(c.a.Pub, cv.Mul(c.ra.Pub, cv.XBar(c.ra.Pub.X)))
			v := vPoint(c)
			d := new(big.Int).Set(c.b.D)
			for i := 0; i < 2000 && d.Cmp(new(big.Int).Sub(cv.N, big.NewInt(3))) < 0; i++ {
				if !v.Inf && (len(v.X.Bytes()) < 32 || len(v.Y.Bytes()) < 32) {
					c.b = gen.Key{D: new(big.Int).Set(d), Pub: cv.BaseMul(d), Class: "walked"}
					break
				}
				v = cv.Add(v, w)
				d.Add(d, big.NewInt(1))
			}
		}
		run(t, c)
		distinct := c.a.D.Cmp(c.b.D) != 0 && c.ra.D.Cmp(c.rb.D) != 0 && c.a.D.Cmp(c.ra.D) != 0 && c.b.D.Cmp(c.rb.D) != 0
		R.Case(distinct, hx.HashKey(c.a.D.Bytes(), c.b.D.Bytes(), c.ra.D.Bytes(), c.rb.D.Bytes(), c.ida, c.idb, c.klen), classes(c)...)
		R.Sample("kx", map[string]interface{}{"dA": c.a.Class, "rB": c.rb.Class, "idA": len(c.ida), "idB": len(c.idb), "klen": c.klen})
	})
}

func TestC13_Hostile(t *testing.T) {
	one := big.NewInt(1)
	hx.Check(t, hx.N(500, 10000), func(t *rapid.T) {
		c := drawKX(t)
		kind := rapid.SampledFrom([]string{"x+1", "y^1", "zero", "ge_p", "random", "V_infinite", "id_too_long", "t_zero", "foreign_curve", "foreign_b"}).Draw(t, "kind")
		role := rapid.Bool().Draw(t, "victimIsA")
		// victim's view of the peer's ephemeral public key
		peer := c.rb.Pub
		if !role {
			peer = c.ra.Pub
		}
		x, y := peer.Affine()
		peerLong := c.b.Pub
		if !role {
			peerLong = c.a.Pub
		}
		px, py := peerLong.Affine()
		cls := "offcurve"
		var foreign elliptic.Curve
		ida, idb := c.ida, c.idb
		switch kind {
		case "x+1":
			x.Add(x, one)
		case "y^1":
			y.Xor(y, one)
		case "zero":
			x, y = new(big.Int), new(big.Int)
		case "ge_p":
			x.Add(x, cv.P) // same residue, coordinate >= p
		case "random":
			x = gen.BigBelow(cv.P).Draw(t, "x")
			y = gen.BigBelow(cv.P).Draw(t, "y")
		case "V_infinite":
			// malicious peer chooses long-term P = -[xbar(R)]R so that P + [xbar]R = infinity
			neg := cv.Neg(cv.Mul(peer, cv.XBar(peer.X)))
			px, py = neg.Affine()
			cls = "V_infinite"
		case "t_zero":
			// the victim's OWN long-term key happens to be d = -xbar(R_own)*r_own mod n: t = 0, so V = [h*t](P + [xbar]R) is the
			// point at infinity although every value of the peer is honest (GM/T 0003.3 A7/B6: the exchange fails)
			own, ownEph := &c.a, c.ra
			if !role {
				own, ownEph = &c.b, c.rb
			}
			d := new(big.Int).Mul(cv.XBar(ownEph.Pub.X), ownEph.D)
			d.Neg(d).Mod(d, cv.N)
			if d.Sign() == 0 || d.Cmp(new(big.Int).Sub(cv.N, one)) >= 0 {
				R.Discard()
				return
			}
			*own = gen.Key{D: d, Pub: cv.BaseMul(d)}
			cls = "V_infinite_own_t_zero"
		case "foreign_curve":
			// the peer's ephemeral key object names another curve and lies on THAT one (the NIST P-256 base point or a
			// multiple of it): not a point of the SM2 curve
			nist := elliptic.P256()
			k := gen.BigBelow(nist.Params().N).Draw(t, "nistk")
			if k.Sign() == 0 {
				k.SetInt64(1)
			}
			x, y = nist.ScalarBaseMult(k.Bytes())
			foreign = nist
			cls = "offcurve_foreign_curve"
		case "foreign_b":
			// ... or carries parameters that differ from SM2's only in b, with a point of that curve (invalid-curve point)
			for try := int64(1); ; try++ {
				x = new(big.Int).Add(gen.BigBelow(cv.P).Draw(t, "fx"), big.NewInt(try))
				x.Mod(x, cv.P)
				y = gen.BigBelow(cv.P).Draw(t, "fy")
				// b' = y^2 - x^3 - a x
				b2 := new(big.Int).Mul(y, y)
				x3 := new(big.Int).Mul(x, x)
				x3.Mul(x3, x)
				b2.Sub(b2, x3).Sub(b2, new(big.Int).Mul(cv.A, x)).Mod(b2, cv.P)
				if b2.Cmp(cv.B) != 0 {
					pp := *sm2.P256Sm2().Params()
					pp.B = b2
					foreign = &pp
					break
				}
			}
			cls = "offcurve_foreign_b"
		case "id_too_long":
			if rapid.Bool().Draw(t, "which") {
				ida = make([]byte, 8192)
			} else {
				idb = make([]byte, 8200)
			}
			cls = "id_too_long"
		}
		if cls == "offcurve" && cv.OnCurve(x, y) {
			R.Discard()
			return
		}
		if foreign != nil && cv.OnCurve(x, y) {
			R.Discard()
			return
		}
		ep := &sm2.PublicKey{Curve: sm2.P256Sm2(), X: x, Y: y}
		if foreign != nil {
			ep.Curve = foreign
		}
		lp := &sm2.PublicKey{Curve: sm2.P256Sm2(), X: px, Y: py}
		var k, s1, s2 []byte
		var err error
		p := hx.Try(func() {
			if role {
				k, s1, s2, err = sm2.KeyExchangeA(c.klen, ida, idb, sm2x.Priv(c.a), lp, sm2x.Priv(c.ra), ep)
			} else {
				k, s1, s2, err = sm2.KeyExchangeB(c.klen, ida, idb, sm2x.Priv(c.b), lp, sm2x.Priv(c.rb), ep)
			}
		})
		if p != nil {
			t.Fatalf("KeyExchange panicked on hostile input %s: %v\n%s", kind, p.Val, p.Stack)
		}
		if kind == "ge_p" {
			// coordinates >= p are outside the domain the property speaks about ([0,p)^2):
			// either outcome is accepted, only "no panic" is demanded
			R.Case(true, hx.HashKey("hostile", kind, role, x.Bytes()), "unspecified:coord>=p")
			return
		}
		if err == nil {
			t.Fatalf("KeyExchange (victim initiator=%v) returned a key for hostile peer input %q: k=%x s1=%x s2=%x ephemeral=(%x,%x)", role, kind, k, s1, s2, x, y)
		}
		if len(k) != 0 {
			t.Fatalf("error returned together with key material")
		}
		R.Case(true, hx.HashKey("hostile", kind, role, x.Bytes(), y.Bytes(), px.Bytes()), cls, "hostile:"+kind)
	})
}

// Very short keys: K is the first klen bytes of the KDF output, and for klen = 1 (2) one exchange in 256 (65536) has
// K = 00 (0000) - a perfectly good outcome of GM/T 0003.3, which knows no "zero key" failure in the key exchange. The
// identity of the initiator is searched (reference only) until the prescribed one-byte key is 00; the library must
// then return exactly that.
func TestC13_ZeroKeyBytes(t *testing.T) {
	n := 2
	if hx.Thorough() {
		n = 12
	}
	for i := 0; i < n; i++ {
		mk := func(j int64) gen.Key {
			d := new(big.Int).Lsh(big.NewInt(int64(hx.Seed())*100+int64(i)*10+j+3), 150)
			d.Add(d, big.NewInt(0x1234567+j))
			return gen.Key{D: d, Pub: cv.BaseMul(d)}
		}
		c := kx{a: mk(1), b: mk(2), ra: mk(3), rb: mk(4), idb: []byte("responder"), klen: 1}
		found := false
		for ctr := 0; ctr < 4000 && !found; ctr++ {
			c.ida = []byte(fmt.Sprintf("initiator-%d", ctr))
			k, _, _, err := cv.Exchange(1, c.ida, c.idb, true, c.a.D, c.ra.D, c.b.Pub, c.rb.Pub)
			if err == nil && len(k) == 1 && k[0] == 0 {
				found = true
			}
		}
		if !found {
			t.Fatalf("harness: no identity with a zero one-byte key among 4000")
		}
		run(t, c)
		R.Case(true, hx.HashKey("zerokey", c.ida, i), "key_all_zero")
	}
}

func TestC13_Replay(t *testing.T) {
	h := func(s string) *big.Int { v, _ := new(big.Int).SetString(s, 16); return v }
	mk := func(d *big.Int) gen.Key { return gen.Key{D: d, Pub: cv.BaseMul(d)} }
	c := kx{a: mk(h("81EB26E941BB5AF16DF116495F90695272AE2CD63D6C4AE1678418BE48230029")), b: mk(h("785129917D45A9EA5437A59356B82338EAADDA6CEB199088F14AE10DEFA229B5")),
		ra: mk(h("D4DE15474DB74D06491C440D305E012400990F3E390C7E87153C12DB2EA60BB3")), rb: mk(h("7E07124814B309489125EAED101113164EBF0F3458C5BD88335C1F9D596243D6")),
		ida: rsm2.DefaultUID, idb: rsm2.DefaultUID, klen: 16}
	run(t, c)
	k, s1, s2, err := sm2.KeyExchangeA(16, c.ida, c.idb, sm2x.Priv(c.a), sm2x.Pub(c.b.Pub), sm2x.Priv(c.ra), sm2x.Pub(c.rb.Pub))
	if err != nil || fmt.Sprintf("%X", k) != "6C89347354DE2484C60B4AB1FDE4C6E5" ||
		fmt.Sprintf("%X", s1) != "D3A0FE15DEE185CEAE907A6B595CC32A266ED7B3367E9983A896DC32FA20F8EB" ||
		fmt.Sprintf("%X", s2) != "18C7894B3816DF16CF07B05C5EC0BEF5D655D58F779CC1B400A4F3884644DB88" {
		t.Fatalf("GM/T 0003.5 key exchange example: K=%X S1=%X S2=%X err=%v", k, s1, s2, err)
	}
	R.Case(true, hx.HashKey("replay"), "replay")
}
