//go:build verif

// C07 — protected records cannot be altered, reordered, replayed or truncated undetected.
package c07

import (
	"bytes"
	"fmt"
	"io"
	"testing"

	"github.com/tjfoc/gmsm/gmtls"
	"pgregory.net/rapid"

	"verifharness/gen"
	"verifharness/hx"
	"verifharness/ref/rgmssl"
	"verifharness/tlsx"
	"verifharness/wire"
)

var R = hx.NewRecorder("C07", "cases = established sessions (both GMSSL ECC suites, TLS 1.2 AES-GCM/CBC as control) carrying generated application writes in a chosen direction, with one fault applied by a record-level man in the middle: bit flip, truncate, extend, header rewrite, drop, duplicate, swap, replay (other direction / pre-CCS / other connection), crafted record with chosen CBC padding length or corrupted padding byte, connection cut; "+
	"oracle = per-record plaintexts from the independent passive decoder of the sender's unmodified stream: the receiver delivers exactly the concatenation of the records before the first affected one, then fails (error; plain EOF only for pure cuts), stays failed, and for every captured record explicit IVs never repeat nor equal the previous ciphertext block, GCM nonces increase by one, sequence numbers advance by one (the decoder only accepts record k under sequence k); "+
	"non-trivial = a fault that hit a record with genuine records before or after it; distinct by hash of (suite, direction, writes, fault)")

func TestMain(m *testing.M) {
	for _, k := range []string{"bitflip", "truncate", "extend", "hdr_type", "hdr_version", "hdr_len", "drop", "duplicate", "swap", "replay_other_dir", "replay_preccs", "replay_other_conn", "inject", "cut", "pad_valid", "pad_corrupt", "oversize_plain"} {
		R.Require("fault:" + k)
	}
	R.Require("short_reading_rand", "write_failure_then_close", "long_session", "padmax:255", "padmax:240", "suite:e013", "suite:e053", "dir:c2s", "dir:s2c", "control_tls12", "padlen_all_16", "bitflip_exhaustive_done")
	hx.Main(m, R)
}

type fault struct {
	Kind  string
	Index int // protected-record index in the chosen direction (0 = Finished)
	Bit   int
	K     int
	Pad   int
}

type sess struct {
	Suite  uint16 // GM suite, or 0xc02f / 0xc014 for the TLS 1.2 controls
	C2S    bool   // direction under attack
	Writes [][]byte
}

// mitm is the record-level man in the middle for one direction.
type mitm struct {
	f        fault
	split    wire.RecordSplitter
	afterCCS bool
	idx      int
	held     []byte
	fired    bool
	cut      bool
	otherDir [][]byte // protected records seen in the opposite direction
	preCCS   [][]byte // plaintext records of this direction before CCS
	foreign  []byte   // a record from another connection
	crafted  func(orig []byte) []byte
}

func (m *mitm) filter(p []byte) [][]byte {
	var out [][]byte
	for _, rec := range m.split.Feed(p) {
		out = append(out, m.one(rec)...)
	}
	return out
}

func (m *mitm) one(rec []byte) [][]byte {
	if m.cut {
		return nil
	}
	if !m.afterCCS {
		if rec[0] == 20 {
			m.afterCCS = true
		} else {
			m.preCCS = append(m.preCCS, rec)
		}
		return [][]byte{rec}
	}
	i := m.idx
	m.idx++
	if m.held != nil {
		h := m.held
		m.held = nil
		return [][]byte{rec, h}
	}
	if i != m.f.Index {
		return [][]byte{rec}
	}
	m.fired = true
	mut := append([]byte(nil), rec...)
	switch m.f.Kind {
	case "bitflip":
		b := m.f.Bit % (len(mut) * 8)
		mut[b/8] ^= 1 << uint(b%8)
		return [][]byte{mut}
	case "truncate":
		k := 1 + m.f.K%(len(mut)-5)
		mut = mut[:len(mut)-k]
		n := len(mut) - 5
		mut[3], mut[4] = byte(n>>8), byte(n)
		return [][]byte{mut}
	case "extend":
		k := 1 + m.f.K%40
		mut = append(mut, bytes.Repeat([]byte{0x5c}, k)...)
		n := len(mut) - 5
		mut[3], mut[4] = byte(n>>8), byte(n)
		return [][]byte{mut}
	case "hdr_type":
		mut[0] = []byte{20, 21, 22, 23, 24}[m.f.K%5]
		if mut[0] == rec[0] {
			mut[0] = 24
		}
		return [][]byte{mut}
	case "hdr_version":
		mut[1+m.f.K%2] ^= byte(1 + m.f.Bit%3)
		return [][]byte{mut}
	case "hdr_len":
		n := len(rec) - 5 + []int{-1, 1, -16, 16}[m.f.K%4]
		mut[3], mut[4] = byte(n>>8), byte(n)
		return [][]byte{mut}
	case "drop":
		return nil
	case "duplicate":
		return [][]byte{rec, rec}
	case "swap":
		m.held = rec
		return nil
	case "replay_other_dir":
		if len(m.otherDir) == 0 {
			m.fired = false
			return [][]byte{rec}
		}
		return [][]byte{m.otherDir[m.f.K%len(m.otherDir)], rec}
	case "replay_preccs":
		return [][]byte{m.preCCS[m.f.K%len(m.preCCS)], rec}
	case "replay_other_conn":
		return [][]byte{m.foreign, rec}
	case "inject":
		// a record that never came from the peer, in front of genuine record #Index: lengths around what the suite needs at
		// least (explicit IV/nonce, MAC or tag, one padding byte), block-aligned and not, down to an empty record
		l := []int{0, 1, 8, 15, 16, 17, 24, 31, 32, 33, 48, 49, 64, 80, 96, 256}[m.f.K%16]
		bogus := make([]byte, 5+l)
		gen.Fill(bogus[5:], uint64(m.f.Bit))
		bogus[0], bogus[1], bogus[2], bogus[3], bogus[4] = []byte{23, 23, 23, 22, 21}[m.f.Bit%5], rec[1], rec[2], byte(l>>8), byte(l)
		return [][]byte{bogus, rec}
	case "cut":
		m.cut = true
		return nil
	case "pad_valid", "pad_corrupt", "oversize_plain":
		if c := m.crafted(rec); c != nil {
			return [][]byte{c}
		}
		m.fired = false
		return [][]byte{rec}
	}
	return [][]byte{rec}
}

func configs(s sess, id string) (ccfg, scfg *gmtls.Config) {
	p := tlsx.GetPKI()
	switch s.Suite {
	case tlsx.GMECCSM4CBCSM3, tlsx.GMECCSM4GCMSM3:
		ccfg, scfg = tlsx.GMClient(p, "c"+id), tlsx.GMServer(p, "s"+id)
	default:
		ccfg, scfg = tlsx.TLSClient(p, "c"+id), tlsx.TLSServer(p, p.RSASrv, "s"+id)
		// the control's model maps one Write to one record, which needs fixed-size records
		ccfg.DynamicRecordSizingDisabled, scfg.DynamicRecordSizingDisabled = true, true
	}
	ccfg.CipherSuites = []uint16{s.Suite}
	scfg.CipherSuites = []uint16{s.Suite}
	return
}

var foreignRecord = map[uint16][]byte{}

func foreign(suite uint16) []byte {
	if r, ok := foreignRecord[suite]; ok {
		return r
	}
	ccfg, scfg := configs(sess{Suite: suite}, "foreign")
	res := tlsx.Run(ccfg, scfg, tlsx.Script{ClientSend: []byte("data from another connection")})
	recs := wire.SplitRecords(res.C2S)
	var app []byte
	for _, r := range recs {
		if r[0] == 23 {
			app = r
		}
	}
	if app == nil {
		panic("no foreign record")
	}
	foreignRecord[suite] = app
	return app
}

// runFault runs one session with one fault and checks the oracle. Returns class labels.
func runFault(t interface{ Fatalf(string, ...any) }, s sess, f fault, id string) (cls []string, nontrivial bool) {
	p := tlsx.GetPKI()
	ccfg, scfg := configs(s, id)
	m := &mitm{f: f, foreign: foreign(s.Suite)}
	var other wire.RecordSplitter
	otherCCS := false
	var res *tlsx.Result
	gm := s.Suite == tlsx.GMECCSM4CBCSM3 || s.Suite == tlsx.GMECCSM4GCMSM3
	var log *[]rgmssl.Chunk
	m.crafted = func(orig []byte) []byte {
		if !gm || (s.Suite != tlsx.GMECCSM4CBCSM3 && f.Kind != "oversize_plain") || orig[0] != 23 {
			return nil
		}
		// derive this session's keys independently from the handshake seen so far
		d, _ := rgmssl.Decode(*log, p.SrvEnc.SM2D, nil)
		if d == nil || d.Master == nil {
			return nil
		}
		keys := rgmssl.KeyBlock(d.Suite, d.Master, d.ClientRandom, d.ServerRandom)
		macKey, key := keys.ServerMAC, keys.ServerKey
		if s.C2S {
			macKey, key = keys.ClientMAC, keys.ClientKey
		}
		// re-seal the same plaintext with a chosen padding length under the same sequence number
		var plain []byte
		recs := d.ServerRecs
		if s.C2S {
			recs = d.ClientRecs
		}
		_ = recs
		// the record being replaced has not been decoded yet (log is pre-filter, so it is in the log): find it
		d2, _ := rgmssl.Decode(*log, p.SrvEnc.SM2D, nil)
		rr := d2.ServerRecs
		if s.C2S {
			rr = d2.ClientRecs
		}
		if len(rr) <= f.Index {
			return nil
		}
		plain = rr[f.Index].Plain
		if f.Kind == "oversize_plain" {
			// a correctly keyed, correctly numbered record whose plaintext exceeds 2^14 bytes while the record as a whole
			// stays below the ciphertext limit 2^14+2048: the receiver must refuse it (record_overflow)
			big := make([]byte, 16385+f.K%1500)
			gen.Fill(big, uint64(f.K))
			iv := keys.ServerIV
			if s.C2S {
				iv = keys.ClientIV
			}
			explicit := bytes.Repeat([]byte{0x42}, 16)
			if s.Suite == tlsx.GMECCSM4GCMSM3 {
				explicit = []byte{0, 0, 0, 0, 0, 0, 0, byte(f.Index)}
			}
			return rgmssl.Seal(s.Suite, macKey, key, iv, uint64(f.Index), 23, explicit, big)
		}
		return sealWithPad(macKey, key, uint64(f.Index), plain, f.Pad, f.Kind == "pad_corrupt", f.K)
	}
	sc := tlsx.Script{Setup: func(cw, sw *wire.Conn) {
		att, oth := cw, sw
		if !s.C2S {
			att, oth = sw, cw
		}
		att.FilterOut(m.filter)
		oth.FilterOut(func(pp []byte) [][]byte {
			for _, rec := range other.Feed(pp) {
				if otherCCS {
					m.otherDir = append(m.otherDir, rec)
				} else if rec[0] == 20 {
					otherCCS = true
				}
			}
			return [][]byte{pp}
		})
	}}
	var total []byte
	for _, w := range s.Writes {
		total = append(total, w...)
	}
	// one Write per element: use explicit fragments equal to the write sizes
	var frags []int
	for _, w := range s.Writes {
		frags = append(frags, len(w))
	}
	if s.C2S {
		sc.ClientSend, sc.ClientFrags = total, frags
	} else {
		sc.ServerSend, sc.ServerFrags = total, frags
	}
	res = &tlsx.Result{}
	log = &res.Log
	r := tlsx.RunInto(res, ccfg, scfg, sc)
	desc := fmt.Sprintf("suite=%x c2s=%v writes=%v fault=%+v fired=%v\n %s", s.Suite, s.C2S, lens(s.Writes), f, m.fired, r.Describe())
	if r.Client.Panic != nil || r.Server.Panic != nil {
		t.Fatalf("endpoint panicked\n%s", desc)
	}
	recv, send := &r.Server, &r.Client
	if !s.C2S {
		recv, send = &r.Client, &r.Server
	}
	_ = send
	cls = []string{fmt.Sprintf("suite:%x", s.Suite), map[bool]string{true: "dir:c2s", false: "dir:s2c"}[s.C2S]}
	if !gm {
		cls = append(cls, "control_tls12")
	}
	// plaintext per protected record of the attacked direction, from the independent decoder
	var recPlain [][]byte
	var recTypes []byte
	if gm {
		d, err := rgmssl.Decode(r.Log, p.SrvEnc.SM2D, nil)
		if err != nil && d == nil {
			t.Fatalf("decoder: %v\n%s", err, desc)
		}
		recs := d.ServerRecs
		if s.C2S {
			recs = d.ClientRecs
		}
		for _, ri := range recs {
			recPlain = append(recPlain, ri.Plain)
			recTypes = append(recTypes, ri.Type)
		}
		if err != nil && m.fired && f.Index > 0 {
			// the unmodified streams must always decode; an error here means the sender itself emitted something
			// the independent implementation rejects — unless the session died before (handshake fault)
			if recv.HSErr == nil && send.HSErr == nil {
				t.Fatalf("independent decoder rejects the sender's own (unmodified) stream: %v\n%s", err, desc)
			}
		}
		checkFreshness(t, d, desc)
	} else {
		// TLS 1.2 control: one record per Write (no 1/n-1 split at 1.2): record 0 = Finished
		recPlain = append(recPlain, nil)
		recTypes = append(recTypes, 22)
		for _, w := range s.Writes {
			for off := 0; off < len(w); off += 16384 {
				e := off + 16384
				if e > len(w) {
					e = len(w)
				}
				recPlain = append(recPlain, w[off:e])
				recTypes = append(recTypes, 23)
			}
		}
		recPlain = append(recPlain, nil) // close_notify
		recTypes = append(recTypes, 21)
	}
	if !m.fired {
		// pass-through (fault index beyond the last record): everything must arrive
		if recv.HSErr != nil || !bytes.Equal(recv.Received, total) {
			t.Fatalf("no fault applied, yet the receiver got %d of %d bytes (hs=%v io=%v)\n%s", len(recv.Received), len(total), recv.HSErr, recv.IOErr, desc)
		}
		return append(cls, "passthrough"), false
	}
	cls = append(cls, "fault:"+f.Kind)
	var want []byte
	upto := f.Index
	if f.Kind == "duplicate" {
		upto++ // the first copy is genuine; the second one is the affected record
	}
	for i := 0; i < upto && i < len(recPlain); i++ {
		if recTypes[i] == 23 {
			want = append(want, recPlain[i]...)
		}
	}
	// pad_valid replaces a record by an equivalent one: everything must still arrive
	if f.Kind == "pad_valid" {
		if !bytes.Equal(recv.Received, total) || recv.IOErr != nil {
			t.Fatalf("a record re-sealed with a valid %d-byte CBC padding was not accepted: receiver got %d of %d bytes, err=%v\n%s", f.Pad, len(recv.Received), len(total), recv.IOErr, desc)
		}
		return append(cls, fmt.Sprintf("padlen:%d", f.Pad)), true
	}
	if f.Index == 0 {
		// fault on Finished: the handshake must fail on the receiving side
		lateKinds := f.Kind == "duplicate" // the genuine Finished arrives first; the extra copy is the affected record
		if recv.HSErr == nil && !lateKinds && f.Kind != "replay_other_dir" && f.Kind != "replay_preccs" && f.Kind != "replay_other_conn" {
			t.Fatalf("handshake completed although the peer's Finished record was tampered with (%s)\n%s", f.Kind, desc)
		}
		if recv.HSErr == nil && recv.IOErr == nil {
			t.Fatalf("a %s fault at the Finished record went completely unnoticed by the receiver\n%s", f.Kind, desc)
		}
		if len(recv.Received) != 0 {
			t.Fatalf("data delivered after a fault on the Finished record\n%s", desc)
		}
		return append(cls, "on_finished"), true
	}
	if recv.HSErr != nil {
		t.Fatalf("handshake failed although the fault only hits record %d\n%s", f.Index, desc)
	}
	if !bytes.Equal(recv.Received, want) {
		t.Fatalf("receiver delivered %d bytes; the records before the first affected one (#%d) carry %d bytes — delivered data is %s\n%s",
			len(recv.Received), f.Index, len(want), relation(recv.Received, want, total), desc)
	}
	pureCut := f.Kind == "cut" || f.Kind == "drop" || f.Kind == "swap" && f.Index >= len(recPlain)-1
	if f.Kind == "drop" && f.Index < len(recPlain)-1 {
		pureCut = false // a later genuine record follows and must be rejected
	}
	if f.Kind == "duplicate" && f.Index < len(recTypes) && recTypes[f.Index] == 21 {
		pureCut = true // the second copy follows the genuine close_notify: the receiver has already seen the end of the stream
	}
	if recv.IOErr == nil && !pureCut {
		t.Fatalf("receiver saw a clean end of stream although record #%d was %s\n%s", f.Index, f.Kind, desc)
	}
	if recv.IOErr != nil && recv.SecondErr == nil {
		t.Fatalf("error is not sticky: a Read after the failure succeeded\n%s", desc)
	}
	nontrivial = len(want) > 0 || f.Index < len(recPlain)-1
	return cls, nontrivial
}

func relation(got, want, total []byte) string {
	switch {
	case bytes.HasPrefix(total, got) && len(got) > len(want):
		return "a longer prefix of the sent data (records at or after the fault were delivered)"
	case bytes.HasPrefix(total, got):
		return "a shorter prefix of the sent data"
	default:
		return "NOT a prefix of what was sent"
	}
}

func lens(w [][]byte) (o []int) {
	for _, x := range w {
		o = append(o, len(x))
	}
	return
}

func checkFreshness(t interface{ Fatalf(string, ...any) }, d *rgmssl.Decoded, desc string) {
	for _, recs := range [][]rgmssl.RecordInfo{d.ClientRecs, d.ServerRecs} {
		seen := map[string]int{}
		var prevLast []byte
		var prevNonce uint64
		for i, ri := range recs {
			if ri.Seq != uint64(i) {
				t.Fatalf("record %d accepted under sequence number %d\n%s", i, ri.Seq, desc)
			}
			k := string(ri.Explicit)
			if j, dup := seen[k]; dup {
				t.Fatalf("explicit IV/nonce of record %d repeats the one of record %d: %x\n%s", i, j, ri.Explicit, desc)
			}
			seen[k] = i
			if d.Suite == rgmssl.SuiteECCCBC {
				if prevLast != nil && bytes.Equal(prevLast, ri.Explicit) {
					t.Fatalf("explicit IV of record %d equals the last ciphertext block of record %d (predictable IV)\n%s", i, i-1, desc)
				}
				prevLast = ri.LastCT
			} else {
				var n uint64
				for _, b := range ri.Explicit {
					n = n<<8 | uint64(b)
				}
				if i > 0 && n != prevNonce+1 {
					t.Fatalf("GCM explicit nonce of record %d is %d, previous was %d (must advance by exactly one)\n%s", i, n, prevNonce, desc)
				}
				prevNonce = n
			}
		}
	}
}

// sessions long enough for the implicit sequence number (and the GCM explicit nonce) to carry into its second byte
// (quick: 700 records per direction) and third byte (thorough: 70000): every record is opened by the independent
// decoder under its own count, so a counter that mis-carries is rejected there
func TestC07_LongSessions(t *testing.T) {
	p := tlsx.GetPKI()
	nrec := 700
	if hx.Thorough() {
		nrec = 70000
	}
	for _, suite := range []uint16{tlsx.GMECCSM4CBCSM3, tlsx.GMECCSM4GCMSM3} {
		if hx.Shards() > 1 && int(suite)%hx.Shards()%2 != hx.Shard()%2 {
			continue
		}
		ccfg, scfg := configs(sess{Suite: suite}, fmt.Sprint("long", suite))
		writes := nrec
		if suite == tlsx.GMECCSM4CBCSM3 {
			writes = nrec / 2 // 1/n-1 splitting: two records per 2-byte write
		}
		data := make([]byte, 2*writes)
		gen.Fill(data, uint64(suite))
		frags := []int{2}
		r := tlsx.Run(ccfg, scfg, tlsx.Script{ClientSend: data, ClientFrags: frags, ServerSend: data[:len(data)/2*2], ServerFrags: frags})
		desc := fmt.Sprintf("long session suite=%x writes=%d %s", suite, writes, r.Describe())
		if r.Client.HSErr != nil || r.Server.HSErr != nil || !bytes.Equal(r.Server.Received, data) || !bytes.Equal(r.Client.Received, data) {
			t.Fatalf("long session failed\n%s", desc)
		}
		d, err := rgmssl.Decode(r.Log, p.SrvEnc.SM2D, nil)
		if err != nil {
			t.Fatalf("the independent decoder rejects a record of a long session (sequence numbers beyond 255?): %v\n%s", err, desc)
		}
		if len(d.ClientRecs) < nrec || len(d.ServerRecs) < nrec {
			t.Fatalf("harness: only %d / %d records in the long session", len(d.ClientRecs), len(d.ServerRecs))
		}
		checkFreshness(t, d, desc)
		R.Case(true, hx.HashKey("long", suite, nrec), "long_session", fmt.Sprintf("suite:%x", suite))
	}
}

// sealWithPad builds an ECC_SM4_CBC_SM3 application record with a chosen padding length (0..255 as TLS allows).
func sealWithPad(macKey, key []byte, seq uint64, plain []byte, pad int, corrupt bool, which int) []byte {
	// total = len(plain)+32+pad+1 must be a multiple of 16: adjust pad upward within 0..255 keeping pad mod 16
	base := (16 - (len(plain)+32+1)%16) % 16
	pad = base + 16*((pad-base+256)/16%16)
	if pad > 255 {
		pad -= 16
	}
	rec := rgmssl.SealPadded(rgmssl.SuiteECCCBC, macKey, key, seq, 23, bytes.Repeat([]byte{0x42}, 16), plain, pad, corrupt, which)
	return rec
}

func writesGen() *rapid.Generator[[][]byte] {
	return rapid.Custom(func(t *rapid.T) [][]byte {
		n := rapid.IntRange(2, 5).Draw(t, "nwrites")
		var out [][]byte
		for i := 0; i < n; i++ {
			var l int
			switch gen.Uniform(t, "wk", 6) {
			case 0:
				l = 1
			case 1:
				l = rapid.SampledFrom([]int{15, 16, 17, 31, 32, 33, 47, 48, 16384}).Draw(t, "edge")
			case 2:
				l = rapid.IntRange(1, 16).Draw(t, "padsweep") + 16 // covers every CBC padding length
			default:
				l = rapid.IntRange(1, 2000).Draw(t, "wlen")
			}
			b := make([]byte, l)
			gen.Fill(b, uint64(l)*131+uint64(i))
			out = append(out, b)
		}
		return out
	})
}

var faultKinds = []string{"bitflip", "bitflip", "truncate", "extend", "hdr_type", "hdr_version", "hdr_len", "drop", "duplicate", "swap", "replay_other_dir", "replay_preccs", "replay_other_conn", "inject", "inject", "cut", "pad_valid", "pad_corrupt", "oversize_plain"}

func TestC07_Faults(t *testing.T) {
	n := 0
	hx.Check(t, hx.N(700, 8000), func(t *rapid.T) {
		n++
		s := sess{Suite: rapid.SampledFrom([]uint16{tlsx.GMECCSM4CBCSM3, tlsx.GMECCSM4CBCSM3, tlsx.GMECCSM4GCMSM3, tlsx.GMECCSM4GCMSM3, 0xc02f, 0xc014}).Draw(t, "suite"),
			C2S: rapid.Bool().Draw(t, "c2s"), Writes: writesGen().Draw(t, "writes")}
		f := fault{Kind: rapid.SampledFrom(faultKinds).Draw(t, "kind"), Index: rapid.IntRange(0, len(s.Writes)+1).Draw(t, "index"),
			Bit: rapid.IntRange(0, 1<<20).Draw(t, "bit"), K: rapid.IntRange(0, 1000).Draw(t, "k"), Pad: rapid.IntRange(0, 255).Draw(t, "pad")}
		if gen.Uniform(t, "appidx", 4) != 0 && f.Index == 0 {
			f.Index = 1
		}
		if (f.Kind == "pad_valid" || f.Kind == "pad_corrupt") && s.Suite != tlsx.GMECCSM4CBCSM3 {
			s.Suite = tlsx.GMECCSM4CBCSM3
		}
		if (f.Kind == "pad_valid" || f.Kind == "pad_corrupt") && f.Index == 0 {
			f.Index = 1
		}
		cls, nt := runFault(t, s, f, fmt.Sprint(n))
		R.Case(nt, hx.HashKey(fmt.Sprintf("%x %v %v %+v", s.Suite, s.C2S, lens(s.Writes), f)), cls...)
		R.Sample(f.Kind, map[string]interface{}{"suite": fmt.Sprintf("%x", s.Suite), "c2s": s.C2S, "writes": lens(s.Writes), "fault": f})
	})
}

// every bit of every byte of a short protected record, both GM suites, both directions
func TestC07_BitflipExhaustive(t *testing.T) {
	sizes := []int{1}
	if hx.Thorough() {
		sizes = []int{1, 17, 48}
	}
	var total int64
	k := 0
	for _, suite := range []uint16{tlsx.GMECCSM4CBCSM3, tlsx.GMECCSM4GCMSM3} {
		for _, c2s := range []bool{true, false} {
			for _, sz := range sizes {
				k++
				if hx.Shards() > 1 && k%hx.Shards() != hx.Shard() {
					continue
				}
				w := [][]byte{bytes.Repeat([]byte("a"), 7), bytes.Repeat([]byte("b"), sz), []byte("tail")}
				// record #2 is the middle write; its size on the wire
				ccfg, scfg := configs(sess{Suite: suite}, "probe")
				probe := tlsx.Run(ccfg, scfg, tlsx.Script{ClientSend: bytes.Join(w, nil), ClientFrags: []int{7, sz, 4}})
				var recLen int
				cnt := -1
				for _, r := range wire.SplitRecords(probe.C2S) {
					if cnt >= 0 {
						cnt++
						if cnt == 3 {
							recLen = len(r)
						}
					} else if r[0] == 20 {
						cnt = 0
					}
				}
				if recLen == 0 || recLen > 160 {
					t.Fatalf("harness: probe record length %d", recLen)
				}
				step := 1
				if !hx.Thorough() {
					step = 3 // quick: every third bit
				}
				for bit := 0; bit < recLen*8; bit += step {
					runFault(t, sess{Suite: suite, C2S: c2s, Writes: w}, fault{Kind: "bitflip", Index: 2, Bit: bit}, fmt.Sprintf("bf%d", bit))
					total++
				}
				R.Case(true, hx.HashKey("bfx", suite, c2s, sz), "bitflip_exhaustive_done", fmt.Sprintf("suite:%x", suite))
			}
		}
	}
	R.Subspace("every (quick: every third) bit of one protected record per (suite, direction, size)", total, hx.Thorough())
}

// all CBC padding lengths the sender actually produces (0..15) are seen, and every TLS-legal padding length 0..255 crafted by the reference sealer is accepted
func TestC07_PaddingLengths(t *testing.T) {
	seen := map[int]bool{}
	p := tlsx.GetPKI()
	for l := 1; l <= 16; l++ {
		ccfg, scfg := configs(sess{Suite: tlsx.GMECCSM4CBCSM3}, "pad")
		r := tlsx.Run(ccfg, scfg, tlsx.Script{ClientSend: bytes.Repeat([]byte{byte(l)}, 100+l)})
		d, err := rgmssl.Decode(r.Log, p.SrvEnc.SM2D, nil)
		if err != nil {
			t.Fatalf("decode: %v", err)
		}
		for _, ri := range d.ClientRecs {
			seen[ri.PadLen] = true
		}
	}
	for i := 0; i < 16; i++ {
		if !seen[i] {
			t.Fatalf("padding length %d never produced", i)
		}
	}
	R.Case(true, hx.HashKey("padall"), "padlen_all_16")
	step := 16
	if hx.Thorough() {
		step = 1
	}
	for pad := 0; pad < 256; pad += step {
		w := [][]byte{[]byte("first"), bytes.Repeat([]byte("x"), 20), []byte("last")}
		runFault(t, sess{Suite: tlsx.GMECCSM4CBCSM3, C2S: pad%2 == 0, Writes: w}, fault{Kind: "pad_valid", Index: 2, Pad: pad}, fmt.Sprintf("pv%d", pad))
		runFault(t, sess{Suite: tlsx.GMECCSM4CBCSM3, C2S: pad%2 == 1, Writes: w}, fault{Kind: "pad_corrupt", Index: 2, Pad: pad, K: pad * 7}, fmt.Sprintf("pc%d", pad))
		R.Case(true, hx.HashKey("padcraft", pad), "fault:pad_valid", "fault:pad_corrupt")
	}
	// the longest padding each plaintext length admits (240..255), corrupted at its first, second, last-but-one and
	// last byte (thorough: at every byte): a padding check that stops short of byte 256 from the end is visible only here
	for plen := 16; plen < 32; plen++ {
		maxPad := 255 - (plen+32+1+255)%16
		// records of the direction: 0 Finished, 1+2 "first" (1/n-1 split), 3 one byte, 4 the remaining plen bytes
		w := [][]byte{[]byte("first"), bytes.Repeat([]byte("y"), plen+1), []byte("last")}
		runFault(t, sess{Suite: tlsx.GMECCSM4CBCSM3, C2S: plen%2 == 0, Writes: w}, fault{Kind: "pad_valid", Index: 4, Pad: maxPad}, fmt.Sprintf("pvm%d", plen))
		positions := []int{0, 1, maxPad - 1, maxPad}
		if hx.Thorough() {
			positions = nil
			for i := 0; i <= maxPad; i++ {
				positions = append(positions, i)
			}
		}
		for _, pos := range positions {
			runFault(t, sess{Suite: tlsx.GMECCSM4CBCSM3, C2S: plen%2 == 1, Writes: w}, fault{Kind: "pad_corrupt", Index: 4, Pad: maxPad, K: pos}, fmt.Sprintf("pcm%d_%d", plen, pos))
		}
		R.Case(true, hx.HashKey("padmax", plen), "fault:pad_corrupt", fmt.Sprintf("padmax:%d", maxPad))
	}
}

// a transport write that fails half-way, followed by whatever the sender still emits (the close_notify of Close): the
// explicit nonces seen on the wire - including the one of the record that was cut - must all be different, i.e. a
// sequence number is never used for two records (GCM: nonce reuse under one key)
func TestC07_WriteFailureThenClose(t *testing.T) {
	for i := 0; i < hx.N(12, 200); i++ {
		c2s := i%2 == 0
		okWrites := 1 + i%3
		hub := wire.NewHub()
		cw, sw := hub.Pipe("client:1", "server:443")
		ccfg, scfg := configs(sess{Suite: tlsx.GMECCSM4GCMSM3}, fmt.Sprint("wf", i))
		cli, srv := gmtls.Client(cw, ccfg), gmtls.Server(sw, scfg)
		snd, rcv, sndW := cli, srv, cw
		if !c2s {
			snd, rcv, sndW = srv, cli, sw
		}
		var wireOut []byte
		afterHS := false
		sndW.TapOut(func(b []byte) {
			if afterHS {
				wireOut = append(wireOut, b...)
			}
		})
		var e1, e2, werr error
		var pn1, pn2 *hx.PanicInfo
		d := hub.GoAll(func() {
			pn1 = hx.Try(func() {
				if e1 = snd.Handshake(); e1 != nil {
					return
				}
				// wait for the peer's Finished flight to be consumed: one round trip of data
				buf := make([]byte, 16)
				if !c2s {
					// server sends first in this direction only after the client's first byte
					snd.Read(buf[:1])
				}
				afterHS = true
				for k := 0; k < okWrites; k++ {
					if _, err := snd.Write(bytes.Repeat([]byte{byte(k)}, 40+k)); err != nil {
						werr = err
						return
					}
				}
				sndW.FailNextWrite()
				_, werr = snd.Write(bytes.Repeat([]byte{0xEE}, 300))
				snd.Close()
			})
		}, func() {
			pn2 = hx.Try(func() {
				if e2 = rcv.Handshake(); e2 != nil {
					return
				}
				if !c2s {
					rcv.Write([]byte{1})
				}
				buf := make([]byte, 1024)
				for {
					if _, err := rcv.Read(buf); err != nil {
						break
					}
				}
				rcv.Close()
			})
		})
		<-d[0]
		<-d[1]
		if pn1 != nil || pn2 != nil {
			t.Fatalf("panic: %v %v", pn1, pn2)
		}
		if e1 != nil || e2 != nil {
			t.Fatalf("harness: handshake failed: %v %v", e1, e2)
		}
		if werr == nil {
			t.Fatalf("Write returned success although the transport reported a failure")
		}
		// explicit nonces of every record header visible on the wire after the handshake (complete or cut)
		seen := map[string]int{}
		off, idx := 0, 0
		for off+13 <= len(wireOut) {
			l := int(wireOut[off+3])<<8 | int(wireOut[off+4])
			nonce := fmt.Sprintf("%x", wireOut[off+5:off+13])
			if j, dup := seen[nonce]; dup {
				t.Fatalf("after a failed transport write the sender protected two records (#%d and #%d of the direction) under the same explicit nonce %s (same key: GCM nonce reuse)", j, idx, nonce)
			}
			seen[nonce] = idx
			idx++
			if off+5+l > len(wireOut) {
				// the cut record: what follows it on the wire starts right after the bytes that were forwarded
				off = off + (5+l)/2
				continue
			}
			off += 5 + l
		}
		if idx < okWrites+2 {
			t.Fatalf("harness: only %d record headers seen after the handshake (want >= %d)", idx, okWrites+2)
		}
		R.Case(true, hx.HashKey("wf", i), "write_failure_then_close")
	}
}

// shortRand hands out at most n bytes per Read call, as an io.Reader may (a pipe, a hardware source, a chunked DRBG).
type shortRand struct {
	r io.Reader
	n int
}

func (s shortRand) Read(p []byte) (int, error) {
	if len(p) > s.n {
		p = p[:s.n]
	}
	return s.r.Read(p)
}

// with a randomness source that returns short reads the sessions must still work, and every explicit CBC IV must be
// filled completely with fresh bytes: no two IVs of a direction may share their last 12 (or first 12) bytes
func TestC07_ShortReadingRand(t *testing.T) {
	p := tlsx.GetPKI()
	for i := 0; i < hx.N(8, 100); i++ {
		suite := []uint16{tlsx.GMECCSM4CBCSM3, tlsx.GMECCSM4GCMSM3, 0xc014}[i%3]
		ccfg, scfg := configs(sess{Suite: suite}, fmt.Sprint("sr", i))
		per := 1 + i%7
		ccfg.Rand, scfg.Rand = shortRand{ccfg.Rand, per}, shortRand{scfg.Rand, per}
		data := make([]byte, 40*12)
		gen.Fill(data, uint64(i))
		r := tlsx.Run(ccfg, scfg, tlsx.Script{ClientSend: data, ClientFrags: []int{40}, ServerSend: data, ServerFrags: []int{40}})
		desc := fmt.Sprintf("suite %x, Config.Rand returns at most %d bytes per call: %s", suite, per, r.Describe())
		if r.Client.Panic != nil || r.Server.Panic != nil {
			t.Fatalf("panic\n%s", desc)
		}
		if r.Client.HSErr != nil || r.Server.HSErr != nil || !bytes.Equal(r.Server.Received, data) || !bytes.Equal(r.Client.Received, data) {
			t.Fatalf("session failed with a short-reading randomness source\n%s", desc)
		}
		if suite == tlsx.GMECCSM4CBCSM3 {
			d, err := rgmssl.Decode(r.Log, p.SrvEnc.SM2D, nil)
			if err != nil {
				t.Fatalf("decoder: %v\n%s", err, desc)
			}
			for _, recs := range [][]rgmssl.RecordInfo{d.ClientRecs, d.ServerRecs} {
				tails, heads := map[string]int{}, map[string]int{}
				for k, ri := range recs {
					if len(ri.Explicit) != 16 {
						continue
					}
					tl, hd := string(ri.Explicit[4:]), string(ri.Explicit[:12])
					if j, dup := tails[tl]; dup {
						t.Fatalf("the explicit IVs of records %d and %d share their last 12 bytes (%x / %x): the IV is not filled with fresh randomness when the source returns short reads\n%s", j, k, recs[j].Explicit, ri.Explicit, desc)
					}
					if j, dup := heads[hd]; dup {
						t.Fatalf("the explicit IVs of records %d and %d share their first 12 bytes\n%s", j, k, desc)
					}
					tails[tl], heads[hd] = k, k
				}
			}
		}
		R.Case(true, hx.HashKey("shortrand", i), "short_reading_rand")
	}
}
