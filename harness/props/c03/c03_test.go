//go:build verif

// C03 — the SM2 curve object implements the group law; generated keys lie on it.
package c03

import (
	"bytes"
	"crypto/elliptic"
	"errors"
	"fmt"
	"io"
	"math/big"
	"testing"

	"github.com/tjfoc/gmsm/sm2"
	"pgregory.net/rapid"

	"verifharness/gen"
	"verifharness/hx"
	"verifharness/ref/rsm2"
)

var R = hx.NewRecorder("C03", "cases = (scalar bytes, point) for both multipliers, point pairs for Add/Double, coordinate pairs for IsOnCurve, reader contents for GenerateKey, "+
	"expression trees over the 9-limb field elements and Jacobian point formulas (white-box hook); oracle = affine short-Weierstrass arithmetic over math/big (ref/rsm2, validated on GM/T 0003.5 examples and n*G = infinity); "+
	"non-trivial = scalar not in {0,1} and point finite, or a pair with a special relation, or a field tree with >= 1 multiplication; distinct by hash of the inputs")

var cv = rsm2.Std

func curve() elliptic.Curve { return sm2.P256Sm2() }

func TestMain(m *testing.M) {
	R.Require("limb_sparse_enum", "jac_negY_short", "operands_in_reused_objects", "k>=n", "k_leading_zero_bytes", "len(k)>32", "k_wnaf_meet", "Add_equal", "Add_opposite", "Add_inf", "limb_max", "limb_carry", "genkey_allzero", "genkey_short")
	hx.Main(m, R)
}

func eqAff(x, y *big.Int, p rsm2.Point) bool {
	if x == nil || y == nil {
		return false
	}
	ex, ey := p.Affine()
	ok := x.Cmp(ex) == 0 && y.Cmp(ey) == 0
	if ok && x.Sign() == 0 && y.Sign() == 0 {
		// the coordinates a call returns are the caller's: big.Int arithmetic is done in place all over (Sm2Verify itself
		// computes x.Add(x, e) on a returned coordinate), so a returned (0,0) is scribbled on here - a result that shares
		// its numbers with the other coordinate or with later results shows up at once or at the next infinity
		x.SetInt64(0x5a5a5a)
		if y.Sign() != 0 {
			return false
		}
		y.SetInt64(0xa5a5)
		infinityResultsScribbled++
	}
	return ok
}

var infinityResultsScribbled int

// xZero returns the finite curve point (0, sqrt(b)): the only curve points with a zero coordinate. The curve has
// prime order, so no point has y = 0; p = 3 mod 4, so sqrt(b) = b^((p+1)/4).
func xZero() rsm2.Point {
	e := new(big.Int).Add(cv.P, big.NewInt(1))
	e.Rsh(e, 2)
	y := new(big.Int).Exp(cv.B, e, cv.P)
	if !cv.OnCurve(new(big.Int), y) {
		panic("harness: b is not a square")
	}
	return rsm2.Point{X: new(big.Int), Y: y}
}

func pointGen() *rapid.Generator[rsm2.Point] {
	return rapid.Custom(func(t *rapid.T) rsm2.Point {
		switch rapid.IntRange(0, 6).Draw(t, "pkind") {
		case 6:
			// a zero coordinate must not be mistaken for the (0,0) encoding of infinity
			p0 := xZero()
			switch gen.Uniform(t, "xzero", 4) {
			case 0:
				return p0
			case 1:
				return cv.Neg(p0)
			case 2:
				return cv.Double(p0)
			}
			return cv.Add(p0, cv.G())
		case 0:
			if rapid.Bool().Draw(t, "negG") {
				return cv.Neg(cv.G()) // same x coordinate as the base point
			}
			return cv.G()
		case 1:
			return cv.BaseMul(big.NewInt(int64(rapid.IntRange(2, 40).Draw(t, "j"))))
		case 2:
			k := gen.KeyPair(hx.Root()).Draw(t, "key")
			return k.Pub
		default:
			j := gen.BigBelow(new(big.Int).Sub(gen.N, big.NewInt(1))).Draw(t, "j")
			j.Add(j, big.NewInt(1))
			return cv.BaseMul(j)
		}
	})
}

func scalarClasses(s gen.ScalarCase) []string {
	cl := []string{s.Class}
	v := s.Int()
	if v.Cmp(gen.N) >= 0 {
		cl = append(cl, "k>=n")
	}
	if len(s.Bytes) > 0 && s.Bytes[0] == 0 {
		cl = append(cl, "k_leading_zero_bytes")
	}
	if len(s.Bytes) > 32 {
		cl = append(cl, "len(k)>32")
	}
	return cl
}

func checkBaseMult(t interface{ Fatalf(string, ...any) }, k []byte) {
	var x, y *big.Int
	if p := hx.Try(func() { x, y = curve().ScalarBaseMult(k) }); p != nil {
		t.Fatalf("ScalarBaseMult(%x) panicked: %v\n%s", k, p.Val, p.Stack)
	}
	want := cv.BaseMul(new(big.Int).Mod(new(big.Int).SetBytes(k), cv.N))
	if !eqAff(x, y, want) {
		wx, wy := want.Affine()
		t.Fatalf("ScalarBaseMult(k=%x): got (%x,%x) want (%x,%x)", k, x, y, wx, wy)
	}
}

// the caller's coordinate objects and scalar buffer of every second ScalarMult / Add / Double call: the SAME big.Int
// objects and byte slice, overwritten in place from call to call (a long-lived accumulator). The curve works on the
// numbers they hold at the time of the call, whatever they held before.
var (
	reuseX, reuseY = new(big.Int), new(big.Int)
	reuseK         = make([]byte, 0, 64)
	multCalls      int
)

func checkMult(t interface{ Fatalf(string, ...any) }, p rsm2.Point, k []byte) {
	var x, y *big.Int
	px, py, kk := p.X, p.Y, k
	multCalls++
	if multCalls%2 == 0 && !p.Inf {
		reuseX.Set(p.X)
		reuseY.Set(p.Y)
		reuseK = append(reuseK[:0], k...)
		px, py, kk = reuseX, reuseY, reuseK
		R.Class("operands_in_reused_objects")
	}
	if pn := hx.Try(func() { x, y = curve().ScalarMult(px, py, kk) }); pn != nil {
		t.Fatalf("ScalarMult(P=(%x,%x), %x) panicked: %v\n%s", p.X, p.Y, k, pn.Val, pn.Stack)
	}
	if !p.Inf && (px.Cmp(p.X) != 0 || py.Cmp(p.Y) != 0 || !bytes.Equal(kk, k)) {
		t.Fatalf("ScalarMult modified its operands")
	}
	want := cv.Mul(p, new(big.Int).Mod(new(big.Int).SetBytes(k), cv.N))
	if !eqAff(x, y, want) {
		wx, wy := want.Affine()
		t.Fatalf("ScalarMult(P=(%x,%x), k=%x): got (%x,%x) want (%x,%x)", p.X, p.Y, k, x, y, wx, wy)
	}
}

func TestC03_Params(t *testing.T) {
	p := curve().Params()
	if p.P.Cmp(cv.P) != 0 || p.N.Cmp(cv.N) != 0 || p.B.Cmp(cv.B) != 0 || p.Gx.Cmp(cv.Gx) != 0 || p.Gy.Cmp(cv.Gy) != 0 || p.BitSize != 256 {
		t.Fatalf("published parameters differ from GM/T 0003.5: %+v", p)
	}
	if !curve().IsOnCurve(p.Gx, p.Gy) {
		t.Fatalf("G not on curve")
	}
	// a is not published in CurveParams; it is pinned through the curve equation at G and 2G.
	x, y := curve().ScalarBaseMult(cv.N.Bytes())
	if x.Sign() != 0 || y.Sign() != 0 {
		t.Fatalf("n*G != infinity: (%x,%x)", x, y)
	}
	R.Case(true, hx.HashKey("params"), "params")
}

func TestC03_ScalarMult(t *testing.T) {
	hx.Check(t, hx.N(2500, 30000), func(t *rapid.T) {
		s := gen.Scalar().Draw(t, "k")
		p := pointGen().Draw(t, "P")
		checkBaseMult(t, s.Bytes)
		checkMult(t, p, s.Bytes)
		v := s.Int()
		R.Case(v.Cmp(big.NewInt(1)) > 0, hx.HashKey(s.Bytes, p.X.Bytes()), scalarClasses(s)...)
		R.Sample(s.Class, map[string]string{"k": hx.Hex(s.Bytes), "Px": hx.Hex(p.X.Bytes())})
	})
}

func TestC03_ScalarRangesExhaustive(t *testing.T) {
	w := 48
	if hx.Thorough() {
		w = 4096
	}
	pts := []rsm2.Point{cv.G(), cv.BaseMul(big.NewInt(5))}
	d, _ := new(big.Int).SetString("3945208F7B2144B13F36E38AC6D39F95889393692860B51A42FB81EF4DF7C5B8", 16)
	pts = append(pts, cv.BaseMul(d))
	lo, hi := hx.ShardRange(-w, w+1)
	var n int64
	for i := lo; i < hi; i++ {
		for _, base := range []*big.Int{big.NewInt(int64(w)), cv.N, new(big.Int).Lsh(cv.N, 1)} {
			k := new(big.Int).Add(base, big.NewInt(int64(i)))
			if k.Sign() < 0 {
				continue
			}
			kb := k.Bytes()
			if i%3 == 0 {
				kb = append(make([]byte, 1+(i&3)), kb...)
			}
			checkBaseMult(t, kb)
			checkMult(t, pts[((i%3)+3)%3], kb)
			R.Case(k.Cmp(big.NewInt(1)) > 0, hx.HashKey("range", kb), "k_range")
			n++
		}
	}
	R.Subspace(fmt.Sprintf("scalars [0,%d] U [n-%d,n+%d] U [2n-%d,2n+%d], both multipliers", 2*w, w, w, w, w), n, true)
}

func TestC03_AddDouble(t *testing.T) {
	hx.Check(t, hx.N(2500, 30000), func(t *rapid.T) {
		p := pointGen().Draw(t, "P")
		rel := rapid.SampledFrom([]string{"equal", "opposite", "inf_right", "inf_left", "inf_both", "random", "double", "plus_small"}).Draw(t, "rel")
		var q rsm2.Point
		cl := "Add_random"
		switch rel {
		case "equal":
			q, cl = p, "Add_equal"
		case "opposite":
			q, cl = cv.Neg(p), "Add_opposite"
		case "inf_right":
			q, cl = rsm2.Infinity(), "Add_inf"
		case "inf_left":
			q, p, cl = p, rsm2.Infinity(), "Add_inf"
		case "inf_both":
			q, p, cl = rsm2.Infinity(), rsm2.Infinity(), "Add_inf"
		case "double":
			q = cv.Double(p)
		case "plus_small":
			q = cv.Add(p, cv.BaseMul(big.NewInt(int64(rapid.IntRange(1, 9).Draw(t, "small")))))
		default:
			q = pointGen().Draw(t, "Q")
		}
		px, py := p.Affine()
		qx, qy := q.Affine()
		var x, y *big.Int
		if pn := hx.Try(func() { x, y = curve().Add(px, py, qx, qy) }); pn != nil {
			t.Fatalf("Add panicked (%s): %v", rel, pn.Val)
		}
		want := cv.Add(p, q)
		if !eqAff(x, y, want) {
			wx, wy := want.Affine()
			t.Fatalf("Add[%s]((%x,%x),(%x,%x)) = (%x,%x), want (%x,%x)", rel, px, py, qx, qy, x, y, wx, wy)
		}
		if pn := hx.Try(func() { x, y = curve().Double(px, py) }); pn != nil {
			t.Fatalf("Double panicked: %v", pn.Val)
		}
		if wd := cv.Double(p); !eqAff(x, y, wd) {
			wx, wy := wd.Affine()
			t.Fatalf("Double((%x,%x)) = (%x,%x), want (%x,%x)", px, py, x, y, wx, wy)
		}
		R.Case(rel != "random" || true, hx.HashKey("add", px.Bytes(), qx.Bytes(), qy.Bytes()), cl)
		R.Sample("add_"+rel, map[string]string{"P": hx.Hex(px.Bytes()), "Q": hx.Hex(qx.Bytes())})
	})
}

func TestC03_IsOnCurve(t *testing.T) {
	one := big.NewInt(1)
	hx.Check(t, hx.N(3000, 40000), func(t *rapid.T) {
		p := pointGen().Draw(t, "P")
		kind := rapid.SampledFrom([]string{"on", "x+1", "x-1", "y+1", "y-1", "negy", "swap", "random", "zero", "x0", "x_edge", "x_edge"}).Draw(t, "kind")
		x, y := new(big.Int).Set(p.X), new(big.Int).Set(p.Y)
		switch kind {
		case "x+1":
			x.Add(x, one).Mod(x, cv.P)
		case "x-1":
			x.Sub(x, one).Mod(x, cv.P)
		case "y+1":
			y.Add(y, one).Mod(y, cv.P)
		case "y-1":
			y.Sub(y, one).Mod(y, cv.P)
		case "negy":
			y.Sub(cv.P, y)
		case "swap":
			x, y = y, x
		case "random":
			x = gen.BigBelow(cv.P).Draw(t, "x")
			y = gen.BigBelow(cv.P).Draw(t, "y")
		case "zero":
			x, y = new(big.Int), new(big.Int)
		case "x_edge":
			// x coordinates at the edges of the field and around the group order (n < p: values in [n, p) are
			// ordinary field elements), lifted onto the curve when x^3+ax+b is a square
			base := rapid.SampledFrom([]*big.Int{cv.P, cv.N, new(big.Int).Lsh(one, 255), new(big.Int).Lsh(one, 224), new(big.Int).Rsh(new(big.Int).Add(cv.P, cv.N), 1)}).Draw(t, "base")
			x = new(big.Int).Add(base, big.NewInt(int64(rapid.IntRange(-40, 40).Draw(t, "delta"))))
			x.Mod(x, cv.P)
			rhs := new(big.Int).Exp(x, big.NewInt(3), cv.P)
			rhs.Add(rhs, new(big.Int).Mul(cv.A, x)).Add(rhs, cv.B).Mod(rhs, cv.P)
			if r := new(big.Int).ModSqrt(rhs, cv.P); r != nil {
				y = r
				if rapid.Bool().Draw(t, "othery") {
					y = new(big.Int).Sub(cv.P, r)
				}
			}
		case "x0":
			x = new(big.Int)
			y = new(big.Int).ModSqrt(cv.B, cv.P) // (0, sqrt b) is on the curve when b is a square
			if y == nil {
				y = new(big.Int)
			}
			if rapid.Bool().Draw(t, "perturb") {
				y.Add(y, one)
			}
		}
		got := curve().IsOnCurve(x, y)
		want := cv.OnCurve(x, y)
		if got != want {
			t.Fatalf("IsOnCurve(%x,%x)=%v, y^2=x^3+ax+b says %v (%s)", x, y, got, want, kind)
		}
		cl := "offcurve"
		if want {
			cl = "oncurve"
		}
		R.Case(true, hx.HashKey("onc", x.Bytes(), y.Bytes()), cl)
	})
}

type scriptReader struct {
	data   []byte
	chunk  int
	failAt int
	n      int
}

func (r *scriptReader) Read(p []byte) (int, error) {
	if r.failAt >= 0 && r.n >= r.failAt {
		return 0, errors.New("entropy source failed")
	}
	if len(r.data) == 0 {
		return 0, io.EOF
	}
	k := len(p)
	if r.chunk > 0 && k > r.chunk {
		k = r.chunk
	}
	if k > len(r.data) {
		k = len(r.data)
	}
	if r.failAt >= 0 && r.n+k > r.failAt {
		k = r.failAt - r.n
	}
	copy(p, r.data[:k])
	r.data = r.data[k:]
	r.n += k
	return k, nil
}

func TestC03_GenerateKey(t *testing.T) {
	nm2 := new(big.Int).Sub(cv.N, big.NewInt(2))
	hx.Check(t, hx.N(1200, 15000), func(t *rapid.T) {
		kind := rapid.SampledFrom([]string{"random", "allzero", "allff", "minus1", "near_modulus", "near_modulus", "short", "fail", "chunked"}).Draw(t, "kind")
		b := make([]byte, 40)
		switch kind {
		case "random", "short", "fail", "chunked":
			b = rapid.SliceOfN(rapid.Byte(), 40, 40).Draw(t, "bytes")
		case "allff":
			for i := range b {
				b[i] = 0xff
			}
		case "near_modulus":
			// raw values around multiples of the modulus n-2 and around n itself (c = 1: the value fits in 32 bytes)
			c := big.NewInt(int64(rapid.IntRange(1, 3).Draw(t, "c")))
			v := new(big.Int).Mul(nm2, c)
			v.Add(v, big.NewInt(int64(rapid.IntRange(-4, 6).Draw(t, "delta"))))
			v.FillBytes(b)
		case "minus1":
			// value == -1 mod (n-2)  =>  d = n-2
			c := big.NewInt(int64(rapid.IntRange(1, 1000).Draw(t, "c")))
			v := new(big.Int).Mul(nm2, c)
			v.Sub(v, big.NewInt(1))
			v.FillBytes(b)
		}
		rd := &scriptReader{data: append(append([]byte{}, b...), bytes.Repeat([]byte{0xEE}, 24)...), failAt: -1}
		switch kind {
		case "short":
			rd.data = rd.data[:rapid.IntRange(0, 39).Draw(t, "avail")]
		case "fail":
			rd.failAt = rapid.IntRange(0, 39).Draw(t, "failAt")
		case "chunked":
			rd.chunk = rapid.IntRange(1, 13).Draw(t, "chunk")
		}
		var key *sm2.PrivateKey
		var err error
		if pn := hx.Try(func() { key, err = sm2.GenerateKey(rd) }); pn != nil {
			t.Fatalf("GenerateKey panicked: %v", pn.Val)
		}
		cls := "genkey_" + kind
		if kind == "short" || kind == "fail" {
			if err == nil || key != nil {
				t.Fatalf("GenerateKey with a %s reader returned key=%v err=%v", kind, key, err)
			}
			R.Case(true, hx.HashKey("gk", kind, rd.n), cls)
			return
		}
		if err != nil {
			t.Fatalf("GenerateKey error %v", err)
		}
		if rd.n != 40 {
			t.Fatalf("GenerateKey consumed %d bytes, want exactly 40", rd.n)
		}
		want := new(big.Int).SetBytes(b)
		want.Mod(want, nm2).Add(want, big.NewInt(1))
		if key.D.Cmp(want) != 0 {
			t.Fatalf("GenerateKey d=%x, want (int(bytes) mod (n-2))+1 = %x", key.D, want)
		}
		if key.D.Sign() <= 0 || key.D.Cmp(nm2) > 0 {
			t.Fatalf("d out of [1,n-2]: %x", key.D)
		}
		if !eqAff(key.X, key.Y, cv.BaseMul(want)) {
			t.Fatalf("public key != [d]G for d=%x", want)
		}
		if !key.Curve.IsOnCurve(key.X, key.Y) {
			t.Fatalf("generated public key not on curve")
		}
		R.Case(true, hx.HashKey("gk", b), cls)
		R.Sample("genkey", map[string]string{"kind": kind, "d": hx.Hex(key.D.Bytes())})
	})
	// nil reader uses crypto/rand
	k1, e1 := sm2.GenerateKey(nil)
	k2, e2 := sm2.GenerateKey(nil)
	if e1 != nil || e2 != nil || k1.D.Cmp(k2.D) == 0 || !eqAff(k1.X, k1.Y, cv.BaseMul(k1.D)) {
		t.Fatalf("GenerateKey(nil) misbehaves")
	}
}

// ---------------------------------------------------------------- white box

var rInv = new(big.Int).ModInverse(new(big.Int).Lsh(big.NewInt(1), 257), cv.P)

func limbsToInt(l [9]uint32) *big.Int {
	v := new(big.Int)
	for i := 8; i >= 0; i-- {
		if i%2 == 0 {
			v.Lsh(v, 29)
		} else {
			v.Lsh(v, 28)
		}
		v.Add(v, big.NewInt(int64(l[i])))
	}
	// the loop above shifts by limb i's own width before adding limb i; redo properly
	v.SetInt64(0)
	shift := uint(0)
	for i := 0; i < 9; i++ {
		t := new(big.Int).Lsh(big.NewInt(int64(l[i])), shift)
		v.Add(v, t)
		if i%2 == 0 {
			shift += 29
		} else {
			shift += 28
		}
	}
	return v
}

// feGen draws a field value; class says how.
func feGen() *rapid.Generator[feCase] {
	return rapid.Custom(func(t *rapid.T) feCase {
		kind := rapid.IntRange(0, 5).Draw(t, "fekind")
		switch kind {
		case 0:
			c := rapid.SampledFrom([]int64{0, 1, 2, -1, -2}).Draw(t, "c")
			v := big.NewInt(c)
			v.Mod(v, cv.P)
			return feCase{v, "small"}
		case 1:
			e := rapid.IntRange(1, 8).Draw(t, "e") * 29
			v := new(big.Int).Lsh(big.NewInt(1), uint(e))
			v.Add(v, big.NewInt(int64(rapid.IntRange(-1, 1).Draw(t, "pm"))))
			return feCase{v.Mod(v, cv.P), "pow29"}
		case 2, 3:
			// choose the Montgomery limbs directly
			var l [9]uint32
			cls := "limb_mixed"
			mode := rapid.IntRange(0, 5).Draw(t, "lmode")
			for i := range l {
				max := uint32(1<<29 - 1)
				if i%2 == 1 {
					max = 1<<28 - 1
				}
				switch {
				case mode == 0:
					l[i] = max
					cls = "limb_max"
				case mode == 1:
					l[i] = rapid.SampledFrom([]uint32{0, 1, max, max - 1}).Draw(t, "lv")
					cls = "limb_carry"
				case mode == 4 || mode == 5:
					// sparse: most limbs zero, the others tiny or at a power of two, so that products have isolated
					// small columns and the Montgomery reduction meets digits 0, 1, 2 with empty neighbours
					l[i] = rapid.SampledFrom([]uint32{0, 0, 0, 0, 0, 1, 1, 2, 3, 1 << 14, 1 << 27, 1 << 28 >> uint(i%2), max}).Draw(t, "lv")
					if mode == 5 && i >= 3 {
						l[i] = 0
					}
					cls = "limb_sparse"
				default:
					l[i] = rapid.Uint32Range(0, max).Draw(t, "lv")
				}
			}
			l[8] &= 1<<27 - 1 // keep L < 2^255 < p
			L := limbsToInt(l)
			x := new(big.Int).Mul(L, rInv)
			return feCase{x.Mod(x, cv.P), cls}
		default:
			return feCase{gen.BigBelow(cv.P).Draw(t, "v"), "uniform"}
		}
	})
}

type feCase struct {
	V   *big.Int
	Cls string
}

func checkFE(t *rapid.T, e *sm2.VerifFE, want *big.Int, what string) {
	if got := sm2.VerifFEToBig(e); got.Cmp(want) != 0 {
		t.Fatalf("field %s: got %x want %x (limbs %v)", what, got, want, *e)
	}
	for i, l := range e {
		lim := uint32(1) << 30
		if i%2 == 1 {
			lim = 1 << 29
		}
		if l >= lim {
			t.Fatalf("field %s: limb %d = %#x out of documented bound", what, i, l)
		}
	}
}

// every field element whose Montgomery form has at most two non-zero limbs, with limb values from a small catalogue:
// all squares, and products with a rotating choice of such partners, against math/big. Products of sparse operands
// have isolated columns, which is where the reduction's digit-0/1/2 special cases and their borrows are decided.
func TestC03_FieldSparse(t *testing.T) {
	vals := func(i int) []uint32 {
		max := uint32(1<<29 - 1)
		if i%2 == 1 {
			max = 1<<28 - 1
		}
		return []uint32{1, 2, 3, 5, 1 << 13, 1 << 14, 1<<14 + 1, 1 << 27, max >> 1, max>>1 + 1, max - 1, max}
	}
	var elems [][9]uint32
	for i := 0; i < 9; i++ {
		for _, vi := range vals(i) {
			var l [9]uint32
			l[i] = vi
			if i == 8 {
				l[i] &= 1<<27 - 1
			}
			elems = append(elems, l)
			for j := i + 1; j < 9; j++ {
				for _, vj := range vals(j) {
					m := l
					m[j] = vj
					if j == 8 {
						m[j] &= 1<<27 - 1
					}
					elems = append(elems, m)
				}
			}
		}
	}
	toBig := func(l [9]uint32) *big.Int {
		x := new(big.Int).Mul(limbsToInt(l), rInv)
		return x.Mod(x, cv.P)
	}
	lo, hi := hx.ShardRange(0, len(elems))
	partners := 12
	if hx.Thorough() {
		partners = 400
	}
	var n int64
	for i := lo; i < hi; i++ {
		a := sm2.VerifFE(elems[i])
		av := toBig(elems[i])
		sq := sm2.VerifFESquare(&a)
		if w := new(big.Int).Mod(new(big.Int).Mul(av, av), cv.P); sm2.VerifFEToBig(&sq).Cmp(w) != 0 {
			t.Fatalf("field square of the element with Montgomery limbs %v: got %x want %x", elems[i], sm2.VerifFEToBig(&sq), w)
		}
		n++
		for k := 0; k < partners; k++ {
			j := (i*7919 + k*104729 + int(hx.Seed())*31) % len(elems)
			b := sm2.VerifFE(elems[j])
			pr := sm2.VerifFEMul(&a, &b)
			if w := new(big.Int).Mod(new(big.Int).Mul(av, toBig(elems[j])), cv.P); sm2.VerifFEToBig(&pr).Cmp(w) != 0 {
				t.Fatalf("field product of the elements with Montgomery limbs %v and %v: got %x want %x", elems[i], elems[j], sm2.VerifFEToBig(&pr), w)
			}
			n++
		}
		if i%64 == 0 {
			R.Case(true, hx.HashKey("sparse", i), "limb_sparse_enum")
		}
	}
	R.Subspace("squares of all field elements with <= 2 non-zero Montgomery limbs from a 12-value catalogue, and products with rotating partners", n, true)
}

func TestC03_FieldTrees(t *testing.T) {
	hx.Check(t, hx.N(6000, 150000), func(t *rapid.T) {
		type node struct {
			fe sm2.VerifFE
			v  *big.Int
		}
		var pool []node
		classes := map[string]bool{}
		for i := 0; i < 3; i++ {
			c := feGen().Draw(t, "leaf")
			classes[c.Cls] = true
			fe := sm2.VerifFEFromBig(c.V)
			checkFE(t, &fe, c.V, "FromBig/ToBig")
			pool = append(pool, node{fe, c.V})
		}
		muls := 0
		var ops []string
		steps := rapid.IntRange(1, 12).Draw(t, "steps")
		for s := 0; s < steps; s++ {
			a := pool[rapid.IntRange(0, len(pool)-1).Draw(t, "a")]
			b := pool[rapid.IntRange(0, len(pool)-1).Draw(t, "b")]
			op := rapid.SampledFrom([]string{"add", "sub", "mul", "sq", "scalar"}).Draw(t, "op")
			var r node
			switch op {
			case "add":
				r.fe = sm2.VerifFEAdd(&a.fe, &b.fe)
				r.v = new(big.Int).Add(a.v, b.v)
			case "sub":
				r.fe = sm2.VerifFESub(&a.fe, &b.fe)
				r.v = new(big.Int).Sub(a.v, b.v)
			case "mul":
				r.fe = sm2.VerifFEMul(&a.fe, &b.fe)
				r.v = new(big.Int).Mul(a.v, b.v)
				muls++
			case "sq":
				r.fe = sm2.VerifFESquare(&a.fe)
				r.v = new(big.Int).Mul(a.v, a.v)
				muls++
			case "scalar":
				k := rapid.SampledFrom([]int{2, 3, 4, 8}).Draw(t, "k")
				r.fe = sm2.VerifFEScalar(&a.fe, k)
				r.v = new(big.Int).Mul(a.v, big.NewInt(int64(k)))
				muls++
				op = fmt.Sprintf("x%d", k)
			}
			r.v.Mod(r.v, cv.P)
			ops = append(ops, op)
			checkFE(t, &r.fe, r.v, fmt.Sprintf("after %v", ops))
			pool = append(pool, r)
		}
		var cl []string
		for c := range classes {
			cl = append(cl, c)
		}
		R.Case(muls >= 1, hx.HashKey(fmt.Sprint(ops), pool[0].v.Bytes(), pool[1].v.Bytes(), pool[2].v.Bytes()), cl...)
		R.Sample("fieldtree", map[string]interface{}{"ops": ops, "leaf0": hx.Hex(pool[0].v.Bytes())})
	})
}

func jac(t *rapid.T, p rsm2.Point, name string) (x, y, z sm2.VerifFE) {
	if p.Inf {
		// infinity: Z = 0, X and Y arbitrary
		x = sm2.VerifFEFromBig(gen.BigBelow(cv.P).Draw(t, name+"x"))
		y = sm2.VerifFEFromBig(gen.BigBelow(cv.P).Draw(t, name+"y"))
		z = sm2.VerifFEFromBig(new(big.Int))
		return
	}
	zv := gen.BigBelow(new(big.Int).Sub(cv.P, big.NewInt(1))).Draw(t, name+"z")
	zv.Add(zv, big.NewInt(1))
	if rapid.IntRange(0, 3).Draw(t, name+"z1") == 0 {
		zv.SetInt64(1)
	}
	z2 := new(big.Int).Mul(zv, zv)
	z3 := new(big.Int).Mul(z2, zv)
	xv := new(big.Int).Mul(p.X, z2)
	yv := new(big.Int).Mul(p.Y, z3)
	return sm2.VerifFEFromBig(xv.Mod(xv, cv.P)), sm2.VerifFEFromBig(yv.Mod(yv, cv.P)), sm2.VerifFEFromBig(zv)
}

func TestC03_JacobianFormulas(t *testing.T) {
	hx.Check(t, hx.N(2500, 40000), func(t *rapid.T) {
		p := pointGen().Draw(t, "P")
		rel := rapid.SampledFrom([]string{"equal", "opposite", "inf_right", "inf_left", "random", "random", "double"}).Draw(t, "rel")
		q := p
		switch rel {
		case "opposite":
			q = cv.Neg(p)
		case "inf_right":
			q = rsm2.Infinity()
		case "inf_left":
			p, q = rsm2.Infinity(), p
		case "random":
			q = pointGen().Draw(t, "Q")
		case "double":
			q = cv.Double(p)
		}
		x1, y1, z1 := jac(t, p, "p")
		x2, y2, z2 := jac(t, q, "q")
		if !q.Inf && q.Y.Sign() != 0 && rapid.IntRange(0, 3).Draw(t, "negYshort") == 0 {
			// a Jacobian representative of q whose NEGATED Y coordinate is short in the internal (Montgomery, 2^257) form:
			// -Y*2^257 mod p = s with s below 2^(29k) for a drawn limb count k - the subtraction negates Y in place, so the
			// upper limbs of the result must be written as zeros, not left as they were. p = 2 mod 3: cube roots are unique,
			// Z = cbrt(Y/y).
			s := new(big.Int).Add(gen.BigBelow(new(big.Int).Lsh(big.NewInt(1), uint(1+28*rapid.IntRange(0, 7).Draw(t, "negYlimbs")))).Draw(t, "negYs"), big.NewInt(1))
			rinv := new(big.Int).ModInverse(new(big.Int).Lsh(big.NewInt(1), 257), cv.P)
			yj := new(big.Int).Mul(s, rinv)
			yj.Neg(yj).Mod(yj, cv.P)
			ratio := new(big.Int).Mul(yj, new(big.Int).ModInverse(q.Y, cv.P))
			ratio.Mod(ratio, cv.P)
			e := new(big.Int).Lsh(cv.P, 1)
			e.Sub(e, big.NewInt(1)).Div(e, big.NewInt(3)) // (2p-1)/3
			zv := new(big.Int).Exp(ratio, e, cv.P)
			if chk := new(big.Int).Exp(zv, big.NewInt(3), cv.P); chk.Cmp(ratio) != 0 || zv.Sign() == 0 {
				t.Fatalf("harness: cube root")
			}
			xv := new(big.Int).Mul(q.X, new(big.Int).Mul(zv, zv))
			x2, y2, z2 = sm2.VerifFEFromBig(xv.Mod(xv, cv.P)), sm2.VerifFEFromBig(yj), sm2.VerifFEFromBig(zv)
			R.Class("jac_negY_short")
		}
		ax, ay := sm2.VerifToAffine(sm2.VerifPointAdd(x1, y1, z1, x2, y2, z2))
		if want := cv.Add(p, q); !eqAff(ax, ay, want) {
			wx, wy := want.Affine()
			t.Fatalf("PointAdd[%s]: got (%x,%x) want (%x,%x)", rel, ax, ay, wx, wy)
		}
		sx, sy := sm2.VerifToAffine(sm2.VerifPointSub(x1, y1, z1, x2, y2, z2))
		if want := cv.Add(p, cv.Neg(q)); !eqAff(sx, sy, want) {
			wx, wy := want.Affine()
			t.Fatalf("PointSub[%s]: got (%x,%x) want (%x,%x)", rel, sx, sy, wx, wy)
		}
		if !p.Inf {
			dx, dy := sm2.VerifToAffine(sm2.VerifPointDouble(x1, y1, z1))
			if want := cv.Double(p); !eqAff(dx, dy, want) {
				wx, wy := want.Affine()
				t.Fatalf("PointDouble: got (%x,%x) want (%x,%x)", dx, dy, wx, wy)
			}
		}
		// mixed addition is specified only for finite, distinct, non-opposite operands
		if !p.Inf && !q.Inf && p.X.Cmp(q.X) != 0 {
			qx, qy := sm2.VerifFEFromBig(q.X), sm2.VerifFEFromBig(q.Y)
			mx, my := sm2.VerifToAffine(sm2.VerifPointAddMixed(x1, y1, z1, qx, qy))
			if want := cv.Add(p, q); !eqAff(mx, my, want) {
				t.Fatalf("PointAddMixed: got (%x,%x)", mx, my)
			}
		}
		R.Case(true, hx.HashKey("jac", rel, p.X.Bytes(), q.X.Bytes(), x1[0], x2[0]), "jac_"+rel)
	})
}

func TestC03_WNAF(t *testing.T) {
	hx.Check(t, hx.N(3000, 40000), func(t *rapid.T) {
		s := gen.Scalar().Draw(t, "k")
		var w []int8
		if pn := hx.Try(func() { w = sm2.VerifWNAF(s.Bytes) }); pn != nil {
			t.Fatalf("wNAF(%x) panicked: %v", s.Bytes, pn.Val)
		}
		sum := new(big.Int)
		last := -100
		for i, d := range w {
			if d == 0 {
				continue
			}
			if d%2 == 0 || d > 7 || d < -7 {
				t.Fatalf("wNAF digit %d at %d not odd in [-7,7]", d, i)
			}
			if i-last < 4 {
				t.Fatalf("wNAF non-zero digits at %d and %d closer than the window", last, i)
			}
			last = i
			term := new(big.Int).Lsh(big.NewInt(int64(abs(d))), uint(i))
			if d < 0 {
				sum.Sub(sum, term)
			} else {
				sum.Add(sum, term)
			}
		}
		want := new(big.Int).Mod(s.Int(), cv.N)
		if sum.Cmp(want) != 0 {
			t.Fatalf("wNAF(%x) sums to %x, want k mod n = %x", s.Bytes, sum, want)
		}
		R.Case(want.BitLen() > 4, hx.HashKey("wnaf", s.Bytes), "wnaf")
	})
}

func abs(d int8) int8 {
	if d < 0 {
		return -d
	}
	return d
}

func TestC03_Replay(t *testing.T) {
	g := cv.G()
	x, y := curve().Add(g.X, g.Y, g.X, g.Y)
	if !eqAff(x, y, cv.Double(g)) {
		t.Fatalf("Add(G,G) = (%x,%x), want 2G", x, y)
	}
	k := new(big.Int).Sub(cv.N, big.NewInt(6))
	checkMult(t, g, k.Bytes())
	checkBaseMult(t, append([]byte{0}, bytes.Repeat([]byte{0x11}, 32)...))
	// field reduction regression: x whose Montgomery form has the single limb 2^29-1 at index 2
	v, _ := new(big.Int).SetString("114774385301504640658550613777284182080846676392746711038775252277793357037567", 10)
	rhs := new(big.Int).Mul(v, v)
	rhs.Add(rhs, cv.A).Mul(rhs, v).Add(rhs, cv.B).Mod(rhs, cv.P)
	for _, cand := range []*big.Int{v, new(big.Int).Add(v, big.NewInt(1)), new(big.Int).Add(v, big.NewInt(2)), new(big.Int).Add(v, big.NewInt(3))} {
		r2 := new(big.Int).Mul(cand, cand)
		r2.Add(r2, cv.A).Mul(r2, cand).Add(r2, cv.B).Mod(r2, cv.P)
		if y := new(big.Int).ModSqrt(r2, cv.P); y != nil {
			if !curve().IsOnCurve(cand, y) {
				t.Fatalf("IsOnCurve rejects the on-curve point x=%x y=%x", cand, y)
			}
		}
		yy := new(big.Int).ModSqrt(r2, cv.P)
		if yy == nil {
			yy = big.NewInt(5)
		}
		if got, want := curve().IsOnCurve(cand, new(big.Int).Add(yy, big.NewInt(1))), cv.OnCurve(cand, new(big.Int).Add(yy, big.NewInt(1))); got != want {
			t.Fatalf("IsOnCurve(%x, y+1) = %v want %v", cand, got, want)
		}
	}
	fe := sm2.VerifFEFromBig(v)
	sq := sm2.VerifFESquare(&fe)
	if w := new(big.Int).Mod(new(big.Int).Mul(v, v), cv.P); sm2.VerifFEToBig(&sq).Cmp(w) != 0 {
		t.Fatalf("field square regression: got %x want %x", sm2.VerifFEToBig(&sq), w)
	}
	R.Case(true, hx.HashKey("replay"), "replay")
}
