//go:build verif

// C15 — a misbehaving handshake peer gets an error, never completion, a crash or a hang.
package c15

import (
	"bytes"
	"crypto/rsa"
	stdx509 "crypto/x509"
	"fmt"
	"strings"
	"testing"

	"github.com/tjfoc/gmsm/gmtls"
	"pgregory.net/rapid"

	"verifharness/gen"
	"verifharness/hx"
	"verifharness/ref/rgmssl"
	"verifharness/tlsx"
	"verifharness/wire"
)

var R = hx.NewRecorder("C15", "cases = (endpoint kind: GMSSL client | GMSSL-only server | auto-switch server | TLS server | TLS client) x deviation plan for a scripted GM/T 0024 peer that is honest up to a chosen step and then omits, repeats, retypes, reorders, truncates, mis-lengths, splits, coalesces, oversizes a message, sends ChangeCipherSpec / application data / alerts / unknown record types early, or closes; recorded honest flights replayed with one perturbation; ClientHello versions 0x0000..0x0400 exhaustively; hostile suite/compression lists; "+
	"oracle = Handshake() returns (quiescence of the in-memory transport turns waiting into EOF; a read-after-EOF counter catches spinning), returns an error for every true deviation, HandshakeComplete stays false, no panic; legal variations (fragmented or coalesced messages, unknown ticket) must still succeed; non-trivial = deviation applied after at least one valid message or in the first message; distinct by hash of the plan")

func TestMain(m *testing.M) {
	R.Require("vers_sweep_maxversion_above_tls12", "server_picks_unoffered_suite", "unoffered:control", "unoffered:refused", "client_stops_after_cke", "cke_sent_at:0300", "cke_sent_at:0301", "cke_sent_at:0302", "cke_sent_at:0303", "junk_certificate_verify", "jcv_vers:300", "ecdhe_ske", "hello_ext_sweep", "dev:big_record", "replay_deep:gmclient", "replay_deep:tlsclient", "replay_deep:gmserver", "replay_deep:tlsserver", "replay_deep:autoserver", "replay_control", "replay:omit_msg", "replay:hello_ext", "replay:swap_msgs", "hello_vector_lengths", "dev:cke_ciphertext_byte", "dev:cert_list", "omitted_client_certificate", "fallback_scsv", "tls_scripted_server:control", "tls_scripted_server:version_above_offer", "tls_scripted_server:deviations", "short_messages_after_hello", "serverhello_version_sweep", "tls_resumption_deviation", "dev:inner_len", "dev:trailing", "dev:alert_flood", "inner_length_sweep", "peer_pressed_on_after_alert", "endpoint:gmclient", "endpoint:gmserver", "endpoint:autoserver", "endpoint:tlsserver", "endpoint:tlsclient", "vers_sweep_done", "dev:omit", "dev:repeat", "dev:retype", "dev:reorder", "dev:truncate", "dev:len_field", "dev:split", "dev:coalesce",
		"dev:oversize", "dev:ccs_early", "dev:appdata_early", "dev:alert_fatal", "dev:unknown_record", "dev:close", "dev:record_overflow", "replay_perturbed", "legal_must_succeed", "cke_1byte", "hostile_suites")
	for d := 0; d <= 5; d++ {
		R.Require(fmt.Sprintf("depth:%d", d))
	}
	hx.Main(m, R)
}

type deviation struct {
	Kind string
	Step string // step name of the scripted peer at which it applies
	K    int
	Val  byte
}

var serverSteps = []string{"ServerHello", "Certificate", "ServerKeyExchange", "CertificateRequest", "ServerHelloDone", "ChangeCipherSpec", "Finished"}
var clientSteps = []string{"ClientHello", "ClientCertificate", "ClientKeyExchange", "CertificateVerify", "ChangeCipherSpec", "Finished"}

var devKinds = []string{"omit", "repeat", "retype", "reorder", "truncate", "truncate_fixlen", "len_field", "split", "coalesce", "oversize", "ccs_early", "appdata_early", "alert_fatal", "alert_warning", "unknown_record", "unknown_hstype", "close", "record_overflow", "inner_byte", "cert_list", "big_record", "inner_len", "inner_len", "alert_flood", "trailing", "trailing"}

func hsRecord(data []byte) []byte {
	return append([]byte{22, 1, 1, byte(len(data) >> 8), byte(len(data))}, data...)
}

// planFor turns a deviation into a Plan hook. legal reports whether the resulting behaviour is inside the protocol.
func planFor(d deviation) (*rgmssl.Plan, *bool, bool, string) {
	fired := new(bool)
	var held *rgmssl.Out
	eff := ""
	defer func() {}()
	legal := d.Kind == "split" || d.Kind == "coalesce" || (d.Kind == "big_record" && d.K%2 == 0)
	sameFlight := map[string]bool{"ServerHello": true, "Certificate": true, "ServerKeyExchange": true, "CertificateRequest": true, "ClientCertificate": true, "ClientKeyExchange": true}
	if d.Kind == "coalesce" && !sameFlight[d.Step] {
		// the next outgoing message belongs to a later flight: holding this one back would just stall
		d.Kind = "repeat"
		legal = false
	}
	if (d.Kind == "split" || d.Kind == "coalesce") && (d.Step == "ChangeCipherSpec") {
		// ChangeCipherSpec is not a handshake message: nothing to split, and holding it back reorders the flight
		d.Kind = "repeat"
		legal = false
	}
	eff = d.Kind
	p := &rgmssl.Plan{}
	if d.Kind == "close" {
		p.CloseAfter = d.Step
		*fired = true
	}
	p.Out = func(step string, o rgmssl.Out) []rgmssl.Out {
		if held != nil {
			h := *held
			held = nil
			return []rgmssl.Out{o, h} // reorder
		}
		if step != d.Step || *fired && d.Kind != "close" {
			return []rgmssl.Out{o}
		}
		if d.Kind == "close" {
			return []rgmssl.Out{o}
		}
		*fired = true
		data := append([]byte{}, o.Data...)
		isHS := o.RecType == rgmssl.RecHS && len(data) >= 4
		switch d.Kind {
		case "omit":
			return nil
		case "repeat":
			return []rgmssl.Out{o, o}
		case "retype":
			if !isHS {
				return []rgmssl.Out{{RecType: rgmssl.RecHS, Data: []byte{14, 0, 0, 0}}, o}
			}
			nt := []byte{0, 1, 2, 4, 11, 12, 13, 14, 15, 16, 20, 22, 67}[d.K%13]
			if nt == data[0] {
				nt = 99
			}
			data[0] = nt
			o.Data = data
			return []rgmssl.Out{o}
		case "coalesce":
			if !isHS {
				*fired = false
				return []rgmssl.Out{o}
			}
			o.Hold = true
			return []rgmssl.Out{o}
		case "reorder":
			held = &o
			return nil
		case "truncate":
			if !isHS || len(data) <= 4 {
				return nil
			}
			o.Data = data[:4+d.K%(len(data)-4)]
			return []rgmssl.Out{o}
		case "truncate_fixlen":
			if !isHS || len(data) <= 4 {
				return nil
			}
			n := d.K % (len(data) - 4)
			data = data[:4+n]
			data[1], data[2], data[3] = byte(n>>16), byte(n>>8), byte(n)
			o.Data = data
			return []rgmssl.Out{o}
		case "len_field":
			if !isHS {
				return nil
			}
			n := len(data) - 4
			nn := []int{0, n - 1, n + 1, 0xffffff, n + 256}[d.K%5]
			if nn < 0 {
				nn = 1
			}
			if nn == n {
				nn = n + 1
			}
			data[1], data[2], data[3] = byte(nn>>16), byte(nn>>8), byte(nn)
			o.Data = data
			return []rgmssl.Out{o}
		case "inner_byte":
			if !isHS || len(data) <= 5 {
				return nil
			}
			pos := 4 + d.K%min(len(data)-4, 48)
			if step == "ClientKeyExchange" {
				pos = 4 + d.K%(len(data)-4) // anywhere in the SM2 ciphertext: C1, C3 and C2 are all integrity-relevant
			}
			nb := d.Val
			if nb == data[pos] {
				nb ^= 0x80
			}
			data[pos] = nb
			o.Data = data
			return []rgmssl.Out{o}
		case "split", "split2":
			if !isHS || len(data) < 2 {
				*fired = false
				return []rgmssl.Out{o}
			}
			o.SplitAt = 1 + d.K%(len(data)-1)
			return []rgmssl.Out{o}
		case "oversize":
			big := make([]byte, 4+70000)
			big[0] = 11
			if isHS {
				big[0] = data[0]
			}
			big[1], big[2], big[3] = 0x01, 0x11, 0x70
			return []rgmssl.Out{{RecType: rgmssl.RecHS, Data: big}}
		case "ccs_early":
			return []rgmssl.Out{{RawRecord: true, Data: []byte{20, 1, 1, 0, 1, 1}}, o}
		case "appdata_early":
			return []rgmssl.Out{{RawRecord: true, Data: append([]byte{23, 1, 1, 0, 5}, "hello"...)}, o}
		case "alert_fatal":
			return []rgmssl.Out{{RecType: rgmssl.RecAlert, Data: []byte{2, []byte{10, 20, 40, 42, 47, 50, 80}[d.K%7]}}}
		case "alert_warning":
			return []rgmssl.Out{{RecType: rgmssl.RecAlert, Data: []byte{1, []byte{41, 90, 100, 112}[d.K%4]}}, o}
		case "alert_flood":
			// a few warning alerts may be tolerated (see alert_warning); a peer that sends them without end keeps the endpoint
			// busy for as long as it likes, so a long run of them (64..263 in a row) must end the handshake
			var outs []rgmssl.Out
			for i := 0; i < 64+d.K%200; i++ {
				outs = append(outs, rgmssl.Out{RecType: rgmssl.RecAlert, Data: []byte{1, []byte{41, 90, 100, 112}[(d.K+i*int(d.Val%4))%4]}})
			}
			return append(outs, o)
		case "unknown_record":
			return []rgmssl.Out{{RawRecord: true, Data: []byte{byte(24 + d.K%200), 1, 1, 0, 2, 0, 0}}, o}
		case "unknown_hstype":
			return []rgmssl.Out{{RecType: rgmssl.RecHS, Data: []byte{byte(30 + d.K%200), 0, 0, 1, 0}}, o}
		case "cert_list":
			// the Certificate message carries another list than the protocol requires (GM/T 0024: signing
			// certificate then encryption certificate)
			if !isHS || data[0] != 11 || len(data) < 7 {
				*fired = false
				return []rgmssl.Out{o}
			}
			var certs [][]byte
			for rest := data[7:]; len(rest) >= 3; {
				n := int(rest[0])<<16 | int(rest[1])<<8 | int(rest[2])
				certs = append(certs, rest[3:3+n])
				rest = rest[3+n:]
			}
			var list [][]byte
			switch v := d.K % 5; {
			case v == 0:
			case v == 1 && len(certs) >= 2:
				list = certs[:1]
			case v == 2 && len(certs) >= 2:
				list = certs[1:2]
			case v == 3 && len(certs) >= 2:
				list = [][]byte{certs[1], certs[0]}
			case v == 4 && len(certs) >= 2:
				list = [][]byte{certs[0], certs[0]}
			case len(certs) == 1:
				bad := append([]byte{}, certs[0]...)
				bad[len(bad)/2] ^= 0x10
				list = [][]byte{bad}
			}
			var body []byte
			for _, c := range list {
				body = append(body, byte(len(c)>>16), byte(len(c)>>8), byte(len(c)))
				body = append(body, c...)
			}
			body = append([]byte{byte(len(body) >> 16), byte(len(body) >> 8), byte(len(body))}, body...)
			o.Data = append([]byte{11, byte(len(body) >> 16), byte(len(body) >> 8), byte(len(body))}, body...)
			return []rgmssl.Out{o}
		case "trailing":
			// 1..4 stray bytes behind the last field of the message, inside a handshake header that accounts for them: every
			// GM/T 0024 handshake message has an exact layout, nothing may follow it
			if !isHS {
				*fired = false
				return []rgmssl.Out{o}
			}
			for i := 0; i <= d.K%4; i++ {
				data = append(data, d.Val+byte(i))
			}
			n := len(data) - 4
			data[1], data[2], data[3] = byte(n>>16), byte(n>>8), byte(n)
			o.Data = data
			return []rgmssl.Out{o}
		case "inner_len":
			// one length or count field INSIDE the message body is set to another value while the bytes around it stay: the
			// body no longer adds up (a stray byte behind the last entry, an entry reaching beyond its list, ...)
			fields := innerLenFields(data)
			if !isHS || len(fields) == 0 {
				*fired = false
				return []rgmssl.Out{o}
			}
			lastInnerFields = len(fields)
			f := fields[d.K%len(fields)]
			cur := 0
			for j := 0; j < f[1]; j++ {
				cur = cur<<8 | int(data[f[0]+j])
			}
			cands := []int{cur - 1, cur + 1, cur - 2, cur + 2, 0, 2 * cur, 1<<(8*uint(f[1])) - 1, cur / 2}
			v := cands[(d.K/len(fields))%len(cands)]
			if v < 0 || v == cur || v >= 1<<(8*uint(f[1])) {
				v = cur + 1
			}
			for j, x := f[1]-1, v; j >= 0; j-- {
				data[f[0]+j] = byte(x)
				x >>= 8
			}
			o.Data = data
			return []rgmssl.Out{o}
		case "big_record":
			// a Certificate message of 16.4..18 KiB (many certificates): fragmented at 2^14 it is legal and must be
			// accepted (K even); as ONE record it exceeds the plaintext limit although it stays below the ciphertext
			// limit of 2^14+2048, and must be refused (K odd)
			if len(data) <= 16384 {
				*fired = false
				return []rgmssl.Out{o}
			}
			o.NoFragment = d.K%2 == 1
			return []rgmssl.Out{o}
		case "record_overflow":
			n := 16384 + 2048 + 1 + d.K%1000
			rec := append([]byte{22, 1, 1, byte(n >> 8), byte(n)}, make([]byte, n)...)
			return []rgmssl.Out{{RawRecord: true, Data: rec}}
		}
		return []rgmssl.Out{o}
	}
	return p, fired, legal, eff
}

// ---- TLS mode: a keyed scripted client that resumes a session from a ticket

// tlsSession runs one honest TLS 1.2 connection (suite c02f) against the server configuration and returns the ticket the
// server issued, the master secret sealed in it (opened with the server's own keys through the hook) and its suite.
func tlsSession(t interface{ Fatalf(string, ...any) }, mk func(id string) *gmtls.Config, id string) (ticket, master []byte) {
	p := tlsx.GetPKI()
	cc := tlsx.TLSClient(p, "c"+id)
	cc.CipherSuites = []uint16{0xc02f}
	cc.MinVersion, cc.MaxVersion = 0x0303, 0x0303
	cc.ClientSessionCache = gmtls.NewLRUClientSessionCache(1)
	sc := mk(id)
	r := tlsx.Run(cc, sc, tlsx.Script{ClientSend: []byte("first")})
	if r.Client.HSErr != nil || r.Server.HSErr != nil {
		t.Fatalf("harness: the honest first connection failed: %s", r.Describe())
	}
	var stream, hs []byte
	for _, c := range r.Log {
		if !c.FromClient {
			stream = append(stream, c.Data...)
		}
	}
	for len(stream) >= 5 {
		n := int(stream[3])<<8 | int(stream[4])
		if len(stream) < 5+n || stream[0] == 20 {
			break
		}
		if stream[0] == 22 {
			hs = append(hs, stream[5:5+n]...)
		}
		stream = stream[5+n:]
	}
	for len(hs) >= 4 {
		n := int(hs[1])<<16 | int(hs[2])<<8 | int(hs[3])
		if len(hs) < 4+n {
			break
		}
		if hs[0] == 4 && n >= 6 {
			ticket = hs[4+6 : 4+n]
		}
		hs = hs[4+n:]
	}
	if ticket == nil {
		t.Fatalf("harness: no NewSessionTicket seen on the first connection")
	}
	ok, _, _, m, _ := gmtls.VerifDecryptTicket(sc, ticket)
	if !ok {
		t.Fatalf("harness: the issued ticket does not open under the server's keys")
	}
	return ticket, m
}

// A scripted TLS 1.2 client that holds a genuine ticket and its master secret resumes against the TLS-only server and
// the auto-switch server with a ClientHello that deviates in one respect; it follows through with correct Finished
// messages over whatever it sent, so only the server's own checks stand between the deviation and a completed handshake.
func TestC15_TLSResumptionDeviations(t *testing.T) {
	p := tlsx.GetPKI()
	n := 0
	for _, mode := range []string{"tlsserver", "autoserver"} {
		mk := func(id string) *gmtls.Config {
			var sc *gmtls.Config
			if mode == "tlsserver" {
				sc = tlsx.TLSServer(p, p.RSASrv, "s"+id)
			} else {
				sc = tlsx.AutoServer(p, p.RSASrv, "s"+id)
			}
			sc.CipherSuites = []uint16{0xc02f, 0xc014, tlsx.GMECCSM4CBCSM3}
			sc.SetSessionTicketKeys([][32]byte{{7, 7, 7}})
			return sc
		}
		ticket, master := tlsSession(t, mk, "trd"+mode)
		type dev struct {
			name     string
			o        func(o *rgmssl.TLSResumeOpts)
			mustFail bool // the hello is not acceptable: neither resumption nor anything else may complete
			resume   bool // must be resumed and complete (controls)
		}
		devs := []dev{
			{"control", func(o *rgmssl.TLSResumeOpts) {}, false, true},
			{"control_more_suites", func(o *rgmssl.TLSResumeOpts) { o.Suites = []uint16{0x1301, 0xc02f, 0x00ff} }, false, true},
			{"control_compression_null_and_deflate", func(o *rgmssl.TLSResumeOpts) { o.Compressions = []byte{1, 0} }, false, true},
			{"compression_deflate_only", func(o *rgmssl.TLSResumeOpts) { o.Compressions = []byte{1} }, true, false},
			{"compression_none", func(o *rgmssl.TLSResumeOpts) { o.Compressions = []byte{} }, true, false},
			{"compression_unknown_only", func(o *rgmssl.TLSResumeOpts) { o.Compressions = []byte{64, 1} }, true, false},
			{"junk_finished", func(o *rgmssl.TLSResumeOpts) { o.JunkFinished = true }, true, false},
			{"suite_not_offered", func(o *rgmssl.TLSResumeOpts) { o.Suites = []uint16{0xc014} }, false, false},
			{"no_suites", func(o *rgmssl.TLSResumeOpts) { o.Suites = []uint16{} }, true, false},
			{"version_tls11", func(o *rgmssl.TLSResumeOpts) { o.Version = 0x0302 }, false, false},
			{"version_ssl30", func(o *rgmssl.TLSResumeOpts) { o.Version = 0x0300 }, false, false},
			{"ticket_bit", func(o *rgmssl.TLSResumeOpts) { o.Ticket = append([]byte{}, o.Ticket...); o.Ticket[len(o.Ticket)/2] ^= 4 }, false, false},
			{"wrong_master", func(o *rgmssl.TLSResumeOpts) { o.Master = append([]byte{}, o.Master...); o.Master[0] ^= 1 }, true, false},
			{"session_id_empty", func(o *rgmssl.TLSResumeOpts) { o.SessionID = []byte{} }, false, true},
		}
		for _, d := range devs {
			n++
			o := rgmssl.TLSResumeOpts{Ticket: ticket, Master: master, Random: fill32(uint64(n)), AppData: []byte("x")}
			d.o(&o)
			var rr *rgmssl.TLSResumeResult
			sc := mk(fmt.Sprint("trd", n))
			r := tlsx.RunServerAgainst(sc, []byte("y"), func(rw *wire.Conn) error {
				var err error
				rr, err = rgmssl.ResumeTLS12(rw, o)
				return err
			})
			desc := fmt.Sprintf("%s, resuming TLS 1.2 client deviates: %s | server: hs=%v | scripted client: err=%v log=%v", mode, d.name, r.GM.HSErr, r.PeerErr, rr.Log)
			if r.GM.Panic != nil {
				t.Fatalf("the server PANICKED: %v\n%s\n%s", r.GM.Panic.Val, r.GM.Panic.Stack, desc)
			}
			if r.PeerPanic != nil {
				t.Fatalf("harness: scripted client panicked: %v\n%s", r.PeerPanic.Val, r.PeerPanic.Stack)
			}
			complete := r.GM.HSErr == nil
			switch {
			case d.resume:
				if !complete || !rr.Resumed || !rr.Completed {
					t.Fatalf("an acceptable resuming ClientHello was not resumed to completion (resumed=%v completed=%v)\n%s", rr.Resumed, rr.Completed, desc)
				}
			case d.mustFail:
				if complete || rr.Completed {
					t.Fatalf("the server reported the handshake COMPLETE although the resuming client deviated from the protocol\n%s", desc)
				}
			default:
				// the session may not be resumed as asked; the server may fall back to a full handshake (which this script
				// does not follow) or refuse - it must not complete an abbreviated one
				if rr.Resumed && (complete || rr.Completed) {
					t.Fatalf("the server RESUMED and completed although the hello does not allow this session (%s)\n%s", d.name, desc)
				}
			}
			R.Case(true, hx.HashKey("trd", mode, d.name), "tls_resumption_deviation", "trd:"+d.name, "endpoint:"+mode)
		}
	}
	R.Subspace("resuming TLS 1.2 ClientHello deviations (compression lists, suites, versions, ticket, Finished) x {TLS-only, auto-switch} server, keyed scripted client", int64(n), true)
}

// The TLS-mode client against the keyed scripted TLS 1.2 server (RSA key exchange, 0x009c): a control that must complete,
// ServerHello versions above what the client offered (the server carries on at TLS 1.2 - completion is the oracle), and the
// deviation catalogue of the GM/T 0024 peers applied to the server's messages (omit, repeat, retype, reorder, truncate,
// length fields, inner lengths, trailing bytes, early CCS / application data, alerts, unknown types, oversize, close).
func TestC15_TLSClientAgainstScriptedServer(t *testing.T) {
	p := tlsx.GetPKI()
	run := func(seed string, o rgmssl.TLSServerOpts, plan *rgmssl.Plan) (*tlsx.ScriptedResult, *rgmssl.TLSServerResult) {
		cc := tlsx.TLSClient(p, "c"+seed)
		cc.CipherSuites = []uint16{0x009c, 0x002f}
		o.CertDER, o.Key, o.Echo = [][]byte{p.RSASrv.DER}, p.RSASrv.Key.(*rsa.PrivateKey), []byte("y")
		o.Random = fill32(uint64(len(seed)) * 7919)
		var sr *rgmssl.TLSServerResult
		r := tlsx.RunClientAgainst(cc, []byte("x"), func(rw *wire.Conn) error {
			var err error
			sr, err = rgmssl.ServeTLS12RSA(rw, o, plan)
			return err
		})
		return r, sr
	}
	r, sr := run("control", rgmssl.TLSServerOpts{}, nil)
	if r.GM.HSErr != nil || r.PeerErr != nil || !sr.Completed || string(r.GM.Received) != "y" || string(sr.AppIn) != "x" {
		t.Fatalf("harness/control: the TLS client does not complete against the scripted TLS 1.2 server: client hs=%v, server err=%v log=%v", r.GM.HSErr, r.PeerErr, sr.Log)
	}
	R.Case(true, hx.HashKey("tlssrv", "control"), "tls_scripted_server", "tls_scripted_server:control")
	var n int64
	for _, v := range []uint16{0x0304, 0x0305, 0x03ff, 0x0400, 0x7f17, 0xfefd, 0xffff} {
		for _, rv := range []uint16{0x0303, 0x0301} {
			r, sr := run(fmt.Sprint("vers", v, rv), rgmssl.TLSServerOpts{HelloVersion: v, RecVersion: rv}, nil)
			if r.GM.Panic != nil {
				t.Fatalf("TLS client PANICKED: %v\n%s", r.GM.Panic.Val, r.GM.Panic.Stack)
			}
			if r.GM.HSErr == nil || sr.ClientFin {
				t.Fatalf("the TLS client (offering at most 0x0303) COMPLETED a handshake with a server whose ServerHello names version %04x (records stamped %04x) and that simply carried on at TLS 1.2: client hs=%v, server log=%v", v, rv, r.GM.HSErr, sr.Log)
			}
			n++
		}
	}
	R.Case(true, hx.HashKey("tlssrv", "versions"), "tls_scripted_server", "tls_scripted_server:version_above_offer")
	steps := []string{"ServerHello", "Certificate", "ServerHelloDone", "ChangeCipherSpec", "Finished"}
	for _, kind := range devKinds {
		for _, step := range steps {
			for k := 0; k < map[bool]int{false: 3, true: 8}[hx.Thorough()]; k++ {
				d := deviation{Kind: kind, Step: step, K: k*7 + len(step), Val: byte(31 * (k + 1))}
				if kind == "cert_list" || kind == "big_record" || kind == "coalesce" {
					continue // about GM/T 0024 certificate pairs / client certificates / held-back flights of the other scripts
				}
				plan, fired, legal, eff := planFor(d)
				plan.IgnoreAlerts = k == 1
				r, sr := run(fmt.Sprint("dev", kind, step, k), rgmssl.TLSServerOpts{IgnoreAlerts: k == 1}, plan)
				desc := fmt.Sprintf("TLS client, scripted TLS 1.2 server deviates: %+v (effective %s) fired=%v | client: hs=%v | server: err=%v log=%v", d, eff, *fired, r.GM.HSErr, r.PeerErr, sr.Log)
				if (eff == "repeat" || eff == "close") && step == "Finished" {
					continue // behind the last handshake message
				}
				if eff == "inner_byte" || eff == "alert_warning" {
					judge(t, r, true, false, desc) // may still be a well-formed message / tolerated: universal invariants only
					continue
				}
				judge(t, r, legal, *fired, desc)
				if *fired {
					n++
				}
			}
		}
	}
	R.Case(true, hx.HashKey("tlssrv", "deviations"), "tls_scripted_server", "tls_scripted_server:deviations")
	R.Subspace("TLS client vs keyed scripted TLS 1.2 RSA server: ServerHello versions above the offer x record versions, and the deviation catalogue x 5 server steps x 3 (thorough 8) parameters", n, true)
}

func fill32(seed uint64) []byte {
	b := make([]byte, 32)
	gen.Fill(b, seed)
	return b
}

// A server that asked for a certificate gets a Certificate message - empty if the client has none. A scripted client that
// leaves the message out (and otherwise finishes a consistent handshake) must not be served, under any of the four
// requesting policies, by the GMSSL-only or the auto-switch server.
func TestC15_OmittedClientCertificate(t *testing.T) {
	p := tlsx.GetPKI()
	n := 0
	for _, ep := range []string{"gmserver", "autoserver"} {
		for _, auth := range []gmtls.ClientAuthType{gmtls.RequestClientCert, gmtls.RequireAnyClientCert, gmtls.VerifyClientCertIfGiven, gmtls.RequireAndVerifyClientCert} {
			for _, withCert := range []bool{false, true} {
				for _, kind := range []string{"omit", "control"} {
					n++
					seed := fmt.Sprint("occ", n)
					sc := tlsx.GMServer(p, "s"+seed)
					if ep == "autoserver" {
						sc = tlsx.AutoServer(p, p.RSASrv, "s"+seed)
					}
					sc.ClientAuth, sc.ClientCAs = auth, p.RootsSM2
					co := rgmssl.ClientOpts{Suites: []uint16{tlsx.GMECCSM4GCMSM3}}
					if withCert {
						co.Cert, co.CertD = p.Client.DER, p.Client.SM2D
					}
					var plan *rgmssl.Plan
					if kind == "omit" {
						plan = &rgmssl.Plan{Out: func(step string, o rgmssl.Out) []rgmssl.Out {
							if step == "ClientCertificate" || step == "CertificateVerify" {
								return nil
							}
							return []rgmssl.Out{o}
						}}
					}
					r := tlsx.RunAgainstScriptedClient(sc, co, plan, seed, []byte("x"))
					desc := fmt.Sprintf("%s, ClientAuth=%d, scripted client with certificate=%v, %s | endpoint: hs=%v | scripted peer: err=%v log=%v", ep, auth, withCert, kind, r.GM.HSErr, r.PeerErr, r.Peer.Log)
					mustWork := kind == "control" && (withCert || auth == gmtls.RequestClientCert || auth == gmtls.VerifyClientCertIfGiven)
					if kind == "omit" {
						judge(t, r, false, true, desc)
					} else {
						judge(t, r, true, mustWork, desc)
						if mustWork && r.GM.HSErr != nil {
							t.Fatalf("honest scripted client refused (control)\n%s", desc)
						}
					}
				}
			}
		}
		R.Case(true, hx.HashKey("occ", ep), "omitted_client_certificate", "endpoint:"+ep)
	}
}

var lastInnerFields int // number of inner length fields of the message the last "inner_len" deviation hit

// every inner length field of every scripted GM/T 0024 handshake message x every candidate value, against the client and
// both server kinds (the generated deviations above sample this grid; here it is enumerated)
func TestC15_InnerLengthSweep(t *testing.T) {
	p := tlsx.GetPKI()
	var n int64
	for _, ep := range []string{"gmclient", "gmserver", "autoserver"} {
		steps := []string{"Certificate", "ServerKeyExchange", "CertificateRequest"}
		if ep != "gmclient" {
			steps = []string{"ClientCertificate", "ClientKeyExchange", "CertificateVerify"}
		}
		for _, step := range steps {
			for ncas := 0; ncas <= 2; ncas++ {
				if step != "CertificateRequest" && ncas > 0 {
					continue
				}
				nf := 1
				for k := 0; k < nf*8; k++ {
					d := deviation{Kind: "inner_len", Step: step, K: k}
					plan, fired, _, _ := planFor(d)
					plan.IgnoreAlerts = k%2 == 1
					seed := fmt.Sprint("ils", ep, step, ncas, k)
					var r *tlsx.ScriptedResult
					if ep == "gmclient" {
						cc := tlsx.GMClient(p, "c"+seed)
						cc.Certificates = []gmtls.Certificate{p.Client.TLS}
						so := rgmssl.ServerOpts{ID: p.ServerIdentity(), RequestCert: true, CAs: [][]byte{p.SM2Root.Cert.RawSubject, p.SM2Root2.Cert.RawSubject}[:ncas]}
						r = tlsx.RunAgainstScriptedServer(cc, so, plan, seed, []byte("x"))
					} else {
						sc := tlsx.GMServer(p, "s"+seed)
						if ep == "autoserver" {
							sc = tlsx.AutoServer(p, p.RSASrv, "s"+seed)
						}
						sc.ClientAuth, sc.ClientCAs = gmtls.RequireAndVerifyClientCert, p.RootsSM2
						co := rgmssl.ClientOpts{Suites: []uint16{tlsx.GMECCSM4CBCSM3}, Cert: p.Client.DER, CertD: p.Client.SM2D}
						if k%3 == 0 {
							co.ExtraCerts = [][]byte{p.SM2Root.DER}
						}
						r = tlsx.RunAgainstScriptedClient(sc, co, plan, seed, []byte("x"))
					}
					if !*fired {
						t.Fatalf("harness: the inner_len deviation did not fire for %s/%s", ep, step)
					}
					nf = lastInnerFields
					judge(t, r, false, true, fmt.Sprintf("inner length sweep: endpoint=%s step=%s field %d of %d, candidate %d, %d CA names | endpoint: hs=%v | scripted peer: err=%v log=%v", ep, step, k%nf, nf, k/nf, ncas, r.GM.HSErr, r.PeerErr, r.Peer.Log))
					n++
				}
			}
		}
		// ... and 1..4 stray bytes behind every handshake message of the scripted side
		all := serverSteps
		if ep != "gmclient" {
			all = clientSteps
		}
		for _, step := range all {
			if step == "ChangeCipherSpec" {
				continue
			}
			for k := 0; k < 4; k++ {
				d := deviation{Kind: "trailing", Step: step, K: k, Val: byte(17 * k)}
				plan, fired, _, _ := planFor(d)
				plan.IgnoreAlerts = k%2 == 1
				seed := fmt.Sprint("trl", ep, step, k)
				var r *tlsx.ScriptedResult
				if ep == "gmclient" {
					cc := tlsx.GMClient(p, "c"+seed)
					cc.Certificates = []gmtls.Certificate{p.Client.TLS}
					r = tlsx.RunAgainstScriptedServer(cc, rgmssl.ServerOpts{ID: p.ServerIdentity(), RequestCert: true}, plan, seed, []byte("x"))
				} else {
					sc := tlsx.GMServer(p, "s"+seed)
					if ep == "autoserver" {
						sc = tlsx.AutoServer(p, p.RSASrv, "s"+seed)
					}
					sc.ClientAuth, sc.ClientCAs = gmtls.RequireAndVerifyClientCert, p.RootsSM2
					r = tlsx.RunAgainstScriptedClient(sc, rgmssl.ClientOpts{Suites: []uint16{tlsx.GMECCSM4GCMSM3}, Cert: p.Client.DER, CertD: p.Client.SM2D}, plan, seed, []byte("x"))
				}
				if !*fired {
					t.Fatalf("harness: the trailing-bytes deviation did not fire for %s/%s", ep, step)
				}
				judge(t, r, false, true, fmt.Sprintf("trailing bytes sweep: endpoint=%s step=%s, %d stray bytes | endpoint: hs=%v | scripted peer: err=%v log=%v", ep, step, k+1, r.GM.HSErr, r.PeerErr, r.Peer.Log))
				n++
			}
		}
		R.Case(true, hx.HashKey("ils", ep), "inner_length_sweep", "endpoint:"+ep)
	}
	R.Subspace("inner length/count fields of Certificate, ServerKeyExchange, CertificateRequest (0..2 CA names), ClientKeyExchange, CertificateVerify x 8 candidate values x endpoint kinds", n, true)
}

// innerLenFields lists (offset, width) of the length and count fields inside the body of a GM/T 0024 handshake message
// (the 3-byte length of the handshake header is the business of "len_field").
func innerLenFields(m []byte) (out [][2]int) {
	if len(m) < 4 {
		return nil
	}
	u := func(off, w int) int {
		v := 0
		for j := 0; j < w; j++ {
			v = v<<8 | int(m[off+j])
		}
		return v
	}
	list := func(off, lw, ew int) { // a vector with an lw-byte length whose entries carry ew-byte lengths
		if off+lw > len(m) {
			return
		}
		out = append(out, [2]int{off, lw})
		end := off + lw + u(off, lw)
		for e := off + lw; ew > 0 && e+ew <= end && e+ew <= len(m); {
			out = append(out, [2]int{e, ew})
			e += ew + u(e, ew)
		}
	}
	switch m[0] {
	case 11: // Certificate: certificate_list<0..2^24-1> of ASN.1Cert<1..2^24-1>
		list(4, 3, 3)
	case 12, 15, 16: // ServerKeyExchange (ECC: signature), CertificateVerify, ClientKeyExchange: one opaque<0..2^16-1>
		list(4, 2, 0)
	case 13: // CertificateRequest: certificate_types<1..2^8-1>, certificate_authorities<0..2^16-1> of DistinguishedName<1..2^16-1>
		list(4, 1, 0)
		if 5+u(4, 1) < len(m) {
			list(5+u(4, 1), 2, 2)
		}
	}
	return out
}

func min(a, b int) int {
	if a < b {
		return a
	}
	return b
}

func depthOf(steps []string, step string) int {
	for i, s := range steps {
		if s == step {
			if i > 5 {
				return 5
			}
			return i
		}
	}
	return 0
}

func judge(t interface{ Fatalf(string, ...any) }, r *tlsx.ScriptedResult, legal, fired bool, desc string) {
	if r.Spin {
		t.Fatalf("the endpoint keeps reading after its input has ended (spin)\n%s", desc)
	}
	if r.GM.Panic != nil {
		t.Fatalf("the endpoint PANICKED on a misbehaving peer: %s\n%s", r.GM.Panic, desc)
	}
	if r.PeerPanic != nil {
		t.Fatalf("harness: scripted peer panicked: %s\n%s", r.PeerPanic, desc)
	}
	complete := r.GM.HSErr == nil
	if complete != r.GM.Conn.ConnectionState().HandshakeComplete {
		t.Fatalf("Handshake() error (%v) and ConnectionState().HandshakeComplete (%v) disagree\n%s", r.GM.HSErr, !complete, desc)
	}
	if !fired || legal {
		if legal && fired && !complete {
			t.Fatalf("a legal variation (fragmented/coalesced handshake messages) was rejected: %v\n%s", r.GM.HSErr, desc)
		}
		return
	}
	if complete {
		t.Fatalf("the endpoint reported the handshake COMPLETE although the peer deviated from the protocol\n%s", desc)
	}
}

func TestC15_ScriptedDeviations(t *testing.T) {
	p := tlsx.GetPKI()
	n := 0
	hx.Check(t, hx.N(2500, 30000), func(t *rapid.T) {
		n++
		ep := rapid.SampledFrom([]string{"gmclient", "gmclient", "gmserver", "autoserver"}).Draw(t, "endpoint")
		suite := rapid.SampledFrom([]uint16{tlsx.GMECCSM4CBCSM3, tlsx.GMECCSM4GCMSM3}).Draw(t, "suite")
		clientAuth := rapid.Bool().Draw(t, "clientauth")
		steps := serverSteps
		if ep != "gmclient" {
			steps = clientSteps
		}
		d := deviation{Kind: rapid.SampledFrom(devKinds).Draw(t, "kind"), Step: rapid.SampledFrom(steps).Draw(t, "step"), K: rapid.IntRange(0, 100000).Draw(t, "k"), Val: rapid.Byte().Draw(t, "val")}
		if !clientAuth && (d.Step == "CertificateRequest" || d.Step == "ClientCertificate" || d.Step == "CertificateVerify") {
			clientAuth = true
		}
		if d.Kind == "cert_list" {
			d.Step = map[bool]string{true: "Certificate", false: "ClientCertificate"}[ep == "gmclient"]
			clientAuth = true
		}
		bigCerts := 0
		if d.Kind == "big_record" {
			if ep == "gmclient" {
				ep = "gmserver"
				steps = clientSteps
			}
			d.Step, clientAuth = "ClientCertificate", true
			bigCerts = (16500+d.K%1500)/(len(p.Client.DER)+3) + 1
		}
		plan, fired, legal, eff := planFor(d)
		d.Kind = eff
		// half of the deviating peers press on after an alert instead of giving up
		plan.IgnoreAlerts = rapid.Bool().Draw(t, "peerIgnoresAlerts")
		seed := fmt.Sprint("d", n)
		var r *tlsx.ScriptedResult
		if ep == "gmclient" {
			cc := tlsx.GMClient(p, "c"+seed)
			cc.CipherSuites = []uint16{suite}
			if clientAuth {
				cc.Certificates = []gmtls.Certificate{p.Client.TLS}
			}
			so := rgmssl.ServerOpts{ID: p.ServerIdentity(), RequestCert: clientAuth}
			if clientAuth && d.K%3 != 0 {
				so.CAs = [][]byte{p.SM2Root.Cert.RawSubject, p.SM2Root2.Cert.RawSubject}[:1+d.K%2]
			}
			r = tlsx.RunAgainstScriptedServer(cc, so, plan, seed, []byte("x"))
		} else {
			var sc *gmtls.Config
			if ep == "gmserver" {
				sc = tlsx.GMServer(p, "s"+seed)
			} else {
				sc = tlsx.AutoServer(p, p.RSASrv, "s"+seed)
			}
			// (a Config that is also used for dialing may allow renegotiation as a client: that setting is none of the
			// server role's business)
			sc.Renegotiation = gmtls.RenegotiationSupport((d.K / 5) % 3)
			certless := false
			if clientAuth {
				// the certificate-requesting policies in turn; under the two that only ask, every third scripted client has no
				// certificate and answers with the (mandatory) empty Certificate message
				sc.ClientAuth, sc.ClientCAs = []gmtls.ClientAuthType{gmtls.RequireAndVerifyClientCert, gmtls.RequestClientCert, gmtls.VerifyClientCertIfGiven, gmtls.RequireAnyClientCert}[d.K%4], p.RootsSM2
				certless = (sc.ClientAuth == gmtls.RequestClientCert || sc.ClientAuth == gmtls.VerifyClientCertIfGiven) && d.Kind != "big_record" && d.Kind != "cert_list" && d.Step != "CertificateVerify" && (d.K/4)%3 != 0
			}
			co := rgmssl.ClientOpts{Suites: []uint16{suite}}
			if clientAuth && !certless {
				co.Cert, co.CertD = p.Client.DER, p.Client.SM2D
			}
			for i := 0; i < bigCerts; i++ {
				co.ExtraCerts = append(co.ExtraCerts, p.Client.DER)
			}
			r = tlsx.RunAgainstScriptedClient(sc, co, plan, seed, []byte("x"))
		}
		desc := fmt.Sprintf("endpoint=%s suite=%x clientAuth=%v deviation=%+v fired=%v legal=%v | endpoint: hs=%v | scripted peer: err=%v log=%v", ep, suite, clientAuth, d, *fired, legal, r.GM.HSErr, r.PeerErr, r.Peer.Log)
		if (d.Kind == "repeat" || d.Kind == "close") && d.Step == "Finished" {
			// the duplicate follows the peer's last handshake message: the handshake itself is complete by then
			judge(t, r, true, false, desc)
			R.Case(false, 0, "unspecified:extra_after_last_message")
			return
		}
		if d.Kind == "inner_byte" && d.Step == "ClientKeyExchange" && *fired {
			// every byte of the ClientKeyExchange is length framing or part of the SM2 ciphertext of the pre-master
			// secret (C1, C3, C2): whatever is changed, decryption must fail (GM/T 0003.4) and with it the handshake,
			// even though the scripted client carries on with the genuine secret and a consistent transcript
			judge(t, r, false, true, desc)
			R.Case(true, hx.HashKey("dev", ep, suite, clientAuth, fmt.Sprintf("%+v", d)), "endpoint:"+ep, "dev:inner_byte", "dev:cke_ciphertext_byte")
			return
		}
		if d.Kind == "inner_byte" {
			// a changed content byte may still be a well-formed message with another meaning (the scripted peer
			// hashes what it sent): only the universal invariants apply
			judge(t, r, true, false, desc)
			R.Case(*fired, hx.HashKey("dev", ep, suite, clientAuth, fmt.Sprintf("%+v", d)), "endpoint:"+ep, "dev:inner_byte", "unspecified:inner_byte")
			return
		}
		if d.Kind == "alert_warning" {
			// warning alerts may be tolerated or not: only the universal invariants
			judge(t, r, true, false, desc)
			R.Case(false, 0, "unspecified:alert_warning")
			return
		}
		judge(t, r, legal, *fired, desc)
		cl := []string{"endpoint:" + ep, "dev:" + d.Kind, fmt.Sprintf("depth:%d", depthOf(steps, d.Step))}
		if plan.IgnoreAlerts && r.Peer.AlertIn != nil {
			cl = append(cl, "peer_pressed_on_after_alert")
		}
		if legal && *fired {
			cl = append(cl, "legal_must_succeed")
		}
		R.Case(*fired, hx.HashKey("dev", ep, suite, clientAuth, fmt.Sprintf("%+v", d)), cl...)
		R.Sample(d.Kind, map[string]interface{}{"endpoint": ep, "step": d.Step, "err": fmt.Sprint(r.GM.HSErr)})
	})
}

// ---- hostile ClientHello: versions, suites, compression, tickets

func helloCase(t interface{ Fatalf(string, ...any) }, mode string, co rgmssl.ClientOpts, seed string, expectOK bool, what string, maxVersion ...uint16) {
	p := tlsx.GetPKI()
	var sc *gmtls.Config
	switch mode {
	case "gmserver":
		sc = tlsx.GMServer(p, "s"+seed)
	case "autoserver":
		sc = tlsx.AutoServer(p, p.RSASrv, "s"+seed)
	default:
		sc = tlsx.TLSServer(p, p.RSASrv, "s"+seed)
	}
	if len(maxVersion) > 0 {
		sc.MaxVersion = maxVersion[0]
	}
	r := tlsx.RunAgainstScriptedClient(sc, co, nil, seed, nil)
	desc := fmt.Sprintf("%s mode=%s opts=%+v | endpoint hs=%v | peer err=%v", what, mode, co, r.GM.HSErr, r.PeerErr)
	judge(t, r, expectOK, true, desc)
	if expectOK && r.GM.HSErr != nil {
		t.Fatalf("honest ClientHello variant rejected\n%s", desc)
	}
}

func helloUnspecified(t interface{ Fatalf(string, ...any) }, mode string, co rgmssl.ClientOpts, seed string) {
	p := tlsx.GetPKI()
	sc := tlsx.GMServer(p, "s"+seed)
	if mode == "autoserver" {
		sc = tlsx.AutoServer(p, p.RSASrv, "s"+seed)
	}
	r := tlsx.RunAgainstScriptedClient(sc, co, nil, seed, nil)
	judge(t, r, true, false, fmt.Sprintf("unspecified hello mode=%s opts=%+v hs=%v", mode, co, r.GM.HSErr))
}

func TestC15_VersionSweep(t *testing.T) {
	lo, hi := hx.ShardRange(0, 0x0401)
	var n int64
	for v := lo; v < hi; v++ {
		if !hx.Thorough() && v > 0x0110 && v < 0x02f0 && v%9 != 0 {
			continue
		}
		for _, mode := range []string{"gmserver", "autoserver", "tlsserver"} {
			ok := v == 0x0101 && mode != "tlsserver"
			helloCase(t, mode, rgmssl.ClientOpts{VersionOverride: uint16(v), ForceVersion: true}, fmt.Sprint("v", v), ok, fmt.Sprintf("ClientHello version %#04x", v))
			// the same hello offering TLS suites as well, so that the version reaches the TLS code paths too (the
			// scripted GMSSL client cannot finish a TLS handshake: still only version 0x0101 may complete)
			helloCase(t, mode, rgmssl.ClientOpts{VersionOverride: uint16(v), ForceVersion: true, Suites: []uint16{tlsx.GMECCSM4CBCSM3, tlsx.GMECCSM4GCMSM3, 0xc02f, 0xc014, 0x009c, 0x002f, 0x0035}}, fmt.Sprint("w", v), ok, fmt.Sprintf("ClientHello version %#04x offering GM and TLS suites", v))
			n += 2
			if v >= 0x0300 && (v <= 0x0310 || v >= 0x03f0) {
				// a configuration that allows "everything up to" a version above the ones implemented (a Config written for
				// a newer library): the versions it names beyond TLS 1.2 are not negotiable
				for _, mv := range []uint16{0x0304, 0x0400, 0xffff} {
					helloCase(t, mode, rgmssl.ClientOpts{VersionOverride: uint16(v), ForceVersion: true, Suites: []uint16{tlsx.GMECCSM4CBCSM3, 0xc02f, 0xc014, 0x009c, 0x002f, 0x0035}}, fmt.Sprint("m", v, mv), false, fmt.Sprintf("ClientHello version %#04x, server MaxVersion %#04x", v, mv), mv)
					n++
				}
				R.Class("vers_sweep_maxversion_above_tls12")
			}
		}
		R.Case(true, hx.HashKey("vers", v), "vers_sweep")
	}
	R.Class("vers_sweep_done")
	R.Subspace("ClientHello.version 0x0000..0x0400 x {GMSSL-only, auto-switch, TLS-only} server (quick: thinned between 0x0110 and 0x02f0)", n, hx.Thorough())
}

func TestC15_HostileHello(t *testing.T) {
	n := 0
	hx.Check(t, hx.N(400, 6000), func(t *rapid.T) {
		n++
		mode := rapid.SampledFrom([]string{"gmserver", "autoserver"}).Draw(t, "mode")
		kind := rapid.SampledFrom([]string{"unknown_suites", "ecdhe_only", "scsv", "ticket_garbage", "sessionid", "honest"}).Draw(t, "kind")
		co := rgmssl.ClientOpts{}
		ok := false
		unspec := false
		switch kind {
		case "unknown_suites":
			co.Suites = []uint16{uint16(rapid.IntRange(0, 0xffff).Draw(t, "s1")) | 0x0100, 0x1301, 0x00ff}
			for i, s := range co.Suites {
				if s == 0xe013 || s == 0xe053 || s == 0xe011 || s == 0xe051 {
					co.Suites[i] = 0x1302
				}
			}
		case "ecdhe_only":
			co.Suites = []uint16{0xe011, 0xe051}
		case "scsv":
			// fallback SCSV next to the GMSSL version number: either outcome, no crash
			co.Suites = []uint16{0xe013, 0x5600}
			unspec = true
		case "ticket_garbage":
			co.SessionTicket = rapid.SliceOfN(rapid.Byte(), 0, 200).Draw(t, "ticket")
			ok = true
		case "sessionid":
			co.SessionID = rapid.SliceOfN(rapid.Byte(), 1, 32).Draw(t, "sid")
			ok = true
		case "honest":
			ok = true
		}
		if unspec {
			helloUnspecified(t, mode, co, fmt.Sprint("h", n))
			R.Case(false, 0, "unspecified:scsv")
			return
		}
		helloCase(t, mode, co, fmt.Sprint("h", n), ok, "hello "+kind)
		cl := []string{"endpoint:" + mode, "hello:" + kind}
		if !ok {
			cl = append(cl, "hostile_suites")
		} else {
			cl = append(cl, "legal_must_succeed")
		}
		R.Case(true, hx.HashKey("hello", mode, kind, n), cl...)
	})
}

// 1-byte and mis-sized ClientKeyExchange, sent by a scripted client that is honest up to that point
func TestC15_KeyExchangeBodies(t *testing.T) {
	p := tlsx.GetPKI()
	bodies := [][]byte{{}, {0}, {0, 0}, {1}, {0, 1, 0x30}, {0xff, 0xff}, bytes.Repeat([]byte{0x30}, 300), append([]byte{0, 3}, 0x30, 0x01, 0x00)}
	for i, b := range bodies {
		for _, mode := range []string{"gmserver", "autoserver"} {
			sc := tlsx.GMServer(p, fmt.Sprint("ke", i))
			if mode == "autoserver" {
				sc = tlsx.AutoServer(p, p.RSASrv, fmt.Sprint("ke", i))
			}
			body := b
			plan := &rgmssl.Plan{Out: func(step string, o rgmssl.Out) []rgmssl.Out {
				if step == "ClientKeyExchange" {
					o.Data = append([]byte{16, 0, byte(len(body) >> 8), byte(len(body))}, body...)
				}
				return []rgmssl.Out{o}
			}}
			r := tlsx.RunAgainstScriptedClient(sc, rgmssl.ClientOpts{}, plan, fmt.Sprint("ke", i), nil)
			judge(t, r, false, true, fmt.Sprintf("ClientKeyExchange body %x mode=%s | hs=%v", b, mode, r.GM.HSErr))
			R.Case(true, hx.HashKey("cke", i, mode), "cke_1byte", "endpoint:"+mode)
		}
	}
}

// every byte of the ClientKeyExchange (framing and SM2 ciphertext C1, C3, C2), changed by a scripted client that is
// otherwise honest and keeps a consistent transcript and the genuine pre-master secret: the server must fail
func TestC15_KeyExchangeCiphertext(t *testing.T) {
	p := tlsx.GetPKI()
	for _, mode := range []string{"gmserver", "autoserver"} {
		for _, suite := range []uint16{tlsx.GMECCSM4CBCSM3, tlsx.GMECCSM4GCMSM3} {
			if !hx.Thorough() && (mode == "autoserver") != (suite == tlsx.GMECCSM4GCMSM3) {
				continue
			}
			n := 200 // upper bound; the loop stops at the real length
			for pos := 4; pos < n; pos++ {
				seed := fmt.Sprint("ckb", mode, suite, pos)
				sc := tlsx.GMServer(p, seed)
				if mode == "autoserver" {
					sc = tlsx.AutoServer(p, p.RSASrv, seed)
				}
				fired := false
				plan := &rgmssl.Plan{IgnoreAlerts: pos%2 == 0, Out: func(step string, o rgmssl.Out) []rgmssl.Out {
					if step == "ClientKeyExchange" {
						n = len(o.Data)
						if pos < len(o.Data) {
							d := append([]byte{}, o.Data...)
							d[pos] ^= byte(1 << uint(pos%8))
							o.Data = d
							fired = true
						}
					}
					return []rgmssl.Out{o}
				}}
				r := tlsx.RunAgainstScriptedClient(sc, rgmssl.ClientOpts{Suites: []uint16{suite}}, plan, seed, []byte("x"))
				if !fired {
					continue
				}
				judge(t, r, false, true, fmt.Sprintf("ClientKeyExchange byte %d of %d changed, mode=%s suite=%x | server hs=%v | client err=%v log=%v", pos, n, mode, suite, r.GM.HSErr, r.PeerErr, r.Peer.Log))
				R.Case(true, hx.HashKey("ckb", mode, suite, pos), "dev:cke_ciphertext_byte", "endpoint:"+mode)
			}
		}
	}
	R.Subspace("every byte of the ClientKeyExchange body flipped (quick: 2 of the 4 mode x suite combinations)", 0, true)
}

// ---- recorded honest flights replayed with one perturbation against all five endpoint kinds

// kindOf / isClientEP: which recording an endpoint kind replays, and which side it is.
func kindOf(ep string) string {
	switch ep {
	case "tlsserver", "tlsclient", "autoserver_tls":
		return "tls"
	case "tlsserver_rsa", "tlsclient_rsa":
		return "tlsrsa" // RSA key exchange: no ServerKeyExchange, so a replayed server flight carries a client to its Finished
	}
	return "gm"
}

func isClientEP(ep string) bool {
	return ep == "gmclient" || ep == "tlsclient" || ep == "tlsclient_rsa"
}

type recorded struct {
	c2s, s2c []byte
}

var recCache = map[string]*recorded{}

func record(kind string) *recorded {
	if r, ok := recCache[kind]; ok {
		return r
	}
	p := tlsx.GetPKI()
	var cc, sc *gmtls.Config
	if kind == "gm" {
		cc, sc = tlsx.GMClient(p, "recc"), tlsx.GMServer(p, "recs")
		cc.Certificates = []gmtls.Certificate{p.Client.TLS}
		sc.ClientAuth, sc.ClientCAs = gmtls.RequestClientCert, p.RootsSM2
	} else {
		cc, sc = tlsx.TLSClient(p, "recc"), tlsx.TLSServer(p, p.RSASrv, "recs")
		cc.NextProtos, sc.NextProtos = []string{"h2", "http/1.1", "x"}, []string{"http/1.1", "h2"}
		if kind == "tlsrsa" {
			cc.CipherSuites, sc.CipherSuites = []uint16{0x009c, 0x002f}, []uint16{0x009c, 0x002f}
			cc.NextProtos, sc.NextProtos = nil, nil
		}
		if kind == "tlsrsa2f" {
			// TLS_RSA_WITH_AES_128_CBC_SHA: defined for every protocol version, so the suite never decides a version question
			cc.CipherSuites, sc.CipherSuites = []uint16{0x002f}, []uint16{0x002f}
			cc.NextProtos, sc.NextProtos = nil, nil
		}
	}
	r := tlsx.Run(cc, sc, tlsx.Script{ClientSend: []byte("ping"), ServerSend: []byte("pong")})
	if r.Client.HSErr != nil || r.Server.HSErr != nil {
		panic("recording failed: " + r.Describe())
	}
	rec := &recorded{r.C2S, r.S2C}
	recCache[kind] = rec
	return rec
}

func recordAware(t *rapid.T, stream []byte) ([]byte, string) {
	recs := wire.SplitRecords(stream)
	i := rapid.IntRange(0, len(recs)-1).Draw(t, "rec")
	rec := append([]byte(nil), recs[i]...)
	kind := rapid.SampledFrom([]string{"payload_subst", "payload_trunc", "payload_extend", "hs_len", "drop_record", "dup_record", "type"}).Draw(t, "rkind")
	body := rec[5:]
	switch kind {
	case "payload_subst":
		if len(body) > 0 {
			pos := rapid.IntRange(0, min(len(body)-1, 80)).Draw(t, "pos")
			body[pos] = rapid.SampledFrom([]byte{0, 1, 0x7f, 0x80, 0xff, body[pos] ^ 1, body[pos] ^ 0x80}).Draw(t, "v")
		}
	case "payload_trunc":
		if len(body) > 0 {
			body = body[:rapid.IntRange(0, len(body)-1).Draw(t, "cut")]
		}
	case "payload_extend":
		body = append(body, rapid.SliceOfN(rapid.Byte(), 1, 20).Draw(t, "ext")...)
	case "hs_len":
		if len(body) >= 4 {
			body[1+rapid.IntRange(0, 2).Draw(t, "lb")] ^= byte(rapid.IntRange(1, 255).Draw(t, "lx"))
		}
	case "drop_record":
		body = nil
		rec = nil
	case "dup_record":
		recs = append(recs[:i+1], append([][]byte{recs[i]}, recs[i+1:]...)...)
	case "type":
		rec[0] = rapid.SampledFrom([]byte{20, 21, 22, 23, 24, 0, 255}).Draw(t, "rt")
	}
	var out []byte
	for j, r := range recs {
		if j == i && kind != "dup_record" {
			if rec == nil {
				continue
			}
			out = append(out, rec[0], rec[1], rec[2], byte(len(body)>>8), byte(len(body)))
			out = append(out, body...)
			continue
		}
		out = append(out, r...)
	}
	return out, kind
}

// messageAware rewrites the unprotected part of a recorded flight at the level of handshake MESSAGES (several of them
// usually share one record): one message omitted, duplicated, swapped with its successor, retyped, cut short with a
// consistent length, or - for hellos - given a rebuilt extension block. Each message is re-framed in a record of its own.
func messageAware(t *rapid.T, stream []byte) ([]byte, string) {
	recs := wire.SplitRecords(stream)
	var hs []byte
	var tail [][]byte
	vers := []byte{3, 1}
	for i, r := range recs {
		if r[0] != 22 {
			tail = recs[i:]
			break
		}
		vers = []byte{r[1], r[2]}
		hs = append(hs, r[5:]...)
	}
	var msgs [][]byte
	for len(hs) >= 4 {
		n := int(hs[1])<<16 | int(hs[2])<<8 | int(hs[3])
		if len(hs) < 4+n {
			break
		}
		msgs = append(msgs, append([]byte(nil), hs[:4+n]...))
		hs = hs[4+n:]
	}
	if len(msgs) == 0 {
		return stream[:len(stream)/2], "truncation"
	}
	i := rapid.IntRange(0, len(msgs)-1).Draw(t, "msg")
	kind := rapid.SampledFrom([]string{"omit_msg", "omit_msg", "dup_msg", "swap_msgs", "retype_msg", "cut_msg", "hello_ext"}).Draw(t, "mkind")
	switch kind {
	case "omit_msg":
		msgs = append(msgs[:i], msgs[i+1:]...)
	case "dup_msg":
		msgs = append(msgs[:i+1], append([][]byte{msgs[i]}, msgs[i+1:]...)...)
	case "swap_msgs":
		if i+1 < len(msgs) {
			msgs[i], msgs[i+1] = msgs[i+1], msgs[i]
		} else {
			msgs = msgs[:i]
			kind = "omit_msg"
		}
	case "retype_msg":
		m := append([]byte(nil), msgs[i]...)
		nt := rapid.SampledFrom([]byte{0, 1, 2, 4, 11, 12, 13, 14, 15, 16, 20, 22, 67}).Draw(t, "newtype")
		if nt == m[0] {
			nt = 99
		}
		m[0] = nt
		msgs[i] = m
	case "cut_msg":
		m := msgs[i]
		if len(m) > 4 {
			k := rapid.IntRange(0, len(m)-5).Draw(t, "keep")
			m = append([]byte(nil), m[:4+k]...)
			m[1], m[2], m[3] = byte(k>>16), byte(k>>8), byte(k)
			msgs[i] = m
		} else {
			msgs = append(msgs[:i], msgs[i+1:]...)
			kind = "omit_msg"
		}
	case "hello_ext":
		muts := gen.HelloExtMutations(msgs[0], false)
		if len(muts) == 0 {
			msgs = msgs[1:]
			kind = "omit_msg"
		} else {
			msgs[0] = muts[rapid.IntRange(0, len(muts)-1).Draw(t, "extmut")].Data
		}
	}
	var out []byte
	for _, m := range msgs {
		for len(m) > 0 {
			n := len(m)
			if n > 16384 {
				n = 16384
			}
			out = append(out, 22, vers[0], vers[1], byte(n>>8), byte(n))
			out = append(out, m[:n]...)
			m = m[n:]
		}
	}
	for _, r := range tail {
		out = append(out, r...)
	}
	return out, kind
}

func TestC15_ReplayPerturbed(t *testing.T) {
	n := 0
	hx.Check(t, hx.N(2500, 30000), func(t *rapid.T) {
		n++
		ep := rapid.SampledFrom(fuzzEndpoints).Draw(t, "endpoint")
		kind := kindOf(ep)
		rec := record(kind)
		stream := rec.c2s
		isClient := isClientEP(ep)
		if isClient {
			stream = rec.s2c
		}
		var mutated []byte
		var what string
		if how := gen.Uniform(t, "how", 3); how == 0 {
			mutated, what = recordAware(t, stream)
		} else if how == 1 {
			mutated, what = messageAware(t, stream)
		} else {
			pt := gen.Perturb(stream, false).Draw(t, "perturb")
			mutated, what = pt.Data, pt.Kind
		}
		hsErr, pn, complete := replayAgainst(ep, mutated, fmt.Sprint("rp", n))
		desc := fmt.Sprintf("endpoint=%s perturbation=%s (%d -> %d bytes) hs=%v", ep, what, len(stream), len(mutated), hsErr)
		if pn != nil {
			if _, spin := pn.Val.(wire.Spin); spin {
				t.Fatalf("endpoint spins on ended input\n%s", desc)
			}
			t.Fatalf("endpoint PANICKED on a perturbed replay of an honest peer's flight: %s\n%s\n input: %x", pn, desc, mutated)
		}
		// a replayed flight can never complete: the endpoint's own random differs from the recorded session
		if hsErr == nil {
			t.Fatalf("handshake COMPLETED against a replayed recording\n%s", desc)
		}
		if complete {
			t.Fatalf("HandshakeComplete is true after a failed handshake\n%s", desc)
		}
		R.Case(true, hx.HashKey("rp", ep, mutated), "endpoint:"+map[string]string{"autoserver_tls": "autoserver"}[ep]+map[bool]string{true: "", false: ep}[ep == "autoserver_tls"], "replay_perturbed", "replay:"+what)
	})
}

// every length-like field of a ClientHello (with ALPN, SNI, tickets, signature algorithms ...) set to values just above,
// just below and far from what follows it, fed to every server kind: the server must answer with an error
func TestC15_HelloVectorLengths(t *testing.T) {
	var n int64
	for _, kind := range []string{"tls", "gm"} {
		stream := record(kind).c2s
		recs := wire.SplitRecords(stream)
		hello := recs[0]
		eps := []string{"tlsserver", "autoserver_tls"}
		if kind == "gm" {
			eps = []string{"gmserver", "autoserver"}
		}
		for w := 1; w <= 2; w++ {
			for pos := 9; pos+w <= len(hello); pos++ { // 5 record header + 4 handshake header stay intact
				rem := len(hello) - pos - w
				cur := 0
				for j := 0; j < w; j++ {
					cur = cur<<8 | int(hello[pos+j])
				}
				vals := []int{rem + 1, cur + 1, cur - 1, 2 * cur, 0, 1<<(8*uint(w)) - 1}
				if hx.Thorough() {
					vals = append(vals, rem+2, rem-1, 2*rem, cur+2, cur-2, rem/2)
				}
				for vi, v := range vals {
					if v < 0 || v == cur || v >= 1<<(8*uint(w)) {
						continue
					}
					if !hx.Thorough() && (pos+vi)%2 == 1 {
						continue // quick: half of the (position, value) grid
					}
					m := append([]byte(nil), hello...)
					for j, x := w-1, v; j >= 0; j-- {
						m[pos+j] = byte(x)
						x >>= 8
					}
					ep := eps[(pos+vi)%len(eps)]
					hsErr, pn, complete := replayAgainst(ep, m, "hvl")
					if pn != nil {
						t.Fatalf("%s PANICKED on a ClientHello whose %d-byte field at offset %d was set to %d (was %d): %s\n hello: %x", ep, w, pos, v, cur, pn, m)
					}
					if hsErr == nil || complete {
						t.Fatalf("%s completed a handshake from a lone, altered ClientHello", ep)
					}
					n++
				}
			}
		}
		R.Case(true, hx.HashKey("hvl", kind), "hello_vector_lengths")
	}
	R.Subspace("ClientHello (TLS with ALPN/SNI/tickets, and GMSSL): every offset x width 1..2 x length-like values, against every server kind (quick: half of the grid)", n, hx.Thorough())
}

// every length-consistent rebuild of the extension block of the recorded ClientHello (against the server kinds) and of
// the recorded ServerHello (against the client kinds, followed by the rest of the recorded server flight)
func TestC15_HelloExtensionSweep(t *testing.T) {
	var n int64
	for _, ep := range []string{"gmserver", "autoserver", "tlsserver", "autoserver_tls", "tlsserver_rsa", "gmclient", "tlsclient", "tlsclient_rsa"} {
		rec := record(kindOf(ep))
		stream := rec.c2s
		if isClientEP(ep) {
			stream = rec.s2c
		}
		recs := wire.SplitRecords(stream)
		// the hello is the first handshake message of the first record
		first := recs[0]
		hl := 4 + (int(first[6])<<16 | int(first[7])<<8 | int(first[8]))
		if first[0] != 22 || 5+hl > len(first) {
			t.Fatalf("harness: unexpected first record for %s", ep)
		}
		hello, restOfRecord := first[5:5+hl], first[5+hl:]
		for _, m := range gen.HelloExtMutations(hello, hx.Thorough()) {
			var out []byte
			out = append(out, 22, first[1], first[2], byte(len(m.Data)>>8), byte(len(m.Data)))
			out = append(out, m.Data...)
			if len(restOfRecord) > 0 {
				out = append(out, 22, first[1], first[2], byte(len(restOfRecord)>>8), byte(len(restOfRecord)))
				out = append(out, restOfRecord...)
			}
			for _, r := range recs[1:] {
				out = append(out, r...)
			}
			hsErr, pn, complete := replayAgainst(ep, out, "hes")
			if pn != nil {
				t.Fatalf("%s PANICKED on a hello whose extension block was rebuilt (%s): %s\n hello: %x", ep, m.Note, pn, m.Data)
			}
			if hsErr == nil || complete {
				t.Fatalf("%s completed a handshake from a replayed flight with a rebuilt hello (%s)", ep, m.Note)
			}
			n++
		}
		R.Case(true, hx.HashKey("hes", ep), "hello_ext_sweep", "endpoint:"+ep)
	}
	R.Subspace("length-consistent extension-block rebuilds of the recorded hellos x 8 endpoint kinds", n, true)
}

// replayAgainst feeds one byte stream, then end of input, to a fresh endpoint of the given kind.
func replayAgainst(ep string, stream []byte, seed string) (hsErr error, pn *hx.PanicInfo, complete bool) {
	hsErr, pn, complete, _ = replayAgainstW(ep, stream, seed)
	return
}

// replayAgainstW also reports how many bytes the endpoint wrote (how far the handshake got).
func replayAgainstW(ep string, stream []byte, seed string) (hsErr error, pn *hx.PanicInfo, complete bool, wrote int) {
	p := tlsx.GetPKI()
	var conn *gmtls.Conn
	hub := wire.NewHub()
	cw, sw := hub.Pipe("client:1", "server:443")
	var peerW *wire.Conn
	switch ep {
	case "gmclient":
		cc := tlsx.GMClient(p, seed)
		cc.Certificates = []gmtls.Certificate{p.Client.TLS}
		conn, peerW = gmtls.Client(cw, cc), sw
	case "tlsclient":
		tc := tlsx.TLSClient(p, seed)
		tc.NextProtos = []string{"h2", "http/1.1", "x"} // as in the recording: the recorded ServerHello selects one
		conn, peerW = gmtls.Client(cw, tc), sw
	case "tlsclient_rsa":
		tc := tlsx.TLSClient(p, seed)
		tc.CipherSuites = []uint16{0x009c, 0x002f}
		conn, peerW = gmtls.Client(cw, tc), sw
	case "tlsclient_rsa2f":
		tc := tlsx.TLSClient(p, seed)
		tc.CipherSuites = []uint16{0x002f}
		conn, peerW = gmtls.Client(cw, tc), sw
	case "tlsserver_rsa":
		ts := tlsx.TLSServer(p, p.RSASrv, seed)
		ts.CipherSuites = []uint16{0x009c, 0x002f}
		conn, peerW = gmtls.Server(sw, ts), cw
	case "gmserver":
		sc := tlsx.GMServer(p, seed)
		sc.ClientAuth, sc.ClientCAs = gmtls.RequestClientCert, p.RootsSM2
		conn, peerW = gmtls.Server(sw, sc), cw
	case "autoserver", "autoserver_tls":
		conn, peerW = gmtls.Server(sw, tlsx.AutoServer(p, p.RSASrv, seed)), cw
	default:
		conn, peerW = gmtls.Server(sw, tlsx.TLSServer(p, p.RSASrv, seed)), cw
	}
	d := hub.GoAll(func() {
		pn = hx.Try(func() { hsErr = conn.Handshake() })
		conn.Close()
	}, func() {
		peerW.Write(stream)
		peerW.CloseWrite()
		// drain what the endpoint says so that it never blocks on us
		buf := make([]byte, 4096)
		lastWritten = lastWritten[:0]
		for {
			n, err := peerW.Read(buf)
			wrote += n
			lastWritten = append(lastWritten, buf[:n]...)
			if err != nil {
				return
			}
		}
	})
	<-d[0]
	<-d[1]
	return hsErr, pn, conn.ConnectionState().HandshakeComplete, wrote
}

// Right behind the peer's hello (the version is negotiated by then, so version-dependent message layouts are in force):
// one handshake message of every type 0..25, 67, 254, 255 with a body of 0..6 bytes. Nothing of that is a complete,
// well-placed message: the endpoint answers with an error - it does not panic in the message parser, which runs before
// the state machine decides whether the type was expected.
func TestC15_ShortMessagesAfterHello(t *testing.T) {
	types := []byte{67, 254, 255}
	for i := 0; i <= 25; i++ {
		types = append(types, byte(i))
	}
	var n int64
	for _, ep := range []string{"tlsserver", "autoserver_tls", "tlsserver_rsa", "gmserver", "autoserver", "tlsclient", "tlsclient_rsa", "gmclient"} {
		rec := record(kindOf(ep))
		stream := rec.c2s
		if isClientEP(ep) {
			stream = rec.s2c
		}
		first := wire.SplitRecords(stream)[0]
		hl := 4 + (int(first[6])<<16 | int(first[7])<<8 | int(first[8]))
		hello := append([]byte{}, first[:5+hl]...) // the record cut down to the hello alone
		hello[3], hello[4] = byte(hl>>8), byte(hl)
		for _, typ := range types {
			for l := 0; l <= 6; l++ {
				for _, fill := range []byte{0x00, 0x04, 0xff} {
					if !hx.Thorough() && (int(typ)+l+int(fill))%2 == 1 {
						continue // quick: half of the grid
					}
					body := bytes.Repeat([]byte{fill}, l)
					if fill == 0x04 && l >= 2 {
						body[1] = 0x03 // looks like a SignatureAndHashAlgorithm
					}
					msg := append([]byte{typ, 0, 0, byte(l)}, body...)
					out := append(append([]byte{}, hello...), 22, first[1], first[2], 0, byte(len(msg)))
					out = append(out, msg...)
					hsErr, pn, complete := replayAgainst(ep, out, "sm")
					if pn != nil {
						t.Fatalf("%s PANICKED on a handshake message of type %d with a %d-byte body (%x) right behind the hello: %v\n%s", ep, typ, l, body, pn.Val, pn.Stack)
					}
					if hsErr == nil || complete {
						t.Fatalf("%s completed a handshake from a hello followed by a stray type-%d message", ep, typ)
					}
					n++
				}
			}
		}
		R.Case(true, hx.HashKey("shortmsg", ep), "short_messages_after_hello", "endpoint:"+ep)
	}
	R.Subspace("handshake message types {0..25,67,254,255} x body lengths 0..6 x 3 fills right behind the hello, 8 endpoint kinds (quick: half of the grid)", n, hx.Thorough())
}

// TLS_FALLBACK_SCSV (RFC 7507) anywhere in the suite list of a ClientHello whose version is below the server's maximum is
// a downgrade signal: the TLS-only and the auto-switch server answer with an inappropriate_fallback alert and send no
// ServerHello, wherever in the list the value stands and whichever side's preference rules. At the server's maximum
// version the value means nothing (control: the ServerHello comes).
func TestC15_FallbackSCSV(t *testing.T) {
	p := tlsx.GetPKI()
	rec := record("tls")
	first := wire.SplitRecords(rec.c2s)[0]
	hello := first[5:]
	// ClientHello: type(1) len(3) version(2) random(32) sid suites compression extensions
	sidEnd := 4 + 2 + 32 + 1 + int(hello[38])
	nsuites := int(hello[sidEnd])<<8 | int(hello[sidEnd+1])
	suites := hello[sidEnd+2 : sidEnd+2+nsuites]
	rest := hello[sidEnd+2+nsuites:]
	build := func(vers uint16, pos int) []byte {
		var sl []byte
		scsv := []byte{0x56, 0x00}
		switch pos {
		case 0:
			sl = append(append(sl, scsv...), suites...)
		case 1:
			sl = append(append(append(sl, suites[:2]...), scsv...), suites[2:]...)
		case 2:
			sl = append(append(sl, suites...), scsv...)
		default:
			sl = append(sl, suites...) // no SCSV
		}
		body := append([]byte{}, hello[4:sidEnd]...)
		body[0], body[1] = byte(vers>>8), byte(vers)
		body = append(body, byte(len(sl)>>8), byte(len(sl)))
		body = append(body, sl...)
		body = append(body, rest...)
		msg := append([]byte{1, byte(len(body) >> 16), byte(len(body) >> 8), byte(len(body))}, body...)
		return append([]byte{22, 3, 1, byte(len(msg) >> 8), byte(len(msg))}, msg...)
	}
	var n int64
	for _, ep := range []string{"tlsserver", "autoserver_tls"} {
		for _, prefer := range []bool{false, true} {
			for _, vers := range []uint16{0x0301, 0x0302, 0x0303} {
				for pos := 0; pos <= 3; pos++ {
					var sc *gmtls.Config
					seed := fmt.Sprint("scsv", ep, prefer, vers, pos)
					if ep == "tlsserver" {
						sc = tlsx.TLSServer(p, p.RSASrv, seed)
					} else {
						sc = tlsx.AutoServer(p, p.RSASrv, seed)
					}
					sc.PreferServerCipherSuites = prefer
					hub := wire.NewHub()
					cw, sw := hub.Pipe("client:1", "server:443")
					conn := gmtls.Server(sw, sc)
					var out []byte
					var pn *hx.PanicInfo
					d := hub.GoAll(func() {
						pn = hx.Try(func() { conn.Handshake() })
						conn.Close()
					}, func() {
						cw.Write(build(vers, pos))
						cw.CloseWrite()
						buf := make([]byte, 4096)
						for {
							k, err := cw.Read(buf)
							out = append(out, buf[:k]...)
							if err != nil {
								return
							}
						}
					})
					<-d[0]
					<-d[1]
					if pn != nil {
						t.Fatalf("%s PANICKED on a ClientHello with TLS_FALLBACK_SCSV: %v", ep, pn.Val)
					}
					recs := wire.SplitRecords(out)
					sentHello := len(recs) > 0 && recs[0][0] == 22 && recs[0][5] == 2
					desc := fmt.Sprintf("%s (PreferServerCipherSuites=%v), ClientHello version %04x, TLS_FALLBACK_SCSV at position %d of the suite list (3 = absent)", ep, prefer, vers, pos)
					if pos <= 2 && vers < 0x0303 {
						if sentHello || len(recs) == 0 || recs[0][0] != 21 || len(recs[0]) != 7 || recs[0][6] != 86 {
							t.Fatalf("a downgrade signal was not answered with inappropriate_fallback (ServerHello sent: %v, first record %x): %s", sentHello, first5(recs), desc)
						}
					} else if !sentHello {
						t.Fatalf("an acceptable ClientHello was not answered with a ServerHello (first record %x): %s", first5(recs), desc)
					}
					n++
				}
			}
		}
	}
	R.Case(true, hx.HashKey("scsv"), "fallback_scsv")
	R.Subspace("TLS_FALLBACK_SCSV first / in the middle / last / absent x ClientHello versions 0301..0303 x server preference x {TLS-only, auto-switch}", n, true)
}

func first5(recs [][]byte) []byte {
	if len(recs) == 0 {
		return nil
	}
	if len(recs[0]) > 7 {
		return recs[0][:7]
	}
	return recs[0]
}

var lastWritten []byte // what the endpoint of the last replayAgainstW call put on the wire

// ServerHello.server_version swept over 0x0000..0x0400 (quick: the neighbours of every defined version).
// (a) TLS-mode client (RSA key exchange recording, so that nothing but its own version check stands between the ServerHello
// and its ClientKeyExchange): after a ServerHello naming a version outside what it offered (0x0301..0x0303) it must answer
// with an alert and put no further handshake message on the wire - a client that carries on can be led to completion by
// a server that plays along. (b) GMSSL client against the keyed scripted GM/T 0024 server, which does play along: with any
// version other than 0x0101 in the ServerHello the handshake must not complete.
func TestC15_ServerHelloVersionSweep(t *testing.T) {
	p := tlsx.GetPKI()
	var versions []uint16
	if hx.Thorough() {
		for v := 0; v <= 0x0400; v++ {
			versions = append(versions, uint16(v))
		}
		versions = append(versions, 0x7f12, 0xfeff, 0xffff)
	} else {
		versions = []uint16{0x0000, 0x0001, 0x00ff, 0x0100, 0x0101, 0x0102, 0x0103, 0x01ff, 0x0200, 0x0201, 0x02ff, 0x0300, 0x0301, 0x0302, 0x0303, 0x0304, 0x0305, 0x03ff, 0x0400, 0x0401, 0xfeff, 0xffff}
	}
	var n int64
	rec := record("tlsrsa2f")
	for _, v := range versions {
		stream := append([]byte{}, rec.s2c...)
		if stream[0] != 22 || stream[5] != 2 {
			t.Fatalf("harness: recording does not start with a ServerHello")
		}
		stream[9], stream[10] = byte(v>>8), byte(v)
		// (a server that plays along also stamps its further records with that version)
		for off := 0; off+5 <= len(stream); off += 5 + (int(stream[off+3])<<8 | int(stream[off+4])) {
			if off > 0 {
				stream[off+1], stream[off+2] = byte(v>>8), byte(v)
			}
		}
		hsErr, pn, complete, _ := replayAgainstW("tlsclient_rsa2f", stream, fmt.Sprint("shv", v))
		if pn != nil {
			t.Fatalf("TLS client PANICKED on a ServerHello with version %04x: %v\n%s", v, pn.Val, pn.Stack)
		}
		if hsErr == nil || complete {
			t.Fatalf("TLS client completed a handshake from a replayed flight (ServerHello version %04x)", v)
		}
		if v < 0x0301 || v > 0x0303 {
			recs := wire.SplitRecords(lastWritten)
			for i, r := range recs {
				if i > 0 && (r[0] == 22 || r[0] == 20 || r[0] == 23) {
					t.Fatalf("TLS client (offering 0301..0303) carried on after a ServerHello with version %04x: record %d of its output is type %d (handshake type %d); only an alert may follow its ClientHello", v, i, r[0], r[5])
				}
			}
		}
		n++
	}
	R.Case(true, hx.HashKey("shv", "tls"), "serverhello_version_sweep", "endpoint:tlsclient")
	for _, v := range versions {
		for _, suite := range []uint16{tlsx.GMECCSM4CBCSM3, tlsx.GMECCSM4GCMSM3} {
			vv := v
			plan := &rgmssl.Plan{Out: func(step string, o rgmssl.Out) []rgmssl.Out {
				if step == "ServerHello" && len(o.Data) > 6 {
					d := append([]byte{}, o.Data...)
					d[4], d[5] = byte(vv>>8), byte(vv)
					o.Data = d
				}
				return []rgmssl.Out{o}
			}}
			seed := fmt.Sprint("shvgm", v, suite)
			cc := tlsx.GMClient(p, "c"+seed)
			cc.CipherSuites = []uint16{suite}
			r := tlsx.RunAgainstScriptedServer(cc, rgmssl.ServerOpts{ID: p.ServerIdentity()}, plan, seed, []byte("x"))
			desc := fmt.Sprintf("GMSSL client, scripted GM/T 0024 server naming version %04x in its ServerHello (and carrying on) | endpoint: hs=%v | scripted peer: err=%v log=%v", v, r.GM.HSErr, r.PeerErr, r.Peer.Log)
			judge(t, r, v == 0x0101, true, desc)
			n++
		}
	}
	R.Case(true, hx.HashKey("shv", "gm"), "serverhello_version_sweep", "endpoint:gmclient")
	R.Subspace("ServerHello.server_version values (quick: neighbours of the defined versions; thorough: 0x0000..0x0400) x {TLS client by progress, GMSSL client x 2 suites by completion}", n, hx.Thorough())
}

// control: the unmodified recording must carry every endpoint kind deep into the handshake (up to the point where the
// fresh randoms make the recorded Finished / key exchange fail); a replay harness whose endpoints give up at the hello
// (say, because the configuration no longer matches the recording) would make the perturbation runs vacuous
func TestC15_ReplayControl(t *testing.T) {
	for _, ep := range fuzzEndpoints {
		kind := kindOf(ep)
		rec := record(kind)
		stream, own := rec.c2s, rec.s2c
		if isClientEP(ep) {
			stream, own = rec.s2c, rec.c2s
		}
		hsErr, pn, complete, wrote := replayAgainstW(ep, stream, "control")
		if pn != nil || hsErr == nil || complete {
			t.Fatalf("control replay against %s: hs=%v panic=%v complete=%v", ep, hsErr, pn, complete)
		}
		// what the endpoint wrote in the recording before its peer's Finished: its whole first flight(s)
		recs := wire.SplitRecords(own)
		first := 0
		for _, r := range recs {
			if r[0] == 20 {
				break
			}
			first += len(r)
		}
		// depth reached: a server answers with its whole certificate flight; a client cannot get past the recorded
		// ServerKeyExchange (it signs the randoms), which is after ServerHello and Certificate were accepted. This is a
		// coverage indicator (class replay_deep:<endpoint>, listed as missing when not reached), not an oracle.
		deep := wrote >= first*3/4
		if isClientEP(ep) && kindOf(ep) != "tlsrsa" {
			e := strings.ToLower(fmt.Sprint(hsErr))
			deep = strings.Contains(e, "keyexchange") || strings.Contains(e, "key exchange") || strings.Contains(e, "signature") || strings.Contains(e, "verif")
		}
		if deep {
			R.Class("replay_deep:" + ep)
		} else {
			fmt.Printf("note: control replay against %s stopped early: wrote %d of %d bytes, hs=%v\n", ep, wrote, first, hsErr)
		}
		R.Case(true, hx.HashKey("rctl", ep), "replay_control")
	}
}

var fuzzEndpoints = []string{"gmclient", "gmserver", "autoserver", "tlsserver", "tlsclient", "autoserver_tls", "tlsclient_rsa", "tlsclient_rsa", "tlsserver_rsa"}

// FuzzC15Stream: coverage-guided companion of TestC15_ReplayPerturbed (thorough tier only, run by the driver).
// Input = the complete byte stream a peer sends before closing; oracle = the endpoint returns an error (its randoms
// differ from every recorded session, so no stream can complete the handshake), never panics, never spins.
func FuzzC15Stream(f *testing.F) {
	for i, ep := range fuzzEndpoints {
		kind := kindOf(ep)
		rec := record(kind)
		stream := rec.c2s
		if isClientEP(ep) {
			stream = rec.s2c
		}
		f.Add(uint8(i), stream)
		recs := wire.SplitRecords(stream)
		n := 0
		for _, r := range recs[:min(len(recs), 4)] {
			n += len(r)
			f.Add(uint8(i), append([]byte(nil), stream[:n]...))
		}
	}
	f.Fuzz(func(t *testing.T, idx uint8, data []byte) {
		if len(data) > 1<<15 {
			return
		}
		ep := fuzzEndpoints[int(idx)%len(fuzzEndpoints)]
		hsErr, pn, complete := replayAgainst(ep, data, "fuzz-endpoint")
		if pn != nil {
			if _, spin := pn.Val.(wire.Spin); spin {
				t.Fatalf("endpoint %s spins on ended input", ep)
			}
			t.Fatalf("endpoint %s PANICKED: %s", ep, pn)
		}
		if hsErr == nil || complete {
			t.Fatalf("endpoint %s reports a COMPLETED handshake against a byte stream (hs=%v complete=%v)", ep, hsErr, complete)
		}
	})
}

// A server that selects an ECDHE-SM2 suite (the client offers them by default although the library's own server never
// selects them): ServerKeyExchange with every curve id class, signature parts of every short length, corrupted or
// foreign signatures. The client must answer with an error - never a panic, never a ClientKeyExchange after a
// signature that does not verify.
func TestC15_ECDHEServerKeyExchange(t *testing.T) {
	p := tlsx.GetPKI()
	n := 0
	type tc struct {
		name    string
		e       rgmssl.ECDHEOpts
		sigGood bool
	}
	var cases []tc
	for _, cid := range []uint16{0, 1, 23, 24, 25, 29, 30, 41, 0x0099, 0xff01, 0xffff} {
		cases = append(cases, tc{fmt.Sprintf("curve id %#x, genuine signature", cid), rgmssl.ECDHEOpts{CurveID: cid}, true})
	}
	for k := 0; k <= 4; k++ {
		cases = append(cases, tc{fmt.Sprintf("signature part of %d bytes", k), rgmssl.ECDHEOpts{CurveID: 41, RawTail: bytes.Repeat([]byte{0}, k)}, false})
	}
	cases = append(cases,
		tc{"signature length field larger than the rest", rgmssl.ECDHEOpts{CurveID: 41, RawTail: []byte{0, 80, 0x30, 0x06, 2, 1, 1, 2, 1, 1}}, false},
		tc{"corrupted signature", rgmssl.ECDHEOpts{CurveID: 41, CorruptSig: true}, false},
		tc{"signature by an unrelated key", rgmssl.ECDHEOpts{CurveID: 41, SignD: p.SrvSignBad.SM2D}, false},
		tc{"signature by an unrelated key, curve 29", rgmssl.ECDHEOpts{CurveID: 29, SignD: p.SrvSignBad.SM2D}, false},
		tc{"signature by the encryption key", rgmssl.ECDHEOpts{CurveID: 41, SignD: p.SrvEnc.SM2D}, false},
		tc{"point not on the curve", rgmssl.ECDHEOpts{CurveID: 41, Point: append([]byte{4}, bytes.Repeat([]byte{7}, 64)...)}, true},
		tc{"empty point", rgmssl.ECDHEOpts{CurveID: 41, Point: []byte{}}, true},
		tc{"compressed-looking point", rgmssl.ECDHEOpts{CurveID: 41, Point: append([]byte{2}, bytes.Repeat([]byte{9}, 32)...)}, true},
	)
	for _, suite := range []uint16{0xe011, 0xe051} {
		for _, c := range cases {
			for _, skip := range []bool{false, true} {
				n++
				cc := tlsx.GMClient(p, fmt.Sprint("ecdhe", n))
				cc.CipherSuites = nil // the defaults, which include the ECDHE-SM2 suites
				if n%3 == 0 {
					cc.CipherSuites = []uint16{suite, tlsx.GMECCSM4CBCSM3}
				}
				cc.InsecureSkipVerify = skip
				e := c.e
				e.Suite = suite
				so := rgmssl.ServerOpts{ID: p.ServerIdentity(), ECDHE: &e}
				r := tlsx.RunAgainstScriptedServer(cc, so, nil, fmt.Sprint("ecdhe", n), []byte("x"))
				desc := fmt.Sprintf("ECDHE-SM2 suite %x, %s, skipVerify=%v | client hs=%v | after the server flight the client sent: %s | log %v", suite, c.name, skip, r.GM.HSErr, r.Peer.AfterFlight, r.Peer.Log)
				if r.GM.Panic != nil {
					t.Fatalf("the client PANICKED on a ServerKeyExchange of a server that selected an ECDHE-SM2 suite: %s\n%s", r.GM.Panic, desc)
				}
				if r.GM.HSErr == nil {
					t.Fatalf("the client reports a completed handshake with a server that cannot have finished it\n%s", desc)
				}
				if !c.sigGood && r.Peer.AfterFlight == "ClientKeyExchange" {
					t.Fatalf("the client went on to send its ClientKeyExchange although the ServerKeyExchange signature does not verify under the certified signing key\n%s", desc)
				}
				R.Case(true, hx.HashKey("ecdhe", suite, c.name, skip), "ecdhe_ske", "endpoint:gmclient")
			}
		}
	}
}

// A minimal scripted TLS client with RSA key exchange (the sandbox has no other stack that still speaks SSL 3.0, and
// crypto/tls cannot be made to misbehave): ClientHello at a chosen version, then Certificate, a well-formed
// ClientKeyExchange and a CertificateVerify whose signature is junk. The server (TLS-only and auto-switch, every
// certificate-requesting policy) must answer with an error at every version it implements - never a panic, never
// completion.
func TestC15_JunkCertificateVerify(t *testing.T) {
	p := tlsx.GetPKI()
	srvCert, err := stdx509.ParseCertificate(p.RSASrv.DER)
	if err != nil {
		t.Fatal(err)
	}
	rsaPub := srvCert.PublicKey.(*rsa.PublicKey)
	n := 0
	for _, vers := range []uint16{0x0300, 0x0301, 0x0302, 0x0303} {
		for _, mode := range []string{"tlsserver", "autoserver"} {
			for auth := gmtls.RequestClientCert; auth <= gmtls.RequireAndVerifyClientCert; auth++ {
				n++
				seed := fmt.Sprint("jcv", n)
				var sc *gmtls.Config
				if mode == "tlsserver" {
					sc = tlsx.TLSServer(p, p.RSASrv, seed)
				} else {
					sc = tlsx.AutoServer(p, p.RSASrv, seed)
				}
				sc.MinVersion = 0x0300
				sc.ClientAuth, sc.ClientCAs = auth, p.RootsAll
				hub := wire.NewHub()
				cw, sw := hub.Pipe("client:1", "server:443")
				conn := gmtls.Server(sw, sc)
				var hsErr error
				var pn *hx.PanicInfo
				var log []string
				rec := func(typ byte, body []byte) []byte {
					return append([]byte{typ, byte(vers >> 8), byte(vers), byte(len(body) >> 8), byte(len(body))}, body...)
				}
				hs := func(typ byte, body []byte) []byte {
					return append([]byte{typ, byte(len(body) >> 16), byte(len(body) >> 8), byte(len(body))}, body...)
				}
				d := hub.GoAll(func() {
					pn = hx.Try(func() { hsErr = conn.Handshake() })
					conn.Close()
				}, func() {
					defer cw.CloseWrite()
					random := make([]byte, 32)
					gen.Fill(random, uint64(n))
					hello := append([]byte{byte(vers >> 8), byte(vers)}, random...)
					hello = append(hello, 0, 0, 2, 0x00, 0x2f, 1, 0)
					cw.Write(rec(22, hs(1, hello)))
					// read the server flight up to ServerHelloDone (type 14)
					var buf, hsb []byte
					tmp := make([]byte, 4096)
					done := false
					for !done {
						k, err := cw.Read(tmp)
						buf = append(buf, tmp[:k]...)
						for len(buf) >= 5 {
							l := int(buf[3])<<8 | int(buf[4])
							if len(buf) < 5+l {
								break
							}
							if buf[0] == 22 {
								hsb = append(hsb, buf[5:5+l]...)
							} else {
								log = append(log, fmt.Sprintf("record type %d", buf[0]))
								done = true
							}
							buf = buf[5+l:]
						}
						for len(hsb) >= 4 {
							l := int(hsb[1])<<16 | int(hsb[2])<<8 | int(hsb[3])
							if len(hsb) < 4+l {
								break
							}
							log = append(log, fmt.Sprintf("hs %d", hsb[0]))
							if hsb[0] == 14 {
								done = true
							}
							hsb = hsb[4+l:]
						}
						if err != nil {
							return
						}
					}
					cert := p.RSAClient.DER
					list := append([]byte{byte(len(cert) >> 16), byte(len(cert) >> 8), byte(len(cert))}, cert...)
					cw.Write(rec(22, hs(11, append([]byte{byte(len(list) >> 16), byte(len(list) >> 8), byte(len(list))}, list...))))
					pms := make([]byte, 48)
					gen.Fill(pms, uint64(n)+7)
					pms[0], pms[1] = byte(vers>>8), byte(vers)
					enc, err := rsa.EncryptPKCS1v15(tlsx.NewDRBG(seed+"rsa"), rsaPub, pms)
					if err != nil {
						return
					}
					if vers == 0x0300 {
						cw.Write(rec(22, hs(16, enc)))
					} else {
						cw.Write(rec(22, hs(16, append([]byte{byte(len(enc) >> 8), byte(len(enc))}, enc...))))
					}
					junk := make([]byte, 256)
					gen.Fill(junk, uint64(n)+9)
					cv := append([]byte{byte(len(junk) >> 8), byte(len(junk))}, junk...)
					if vers == 0x0303 {
						cv = append([]byte{0x04, 0x01}, cv...)
					}
					cw.Write(rec(22, hs(15, cv)))
					log = append(log, "sent Certificate, ClientKeyExchange, junk CertificateVerify")
					for {
						if _, err := cw.Read(tmp); err != nil {
							return
						}
					}
				})
				<-d[0]
				<-d[1]
				desc := fmt.Sprintf("scripted RSA client at version %#04x against %s with ClientAuth %d: server hs=%v | client saw %v", vers, mode, auth, hsErr, log)
				if pn != nil {
					t.Fatalf("the server PANICKED on a junk CertificateVerify: %s\n%s", pn, desc)
				}
				if hsErr == nil || conn.ConnectionState().HandshakeComplete {
					t.Fatalf("the server completed a handshake whose CertificateVerify is junk\n%s", desc)
				}
				R.Case(true, hx.HashKey("jcv", vers, mode, auth), "junk_certificate_verify", fmt.Sprintf("jcv_vers:%x", vers))
			}
		}
	}
}

// A client that stops after a WELL-FORMED ClientKeyExchange: every protocol version SSL 3.0 .. TLS 1.2 x every RSA and
// ECDHE-RSA cipher suite id of the registry range the library draws from, against the TLS-only and the auto-switch
// server. The pre-master secret is genuinely encrypted under the server's key (or a genuine P-256 point is sent), so the
// server derives the master secret and the key block of whatever it negotiated - and then the stream ends. It must
// return an error: not completion, not a panic, not a wait for more.
func TestC15_ClientStopsAfterKeyExchange(t *testing.T) {
	p := tlsx.GetPKI()
	n := 0
	reached := 0
	rsaSuites := []uint16{0x0005, 0x000a, 0x002f, 0x0035, 0x003c, 0x009c, 0x009d}
	ecdheSuites := []uint16{0xc011, 0xc012, 0xc013, 0xc014, 0xc027, 0xc02f, 0xc030, 0xcca8}
	for _, mode := range []string{"tlsserver_rsa", "autoserver_rsa"} {
		for _, vers := range []uint16{0x0300, 0x0301, 0x0302, 0x0303} {
			for si, suite := range append(append([]uint16{}, rsaSuites...), ecdheSuites...) {
				n++
				var sc *gmtls.Config
				if mode == "tlsserver_rsa" {
					sc = tlsx.TLSServer(p, p.RSASrv, fmt.Sprint("cske", n))
				} else {
					sc = tlsx.AutoServer(p, p.RSASrv, fmt.Sprint("cske", n))
				}
				sc.CipherSuites = []uint16{suite}
				var pr *rgmssl.TLSPartialResult
				r := tlsx.RunServerAgainst(sc, []byte("y"), func(rw *wire.Conn) error {
					var err error
					pr, err = rgmssl.PartialTLSClient(rw, rgmssl.TLSPartialOpts{Version: vers, Suite: suite, Random: fill32(uint64(n)), ECDHE: si >= len(rsaSuites)})
					return err
				})
				desc := fmt.Sprintf("%s, client at version %04x with suite %04x sends a genuine ClientKeyExchange and closes | server: hs=%v | scripted client: err=%v log=%v", mode, vers, suite, r.GM.HSErr, r.PeerErr, pr.Log)
				if r.GM.Panic != nil {
					t.Fatalf("the server PANICKED: %v\n%s\n%s", r.GM.Panic.Val, r.GM.Panic.Stack, desc)
				}
				if r.PeerPanic != nil {
					t.Fatalf("harness: scripted client panicked: %v\n%s", r.PeerPanic.Val, r.PeerPanic.Stack)
				}
				if r.Stalled || r.Spin {
					t.Fatalf("the server keeps waiting although the stream has ended\n%s", desc)
				}
				if r.GM.HSErr == nil {
					t.Fatalf("the server reported the handshake COMPLETE although the client stopped after its key exchange\n%s", desc)
				}
				cl := []string{"client_stops_after_cke", "endpoint:" + mode}
				if pr.SentCKE {
					reached++
					cl = append(cl, fmt.Sprintf("cke_sent_at:%04x", pr.ServerVers))
				}
				R.Case(true, hx.HashKey("cske", mode, vers, suite), cl...)
			}
		}
	}
	if reached < 40 {
		t.Fatalf("harness: only %d of %d scripted clients got as far as their ClientKeyExchange", reached, n)
	}
	R.Subspace("versions SSL 3.0..TLS 1.2 x 15 RSA / ECDHE-RSA suites x {TLS-only, auto-switch} server, client stops after a genuine ClientKeyExchange", int64(n), true)
}

// A server that answers with a cipher suite the client did NOT offer: the GMSSL client is restricted to one suite (or
// two) by Config.CipherSuites, the keyed scripted server selects another suite the library knows - and otherwise plays a
// flawless handshake for the suite it selected, to the end if it is let. The client must abort; a control with the
// offered suite must complete.
func TestC15_ServerPicksUnofferedSuite(t *testing.T) {
	p := tlsx.GetPKI()
	n := 0
	for _, offered := range [][]uint16{{tlsx.GMECCSM4CBCSM3}, {tlsx.GMECCSM4GCMSM3}, {tlsx.GMECCSM4CBCSM3, tlsx.GMECCSM4GCMSM3}} {
		for _, picked := range []uint16{tlsx.GMECCSM4CBCSM3, tlsx.GMECCSM4GCMSM3, 0xe011, 0xe051} {
			n++
			seed := fmt.Sprint("unoff", n)
			cc := tlsx.GMClient(p, "c"+seed)
			cc.CipherSuites = offered
			so := rgmssl.ServerOpts{ID: p.ServerIdentity(), Echo: []byte("y")}
			if picked == 0xe011 || picked == 0xe051 {
				so.ECDHE = &rgmssl.ECDHEOpts{Suite: picked}
			} else {
				so.Suite = picked
			}
			wasOffered := false
			for _, o := range offered {
				wasOffered = wasOffered || o == picked
			}
			plan := &rgmssl.Plan{IgnoreAlerts: true}
			r := tlsx.RunAgainstScriptedServer(cc, so, plan, seed, []byte("x"))
			desc := fmt.Sprintf("GMSSL client offering %x, scripted server selects %04x | client: hs=%v | scripted server: err=%v log=%v", offered, picked, r.GM.HSErr, r.PeerErr, r.Peer.Log)
			if r.Stalled {
				t.Fatalf("the client keeps WAITING after a ServerHello that selects a suite it did not offer\n%s", desc)
			}
			judge(t, r, wasOffered, true, desc)
			if wasOffered && r.GM.HSErr != nil {
				t.Fatalf("control: the offered suite was refused\n%s", desc)
			}
			R.Case(true, hx.HashKey("unoff", offered, picked), "server_picks_unoffered_suite", map[bool]string{true: "unoffered:control", false: "unoffered:refused"}[wasOffered])
		}
	}
}
