//go:build verif

// C20 — results do not depend on goroutine interleaving; shared objects are race-free.
// This package is built with -race by the driver: a data race reported by the detector fails the run.
package c20

import (
	"bytes"
	"crypto/cipher"
	"crypto/rand"
	"fmt"
	"math/big"
	"os"
	"os/exec"
	"runtime"
	"sort"
	"strings"
	"sync"
	"testing"

	"github.com/tjfoc/gmsm/sm2"
	"github.com/tjfoc/gmsm/sm3"
	"github.com/tjfoc/gmsm/sm4"
	gx "github.com/tjfoc/gmsm/x509"
	"pgregory.net/rapid"

	"verifharness/gen"
	"verifharness/hx"
	"verifharness/ref/rsm2"
	"verifharness/ref/rsm3"
	"verifharness/ref/rsm4"
	"verifharness/sm2x"
	"verifharness/tlsx"
)

var R = hx.NewRecorder("C20", "cases = generated concurrent workloads run under the Go race detector: 2..32 goroutines released by one barrier, each with 1..6 operations (hash, block-cipher calls on ONE shared cipher object, SM4 mode functions, SM2 sign/verify/encrypt/decrypt/keygen with shared keys, certificate parse / chain verification against ONE shared pool, PKCS#7 BER parse and verify), generated yield points; first use of the curve from many goroutines in a fresh process; K simultaneous connections sharing one server Config and one client Config + session cache while ticket keys rotate; one connection with concurrent readers, writers, observers and Close; "+
	"oracle = every concurrent result equals the value computed single-threaded beforehand (or, for randomised operations, passes the reference verification), the byte streams are a sequential interleaving of the whole Write calls, and the race detector stays silent; non-trivial = at least two goroutines used the same shared object at the same time; distinct by hash of the workload")

func TestMain(m *testing.M) {
	if os.Getenv("C20_CHILD") != "" {
		os.Exit(firstUseChild(os.Getenv("C20_CHILD")))
	}
	R.Require("op:sm4_block", "op:sm3", "op:sm2_sign", "op:sm2_verify", "op:sm2_decrypt", "op:x509_verify", "op:pkcs7_ber", "op:sm4_mode", "goroutines>=16", "first_use", "shared_config_gm", "shared_config_tls", "conn_multi_writer", "conn_multi_reader", "conn_close_concurrent", "rotation_concurrent")
	hx.Main(m, R)
}

// ---------- part A: package-level operations and shared objects

type op struct {
	Kind string
	Arg  int // index into the prepared material
	Sel  int
	Yld  bool
}

type material struct {
	key16   []byte
	blk     cipher.Block // ONE object, shared by every goroutine
	blocks  [][]byte
	encWant [][]byte
	msgs    [][]byte
	sm3Want [][]byte
	priv    *sm2.PrivateKey
	d       *big.Int
	pub     rsm2.Point
	sigs    [][]byte // DER signatures over msgs[i] (some corrupted)
	sigOK   []bool
	cts     [][]byte // SM2 ciphertexts of msgs[i]
	modeOut map[string][]byte
	certs   []*gx.Certificate
	certDER [][]byte
	pool    *gx.CertPool // ONE pool, shared
	inter   *gx.CertPool
	verWant []string
	ber     []byte
	berWant string
	p7      []byte
}

func describeChains(chains [][]*gx.Certificate, err error) string {
	if err != nil {
		return "error: " + err.Error()
	}
	var out []string
	for _, ch := range chains {
		var s []string
		for _, c := range ch {
			s = append(s, c.Subject.CommonName+"#"+c.SerialNumber.String())
		}
		out = append(out, strings.Join(s, ">"))
	}
	sort.Strings(out)
	return strings.Join(out, " | ")
}

func verifyOpts(m *material, i int) gx.VerifyOptions {
	o := gx.VerifyOptions{Roots: m.pool, Intermediates: m.inter, CurrentTime: tlsx.Now, KeyUsages: []gx.ExtKeyUsage{gx.ExtKeyUsageAny}}
	if i%3 == 1 {
		o.DNSName = tlsx.ServerName
	}
	if i%3 == 2 {
		o.DNSName = "other.test"
	}
	return o
}

func modeCall(name string, key, in []byte, enc bool) ([]byte, error) {
	switch name {
	case "ecb":
		return sm4.Sm4Ecb(key, in, enc)
	case "cbc":
		return sm4.Sm4Cbc(key, in, enc)
	case "cfb":
		return sm4.Sm4CFB(key, in, enc)
	case "ofb":
		return sm4.Sm4OFB(key, in, enc)
	}
	out, tag, err := sm4.Sm4GCM(key, bytes.Repeat([]byte{7}, 12), in, []byte("aad"), enc)
	return append(out, tag...), err
}

var modeNames = []string{"ecb", "cbc", "cfb", "ofb", "gcm"}

// prepare builds the material and the expected values single-threaded.
func prepare(t *rapid.T) *material {
	p := tlsx.GetPKI()
	m := &material{modeOut: map[string][]byte{}}
	m.key16 = gen.BytesN(16).Draw(t, "sm4key")
	var err error
	if m.blk, err = sm4.NewCipher(m.key16); err != nil {
		t.Fatalf("NewCipher: %v", err)
	}
	refc, _ := rsm4.New(m.key16)
	for i := 0; i < 8; i++ {
		b := gen.BytesN(16).Draw(t, "block")
		w := make([]byte, 16)
		refc.Encrypt(w, b)
		m.blocks, m.encWant = append(m.blocks, b), append(m.encWant, w)
	}
	kp := gen.KeyPair(hx.Root()).Draw(t, "key")
	m.priv, m.d, m.pub = sm2x.Priv(kp), kp.D, kp.Pub
	for i := 0; i < 4; i++ {
		msg := rapid.SliceOfN(rapid.Byte(), 1, 200).Draw(t, "msg")
		m.msgs = append(m.msgs, msg)
		m.sm3Want = append(m.sm3Want, rsm3.Sum(msg))
		sig, err := m.priv.Sign(rand.Reader, msg, nil)
		if err != nil {
			t.Fatalf("Sign: %v", err)
		}
		ok := true
		if i%2 == 1 {
			sig = append([]byte{}, sig...)
			sig[len(sig)-1] ^= 1
			ok = false
		}
		m.sigs, m.sigOK = append(m.sigs, sig), append(m.sigOK, ok)
		ct, err := sm2.Encrypt(&m.priv.PublicKey, msg, rand.Reader, i%2)
		if err != nil {
			t.Fatalf("Encrypt: %v", err)
		}
		m.cts = append(m.cts, ct)
		for _, mode := range modeNames {
			out, err := modeCall(mode, m.key16, msg, true)
			if err != nil {
				t.Fatalf("sm4 %s: %v", mode, err)
			}
			m.modeOut[fmt.Sprint(mode, i)] = out
		}
	}
	m.pool, m.inter = gx.NewCertPool(), gx.NewCertPool()
	m.pool.AddCert(p.SM2Root.Cert)
	m.pool.AddCert(p.RSARoot.Cert)
	m.pool.AddCert(p.ECRoot.Cert)
	for _, id := range []*tlsx.Ident{p.SrvSign, p.SrvEnc, p.SrvSignBad, p.SrvSignExpired, p.Client, p.RSASrv, p.ECSrv, p.ClientUntrusted} {
		m.certs, m.certDER = append(m.certs, id.Cert), append(m.certDER, id.DER)
	}
	for i := 0; i < len(m.certs)*3; i++ {
		m.verWant = append(m.verWant, describeChains(m.certs[i/3].Verify(verifyOpts(m, i))))
	}
	// a BER (indefinite-length) PKCS#7 shell and a DER signed-data made by the library
	m.ber = gen.DeepBER(3+rapid.IntRange(0, 20).Draw(t, "berdepth"), true)
	_, e := gx.ParsePKCS7(m.ber)
	m.berWant = fmt.Sprint(e)
	sd, err := gx.NewSignedData(m.msgs[0])
	if err == nil {
		if err = sd.AddSigner(p.RSAClient.Cert, p.RSAClient.Key, gx.SignerInfoConfig{}); err == nil {
			m.p7, err = sd.Finish()
		}
	}
	if err != nil {
		t.Fatalf("signed-data: %v", err)
	}
	return m
}

var opKinds = []string{"sm4_block", "sm4_block", "sm4_block", "sm3", "sm3_stream", "sm4_mode", "sm2_sign", "sm2_verify", "sm2_decrypt", "sm2_encrypt", "sm2_keygen", "x509_parse", "x509_verify", "x509_verify", "pkcs7_ber", "pkcs7_verify"}

// run performs one operation and returns "" or a description of the disagreement with the sequential value.
func (m *material) run(o op) string {
	switch o.Kind {
	case "sm4_block":
		i := o.Arg % len(m.blocks)
		out := make([]byte, 16)
		if o.Sel%2 == 0 {
			m.blk.Encrypt(out, m.blocks[i])
			if !bytes.Equal(out, m.encWant[i]) {
				return fmt.Sprintf("shared cipher Encrypt(%x) = %x, single-threaded %x", m.blocks[i], out, m.encWant[i])
			}
		} else {
			m.blk.Decrypt(out, m.encWant[i])
			if !bytes.Equal(out, m.blocks[i]) {
				return fmt.Sprintf("shared cipher Decrypt(%x) = %x, single-threaded %x", m.encWant[i], out, m.blocks[i])
			}
		}
	case "sm3":
		i := o.Arg % len(m.msgs)
		if got := sm3.Sm3Sum(m.msgs[i]); !bytes.Equal(got, m.sm3Want[i]) {
			return fmt.Sprintf("Sm3Sum differs from the reference: %x vs %x", got, m.sm3Want[i])
		}
	case "sm3_stream":
		i := o.Arg % len(m.msgs)
		h := sm3.New()
		cut := o.Sel % (len(m.msgs[i]) + 1)
		h.Write(m.msgs[i][:cut])
		h.Write(m.msgs[i][cut:])
		if got := h.Sum(nil); !bytes.Equal(got, m.sm3Want[i]) {
			return fmt.Sprintf("sm3.New() stream differs from the reference: %x vs %x", got, m.sm3Want[i])
		}
	case "sm4_mode":
		i := o.Arg % len(m.msgs)
		mode := modeNames[o.Sel%len(modeNames)]
		want := m.modeOut[fmt.Sprint(mode, i)]
		got, err := modeCall(mode, m.key16, m.msgs[i], true)
		if err != nil || !bytes.Equal(got, want) {
			return fmt.Sprintf("sm4 %s encrypt differs from the single-threaded result (err=%v)", mode, err)
		}
		var back []byte
		if mode == "gcm" {
			back, _, err = sm4.Sm4GCM(m.key16, bytes.Repeat([]byte{7}, 12), want[:len(want)-16], []byte("aad"), false)
		} else {
			back, err = modeCall(mode, m.key16, want, false)
		}
		if err != nil || !bytes.Equal(back, m.msgs[i]) {
			return fmt.Sprintf("sm4 %s decrypt does not return the plaintext (err=%v)", mode, err)
		}
	case "sm2_sign":
		i := o.Arg % len(m.msgs)
		sig, err := m.priv.Sign(rand.Reader, m.msgs[i], nil)
		if err != nil {
			return "Sign error: " + err.Error()
		}
		r, s, ok := rsm2DER(sig)
		if !ok || !rsm2.Std.Verify(m.pub, rsm2.DefaultUID, m.msgs[i], r, s) {
			return fmt.Sprintf("signature made concurrently is rejected by the reference verifier: %x", sig)
		}
	case "sm2_verify":
		i := o.Arg % len(m.msgs)
		if got := m.priv.PublicKey.Verify(m.msgs[i], m.sigs[i]); got != m.sigOK[i] {
			return fmt.Sprintf("Verify = %v, single-threaded %v", got, m.sigOK[i])
		}
	case "sm2_decrypt":
		i := o.Arg % len(m.msgs)
		pt, err := sm2.Decrypt(m.priv, m.cts[i], i%2)
		if err != nil || !bytes.Equal(pt, m.msgs[i]) {
			return fmt.Sprintf("Decrypt differs from the plaintext (err=%v)", err)
		}
	case "sm2_encrypt":
		i := o.Arg % len(m.msgs)
		ct, err := sm2.Encrypt(&m.priv.PublicKey, m.msgs[i], rand.Reader, o.Sel%2)
		if err != nil {
			return "Encrypt error: " + err.Error()
		}
		pt, err := rsm2.Std.Decrypt(m.d, ct, o.Sel%2)
		if err != nil || !bytes.Equal(pt, m.msgs[i]) {
			return fmt.Sprintf("ciphertext made concurrently is not opened by the reference decryptor (err=%v)", err)
		}
	case "sm2_keygen":
		k, err := sm2.GenerateKey(rand.Reader)
		if err != nil {
			return "GenerateKey error: " + err.Error()
		}
		x, y := rsm2.Std.BaseMul(k.D).Affine()
		if x.Cmp(k.X) != 0 || y.Cmp(k.Y) != 0 {
			return "GenerateKey: public key is not d*G"
		}
	case "x509_parse":
		i := o.Arg % len(m.certDER)
		c, err := gx.ParseCertificate(m.certDER[i])
		if err != nil || c.SerialNumber.Cmp(m.certs[i].SerialNumber) != 0 || c.Subject.CommonName != m.certs[i].Subject.CommonName || !bytes.Equal(c.RawSubjectPublicKeyInfo, m.certs[i].RawSubjectPublicKeyInfo) {
			return fmt.Sprintf("ParseCertificate differs from the single-threaded parse (err=%v)", err)
		}
	case "x509_verify":
		i := o.Arg % len(m.verWant)
		if got := describeChains(m.certs[i/3].Verify(verifyOpts(m, i))); got != m.verWant[i] {
			return fmt.Sprintf("Verify against the shared pool = %q, single-threaded %q", got, m.verWant[i])
		}
	case "pkcs7_ber":
		_, err := gx.ParsePKCS7(m.ber)
		if got := fmt.Sprint(err); got != m.berWant {
			return fmt.Sprintf("ParsePKCS7(BER) = %q, single-threaded %q", got, m.berWant)
		}
	case "pkcs7_verify":
		p7, err := gx.ParsePKCS7(m.p7)
		if err != nil {
			return "ParsePKCS7: " + err.Error()
		}
		if err := p7.Verify(); err != nil {
			return "signed-data verify: " + err.Error()
		}
	}
	return ""
}

func rsm2DER(sig []byte) (r, s *big.Int, ok bool) {
	// minimal DER SEQUENCE { INTEGER, INTEGER }
	if len(sig) < 8 || sig[0] != 0x30 || int(sig[1]) != len(sig)-2 {
		return nil, nil, false
	}
	rest := sig[2:]
	var out []*big.Int
	for i := 0; i < 2; i++ {
		if len(rest) < 2 || rest[0] != 2 || int(rest[1]) > len(rest)-2 {
			return nil, nil, false
		}
		out = append(out, new(big.Int).SetBytes(rest[2:2+int(rest[1])]))
		rest = rest[2+int(rest[1]):]
	}
	return out[0], out[1], len(rest) == 0
}

func TestC20_Workloads(t *testing.T) {
	tlsx.GetPKI()
	hx.Check(t, hx.N(120, 1500), func(t *rapid.T) {
		m := prepare(t)
		ng := []int{2, 3, 4, 8, 16, 32}[gen.Uniform(t, "goroutines", 6)]
		focus := ""
		if rapid.Bool().Draw(t, "focused") {
			focus = rapid.SampledFrom(opKinds).Draw(t, "focus") // everybody hammers the same kind of object
		}
		plans := make([][]op, ng)
		used := map[string]int{}
		for g := range plans {
			n := rapid.IntRange(1, 6).Draw(t, "nops")
			for j := 0; j < n; j++ {
				k := focus
				if k == "" || gen.OneIn(t, "other", 4) {
					k = rapid.SampledFrom(opKinds).Draw(t, "kind")
				}
				plans[g] = append(plans[g], op{Kind: k, Arg: rapid.IntRange(0, 23).Draw(t, "arg"), Sel: rapid.IntRange(0, 200).Draw(t, "sel"), Yld: rapid.Bool().Draw(t, "yield")})
			}
			seen := map[string]bool{}
			for _, o := range plans[g] {
				if !seen[o.Kind] {
					seen[o.Kind] = true
					used[o.Kind]++
				}
			}
		}
		var start, done sync.WaitGroup
		start.Add(1)
		errs := make([]string, ng)
		panics := make([]*hx.PanicInfo, ng)
		for g := 0; g < ng; g++ {
			done.Add(1)
			go func(g int) {
				defer done.Done()
				start.Wait()
				panics[g] = hx.Try(func() {
					for _, o := range plans[g] {
						if o.Yld {
							runtime.Gosched()
						}
						if e := m.run(o); e != "" {
							errs[g] = fmt.Sprintf("goroutine %d, %+v: %s", g, o, e)
							return
						}
					}
				})
			}(g)
		}
		start.Done()
		done.Wait()
		for g := range errs {
			if panics[g] != nil {
				t.Fatalf("goroutine %d panicked: %v\n%s\nplans: %+v", g, panics[g].Val, panics[g].Stack, plans)
			}
			if errs[g] != "" {
				t.Fatalf("a concurrent result differs from the single-threaded one (%d goroutines)\n%s\nplans: %+v", ng, errs[g], plans)
			}
		}
		cl := []string{}
		shared := false
		for k, n := range used {
			c := k
			switch k {
			case "sm3_stream":
				c = "sm3"
			case "x509_parse":
				c = "x509_verify"
			case "pkcs7_verify":
				c = "pkcs7_ber"
			case "sm2_encrypt", "sm2_keygen":
				c = "sm2_sign"
			}
			cl = append(cl, "op:"+c)
			if n >= 2 {
				shared = true
			}
		}
		if ng >= 16 {
			cl = append(cl, "goroutines>=16")
		}
		R.Case(shared, hx.HashKey(fmt.Sprintf("%+v", plans), m.key16), cl...)
		R.Sample("workload", map[string]interface{}{"goroutines": ng, "focus": focus, "first_plan": fmt.Sprintf("%+v", plans[0])})
	})
}

// ---------- part B: first use of the curve (and of every lazily initialised table) from many goroutines, in a fresh process

func firstUseChild(spec string) int {
	var ng int
	var kind string
	fmt.Sscanf(spec, "%d:%s", &ng, &kind)
	var start, done sync.WaitGroup
	start.Add(1)
	errs := make([]string, ng)
	d := new(big.Int).SetBytes(rsm3.Sum([]byte(spec)))
	d.Mod(d, new(big.Int).Sub(rsm2.Std.N, big.NewInt(2))).Add(d, big.NewInt(1))
	wantX, wantY := rsm2.Std.BaseMul(d).Affine()
	for g := 0; g < ng; g++ {
		done.Add(1)
		go func(g int) {
			defer done.Done()
			start.Wait()
			k := kind
			if k == "mixed" {
				k = []string{"basemult", "sign", "keygen", "oncurve", "params"}[g%5]
			}
			switch k {
			case "basemult":
				x, y := sm2.P256Sm2().ScalarBaseMult(d.Bytes())
				if x.Cmp(wantX) != 0 || y.Cmp(wantY) != 0 {
					errs[g] = "first ScalarBaseMult differs from the reference"
				}
			case "sign":
				priv := &sm2.PrivateKey{D: d}
				priv.Curve = sm2.P256Sm2()
				priv.X, priv.Y = wantX, wantY
				sig, err := priv.Sign(rand.Reader, []byte("first use"), nil)
				if err != nil {
					errs[g] = err.Error()
					return
				}
				r, s, ok := rsm2DER(sig)
				if !ok || !rsm2.Std.Verify(rsm2.Point{X: wantX, Y: wantY}, rsm2.DefaultUID, []byte("first use"), r, s) {
					errs[g] = "first signature rejected by the reference"
				}
			case "keygen":
				k, err := sm2.GenerateKey(rand.Reader)
				if err != nil {
					errs[g] = err.Error()
					return
				}
				x, y := rsm2.Std.BaseMul(k.D).Affine()
				if x.Cmp(k.X) != 0 || y.Cmp(k.Y) != 0 {
					errs[g] = "first GenerateKey: public key is not d*G"
				}
			case "oncurve":
				if !sm2.P256Sm2().IsOnCurve(wantX, wantY) {
					errs[g] = "first IsOnCurve rejects a curve point"
				}
			case "params":
				if sm2.P256Sm2().Params().N.Cmp(rsm2.Std.N) != 0 {
					errs[g] = "first Params() has another group order"
				}
			}
		}(g)
	}
	start.Done()
	done.Wait()
	for _, e := range errs {
		if e != "" {
			fmt.Println("FIRST-USE MISMATCH:", e)
			return 1
		}
	}
	return 0
}

func TestC20_FirstUse(t *testing.T) {
	exe, err := os.Executable()
	if err != nil {
		t.Skip("no executable path")
	}
	kinds := []string{"basemult", "sign", "keygen", "oncurve", "params", "mixed"}
	n := hx.N(12, 120)
	for i := 0; i < n; i++ {
		ng := []int{2, 4, 8, 16, 32}[(i+int(hx.Seed()))%5]
		spec := fmt.Sprintf("%d:%s", ng, kinds[(i/5+i+hx.Shard())%len(kinds)])
		cmd := exec.Command(exe, "-test.run=^$")
		cmd.Env = append(os.Environ(), "C20_CHILD="+spec)
		out, err := cmd.CombinedOutput()
		if err != nil {
			// the output carries the race report (the driver looks for it) or the mismatch
			t.Fatalf("first use of the curve from %s goroutines in a fresh process failed: %v\n%s", spec, err, out)
		}
		R.Case(true, hx.HashKey("first", spec, i), "first_use")
		if i < 3 {
			R.Sample("first_use", spec)
		}
	}
}
