//go:build verif

// C20 — results do not depend on goroutine interleaving; shared objects are race-free.
// This package is built with -race by the driver: a data race reported by the detector fails the run.
package c20

import (
	"bytes"
	"crypto/cipher"
	"crypto/rand"
	"crypto/x509/pkix"
	"fmt"
	"io"
	"math/big"
	"net"
	"os"
	"os/exec"
	"runtime"
	"sort"
	"regexp"
	"strings"
	"sync"
	"sync/atomic"
	"testing"
	"time"

	"github.com/tjfoc/gmsm/gmtls"
	"github.com/tjfoc/gmsm/sm2"
	"github.com/tjfoc/gmsm/sm3"
	"github.com/tjfoc/gmsm/sm4"
	gx "github.com/tjfoc/gmsm/x509"
	"pgregory.net/rapid"

	"verifharness/gen"
	"verifharness/hx"
	"verifharness/ref/rgmssl"
	"verifharness/ref/rder"
	"verifharness/ref/rsm2"
	"verifharness/ref/rsm3"
	"verifharness/ref/rsm4"
	"verifharness/sm2x"
	"verifharness/tlsx"
	"verifharness/wire"
)

var R = hx.NewRecorder("C20", "cases = generated concurrent workloads run under the Go race detector: 2..32 goroutines released by one barrier, each with 1..6 operations (hash, block-cipher calls on ONE shared cipher object, SM4 mode functions, SM2 sign/verify/encrypt/decrypt/keygen with shared keys, certificate parse / chain verification against ONE shared pool, PKCS#7 BER parse and verify), generated yield points; first use of the curve from many goroutines in a fresh process; K simultaneous connections sharing one server Config and one client Config + session cache while ticket keys rotate; one connection with concurrent readers, writers, observers and Close; "+
	"oracle = every concurrent result equals the value computed single-threaded beforehand (or, for randomised operations, passes the reference verification), the byte streams are a sequential interleaving of the whole Write calls, and the race detector stays silent; non-trivial = at least two goroutines used the same shared object at the same time; distinct by hash of the workload")

func TestMain(m *testing.M) {
	if os.Getenv("C20_CHILD") != "" {
		os.Exit(firstUseChild(os.Getenv("C20_CHILD")))
	}
	R.Require("close_while_write_blocked", "op:cache", "op:sm4_block", "op:sm3", "op:sm2_sign", "op:sm2_verify", "op:sm2_decrypt", "op:x509_verify", "op:pkcs7_ber", "op:sm4_mode", "goroutines>=16", "first_use", "shared_config_gm", "shared_config_tls", "conn_multi_writer", "conn_multi_reader", "conn_close_concurrent", "rotation_concurrent", "cache_multikey_warm", "conn_hostile_record", "shared_client_config_client_auth", "cca:gm", "cca:tls")
	hx.Main(m, R)
}

// ---------- part A: package-level operations and shared objects

type op struct {
	Kind string
	Arg  int // index into the prepared material
	Sel  int
	Yld  bool
}

type material struct {
	key16   []byte
	blk     cipher.Block // ONE object, shared by every goroutine
	blocks  [][]byte
	encWant [][]byte
	msgs    [][]byte
	sm3Want [][]byte
	priv    *sm2.PrivateKey
	d       *big.Int
	pub     rsm2.Point
	sigs    [][]byte // DER signatures over msgs[i] (some corrupted)
	sigOK   []bool
	cts     [][]byte // SM2 ciphertexts of msgs[i]
	modeOut map[string][]byte
	certs   []*gx.Certificate
	certDER [][]byte
	pool    *gx.CertPool // ONE pool, shared
	inter   *gx.CertPool
	verWant []string
	ber     []byte
	berWant string
	p7      []byte
	// ONE parsed signed-data object and ONE parsed envelope (DES-CBC content, primitive or constructed encoding), shared
	p7Signed  *gx.PKCS7
	p7Env     *gx.PKCS7
	p7EnvCert *gx.Certificate
	// ONE client session cache shared by every goroutine; the values that may legitimately be stored under a key
	cache     gmtls.ClientSessionCache
	cacheCap  int
	cacheVals map[string][]*gmtls.ClientSessionState
}

func describeChains(chains [][]*gx.Certificate, err error) string {
	if err != nil {
		return "error: " + err.Error()
	}
	var out []string
	for _, ch := range chains {
		var s []string
		for _, c := range ch {
			s = append(s, c.Subject.CommonName+"#"+c.SerialNumber.String())
		}
		out = append(out, strings.Join(s, ">"))
	}
	sort.Strings(out)
	return strings.Join(out, " | ")
}

func verifyOpts(m *material, i int) gx.VerifyOptions {
	o := gx.VerifyOptions{Roots: m.pool, Intermediates: m.inter, CurrentTime: tlsx.Now, KeyUsages: []gx.ExtKeyUsage{gx.ExtKeyUsageAny}}
	if i%3 == 1 {
		o.DNSName = tlsx.ServerName
	}
	if i%3 == 2 {
		o.DNSName = "other.test"
	}
	return o
}

func modeCall(name string, key, in []byte, enc bool) ([]byte, error) {
	switch name {
	case "ecb":
		return sm4.Sm4Ecb(key, in, enc)
	case "cbc":
		return sm4.Sm4Cbc(key, in, enc)
	case "cfb":
		return sm4.Sm4CFB(key, in, enc)
	case "ofb":
		return sm4.Sm4OFB(key, in, enc)
	}
	out, tag, err := sm4.Sm4GCM(key, bytes.Repeat([]byte{7}, 12), in, []byte("aad"), enc)
	return append(out, tag...), err
}

var (
	certOnce sync.Once
	certMat  *material
)

var modeNames = []string{"ecb", "cbc", "cfb", "ofb", "gcm"}

// prepare builds the material and the expected values single-threaded.
func prepare(t *rapid.T) *material {
	p := tlsx.GetPKI()
	m := &material{modeOut: map[string][]byte{}}
	m.key16 = gen.BytesN(16).Draw(t, "sm4key")
	var err error
	if m.blk, err = sm4.NewCipher(m.key16); err != nil {
		t.Fatalf("NewCipher: %v", err)
	}
	refc, _ := rsm4.New(m.key16)
	for i := 0; i < 8; i++ {
		b := gen.BytesN(16).Draw(t, "block")
		w := make([]byte, 16)
		refc.Encrypt(w, b)
		m.blocks, m.encWant = append(m.blocks, b), append(m.encWant, w)
	}
	kp := gen.KeyPair(hx.Root()).Draw(t, "key")
	m.priv, m.d, m.pub = sm2x.Priv(kp), kp.D, kp.Pub
	for i := 0; i < 4; i++ {
		msg := rapid.SliceOfN(rapid.Byte(), 1, 200).Draw(t, "msg")
		m.msgs = append(m.msgs, msg)
		m.sm3Want = append(m.sm3Want, rsm3.Sum(msg))
		sig, err := m.priv.Sign(rand.Reader, msg, nil)
		if err != nil {
			t.Fatalf("Sign: %v", err)
		}
		ok := true
		if i%2 == 1 {
			sig = append([]byte{}, sig...)
			sig[len(sig)-1] ^= 1
			ok = false
		}
		m.sigs, m.sigOK = append(m.sigs, sig), append(m.sigOK, ok)
		ct, err := sm2.Encrypt(&m.priv.PublicKey, msg, rand.Reader, i%2)
		if err != nil {
			t.Fatalf("Encrypt: %v", err)
		}
		m.cts = append(m.cts, ct)
		for _, mode := range modeNames {
			out, err := modeCall(mode, m.key16, msg, true)
			if err != nil {
				t.Fatalf("sm4 %s: %v", mode, err)
			}
			m.modeOut[fmt.Sprint(mode, i)] = out
		}
	}
	certOnce.Do(func() {
		c := &material{}
		c.pool, c.inter = gx.NewCertPool(), gx.NewCertPool()
		c.pool.AddCert(p.SM2Root.Cert)
		c.pool.AddCert(p.RSARoot.Cert)
		c.pool.AddCert(p.ECRoot.Cert)
		for _, id := range []*tlsx.Ident{p.SrvSign, p.SrvEnc, p.SrvSignBad, p.SrvSignExpired, p.Client, p.RSASrv, p.ECSrv, p.ClientUntrusted} {
			c.certs, c.certDER = append(c.certs, id.Cert), append(c.certDER, id.DER)
		}
		// a CA that was re-issued three times (same name, key and subject key identifier), a namesake CA with another
		// key and no key identifier, and leaves that name the key identifier: lookups then combine the pool's
		// by-key-identifier and by-name indexes, which concurrent verifications share
		mk := func(serial int64, cn string, ski, aki []byte, pub *sm2.PublicKey, signer *sm2.PrivateKey, ca bool, issuerCN string) *gx.Certificate {
			tpl := &gx.Certificate{SerialNumber: big.NewInt(serial), Subject: pkix.Name{CommonName: cn}, NotBefore: tlsx.Now.Add(-time.Hour), NotAfter: tlsx.Now.Add(time.Hour),
				SignatureAlgorithm: gx.SM2WithSM3, BasicConstraintsValid: ca, IsCA: ca, SubjectKeyId: ski, DNSNames: []string{tlsx.ServerName}}
			parent := &gx.Certificate{Subject: pkix.Name{CommonName: issuerCN}, SubjectKeyId: aki}
			der, err := gx.CreateCertificate(tpl, parent, pub, signer)
			if err != nil {
				panic(err)
			}
			crt, err := gx.ParseCertificate(der)
			if err != nil {
				panic(err)
			}
			return crt
		}
		ka := sm2x.Priv(gen.Key{D: big.NewInt(777001), Pub: rsm2.Std.BaseMul(big.NewInt(777001))})
		kb := sm2x.Priv(gen.Key{D: big.NewInt(777002), Pub: rsm2.Std.BaseMul(big.NewInt(777002))})
		kl := sm2x.Priv(gen.Key{D: big.NewInt(777003), Pub: rsm2.Std.BaseMul(big.NewInt(777003))})
		skiA := []byte{0xA1, 0xA2, 0xA3, 0xA4}
		for i := int64(0); i < 3; i++ {
			c.pool.AddCert(mk(9100+i, "Multi CA", skiA, skiA, &ka.PublicKey, ka, true, "Multi CA"))
		}
		c.pool.AddCert(mk(9110, "Multi CA", nil, nil, &kb.PublicKey, kb, true, "Multi CA"))
		for i := int64(0); i < 2; i++ {
			leafA := mk(9120+i, fmt.Sprint("multi leaf a", i), nil, skiA, &kl.PublicKey, ka, false, "Multi CA")
			leafB := mk(9130+i, fmt.Sprint("multi leaf b", i), nil, nil, &kl.PublicKey, kb, false, "Multi CA")
			c.certs, c.certDER = append(c.certs, leafA, leafB), append(c.certDER, leafA.Raw, leafB.Raw)
		}
		for i := 0; i < len(c.certs)*3; i++ {
			c.verWant = append(c.verWant, describeChains(c.certs[i/3].Verify(verifyOpts(c, i))))
		}
		certMat = c
	})
	m.pool, m.inter, m.certs, m.certDER, m.verWant = certMat.pool, certMat.inter, certMat.certs, certMat.certDER, certMat.verWant
	m.cacheCap = rapid.IntRange(2, 4).Draw(t, "cachecap")
	m.cache = gmtls.NewLRUClientSessionCache(m.cacheCap)
	m.cacheVals = map[string][]*gmtls.ClientSessionState{}
	for k := 0; k < 6; k++ {
		key := fmt.Sprint("k", k)
		for j := 0; j < 3; j++ {
			m.cacheVals[key] = append(m.cacheVals[key], &gmtls.ClientSessionState{})
		}
		if k < m.cacheCap {
			m.cache.Put(key, m.cacheVals[key][0]) // start full: lookups hit entries that are not at the front
		}
	}
	// a BER (indefinite-length) PKCS#7 shell and a DER signed-data made by the library
	m.ber = gen.DeepBER(3+rapid.IntRange(0, 20).Draw(t, "berdepth"), true)
	_, e := gx.ParsePKCS7(m.ber)
	m.berWant = fmt.Sprint(e)
	sd, err := gx.NewSignedData(m.msgs[0])
	if err == nil {
		if err = sd.AddSigner(p.RSAClient.Cert, p.RSAClient.Key, gx.SignerInfoConfig{}); err == nil {
			m.p7, err = sd.Finish()
		}
	}
	if err != nil {
		t.Fatalf("signed-data: %v", err)
	}
	if m.p7Signed, err = gx.ParsePKCS7(m.p7); err != nil {
		t.Fatalf("ParsePKCS7(signed-data): %v", err)
	}
	// an envelope for this case's SM2 key; half of the cases carry the encrypted content as a primitive [0] IMPLICIT OCTET
	// STRING (OpenSSL's form), whose bytes the parsed object references directly
	tpl := &gx.Certificate{SerialNumber: big.NewInt(4242), Subject: pkix.Name{CommonName: "c20 recipient"}, NotBefore: tlsx.Now.Add(-time.Hour), NotAfter: tlsx.Now.Add(time.Hour), SignatureAlgorithm: gx.SM2WithSM3}
	cder, err := gx.CreateCertificate(tpl, tpl, &m.priv.PublicKey, m.priv)
	if err == nil {
		m.p7EnvCert, err = gx.ParseCertificate(cder)
	}
	if err != nil {
		t.Fatalf("recipient certificate: %v", err)
	}
	env, err := gx.PKCS7EncryptSM2(m.msgs[0], []*gx.Certificate{m.p7EnvCert}, sm2.C1C3C2)
	if err != nil {
		t.Fatalf("PKCS7EncryptSM2: %v", err)
	}
	if rapid.Bool().Draw(t, "primitiveContent") {
		prim, ok := gen.DERReplaceWhere(env, func(tl rder.TLV, c []byte) bool {
			if tl.Tag != 0xa0 || len(c) < 2 || c[0] != 0x04 {
				return false
			}
			in, err := rder.ReadStrict(c, 0)
			return err == nil && in.HdrLen+in.Len == len(c)
		}, 0x80, func(old []byte) []byte {
			in, _ := rder.ReadStrict(old, 0)
			return old[in.HdrLen:]
		})
		if !ok {
			t.Fatalf("harness: encrypted content not found in the envelope")
		}
		env = prim
	}
	if m.p7Env, err = gx.ParsePKCS7(env); err != nil {
		t.Fatalf("ParsePKCS7(envelope): %v", err)
	}
	return m
}

var opKinds = []string{"cache", "cache", "sm4_block", "sm4_block", "sm4_block", "sm3", "sm3_stream", "sm4_mode", "sm2_sign", "sm2_verify", "sm2_decrypt", "sm2_encrypt", "sm2_keygen", "x509_parse", "x509_verify", "x509_verify", "pkcs7_ber", "pkcs7_verify", "pkcs7_shared", "pkcs7_shared"}

// run performs one operation and returns "" or a description of the disagreement with the sequential value.
func (m *material) run(o op) string {
	switch o.Kind {
	case "sm4_block":
		i := o.Arg % len(m.blocks)
		out := make([]byte, 16)
		if o.Sel%2 == 0 {
			m.blk.Encrypt(out, m.blocks[i])
			if !bytes.Equal(out, m.encWant[i]) {
				return fmt.Sprintf("shared cipher Encrypt(%x) = %x, single-threaded %x", m.blocks[i], out, m.encWant[i])
			}
		} else {
			m.blk.Decrypt(out, m.encWant[i])
			if !bytes.Equal(out, m.blocks[i]) {
				return fmt.Sprintf("shared cipher Decrypt(%x) = %x, single-threaded %x", m.encWant[i], out, m.blocks[i])
			}
		}
	case "sm3":
		i := o.Arg % len(m.msgs)
		if got := sm3.Sm3Sum(m.msgs[i]); !bytes.Equal(got, m.sm3Want[i]) {
			return fmt.Sprintf("Sm3Sum differs from the reference: %x vs %x", got, m.sm3Want[i])
		}
	case "sm3_stream":
		i := o.Arg % len(m.msgs)
		h := sm3.New()
		cut := o.Sel % (len(m.msgs[i]) + 1)
		h.Write(m.msgs[i][:cut])
		h.Write(m.msgs[i][cut:])
		if got := h.Sum(nil); !bytes.Equal(got, m.sm3Want[i]) {
			return fmt.Sprintf("sm3.New() stream differs from the reference: %x vs %x", got, m.sm3Want[i])
		}
	case "sm4_mode":
		i := o.Arg % len(m.msgs)
		mode := modeNames[o.Sel%len(modeNames)]
		want := m.modeOut[fmt.Sprint(mode, i)]
		got, err := modeCall(mode, m.key16, m.msgs[i], true)
		if err != nil || !bytes.Equal(got, want) {
			return fmt.Sprintf("sm4 %s encrypt differs from the single-threaded result (err=%v)", mode, err)
		}
		var back []byte
		if mode == "gcm" {
			back, _, err = sm4.Sm4GCM(m.key16, bytes.Repeat([]byte{7}, 12), want[:len(want)-16], []byte("aad"), false)
		} else {
			back, err = modeCall(mode, m.key16, want, false)
		}
		if err != nil || !bytes.Equal(back, m.msgs[i]) {
			return fmt.Sprintf("sm4 %s decrypt does not return the plaintext (err=%v)", mode, err)
		}
	case "sm2_sign":
		i := o.Arg % len(m.msgs)
		if o.Sel%2 == 1 {
			// a nonce stream of this goroutine's own, handed out a few bytes at a time with the processor yielded in between:
			// the signature must be the one GM/T 0003.2 gives for THIS stream's nonce, whatever other signers do meanwhile
			k := new(big.Int).Add(new(big.Int).Lsh(big.NewInt(int64(o.Arg+1)), 200), big.NewInt(int64(o.Sel)*7919+13))
			rd := &yieldingReader{sm2x.NewNonceReader(sm2x.BlockForNonce(k))}
			rd.r.(*sm2x.NonceReader).Chunk = 1 + o.Sel%9
			r, s2, err := sm2.Sm2Sign(m.priv, m.msgs[i], nil, rd)
			if err != nil {
				return "Sm2Sign error: " + err.Error()
			}
			e, _ := rsm2.Std.E(m.pub, rsm2.DefaultUID, m.msgs[i])
			wr, ws, ok := rsm2.Std.SignE(m.d, e, k)
			if ok && (r.Cmp(wr) != 0 || s2.Cmp(ws) != 0) {
				return fmt.Sprintf("signature made concurrently from a nonce stream of its own is not the one the standard gives for that nonce: r=%x want %x", r, wr)
			}
			return ""
		}
		// half of these: no randomness source given (nil), the library's documented fall-back to the system's source
		var src io.Reader = rand.Reader
		if o.Sel%4 == 2 {
			src = nil
		}
		sig, err := m.priv.Sign(src, m.msgs[i], nil)
		if err != nil {
			return "Sign error: " + err.Error()
		}
		r, s, ok := rsm2DER(sig)
		if !ok || !rsm2.Std.Verify(m.pub, rsm2.DefaultUID, m.msgs[i], r, s) {
			return fmt.Sprintf("signature made concurrently is rejected by the reference verifier: %x", sig)
		}
	case "sm2_verify":
		i := o.Arg % len(m.msgs)
		if got := m.priv.PublicKey.Verify(m.msgs[i], m.sigs[i]); got != m.sigOK[i] {
			return fmt.Sprintf("Verify = %v, single-threaded %v", got, m.sigOK[i])
		}
	case "sm2_decrypt":
		i := o.Arg % len(m.msgs)
		pt, err := sm2.Decrypt(m.priv, m.cts[i], i%2)
		if err != nil || !bytes.Equal(pt, m.msgs[i]) {
			return fmt.Sprintf("Decrypt differs from the plaintext (err=%v)", err)
		}
	case "sm2_encrypt":
		i := o.Arg % len(m.msgs)
		var src io.Reader = rand.Reader
		if o.Sel%4 >= 2 {
			src = nil // the fall-back to the system's source
		}
		ct, err := sm2.Encrypt(&m.priv.PublicKey, m.msgs[i], src, o.Sel%2)
		if err != nil {
			return "Encrypt error: " + err.Error()
		}
		pt, err := rsm2.Std.Decrypt(m.d, ct, o.Sel%2)
		if err != nil || !bytes.Equal(pt, m.msgs[i]) {
			return fmt.Sprintf("ciphertext made concurrently is not opened by the reference decryptor (err=%v)", err)
		}
	case "sm2_keygen":
		k, err := sm2.GenerateKey(rand.Reader)
		if err != nil {
			return "GenerateKey error: " + err.Error()
		}
		x, y := rsm2.Std.BaseMul(k.D).Affine()
		if x.Cmp(k.X) != 0 || y.Cmp(k.Y) != 0 {
			return "GenerateKey: public key is not d*G"
		}
	case "x509_parse":
		i := o.Arg % len(m.certDER)
		c, err := gx.ParseCertificate(m.certDER[i])
		if err != nil || c.SerialNumber.Cmp(m.certs[i].SerialNumber) != 0 || c.Subject.CommonName != m.certs[i].Subject.CommonName || !bytes.Equal(c.RawSubjectPublicKeyInfo, m.certs[i].RawSubjectPublicKeyInfo) {
			return fmt.Sprintf("ParseCertificate differs from the single-threaded parse (err=%v)", err)
		}
	case "x509_verify":
		i := o.Arg % len(m.verWant)
		if got := describeChains(m.certs[i/3].Verify(verifyOpts(m, i))); got != m.verWant[i] {
			return fmt.Sprintf("Verify against the shared pool = %q, single-threaded %q", got, m.verWant[i])
		}
	case "pkcs7_ber":
		_, err := gx.ParsePKCS7(m.ber)
		if got := fmt.Sprint(err); got != m.berWant {
			return fmt.Sprintf("ParsePKCS7(BER) = %q, single-threaded %q", got, m.berWant)
		}
	case "cache":
		key := fmt.Sprint("k", o.Arg%6)
		if o.Sel%4 == 0 {
			m.cache.Put(key, m.cacheVals[key][o.Sel/4%3])
			return ""
		}
		if v, ok := m.cache.Get(key); ok {
			found := false
			for _, x := range m.cacheVals[key] {
				found = found || x == v
			}
			if !found {
				return fmt.Sprintf("session cache returned under %q a value that was never stored under that key", key)
			}
		}
	case "pkcs7_shared":
		// the parsed objects are shared: verifying and opening them only reads them
		if o.Sel%3 == 0 {
			if err := m.p7Signed.Verify(); err != nil {
				return "Verify on the shared parsed signed-data: " + err.Error()
			}
			return ""
		}
		out, err := m.p7Env.DecryptSM2(m.p7EnvCert, m.priv, sm2.C1C3C2)
		if err != nil || !bytes.Equal(out, m.msgs[0]) {
			return fmt.Sprintf("DecryptSM2 on the shared parsed envelope: err=%v, %d bytes (single-threaded: the %d-byte content)", err, len(out), len(m.msgs[0]))
		}
	case "pkcs7_verify":
		p7, err := gx.ParsePKCS7(m.p7)
		if err != nil {
			return "ParsePKCS7: " + err.Error()
		}
		if err := p7.Verify(); err != nil {
			return "signed-data verify: " + err.Error()
		}
	}
	return ""
}

func rsm2DER(sig []byte) (r, s *big.Int, ok bool) {
	// minimal DER SEQUENCE { INTEGER, INTEGER }
	if len(sig) < 8 || sig[0] != 0x30 || int(sig[1]) != len(sig)-2 {
		return nil, nil, false
	}
	rest := sig[2:]
	var out []*big.Int
	for i := 0; i < 2; i++ {
		if len(rest) < 2 || rest[0] != 2 || int(rest[1]) > len(rest)-2 {
			return nil, nil, false
		}
		out = append(out, new(big.Int).SetBytes(rest[2:2+int(rest[1])]))
		rest = rest[2+int(rest[1]):]
	}
	return out[0], out[1], len(rest) == 0
}

func TestC20_Workloads(t *testing.T) {
	tlsx.GetPKI()
	hx.Check(t, hx.N(80, 1500), func(t *rapid.T) {
		m := prepare(t)
		ng := []int{2, 3, 4, 8, 16, 32}[gen.Uniform(t, "goroutines", 6)]
		focus := ""
		if rapid.Bool().Draw(t, "focused") {
			focus = rapid.SampledFrom(opKinds).Draw(t, "focus") // everybody hammers the same kind of object
		}
		plans := make([][]op, ng)
		used := map[string]int{}
		for g := range plans {
			n := rapid.IntRange(1, 6).Draw(t, "nops")
			for j := 0; j < n; j++ {
				k := focus
				if k == "" || gen.OneIn(t, "other", 4) {
					k = rapid.SampledFrom(opKinds).Draw(t, "kind")
				}
				plans[g] = append(plans[g], op{Kind: k, Arg: rapid.IntRange(0, 71).Draw(t, "arg"), Sel: rapid.IntRange(0, 200).Draw(t, "sel"), Yld: rapid.Bool().Draw(t, "yield")})
			}
			seen := map[string]bool{}
			for _, o := range plans[g] {
				if !seen[o.Kind] {
					seen[o.Kind] = true
					used[o.Kind]++
				}
			}
		}
		var start, done sync.WaitGroup
		start.Add(1)
		errs := make([]string, ng)
		panics := make([]*hx.PanicInfo, ng)
		for g := 0; g < ng; g++ {
			done.Add(1)
			go func(g int) {
				defer done.Done()
				start.Wait()
				panics[g] = hx.Try(func() {
					for _, o := range plans[g] {
						if o.Yld {
							runtime.Gosched()
						}
						if e := m.run(o); e != "" {
							errs[g] = fmt.Sprintf("goroutine %d, %+v: %s", g, o, e)
							return
						}
					}
				})
			}(g)
		}
		start.Done()
		done.Wait()
		for g := range errs {
			if panics[g] != nil {
				t.Fatalf("goroutine %d panicked: %v\n%s\nplans: %+v", g, panics[g].Val, panics[g].Stack, plans)
			}
			if errs[g] != "" {
				t.Fatalf("a concurrent result differs from the single-threaded one (%d goroutines)\n%s\nplans: %+v", ng, errs[g], plans)
			}
		}
		// the cache must still be a working LRU of its capacity: after cap fresh insertions exactly those remain
		for j := 0; j < m.cacheCap; j++ {
			m.cache.Put(fmt.Sprint("fresh", j), m.cacheVals["k0"][0])
		}
		for k := 0; k < 6; k++ {
			if _, ok := m.cache.Get(fmt.Sprint("k", k)); ok {
				t.Fatalf("session cache (capacity %d) still holds %q after %d newer insertions: the LRU bookkeeping was corrupted by concurrent use\nplans: %+v", m.cacheCap, fmt.Sprint("k", k), m.cacheCap, plans)
			}
		}
		for j := 0; j < m.cacheCap; j++ {
			if _, ok := m.cache.Get(fmt.Sprint("fresh", j)); !ok {
				t.Fatalf("session cache (capacity %d) lost one of the %d most recent insertions after concurrent use\nplans: %+v", m.cacheCap, m.cacheCap, plans)
			}
		}
		cl := []string{}
		shared := false
		for k, n := range used {
			c := k
			switch k {
			case "sm3_stream":
				c = "sm3"
			case "x509_parse":
				c = "x509_verify"
			case "pkcs7_verify", "pkcs7_shared":
				c = "pkcs7_ber"
			case "sm2_encrypt", "sm2_keygen":
				c = "sm2_sign"
			}
			cl = append(cl, "op:"+c)
			if n >= 2 {
				shared = true
			}
		}
		if ng >= 16 {
			cl = append(cl, "goroutines>=16")
		}
		R.Case(shared, hx.HashKey(fmt.Sprintf("%+v", plans), m.key16), cl...)
		R.Sample("workload", map[string]interface{}{"goroutines": ng, "focus": focus, "first_plan": fmt.Sprintf("%+v", plans[0])})
	})
}

// ---------- part B: first use of the curve (and of every lazily initialised table) from many goroutines, in a fresh process

func firstUseChild(spec string) int {
	var ng int
	var kind string
	fmt.Sscanf(spec, "%d:%s", &ng, &kind)
	if kind == "gmhs" || kind == "tlshs" {
		return firstHandshakes(ng, kind)
	}
	var start, done sync.WaitGroup
	start.Add(1)
	errs := make([]string, ng)
	d := new(big.Int).SetBytes(rsm3.Sum([]byte(spec)))
	d.Mod(d, new(big.Int).Sub(rsm2.Std.N, big.NewInt(2))).Add(d, big.NewInt(1))
	wantX, wantY := rsm2.Std.BaseMul(d).Affine()
	for g := 0; g < ng; g++ {
		done.Add(1)
		go func(g int) {
			defer done.Done()
			start.Wait()
			k := kind
			if k == "mixed" {
				k = []string{"basemult", "sign", "keygen", "oncurve", "params"}[g%5]
			}
			switch k {
			case "basemult":
				x, y := sm2.P256Sm2().ScalarBaseMult(d.Bytes())
				if x.Cmp(wantX) != 0 || y.Cmp(wantY) != 0 {
					errs[g] = "first ScalarBaseMult differs from the reference"
				}
			case "sign":
				priv := &sm2.PrivateKey{D: d}
				priv.Curve = sm2.P256Sm2()
				priv.X, priv.Y = wantX, wantY
				sig, err := priv.Sign(rand.Reader, []byte("first use"), nil)
				if err != nil {
					errs[g] = err.Error()
					return
				}
				r, s, ok := rsm2DER(sig)
				if !ok || !rsm2.Std.Verify(rsm2.Point{X: wantX, Y: wantY}, rsm2.DefaultUID, []byte("first use"), r, s) {
					errs[g] = "first signature rejected by the reference"
				}
			case "keygen":
				k, err := sm2.GenerateKey(rand.Reader)
				if err != nil {
					errs[g] = err.Error()
					return
				}
				x, y := rsm2.Std.BaseMul(k.D).Affine()
				if x.Cmp(k.X) != 0 || y.Cmp(k.Y) != 0 {
					errs[g] = "first GenerateKey: public key is not d*G"
				}
			case "oncurve":
				if !sm2.P256Sm2().IsOnCurve(wantX, wantY) {
					errs[g] = "first IsOnCurve rejects a curve point"
				}
			case "params":
				if sm2.P256Sm2().Params().N.Cmp(rsm2.Std.N) != 0 {
					errs[g] = "first Params() has another group order"
				}
			}
		}(g)
	}
	start.Done()
	done.Wait()
	for _, e := range errs {
		if e != "" {
			fmt.Println("FIRST-USE MISMATCH:", e)
			return 1
		}
	}
	return 0
}

// firstHandshakes: the very first handshakes of a process (lazily built suite tables, Config.serverInitOnce, ticket
// keys) all start at once on ONE server Config and ONE client Config.
func firstHandshakes(ng int, kind string) int {
	p := tlsx.GetPKI()
	var cc, sc *gmtls.Config
	if kind == "gmhs" {
		cc, sc = tlsx.GMClient(p, "fc"), tlsx.GMServer(p, "fs")
	} else {
		cc, sc = tlsx.TLSClient(p, "fc"), tlsx.TLSServer(p, p.RSASrv, "fs")
	}
	cc.ClientSessionCache = gmtls.NewLRUClientSessionCache(4)
	var start, done sync.WaitGroup
	start.Add(1)
	errs := make([]string, ng)
	for g := 0; g < ng; g++ {
		done.Add(1)
		go func(g int) {
			defer done.Done()
			start.Wait()
			msg := []byte(fmt.Sprint("hello from ", g))
			r := tlsx.Run(cc, sc, tlsx.Script{ClientSend: msg, ServerSend: msg, ClientAddr: fmt.Sprint("c:", g)})
			if r.Client.HSErr != nil || r.Server.HSErr != nil || !bytes.Equal(r.Server.Received, msg) || !bytes.Equal(r.Client.Received, msg) {
				errs[g] = "first handshakes of the process, started together, did not all succeed: " + r.Describe()
			}
		}(g)
	}
	start.Done()
	done.Wait()
	for _, e := range errs {
		if e != "" {
			fmt.Println("FIRST-USE MISMATCH:", e)
			return 1
		}
	}
	return 0
}

func TestC20_FirstUse(t *testing.T) {
	exe, err := os.Executable()
	if err != nil {
		t.Skip("no executable path")
	}
	kinds := []string{"basemult", "sign", "keygen", "oncurve", "params", "mixed", "gmhs", "tlshs"}
	n := hx.N(10, 120)
	for i := 0; i < n; i++ {
		ng := []int{2, 4, 8, 16, 32}[(i+int(hx.Seed()))%5]
		if k := kinds[(i/5+i+hx.Shard())%len(kinds)]; (k == "gmhs" || k == "tlshs") && ng > 8 {
			ng = 8
		}
		spec := fmt.Sprintf("%d:%s", ng, kinds[(i/5+i+hx.Shard())%len(kinds)])
		cmd := exec.Command(exe, "-test.run=^$")
		cmd.Env = append(os.Environ(), "C20_CHILD="+spec)
		out, err := cmd.CombinedOutput()
		if err != nil {
			// the output carries the race report (the driver looks for it) or the mismatch
			t.Fatalf("first use of the curve from %s goroutines in a fresh process failed: %v\n%s", spec, err, out)
		}
		R.Case(true, hx.HashKey("first", spec, i), "first_use")
		if i < 3 {
			R.Sample("first_use", spec)
		}
	}
}

// ---------- part C: one server Config and one client Config (+ session cache) serving simultaneous connections

type yieldingReader struct{ r io.Reader }

func (y yieldingReader) Read(p []byte) (int, error) {
	runtime.Gosched()
	n, err := y.r.Read(p)
	runtime.Gosched()
	return n, err
}

// issuedTicket returns the ticket of the NewSessionTicket message the server sent in the clear, if any.
func issuedTicket(log []rgmssl.Chunk) []byte {
	var stream, hs []byte
	for _, c := range log {
		if !c.FromClient {
			stream = append(stream, c.Data...)
		}
	}
	for len(stream) >= 5 {
		n := int(stream[3])<<8 | int(stream[4])
		if len(stream) < 5+n || stream[0] == 20 {
			break
		}
		if stream[0] == 22 {
			hs = append(hs, stream[5:5+n]...)
		}
		stream = stream[5+n:]
	}
	for len(hs) >= 4 {
		n := int(hs[1])<<16 | int(hs[2])<<8 | int(hs[3])
		if len(hs) < 4+n {
			break
		}
		if hs[0] == 4 && n >= 6 {
			return hs[4+6 : 4+n]
		}
		hs = hs[4+n:]
	}
	return nil
}

// Close while a Write of another goroutine is stuck in the transport (the peer has stopped reading): Close must not queue
// up behind that Write - it returns, and the stuck Write comes back with an error. net.Pipe is synchronous, so a 64 KiB
// Write that nobody reads is stuck for good; nothing else runs, so "does not return within 30 s" is a verdict about the
// interlock, not about the machine.
func TestC20_CloseWhileWriteBlocked(t *testing.T) {
	p := tlsx.GetPKI()
	for i, mode := range []string{"gm_cbc", "gm_gcm", "tls"} {
		for _, closer := range []string{"writer_side_close", "writer_side_close_twice"} {
			var cc, sc *gmtls.Config
			id := fmt.Sprint("cwb", i, closer)
			switch mode {
			case "gm_cbc", "gm_gcm":
				cc, sc = tlsx.GMClient(p, "c"+id), tlsx.GMServer(p, "s"+id)
				suite := tlsx.GMECCSM4CBCSM3
				if mode == "gm_gcm" {
					suite = tlsx.GMECCSM4GCMSM3
				}
				cc.CipherSuites, sc.CipherSuites = []uint16{suite}, []uint16{suite}
			default:
				cc, sc = tlsx.TLSClient(p, "c"+id), tlsx.TLSServer(p, p.RSASrv, "s"+id)
			}
			c0, c1 := net.Pipe()
			client, server := gmtls.Client(c0, cc), gmtls.Server(c1, sc)
			var hs sync.WaitGroup
			var e0, e1 error
			hs.Add(2)
			go func() { defer hs.Done(); e0 = client.Handshake() }()
			go func() { defer hs.Done(); e1 = server.Handshake() }()
			if _, hung := hx.TryBounded(60*time.Second, hs.Wait); hung || e0 != nil || e1 != nil {
				t.Fatalf("harness: handshake over net.Pipe failed (%s): hung=%v %v %v", mode, hung, e0, e1)
			}
			// the server never reads again; the client's Write gets stuck in the pipe
			wrote := make(chan error, 1)
			go func() {
				_, err := client.Write(bytes.Repeat([]byte{0x5a}, 64<<10))
				wrote <- err
			}()
			for k := 0; k < 200; k++ {
				runtime.Gosched()
			}
			time.Sleep(20 * time.Millisecond)
			if _, hung := hx.TryBounded(30*time.Second, func() {
				client.Close()
				if closer == "writer_side_close_twice" {
					client.Close()
				}
			}); hung {
				hx.Hang(R, "TestC20_CloseWhileWriteBlocked", fmt.Sprintf("Close does not return while a Write of another goroutine is stuck in the transport (%s)", mode))
			}
			var werr error
			if _, hung := hx.TryBounded(30*time.Second, func() { werr = <-wrote }); hung {
				hx.Hang(R, "TestC20_CloseWhileWriteBlocked", fmt.Sprintf("the stuck Write does not come back after Close (%s)", mode))
			}
			if werr == nil {
				t.Fatalf("a 64 KiB Write that nobody read reported success after Close (%s)", mode)
			}
			c1.Close()
			R.Case(true, hx.HashKey("cwb", mode, closer), "close_while_write_blocked")
		}
	}
}

// keyLog is a plain, unsynchronised io.Writer handed to several Config values as KeyLogWriter: the library promises to
// serialise the writes of all connections ("writerMutex protects all KeyLogWriters globally"), so calls never overlap.
type keyLog struct {
	in, overlap int32
	buf         []byte
}

func (w *keyLog) Write(p []byte) (int, error) {
	if atomic.AddInt32(&w.in, 1) != 1 {
		atomic.StoreInt32(&w.overlap, 1)
	}
	for i := 0; i < 50; i++ { // a writer that takes its time (a file, a pipe): other connections get to run meanwhile
		runtime.Gosched()
	}
	w.buf = append(w.buf, p...)
	atomic.AddInt32(&w.in, -1)
	return len(p), nil
}

var keyLogLine = regexp.MustCompile(`^CLIENT_RANDOM [0-9a-f]{64} [0-9a-f]{96}$`)

func TestC20_SharedConfig(t *testing.T) {
	p := tlsx.GetPKI()
	cn := 0
	hx.Check(t, hx.N(30, 400), func(t *rapid.T) {
		cn++
		mode := rapid.SampledFrom([]string{"gm", "auto", "tls"}).Draw(t, "mode")
		k := []int{2, 3, 4, 8, 12}[gen.Uniform(t, "connections", 5)]
		rotations := rapid.IntRange(0, 6).Draw(t, "rotations")
		warm := rapid.Bool().Draw(t, "warm")
		id := fmt.Sprint("sc", cn)
		var cc, sc *gmtls.Config
		perClient := false
		switch mode {
		case "gm":
			cc, sc = tlsx.GMClient(p, "c"+id), tlsx.GMServer(p, "s"+id)
			sc.CipherSuites = []uint16{tlsx.GMECCSM4CBCSM3, tlsx.GMECCSM4GCMSM3}
		case "auto":
			cc, sc = tlsx.GMClient(p, "c"+id), tlsx.AutoServer(p, p.RSASrv, "s"+id)
			sc.CipherSuites = []uint16{tlsx.GMECCSM4GCMSM3, tlsx.GMECCSM4CBCSM3, 0xc02f}
		default:
			cc, sc = tlsx.TLSClient(p, "c"+id), tlsx.TLSServer(p, p.RSASrv, "s"+id)
			sc.CipherSuites = []uint16{0xc02f, 0xc014}
		}
		if rapid.Bool().Draw(t, "clientauth") {
			sc.ClientAuth, sc.ClientCAs = gmtls.RequireAndVerifyClientCert, p.RootsAll
			if mode == "tls" {
				cc.Certificates = []gmtls.Certificate{p.RSAClient.TLS}
			} else {
				cc.Certificates = []gmtls.Certificate{p.Client.TLS}
			}
		}
		// the certificate chains of the shared server configuration live in slices with room behind them (a chain built by
		// append): that room belongs to the caller and stays as it is
		var chainRoom [][][]byte
		for ci := range sc.Certificates {
			ch := make([][]byte, len(sc.Certificates[ci].Certificate), len(sc.Certificates[ci].Certificate)+3)
			copy(ch, sc.Certificates[ci].Certificate)
			sc.Certificates[ci].Certificate = ch
			chainRoom = append(chainRoom, ch)
		}
		cc.ClientSessionCache = gmtls.NewLRUClientSessionCache(rapid.IntRange(1, 4).Draw(t, "cache"))
		// several cache keys (server addresses): lookups then touch entries that are not at the front of the LRU list
		names := []string{"server:443"}
		if rapid.Bool().Draw(t, "multikey") {
			cc.ServerName, cc.InsecureSkipVerify = "", true
			names = []string{"a:443", "b:443", "c:443"}
		}
		if gen.Uniform(t, "perclientconfig", 3) == 0 {
			// every client gets a configuration of its own from GetConfigForClient - a fresh value that inherits the ticket
			// keys of the shared one at its first use, while the shared one is being rotated
			base := sc
			sc.GetConfigForClient = func(*gmtls.ClientHelloInfo) (*gmtls.Config, error) {
				return &gmtls.Config{GMSupport: base.GMSupport, Certificates: base.Certificates, GetCertificate: base.GetCertificate, GetKECertificate: base.GetKECertificate,
					CipherSuites: base.CipherSuites, ClientAuth: base.ClientAuth, ClientCAs: base.ClientCAs, Rand: base.Rand, Time: base.Time,
					MinVersion: base.MinVersion, MaxVersion: base.MaxVersion, KeyLogWriter: base.KeyLogWriter}, nil
			}
			perClient = true
		}
		keys := [][32]byte{{1, byte(cn)}}
		sc.SetSessionTicketKeys(keys)
		everKeys := append([][32]byte{}, keys...) // every ticket key this server was ever given (written by the rotator only)
		// the server's randomness source yields the processor on every read: other goroutines (the key rotator among
		// them) get to run in the middle of whatever the library is assembling from random bytes
		sc.Rand = yieldingReader{sc.Rand}
		var kl *keyLog
		if gen.Uniform(t, "keylog", 4) != 0 {
			// one key log for the client Config and the server Config (two Config values, one writer)
			kl = &keyLog{}
			cc.KeyLogWriter, sc.KeyLogWriter = kl, kl
		}
		type outcome struct {
			r        *tlsx.Result
			cs, ss   []byte
			panicked *hx.PanicInfo
		}
		outs := make([]outcome, k+3)
		runOne := func(i int) {
			o := &outs[i]
			o.cs, o.ss = fill(uint64(cn*100+i), 100+i*977), fill(uint64(cn*100+i+50), 3000+i*1313)
			o.panicked = hx.Try(func() {
				o.r = tlsx.Run(cc, sc, tlsx.Script{ClientSend: o.cs, ServerSend: o.ss, ClientAddr: fmt.Sprint("client:", i), ServerAddr: names[i%len(names)]})
			})
		}
		if warm {
			for j := range names {
				runOne(k + j)
			}
		}
		var start, done, conns sync.WaitGroup
		start.Add(1)
		for i := 0; i < k; i++ {
			done.Add(1)
			conns.Add(1)
			go func(i int) { defer done.Done(); defer conns.Done(); start.Wait(); runOne(i) }(i)
		}
		if rotations > 0 {
			done.Add(1)
			connsDone := waitCh(&conns)
			go func() {
				defer done.Done()
				start.Wait()
				// rotate for as long as the connections are in flight (at least `rotations` times)
				for j := 0; ; j++ {
					// half of the cases keep every earlier key (the list grows, capped at 12), the others rotate the
					// usual way: [new, previous], a list of constant length
					keys = append([][32]byte{{2, byte(cn), byte(j), byte(j >> 8)}}, keys...)
					everKeys = append(everKeys, keys[0])
					if cn%2 == 0 && len(keys) > 2 {
						keys = keys[:2]
					}
					if len(keys) > 12 {
						keys = keys[:12]
					}
					sc.SetSessionTicketKeys(keys)
					runtime.Gosched()
					if j >= rotations {
						select {
						case <-connsDone:
							return
						default:
						}
					}
				}
			}()
		}
		// meanwhile other goroutines take Clone()s of the live server configuration (as GetConfigForClient callbacks and
		// listeners do) and use them: give the clone keys of its own, read them back through a handshake-free path
		cloneDone := make(chan string, 2)
		connsDone2 := waitCh(&conns)
		for g := 0; g < 2; g++ {
			go func(g int) {
				start.Wait()
				for j := 0; ; j++ {
					cl := sc.Clone()
					cl.SetSessionTicketKeys([][32]byte{{3, byte(g), byte(j)}})
					if cl.CipherSuites == nil || len(cl.CipherSuites) != len(sc.CipherSuites) {
						cloneDone <- "a clone taken while the configuration was in use lost its cipher suite list"
						return
					}
					runtime.Gosched()
					select {
					case <-connsDone2:
						cloneDone <- ""
						return
					default:
					}
				}
			}(g)
		}
		start.Done()
		done.Wait()
		for g := 0; g < 2; g++ {
			var msg string
			if _, hung := hx.TryBounded(60*time.Second, func() { msg = <-cloneDone }); hung {
				hx.Hang(R, "TestC20_SharedConfig", fmt.Sprintf("Clone() / SetSessionTicketKeys on a clone taken from a configuration in use does not return (mode=%s)", mode))
			}
			if msg != "" {
				t.Fatalf("%s (mode=%s)", msg, mode)
			}
		}
		if kl != nil {
			if atomic.LoadInt32(&kl.overlap) != 0 {
				t.Fatalf("two connections wrote to the shared KeyLogWriter at the same time (mode=%s, %d connections)", mode, k)
			}
			lines := strings.Split(strings.TrimSuffix(string(kl.buf), "\n"), "\n")
			for _, l := range lines {
				if !keyLogLine.MatchString(l) {
					t.Fatalf("key log damaged by concurrent connections: line %q (mode=%s, %d connections, %d lines)", l, mode, k, len(lines))
				}
			}
		}
		// every ticket the server issued (NewSessionTicket travels in the clear) is sealed under ONE of the keys the server
		// held at some time: it opens under the set of all of them. A ticket named after one key and sealed under another
		// (assembled across a rotation) opens under none.
		ticketsSeen := 0
		{
			kc := &gmtls.Config{}
			for i := range outs {
				if outs[i].r == nil {
					continue
				}
				tk := issuedTicket(outs[i].r.Log)
				if tk == nil {
					continue
				}
				ticketsSeen++
				opened := false
				for lo := 0; lo < len(everKeys) && !opened; lo += 40 {
					hi := lo + 40
					if hi > len(everKeys) {
						hi = len(everKeys)
					}
					kc.SetSessionTicketKeys(everKeys[lo:hi])
					if ok, _, _, _, _ := gmtls.VerifDecryptTicket(kc, tk); ok {
						opened = true
					}
				}
				if !opened {
					t.Fatalf("connection %d: the server issued a session ticket that opens under none of the %d keys it ever held (mode=%s, %d connections, rotations while they ran)", i, len(everKeys), mode, k)
				}
			}
		}
		var masters [][]byte
		resumed := 0
		for pass := 0; pass < 2; pass++ {
			for i := range outs {
				o := &outs[i]
				if o.r == nil && o.panicked == nil {
					continue
				}
				if pass == 0 {
					if o.panicked != nil {
						t.Fatalf("connection %d of %d sharing one Config panicked: %v\n%s", i, k, o.panicked.Val, o.panicked.Stack)
					}
					r := o.r
					desc := fmt.Sprintf("mode=%s connections=%d rotations=%d warm=%v | connection %d: %s", mode, k, rotations, warm, i, r.Describe())
					if r.Client.Panic != nil || r.Server.Panic != nil {
						t.Fatalf("endpoint panicked\n%s", desc)
					}
					if r.Client.HSErr != nil || r.Server.HSErr != nil {
						t.Fatalf("a connection that succeeds on its own failed when %d connections shared the configuration\n%s", k, desc)
					}
					if !bytes.Equal(r.Server.Received, o.cs) || !bytes.Equal(r.Client.Received, o.ss) {
						t.Fatalf("data of one connection damaged while %d connections shared the configuration\n%s", k, desc)
					}
					if r.Client.State.DidResume != r.Server.State.DidResume {
						t.Fatalf("ends disagree about resumption\n%s", desc)
					}
					if r.Client.State.DidResume {
						resumed++
					}
				}
				if mode == "tls" {
					continue
				}
				// GMSSL: the independent decoder must open every record; a resumed connection under one of the
				// master secrets established by the full handshakes of this case
				r := o.r
				if !r.Client.State.DidResume && pass == 0 {
					d, err := rgmssl.Decode(r.Log, p.SrvEnc.SM2D, nil)
					if err != nil {
						t.Fatalf("independent decoder rejects connection %d (full handshake): %v", i, err)
					}
					masters = append(masters, d.Master)
				}
				if r.Client.State.DidResume && pass == 1 {
					ok := false
					var last error
					for _, m := range masters {
						if _, last = rgmssl.Decode(r.Log, p.SrvEnc.SM2D, m); last == nil {
							ok = true
							break
						}
					}
					if !ok {
						t.Fatalf("resumed connection %d does not decode under any master secret of this history (%d candidates): %v", i, len(masters), last)
					}
				}
			}
		}
		cl := []string{"shared_config_" + map[string]string{"gm": "gm", "auto": "gm", "tls": "tls"}[mode]}
		if len(names) > 1 && warm {
			cl = append(cl, "cache_multikey_warm")
		}
		if rotations > 0 {
			cl = append(cl, "rotation_concurrent")
		}
		if resumed > 0 {
			cl = append(cl, "resumed_concurrently")
		}
		if perClient {
			cl = append(cl, "per_client_configs")
		}
		for ci, ch := range chainRoom {
			for j, e := range ch[:cap(ch)][len(ch):] {
				if e != nil {
					t.Fatalf("the handshakes WROTE into the room behind the shared configuration's certificate chain #%d (slot %d beyond its length %d now holds %d bytes)", ci, j, len(ch), len(e))
				}
			}
		}
		R.Case(true, hx.HashKey("shared", cn, mode, k, rotations, warm, perClient), cl...)
		R.Sample("shared_config", map[string]interface{}{"mode": mode, "connections": k, "rotations": rotations, "resumed": resumed})
	})
}

// ---------- part D: one connection, concurrent readers, writers, observers and Close

type wmsg struct {
	writer, seq, size int
	err               error
	done              bool
}

func msgBytes(dir, w, seq, size int) []byte {
	b := make([]byte, size)
	if size >= 8 {
		copy(b, []byte{0xC2, byte(dir), byte(w), byte(seq), byte(size >> 16), byte(size >> 8), byte(size), 0x2C})
		gen.Fill(b[8:], uint64(dir*1000000+w*1000+seq))
	}
	return b
}

// parseStream checks that s is whole messages of direction dir (each issued at most once, per writer in order) followed
// by at most one strict prefix of another message; returns the whole ones and the partial one.
func parseStream(s []byte, dir int, issued map[[2]int]int, failed map[[2]int]bool) (whole [][2]int, partial *[2]int, err string) {
	next := map[int]int{}
	for len(s) > 0 {
		if len(s) < 8 {
			// too short to identify (CBC 1/n-1 splitting can deliver a single byte of a cut Write): it must be a
			// prefix of the header of some writer's next message; prefer one whose Write did not succeed
			var cand *[2]int
			for k, size := range issued {
				if k[1] == next[k[0]] && bytes.HasPrefix(msgBytes(dir, k[0], k[1], size), s) {
					kk := k
					if failed[k] {
						return whole, &kk, ""
					}
					cand = &kk
				}
			}
			if cand != nil {
				return whole, cand, ""
			}
			return whole, nil, fmt.Sprintf("trailing %d bytes %x belong to no message", len(s), s)
		}
		if s[0] != 0xC2 || s[7] != 0x2C || int(s[1]) != dir {
			return whole, nil, fmt.Sprintf("bytes at a message boundary are not a message header: %x", s[:8])
		}
		k := [2]int{int(s[2]), int(s[3])}
		size := int(s[4])<<16 | int(s[5])<<8 | int(s[6])
		want, ok := issued[k]
		if !ok || want != size {
			return whole, nil, fmt.Sprintf("header names message writer=%d seq=%d size=%d that was never written", k[0], k[1], size)
		}
		full := msgBytes(dir, k[0], k[1], size)
		if k[1] != next[k[0]] {
			return whole, nil, fmt.Sprintf("message writer=%d seq=%d arrived out of order or twice (expected seq %d)", k[0], k[1], next[k[0]])
		}
		if len(s) < size {
			if !bytes.Equal(s, full[:len(s)]) {
				return whole, nil, fmt.Sprintf("partial message writer=%d seq=%d has foreign bytes", k[0], k[1])
			}
			return whole, &k, ""
		}
		if !bytes.Equal(s[:size], full) {
			return whole, nil, fmt.Sprintf("message writer=%d seq=%d (size %d) is not contiguous / has foreign bytes inside", k[0], k[1], size)
		}
		next[k[0]]++
		whole = append(whole, k)
		s = s[size:]
	}
	return whole, nil, ""
}

// partition reports whether the chunks, in some order, concatenate to want (exactly).
func partition(chunks [][]byte, want []byte) bool {
	byLen := map[int]map[string]int{}
	left := 0
	for _, c := range chunks {
		if len(c) == 0 {
			continue
		}
		if byLen[len(c)] == nil {
			byLen[len(c)] = map[string]int{}
		}
		byLen[len(c)][string(c)]++
		left++
	}
	var lens []int
	for l := range byLen {
		lens = append(lens, l)
	}
	sort.Sort(sort.Reverse(sort.IntSlice(lens)))
	steps := 0
	var rec func(pos int) bool
	rec = func(pos int) bool {
		if left == 0 {
			return pos == len(want)
		}
		steps++
		if steps > 2000000 {
			return true // give up (inconclusive) rather than raise an alarm
		}
		for _, l := range lens {
			if pos+l > len(want) {
				continue
			}
			k := string(want[pos : pos+l])
			if byLen[l][k] > 0 {
				byLen[l][k]--
				left--
				if rec(pos + l) {
					return true
				}
				byLen[l][k]++
				left++
			}
		}
		return false
	}
	return rec(0)
}

func sizeGen() *rapid.Generator[int] {
	return rapid.Custom(func(t *rapid.T) int {
		switch gen.Uniform(t, "sizeclass", 5) {
		case 0:
			return rapid.IntRange(8, 64).Draw(t, "small")
		case 1:
			return rapid.IntRange(65, 4000).Draw(t, "medium")
		case 2:
			return 16384 + rapid.IntRange(-40, 40).Draw(t, "record")
		case 3:
			return rapid.IntRange(16385, 70000).Draw(t, "multi")
		}
		return rapid.IntRange(8, 20000).Draw(t, "any")
	})
}

func TestC20_ConnOps(t *testing.T) {
	p := tlsx.GetPKI()
	cn := 0
	hx.Check(t, hx.N(120, 2000), func(t *rapid.T) {
		cn++
		id := fmt.Sprint("co", cn)
		mode := rapid.SampledFrom([]string{"gm_cbc", "gm_gcm", "tls_gcm", "tls_cbc"}).Draw(t, "mode")
		var cc, sc *gmtls.Config
		if strings.HasPrefix(mode, "gm") {
			cc, sc = tlsx.GMClient(p, "c"+id), tlsx.GMServer(p, "s"+id)
			cc.CipherSuites = []uint16{map[string]uint16{"gm_cbc": tlsx.GMECCSM4CBCSM3, "gm_gcm": tlsx.GMECCSM4GCMSM3}[mode]}
		} else {
			cc, sc = tlsx.TLSClient(p, "c"+id), tlsx.TLSServer(p, p.RSASrv, "s"+id)
			cc.CipherSuites = []uint16{map[string]uint16{"tls_gcm": 0xc02f, "tls_cbc": 0xc014}[mode]}
			cc.MinVersion, cc.MaxVersion = 0x0303, 0x0303
		}
		// shape: side 0 = client, side 1 = server
		multiReader := rapid.Bool().Draw(t, "multiReader")
		var nW, nR [2]int
		var closeSide, closeAfter int
		inject := false
		if multiReader {
			// one writer per direction (the stream is then known exactly), several readers, Close at the end
			nW = [2]int{1, rapid.IntRange(0, 1).Draw(t, "w1")}
			nR = [2]int{rapid.IntRange(1, 4).Draw(t, "r0"), rapid.IntRange(2, 4).Draw(t, "r1")}
			closeAfter = -1
		} else {
			nW = [2]int{rapid.IntRange(1, 4).Draw(t, "w0"), rapid.IntRange(0, 3).Draw(t, "w1")}
			nR = [2]int{1, 1}
			closeSide = rapid.IntRange(0, 1).Draw(t, "closeSide")
			closeAfter = rapid.IntRange(-1, 6).Draw(t, "closeAfter") // -1: after every writer has finished
			// a hostile peer: before the Close, a record header announcing more than 2^14+2048 bytes is injected into
			// the inbound stream of the closing side, whose reader then raises a fatal alert while its writers are busy
			inject = closeAfter >= 0 && gen.OneIn(t, "inject", 3)
		}
		observers := rapid.IntRange(0, 2).Draw(t, "observers")
		plans := [2][][]*wmsg{}
		issued := [2]map[[2]int]int{{}, {}}
		for side := 0; side < 2; side++ {
			for w := 0; w < nW[side]; w++ {
				var l []*wmsg
				for s := 0; s < rapid.IntRange(1, 4).Draw(t, "nmsgs"); s++ {
					m := &wmsg{writer: w, seq: s, size: sizeGen().Draw(t, "size")}
					l = append(l, m)
					issued[side][[2]int{w, s}] = m.size
				}
				plans[side] = append(plans[side], l)
			}
		}
		rbuf := func() int {
			return rapid.SampledFrom([]int{1, 7, 100, 1024, 16384, 40000}).Draw(t, "rbuf")
		}
		var rbufs [2][]int
		for side := 0; side < 2; side++ {
			for r := 0; r < nR[side]; r++ {
				rbufs[side] = append(rbufs[side], rbuf())
			}
		}
		desc := fmt.Sprintf("mode=%s writers=%v readers=%v readbufs=%v closeSide=%d closeAfter=%d inject=%v observers=%d", mode, nW, nR, rbufs, closeSide, closeAfter, inject, observers)

		t0 := time.Now()
		defer func() {
			if d := time.Since(t0); d > time.Second && os.Getenv("C20_TIMING") != "" {
				fmt.Printf("SLOW %v %s\n", d, desc)
			}
		}()
		c0, c1 := net.Pipe()
		raws := [2]net.Conn{c0, c1}
		conns := [2]*gmtls.Conn{gmtls.Client(c0, cc), gmtls.Server(c1, sc)}
		var hs sync.WaitGroup
		var hsErr [2]error
		for side := 0; side < 2; side++ {
			hs.Add(1)
			go func(side int) { defer hs.Done(); hsErr[side] = conns[side].Handshake() }(side)
		}
		watchdog(&hs, desc+" (handshake)")
		if hsErr[0] != nil || hsErr[1] != nil {
			t.Fatalf("harness: handshake failed: %v / %v", hsErr[0], hsErr[1])
		}
		st0 := conns[0].ConnectionState()

		var all sync.WaitGroup
		var writersDone, readersDone [2]sync.WaitGroup
		var mu sync.Mutex
		chunks := [2][][][]byte{} // [side][reader] -> chunks in that reader's order
		readErr := [2][]error{}
		var panics []*hx.PanicInfo
		var obsErr []string
		okWrites := make(chan int, 64)
		stop := make(chan struct{})
		guard := func(f func()) {
			if pn := hx.Try(f); pn != nil {
				mu.Lock()
				panics = append(panics, pn)
				mu.Unlock()
				conns[0].Close()
				conns[1].Close()
			}
		}
		var expect [2]int64 // bytes side will receive when every Write of the other side succeeds
		var received [2]int64
		var drainOnce [2]sync.Once
		drained := [2]chan struct{}{make(chan struct{}), make(chan struct{})}
		for side := 0; side < 2; side++ {
			for _, l := range plans[1-side] {
				for _, m := range l {
					expect[side] += int64(m.size)
				}
			}
		}
		for side := 0; side < 2; side++ {
			chunks[side] = make([][][]byte, nR[side])
			readErr[side] = make([]error, nR[side])
			for r := 0; r < nR[side]; r++ {
				all.Add(1)
				readersDone[side].Add(1)
				go func(side, r int) {
					defer all.Done()
					defer readersDone[side].Done()
					guard(func() {
						buf := make([]byte, rbufs[side][r])
						for reads := 0; ; reads++ {
							if reads == 400 && len(buf) < 1024 {
								buf = make([]byte, 16384) // tiny buffers only for the first few thousand calls
							}
							n, err := conns[side].Read(buf)
							if n > 0 {
								chunks[side][r] = append(chunks[side][r], append([]byte{}, buf[:n]...))
								if atomic.AddInt64(&received[side], int64(n)) >= expect[side] {
									drainOnce[side].Do(func() { close(drained[side]) })
								}
							}
							if err != nil {
								readErr[side][r] = err
								return
							}
						}
					})
				}(side, r)
			}
			for w := range plans[side] {
				all.Add(1)
				writersDone[side].Add(1)
				go func(side, w int) {
					defer all.Done()
					defer writersDone[side].Done()
					guard(func() {
						for _, m := range plans[side][w] {
							n, err := conns[side].Write(msgBytes(side, m.writer, m.seq, m.size))
							m.err, m.done = err, true
							if err == nil && n != m.size {
								m.err = fmt.Errorf("short write %d of %d without error", n, m.size)
							}
							if side == closeSide {
								select {
								case okWrites <- 1:
								default:
								}
							}
							if err != nil {
								return
							}
						}
					})
				}(side, w)
			}
		}
		for o := 0; o < observers; o++ {
			all.Add(1)
			go func(o int) {
				defer all.Done()
				guard(func() {
					for i := 0; i < 50; i++ {
						select {
						case <-stop:
							return
						default:
						}
						c := conns[(o+i)%2]
						st := c.ConnectionState()
						if !st.HandshakeComplete || st.Version != st0.Version || st.CipherSuite != st0.CipherSuite {
							mu.Lock()
							obsErr = append(obsErr, fmt.Sprintf("ConnectionState changed while data flows: %+v", st))
							mu.Unlock()
							return
						}
						if err := c.Handshake(); err != nil && i == 0 {
							mu.Lock()
							obsErr = append(obsErr, "Handshake() on an established connection: "+err.Error())
							mu.Unlock()
						}
						runtime.Gosched()
					}
				})
			}(o)
		}
		// the closer
		all.Add(1)
		concurrentClose := false
		go func() {
			defer all.Done()
			guard(func() {
				if closeAfter >= 0 {
					for i := 0; i < closeAfter; i++ {
						select {
						case <-okWrites:
						case <-waitCh(&writersDone[closeSide]):
							i = closeAfter
						}
					}
					concurrentClose = true
					if inject {
						v := st0.Version
						raws[1-closeSide].Write([]byte{23, byte(v >> 8), byte(v), 0x48, 0x01}) // length 18433
						runtime.Gosched()
					}
				} else {
					writersDone[0].Wait()
					writersDone[1].Wait()
					// an orderly end: both applications have read what was sent before anybody closes
					for side := 0; side < 2; side++ {
						if expect[side] > 0 {
							<-drained[side]
						}
					}
				}
				if inject {
					// both readers may already have stopped on the fatal alert; on an unbuffered pipe a close_notify would
					// then wait for a reader that no longer exists, so the transport is cut first (as a reset would)
					raws[closeSide].Close()
				}
				conns[closeSide].Close()
				// the other side finishes its writers (they fail or complete), then closes too
				writersDone[1-closeSide].Wait()
				readersDone[1-closeSide].Wait() // they drain what was delivered, then see the end of the stream
				conns[1-closeSide].Close()
				close(stop)
			})
		}()
		watchdog(&all, desc)
		if len(panics) > 0 {
			t.Fatalf("panic in a connection used by several goroutines: %v\n%s\n%s", panics[0].Val, panics[0].Stack, desc)
		}
		if len(obsErr) > 0 {
			t.Fatalf("%s\n%s", obsErr[0], desc)
		}
		desc += fmt.Sprintf(" | read errors: %v", readErr)
		for side := 0; side < 2; side++ {
			for _, l := range plans[side] {
				for _, m := range l {
					desc += fmt.Sprintf(" | side %d writer %d msg %d size %d done=%v err=%v", side, m.writer, m.seq, m.size, m.done, m.err)
				}
			}
		}
		// judge each direction: bytes written by `side` are read by 1-side
		for side := 0; side < 2; side++ {
			rd := 1 - side
			if nR[rd] == 1 {
				var stream []byte
				for _, c := range chunks[rd][0] {
					stream = append(stream, c...)
				}
				failed := map[[2]int]bool{}
				for _, l := range plans[side] {
					for _, m := range l {
						if !m.done || m.err != nil {
							failed[[2]int{m.writer, m.seq}] = true
						}
					}
				}
				whole, partial, e := parseStream(stream, side, issued[side], failed)
				if e != "" {
					t.Fatalf("what side %d received is not a sequential interleaving of the Write calls of side %d: %s\n%s", rd, side, e, desc)
				}
				got := map[[2]int]bool{}
				for _, k := range whole {
					got[k] = true
				}
				for _, l := range plans[side] {
					for _, m := range l {
						k := [2]int{m.writer, m.seq}
						if m.done && m.err == nil && !got[k] && !(concurrentClose && rd == closeSide) {
							t.Fatalf("Write (writer %d, message %d, %d bytes) returned success but the peer never received it\n%s", m.writer, m.seq, m.size, desc)
						}
						if m.done && m.err != nil && !concurrentClose {
							t.Fatalf("Write failed although nothing was closed: %v\n%s", m.err, desc)
						}
						if partial != nil && *partial == k && m.err == nil && !(concurrentClose && rd == closeSide) {
							t.Fatalf("Write (writer %d, message %d) returned success but was delivered only in part\n%s", m.writer, m.seq, desc)
						}
					}
				}
				if partial != nil && !concurrentClose {
					t.Fatalf("a message arrived only in part although the connection was closed after all writes\n%s", desc)
				}
			} else {
				var want []byte
				for _, l := range plans[side] {
					for _, m := range l {
						want = append(want, msgBytes(side, m.writer, m.seq, m.size)...)
					}
				}
				var flat [][]byte
				total := 0
				for _, rc := range chunks[rd] {
					for _, c := range rc {
						flat = append(flat, c)
						total += len(c)
					}
				}
				if total != len(want) {
					t.Fatalf("%d concurrent readers received %d bytes in total, %d were written\n%s", nR[rd], total, len(want), desc)
				}
				if !partition(flat, want) {
					t.Fatalf("the chunks returned to %d concurrent readers cannot be arranged into the stream that was written (bytes lost, duplicated or torn)\n%s", nR[rd], desc)
				}
			}
		}
		cl := []string{"conn:" + mode}
		if nW[0] > 1 || nW[1] > 1 {
			cl = append(cl, "conn_multi_writer")
		}
		if multiReader {
			cl = append(cl, "conn_multi_reader")
		}
		if concurrentClose {
			cl = append(cl, "conn_close_concurrent")
		}
		if inject {
			cl = append(cl, "conn_hostile_record")
		}
		R.Case(true, hx.HashKey("conn", desc, fmt.Sprint(issued)), cl...)
		R.Sample("conn_ops", desc)
	})
}

func fill(seed uint64, n int) []byte {
	b := make([]byte, n)
	gen.Fill(b, seed)
	return b
}

func waitCh(wg *sync.WaitGroup) chan struct{} {
	ch := make(chan struct{})
	go func() { wg.Wait(); close(ch) }()
	return ch
}

// watchdog waits for wg; if that takes absurdly long the run is declared inconclusive (exit 3 = infrastructure for
// the driver), never a violation: a wall clock is not a correctness oracle.
func watchdog(wg *sync.WaitGroup, desc string) {
	select {
	case <-waitCh(wg):
	case <-time.After(180 * time.Second):
		buf := make([]byte, 1<<20)
		n := runtime.Stack(buf, true)
		fmt.Printf("INCONCLUSIVE: goroutines still blocked after 180 s: %s\n%s\n", desc, buf[:n])
		os.Exit(3)
	}
}

// gateConn holds back the FIRST write of its owner until every connection of the group is about to make its first
// write; then all go at once. Used on the server side: the flights that carry the CertificateRequest reach all clients
// together, so the clients - which share one Config - work through them at the same moment.
type gateConn struct {
	*wire.Conn
	g     *gate
	armed bool
}

type gate struct {
	mu      sync.Mutex
	n, want int
	ch      chan struct{}
}

func (g *gate) wait() {
	g.mu.Lock()
	g.n++
	if g.n == g.want {
		close(g.ch)
	}
	g.mu.Unlock()
	select {
	case <-g.ch:
	case <-time.After(10 * time.Second): // a connection of the group ended before its first write; carry on
	}
}

func (c *gateConn) Write(p []byte) (int, error) {
	if !c.armed {
		c.armed = true
		c.g.wait()
	}
	return c.Conn.Write(p)
}

// Many clients share ONE Config that holds a static client certificate (Certificates, Leaf not set - what the loaders
// return), the servers require client certificates, no session is cached (every handshake is a full one), and the server
// flights are released together. Every handshake must complete with mutual authentication and carry its data intact; the
// race detector watches the shared Config, which the handshakes may read but not write.
func TestC20_ConcurrentClientAuth(t *testing.T) {
	p := tlsx.GetPKI()
	rounds := hx.N(6, 60)
	for round := 0; round < rounds; round++ {
		for _, mode := range []string{"gm", "tls"} {
			k := []int{2, 4, 8}[round%3]
			id := fmt.Sprint("cca", round, mode)
			var cc, sc *gmtls.Config
			if mode == "gm" {
				cc, sc = tlsx.GMClient(p, "c"+id), tlsx.GMServer(p, "s"+id)
				cc.Certificates = []gmtls.Certificate{{Certificate: p.Client.TLS.Certificate, PrivateKey: p.Client.TLS.PrivateKey}}
			} else {
				cc, sc = tlsx.TLSClient(p, "c"+id), tlsx.TLSServer(p, p.RSASrv, "s"+id)
				cc.Certificates = []gmtls.Certificate{{Certificate: p.RSAClient.TLS.Certificate, PrivateKey: p.RSAClient.TLS.PrivateKey}}
			}
			// the system's randomness: no lock of the harness orders the handshakes
			cc.Rand, sc.Rand = nil, nil
			sc.ClientAuth, sc.ClientCAs = gmtls.RequireAndVerifyClientCert, p.RootsAll
			sc.SessionTicketsDisabled = true
			g := &gate{want: k, ch: make(chan struct{})}
			type out struct {
				r      *tlsx.ScriptedResult
				got    []byte
				peerOK bool
			}
			outs := make([]out, k)
			var wg sync.WaitGroup
			for i := 0; i < k; i++ {
				wg.Add(1)
				go func(i int) {
					defer wg.Done()
					o := &outs[i]
					o.r = tlsx.RunClientAgainst(cc, fill(uint64(round*100+i), 500+i*300), func(rw *wire.Conn) error {
						srv := gmtls.Server(&gateConn{Conn: rw, g: g}, sc)
						if err := srv.Handshake(); err != nil {
							return err
						}
						o.peerOK = len(srv.ConnectionState().PeerCertificates) > 0
						if _, err := srv.Write([]byte("welcome")); err != nil {
							return err
						}
						buf := make([]byte, 4096)
						for {
							n, err := srv.Read(buf)
							o.got = append(o.got, buf[:n]...)
							if err != nil {
								break
							}
						}
						return srv.Close()
					})
				}(i)
			}
			wg.Wait()
			for i := range outs {
				o := &outs[i]
				desc := fmt.Sprintf("%s, %d clients sharing one Config with a static client certificate, connection %d: client hs=%v server err=%v", mode, k, i, o.r.GM.HSErr, o.r.PeerErr)
				if o.r.GM.Panic != nil {
					t.Fatalf("client PANICKED: %v\n%s\n%s", o.r.GM.Panic.Val, o.r.GM.Panic.Stack, desc)
				}
				if o.r.PeerPanic != nil {
					t.Fatalf("server PANICKED: %v\n%s\n%s", o.r.PeerPanic.Val, o.r.PeerPanic.Stack, desc)
				}
				if o.r.GM.HSErr != nil || o.r.PeerErr != nil || !o.peerOK {
					t.Fatalf("a mutually authenticated handshake FAILED when run next to others on the same Config (it succeeds alone)\n%s", desc)
				}
				if want := fill(uint64(round*100+i), 500+i*300); !bytes.Equal(o.got, want) || !bytes.Equal(o.r.GM.Received, []byte("welcome")) {
					t.Fatalf("data of a connection was not delivered intact (%d of %d bytes at the server, %q at the client)\n%s", len(o.got), len(want), o.r.GM.Received, desc)
				}
			}
			R.Case(true, hx.HashKey("cca", mode, round), "shared_client_config_client_auth", "cca:"+mode)
		}
	}
}
