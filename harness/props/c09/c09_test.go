//go:build verif

// C09 — issued certificates, CSRs and CRLs parse back to the template and verify only under the issuer.
package c09

import (
	"bytes"
	"crypto"
	"crypto/ecdsa"
	"crypto/elliptic"
	"crypto/rand"
	"crypto/rsa"
	"crypto/sha1"
	"crypto/sha256"
	"crypto/sha512"
	"crypto/x509/pkix"
	"encoding/asn1"
	"fmt"
	"hash"
	"math/big"
	"net"
	"sort"
	"strings"
	"testing"
	"time"

	"github.com/tjfoc/gmsm/sm2"
	gx "github.com/tjfoc/gmsm/x509"
	// every hash the Go ecosystem registers with crypto.RegisterHash is linked into this binary (as it is into many
	// applications): the x509 package's own Hash numbering overlaps crypto.Hash only in part - x509.SM3 is 16, which is
	// crypto.BLAKE2s_256 - and must never be served from that registry
	_ "golang.org/x/crypto/blake2b"
	_ "golang.org/x/crypto/blake2s"
	_ "golang.org/x/crypto/md4"
	_ "golang.org/x/crypto/ripemd160"
	_ "golang.org/x/crypto/sha3"
	"pgregory.net/rapid"

	"verifharness/gen"
	"verifharness/hx"
	"verifharness/ref/rder"
	"verifharness/ref/rsm2"
	"verifharness/sm2x"
)

var R = hx.NewRecorder("C09", "cases = (template over the documented fields, signer type, SignatureAlgorithm) for certificates, CSRs, CRLs and revocation lists, plus single-byte substitutions of the DER output and verification under other keys; "+
	"oracle = field-by-field comparison of the parsed object with the template under the documented normalisations, library signature check, independent signature check on the raw TBS bytes (ref/rsm2 for SM2, crypto/rsa|ecdsa for the others), "+
	"and for mutants: parse error, or verification failure, or TBS and signature value byte-identical; non-trivial = >= 3 optional fields populated, or a mutant that changed TBS/signature; distinct by hash of DER")

var cv = rsm2.Std

func TestMain(m *testing.M) {
	R.Require("crl_number_wide", "reused_unparsed_parent", "cert/sm2/alg_default", "cert/rsa/alg_default", "cert/ecdsa/alg_default", "cert/sm2/SM2-SHA1", "cert/sm2/SM2-SHA256", "csr/sm2/alg_default", "csr/ecdsa/alg_default", "csr/rsa/alg_default",
		"crl/sm2", "revlist/sm2/alg_default", "revlist/sm2/SM2-SHA256", "serial_negative", "extra_ext_override", "mutant_tbs_or_sig", "other_key", "sig_reencoded", "mutant_value_level", "csr_extreq_attr", "issued_under_parsed_ca", "ca_subject:multivalue_rdn", "ca_subject:extra_attr")
	hx.Main(m, R)
}

// ------------------------------------------------------------------ signers

type signer struct {
	kind string // sm2 | rsa | ecdsa
	priv crypto.Signer
	desc string
}

var (
	rsaKey   *rsa.PrivateKey
	rsaKey2  *rsa.PrivateKey
	p256Keys []*ecdsa.PrivateKey
	p384Key  *ecdsa.PrivateKey
)

func initKeys(t testing.TB) {
	if rsaKey != nil {
		return
	}
	var err error
	if rsaKey, err = rsa.GenerateKey(rand.Reader, 2048); err != nil {
		t.Fatal(err)
	}
	if rsaKey2, err = rsa.GenerateKey(rand.Reader, 2048); err != nil {
		t.Fatal(err)
	}
	for i := 0; i < 2; i++ {
		k, _ := ecdsa.GenerateKey(elliptic.P256(), rand.Reader)
		p256Keys = append(p256Keys, k)
	}
	p384Key, _ = ecdsa.GenerateKey(elliptic.P384(), rand.Reader)
}

func signerGen() *rapid.Generator[signer] {
	return rapid.Custom(func(t *rapid.T) signer {
		switch rapid.SampledFrom([]string{"sm2", "sm2", "sm2", "rsa", "ecdsa", "ecdsa384"}).Draw(t, "signerkind") {
		case "sm2":
			k := gen.KeyPair(hx.Root()).Draw(t, "sm2key")
			return signer{"sm2", sm2x.Priv(k), "sm2:" + k.Class}
		case "rsa":
			return signer{"rsa", rsaKey, "rsa2048"}
		case "ecdsa":
			return signer{"ecdsa", p256Keys[0], "p256"}
		default:
			return signer{"ecdsa", p384Key, "p384"}
		}
	})
}

type algChoice struct {
	alg    gx.SignatureAlgorithm
	family string // default | own | mismatch
}

func algGen(kind string) *rapid.Generator[algChoice] {
	own := map[string][]gx.SignatureAlgorithm{
		"sm2":   {gx.SM2WithSM3, gx.SM2WithSHA1, gx.SM2WithSHA256},
		"rsa":   {gx.SHA256WithRSA, gx.SHA384WithRSA, gx.SHA512WithRSA, gx.SHA1WithRSA, gx.SHA256WithRSAPSS, gx.SHA384WithRSAPSS, gx.SHA512WithRSAPSS},
		"ecdsa": {gx.ECDSAWithSHA256, gx.ECDSAWithSHA384, gx.ECDSAWithSHA512, gx.ECDSAWithSHA1},
	}
	return rapid.Custom(func(t *rapid.T) algChoice {
		switch rapid.IntRange(0, 9).Draw(t, "algkind") {
		case 0, 1, 2, 3:
			return algChoice{0, "default"}
		case 9:
			var others []gx.SignatureAlgorithm
			for k, v := range own {
				if k != kind {
					others = append(others, v...)
				}
			}
			sort.Slice(others, func(i, j int) bool { return others[i] < others[j] })
			return algChoice{rapid.SampledFrom(others).Draw(t, "mismatch"), "mismatch"}
		default:
			return algChoice{rapid.SampledFrom(own[kind]).Draw(t, "ownalg"), "own"}
		}
	})
}

// ------------------------------------------------------------------ templates

var oidCN = asn1.ObjectIdentifier{2, 5, 4, 3}

func nameGen() *rapid.Generator[pkix.Name] {
	str := rapid.SampledFrom([]string{"CA", "leaf", "测试证书", "Ünïcode Org", "a", "example.com", "O=x,CN=y", "  spaced  "})
	return rapid.Custom(func(t *rapid.T) pkix.Name {
		var n pkix.Name
		if rapid.Bool().Draw(t, "cn") {
			n.CommonName = str.Draw(t, "cnv")
		}
		if rapid.Bool().Draw(t, "org") {
			n.Organization = rapid.SliceOfN(str, 1, 2).Draw(t, "o")
		}
		if rapid.Bool().Draw(t, "c") {
			n.Country = []string{rapid.SampledFrom([]string{"CN", "US", "DE"}).Draw(t, "cv")}
		}
		if rapid.IntRange(0, 3).Draw(t, "more") == 0 {
			n.OrganizationalUnit = []string{"unit1", "unit2"}
			n.Locality = []string{"Suzhou"}
			n.Province = []string{"Jiangsu"}
			n.StreetAddress = []string{"1 Road"}
			n.PostalCode = []string{"215000"}
			n.SerialNumber = "SN-42"
		}
		if rapid.IntRange(0, 3).Draw(t, "extra") == 0 {
			n.ExtraNames = []pkix.AttributeTypeAndValue{{Type: asn1.ObjectIdentifier{2, 5, 4, 42}, Value: "Given"}, {Type: oidCN, Value: "extra cn"}}
		}
		return n
	})
}

func timeGen() *rapid.Generator[time.Time] {
	return rapid.Custom(func(t *rapid.T) time.Time {
		base := rapid.SampledFrom([]int64{-631152000 /*1950*/, 0, 946684800 /*2000*/, 1600000000, 2524607999 /*2049-12-31 23:59:59*/, 2524608000 /*2050*/, 4102444800 /*2100*/}).Draw(t, "tbase")
		sec := base + int64(rapid.IntRange(0, 86400*400).Draw(t, "toff"))
		ns := int64(0)
		if rapid.IntRange(0, 3).Draw(t, "subsec") == 0 {
			ns = int64(rapid.IntRange(1, 999999999).Draw(t, "ns"))
		}
		tm := time.Unix(sec, ns)
		if rapid.Bool().Draw(t, "zone") {
			return tm.In(time.FixedZone("X", rapid.IntRange(-11, 12).Draw(t, "tz")*3600))
		}
		return tm.UTC()
	})
}

func serialGen() *rapid.Generator[*big.Int] {
	return rapid.Custom(func(t *rapid.T) *big.Int {
		switch rapid.IntRange(0, 6).Draw(t, "serkind") {
		case 0:
			return big.NewInt(1)
		case 1:
			return new(big.Int).Lsh(big.NewInt(1), 159)
		case 2:
			b := rapid.SliceOfN(rapid.Byte(), 20, 20).Draw(t, "ser20")
			b[0] |= 0x80
			return new(big.Int).SetBytes(b)
		case 3:
			return big.NewInt(-int64(rapid.IntRange(1, 1<<30).Draw(t, "neg")))
		case 4:
			return big.NewInt(0)
		default:
			return big.NewInt(int64(rapid.IntRange(2, 1<<40).Draw(t, "ser")))
		}
	})
}

func certTemplate(t *rapid.T) (*gx.Certificate, int) {
	c := &gx.Certificate{SerialNumber: serialGen().Draw(t, "serial"), Subject: nameGen().Draw(t, "subject")}
	c.NotBefore = timeGen().Draw(t, "notBefore")
	c.NotAfter = timeGen().Draw(t, "notAfter")
	opt := 0
	on := func(name string) bool {
		v := rapid.IntRange(0, 2).Draw(t, name) == 0
		if v {
			opt++
		}
		return v
	}
	if on("ku") {
		c.KeyUsage = gx.KeyUsage(rapid.IntRange(1, 511).Draw(t, "kubits"))
	}
	if on("eku") {
		c.ExtKeyUsage = rapid.SliceOfNDistinct(rapid.SampledFrom([]gx.ExtKeyUsage{gx.ExtKeyUsageAny, gx.ExtKeyUsageServerAuth, gx.ExtKeyUsageClientAuth, gx.ExtKeyUsageCodeSigning, gx.ExtKeyUsageOCSPSigning}), 1, 3, func(e gx.ExtKeyUsage) gx.ExtKeyUsage { return e }).Draw(t, "ekus")
		if rapid.Bool().Draw(t, "unk") {
			c.UnknownExtKeyUsage = []asn1.ObjectIdentifier{{1, 2, 3, 4, 5}, {2, 999, 1}}
		}
	}
	if on("bc") {
		c.BasicConstraintsValid = true
		c.IsCA = rapid.Bool().Draw(t, "isca")
		switch rapid.IntRange(0, 3).Draw(t, "mpl") {
		case 0:
			c.MaxPathLen = -1
		case 1:
			c.MaxPathLen = 0
		case 2:
			c.MaxPathLen, c.MaxPathLenZero = 0, true
		default:
			c.MaxPathLen = rapid.IntRange(1, 5).Draw(t, "mplv")
		}
	}
	if on("ski") {
		c.SubjectKeyId = rapid.SliceOfN(rapid.Byte(), 1, 20).Draw(t, "skiv")
	}
	if on("dns") {
		c.DNSNames = rapid.SliceOfN(rapid.SampledFrom([]string{"example.com", "*.example.com", "a.b.c", "xn--fiq228c.cn", "UPPER.Example"}), 1, 3).Draw(t, "dnsv")
	}
	if on("email") {
		c.EmailAddresses = []string{"a@example.com", "b@c.d"}[:rapid.IntRange(1, 2).Draw(t, "nemail")]
	}
	if on("ip") {
		c.IPAddresses = rapid.SliceOfN(rapid.SampledFrom([]net.IP{net.IPv4(10, 0, 0, 1), net.ParseIP("2001:db8::1"), net.IPv4(255, 255, 255, 255).To4(), net.ParseIP("::1")}), 1, 3).Draw(t, "ips")
	}
	if on("nc") {
		c.PermittedDNSDomains = rapid.SliceOfN(rapid.SampledFrom([]string{"example.com", ".example.com", "cn", "sub.example.org"}), 1, 2).Draw(t, "ncv")
		c.PermittedDNSDomainsCritical = rapid.Bool().Draw(t, "nccrit")
	}
	if on("pol") {
		c.PolicyIdentifiers = []asn1.ObjectIdentifier{{1, 2, 156, 10197, 1}, {2, 5, 29, 32, 0}}[:rapid.IntRange(1, 2).Draw(t, "npol")]
	}
	if on("crldp") {
		c.CRLDistributionPoints = []string{"http://crl.example.com/a.crl", "ldap://x/y"}[:rapid.IntRange(1, 2).Draw(t, "ndp")]
	}
	if on("aia") {
		c.OCSPServer = []string{"http://ocsp.example.com"}
		if rapid.Bool().Draw(t, "issuerurl") {
			c.IssuingCertificateURL = []string{"http://ca.example.com/ca.cer", "http://b"}
		}
	}
	if on("extra") {
		c.ExtraExtensions = []pkix.Extension{{Id: asn1.ObjectIdentifier{1, 2, 3, 4, 99}, Critical: rapid.Bool().Draw(t, "xcrit"), Value: rapid.SliceOfN(rapid.Byte(), 0, 12).Draw(t, "xval")}}
		if rapid.Bool().Draw(t, "override") && c.KeyUsage != 0 {
			// an ExtraExtension with the keyUsage OID overrides the KeyUsage field
			v, _ := asn1.Marshal(asn1.BitString{Bytes: []byte{0x06}, BitLength: 7}) // keyCertSign|cRLSign
			c.ExtraExtensions = append(c.ExtraExtensions, pkix.Extension{Id: asn1.ObjectIdentifier{2, 5, 29, 15}, Critical: true, Value: v})
		}
		// "ExtraExtensions ... override any extensions that would otherwise be produced based on the other fields": up to two
		// further id-ce extensions with fixed, well-formed values, whether or not the corresponding field is set
		for _, k := range rapid.SliceOfNDistinct(rapid.IntRange(0, len(overrideCatalogue)-1), 0, 2, func(i int) int { return i }).Draw(t, "overrides") {
			o := overrideCatalogue[k]
			c.ExtraExtensions = append(c.ExtraExtensions, pkix.Extension{Id: o.id, Critical: o.critical, Value: o.value})
		}
	}
	return c, opt
}

// ------------------------------------------------------------------ independent signature check

// splitSigned returns the raw TBS element, and the signature bit string content of a
// SEQUENCE { tbs, algorithm, BIT STRING } without using the library under test.
func splitSigned(der []byte) (tbs, sig []byte, err error) {
	top, err := rder.ReadStrict(der, 0)
	if err != nil || top.Tag != 0x30 || top.HdrLen+top.Len != len(der) {
		return nil, nil, fmt.Errorf("outer: %v", err)
	}
	e1, err := rder.ReadStrict(der, top.HdrLen)
	if err != nil {
		return nil, nil, err
	}
	tbs = der[top.HdrLen : top.HdrLen+e1.HdrLen+e1.Len]
	off := top.HdrLen + e1.HdrLen + e1.Len
	e2, err := rder.ReadStrict(der, off)
	if err != nil {
		return nil, nil, err
	}
	off += e2.HdrLen + e2.Len
	e3, err := rder.ReadStrict(der, off)
	if err != nil || e3.Tag != 0x03 || e3.Len < 1 || der[off+e3.HdrLen] != 0 {
		return nil, nil, fmt.Errorf("sig bitstring")
	}
	return tbs, der[off+e3.HdrLen+1 : off+e3.HdrLen+e3.Len], nil
}

// rawSignedParts splits SEQUENCE{tbs, alg, BIT STRING} with my own reader and returns the TBS element and
// the complete BIT STRING content *including* the unused-bits octet (the signature value as encoded).
func rawSignedParts(der []byte) (tbs, bits []byte, err error) {
	top, err := rder.ReadStrict(der, 0)
	if err != nil || top.Tag != 0x30 {
		return nil, nil, fmt.Errorf("outer")
	}
	e1, err := rder.ReadStrict(der, top.HdrLen)
	if err != nil {
		return nil, nil, err
	}
	tbs = der[top.HdrLen : top.HdrLen+e1.HdrLen+e1.Len]
	off := top.HdrLen + e1.HdrLen + e1.Len
	e2, err := rder.ReadStrict(der, off)
	if err != nil {
		return nil, nil, err
	}
	off += e2.HdrLen + e2.Len
	e3, err := rder.ReadStrict(der, off)
	if err != nil || e3.Tag != 0x03 {
		return nil, nil, fmt.Errorf("bitstring")
	}
	return tbs, der[off+e3.HdrLen : off+e3.HdrLen+e3.Len], nil
}

// sameSignedParts: the mutant leaves TBS and the encoded signature value untouched, judged on the raw
// DER (not on the fields the parser under test filled in). If my reader cannot split the mutant
// (which the library's parser accepted), the parser's own fields are the only witness left.
func sameSignedParts(orig, mut []byte) bool {
	t1, b1, e1 := rawSignedParts(orig)
	t2, b2, e2 := rawSignedParts(mut)
	if e1 != nil || e2 != nil {
		return true
	}
	return bytes.Equal(t1, t2) && bytes.Equal(b1, b2)
}

func hashFor(alg gx.SignatureAlgorithm, s signer) (crypto.Hash, func() hash.Hash) {
	switch alg {
	case gx.SHA1WithRSA, gx.ECDSAWithSHA1:
		return crypto.SHA1, sha1.New
	case gx.SHA384WithRSA, gx.SHA384WithRSAPSS, gx.ECDSAWithSHA384:
		return crypto.SHA384, sha512.New384
	case gx.SHA512WithRSA, gx.SHA512WithRSAPSS, gx.ECDSAWithSHA512:
		return crypto.SHA512, sha512.New
	case 0:
		if k, ok := s.priv.(*ecdsa.PrivateKey); ok && k.Curve == elliptic.P384() {
			return crypto.SHA384, sha512.New384
		}
	}
	return crypto.SHA256, sha256.New
}

func independentVerify(s signer, alg gx.SignatureAlgorithm, der []byte) error {
	tbs, sig, err := splitSigned(der)
	if err != nil {
		return err
	}
	switch k := s.priv.(type) {
	case *sm2.PrivateKey:
		r, ss, err := rder.StrictSig(sig)
		if err != nil {
			return fmt.Errorf("signature not strict DER: %v", err)
		}
		if !cv.Verify(rsm2.FromAffine(k.X, k.Y), rsm2.DefaultUID, tbs, r, ss) {
			return fmt.Errorf("SM2 signature does not verify over SM3(ZA||TBS) with the reference implementation")
		}
	case *rsa.PrivateKey:
		h, nf := hashFor(alg, s)
		d := nf()
		d.Write(tbs)
		if alg == gx.SHA256WithRSAPSS || alg == gx.SHA384WithRSAPSS || alg == gx.SHA512WithRSAPSS {
			return rsa.VerifyPSS(&k.PublicKey, h, d.Sum(nil), sig, &rsa.PSSOptions{SaltLength: rsa.PSSSaltLengthEqualsHash})
		}
		return rsa.VerifyPKCS1v15(&k.PublicKey, h, d.Sum(nil), sig)
	case *ecdsa.PrivateKey:
		_, nf := hashFor(alg, s)
		d := nf()
		d.Write(tbs)
		if !ecdsa.VerifyASN1(&k.PublicKey, d.Sum(nil), sig) {
			return fmt.Errorf("ECDSA signature does not verify with crypto/ecdsa")
		}
	}
	return nil
}

func algLabel(a algChoice) string {
	if a.family == "default" {
		return "alg_default"
	}
	return a.alg.String()
}

// issuerCert returns a parsed self-signed CA certificate for the signer (so CheckSignatureFrom is
// allowed to use it). SM2 subject keys only (CreateCertificate's signature): for RSA/ECDSA signers
// the "issuer" object is built by hand around the public key.
func issuerFor(t *rapid.T, s signer) *gx.Certificate {
	iss := &gx.Certificate{Version: 3, BasicConstraintsValid: true, IsCA: true, KeyUsage: gx.KeyUsageCertSign | gx.KeyUsageCRLSign,
		Subject: pkix.Name{CommonName: "issuer " + s.desc, Organization: []string{"verif"}}, SubjectKeyId: []byte{1, 2, 3, 4}}
	switch k := s.priv.(type) {
	case *sm2.PrivateKey:
		iss.PublicKey = &ecdsa.PublicKey{Curve: k.Curve, X: k.X, Y: k.Y}
		iss.PublicKeyAlgorithm = gx.ECDSA
	case *rsa.PrivateKey:
		iss.PublicKey = &k.PublicKey
		iss.PublicKeyAlgorithm = gx.RSA
	case *ecdsa.PrivateKey:
		iss.PublicKey = &k.PublicKey
		iss.PublicKeyAlgorithm = gx.ECDSA
	}
	return iss
}

func otherIssuer(t *rapid.T, s signer) *gx.Certificate {
	var o signer
	switch s.kind {
	case "sm2":
		k := gen.KeyPair(hx.Root()).Draw(t, "otherkey")
		if k.D.Cmp(s.priv.(*sm2.PrivateKey).D) == 0 {
			k = gen.Key{D: big.NewInt(77), Pub: cv.BaseMul(big.NewInt(77))}
		}
		o = signer{"sm2", sm2x.Priv(k), "other"}
	case "rsa":
		o = signer{"rsa", rsaKey2, "other"}
	default:
		o = signer{"ecdsa", p256Keys[1], "other"}
		if s.priv.(*ecdsa.PrivateKey) == p256Keys[1] {
			o = signer{"ecdsa", p256Keys[0], "other"}
		}
	}
	if rapid.IntRange(0, 3).Draw(t, "otherfamily") == 0 && s.kind != "ecdsa" {
		o = signer{"ecdsa", p256Keys[0], "otherfamily"}
	}
	return issuerFor(t, o)
}

// overrideCatalogue: id-ce extensions handed over through ExtraExtensions, and what the issued certificate must then say
// in place of the template field of the same extension.
var overrideCatalogue = []struct {
	name     string
	id       asn1.ObjectIdentifier
	critical bool
	value    []byte
	apply    func(want *gx.Certificate)
}{
	{"ski", asn1.ObjectIdentifier{2, 5, 29, 14}, false, []byte{0x04, 0x03, 9, 9, 9}, func(w *gx.Certificate) { w.SubjectKeyId = []byte{9, 9, 9} }},
	{"aki", asn1.ObjectIdentifier{2, 5, 29, 35}, false, []byte{0x30, 0x04, 0x80, 0x02, 7, 7}, func(w *gx.Certificate) { w.AuthorityKeyId = []byte{7, 7} }},
	{"bc", asn1.ObjectIdentifier{2, 5, 29, 19}, true, []byte{0x30, 0x06, 0x01, 0x01, 0xff, 0x02, 0x01, 0x03}, func(w *gx.Certificate) {
		w.BasicConstraintsValid, w.IsCA, w.MaxPathLen, w.MaxPathLenZero = true, true, 3, false
	}},
	{"eku", asn1.ObjectIdentifier{2, 5, 29, 37}, false, []byte{0x30, 0x0a, 0x06, 0x08, 0x2b, 0x06, 0x01, 0x05, 0x05, 0x07, 0x03, 0x02}, func(w *gx.Certificate) {
		w.ExtKeyUsage, w.UnknownExtKeyUsage = []gx.ExtKeyUsage{gx.ExtKeyUsageClientAuth}, nil
	}},
	{"san", asn1.ObjectIdentifier{2, 5, 29, 17}, false, append([]byte{0x30, 0x12, 0x82, 0x10}, "override.example"...), func(w *gx.Certificate) {
		w.DNSNames, w.EmailAddresses, w.IPAddresses = []string{"override.example"}, nil, nil
	}},
	{"pol", asn1.ObjectIdentifier{2, 5, 29, 32}, false, []byte{0x30, 0x06, 0x30, 0x04, 0x06, 0x02, 0x2a, 0x03}, func(w *gx.Certificate) {
		w.PolicyIdentifiers = []asn1.ObjectIdentifier{{1, 2, 3}}
	}},
}

func eqStrs(a, b []string) bool { return strings.Join(a, "\x00") == strings.Join(b, "\x00") && len(a) == len(b) }

func compareCert(t *rapid.T, tpl, iss, got *gx.Certificate, subj *sm2.PublicKey) {
	f := func(format string, a ...any) { t.Fatalf("parsed certificate differs from template: "+format, a...) }
	// what the template asks for, with the fields that an ExtraExtension of the same OID replaces
	{
		w := *tpl
		w.AuthorityKeyId = nil
		for _, e := range tpl.ExtraExtensions {
			for _, o := range overrideCatalogue {
				if e.Id.Equal(o.id) {
					o.apply(&w)
					R.Class("extra_overrides:" + o.name)
				}
			}
		}
		tpl = &w
	}
	seen := map[string]bool{}
	for _, e := range got.Extensions {
		if seen[e.Id.String()] {
			f("extension %v appears twice in the issued certificate", e.Id)
		}
		seen[e.Id.String()] = true
	}
	if got.SerialNumber.Cmp(tpl.SerialNumber) != 0 {
		f("serial %v want %v", got.SerialNumber, tpl.SerialNumber)
	}
	wantSubj, _ := asn1.Marshal(tpl.Subject.ToRDNSequence())
	if !bytes.Equal(got.RawSubject, wantSubj) {
		f("subject DER %x want %x", got.RawSubject, wantSubj)
	}
	wantIss, _ := asn1.Marshal(iss.Subject.ToRDNSequence())
	if !bytes.Equal(got.RawIssuer, wantIss) {
		f("issuer DER %x want %x", got.RawIssuer, wantIss)
	}
	if got.Subject.CommonName != effectiveCN(tpl.Subject) {
		f("subject CN %q want %q", got.Subject.CommonName, effectiveCN(tpl.Subject))
	}
	if !got.NotBefore.Equal(tpl.NotBefore.UTC().Truncate(time.Second)) || !got.NotAfter.Equal(tpl.NotAfter.UTC().Truncate(time.Second)) {
		f("validity %v..%v want %v..%v", got.NotBefore, got.NotAfter, tpl.NotBefore.UTC().Truncate(time.Second), tpl.NotAfter.UTC().Truncate(time.Second))
	}
	if got.Version != 3 {
		f("version %d", got.Version)
	}
	pk, ok := got.PublicKey.(*ecdsa.PublicKey)
	if !ok || pk.X.Cmp(subj.X) != 0 || pk.Y.Cmp(subj.Y) != 0 {
		f("public key %T", got.PublicKey)
	}
	overrideKU := false
	for _, e := range tpl.ExtraExtensions {
		if e.Id.Equal(asn1.ObjectIdentifier{2, 5, 29, 15}) {
			overrideKU = true
		}
	}
	if overrideKU {
		if got.KeyUsage != gx.KeyUsageCertSign|gx.KeyUsageCRLSign {
			f("ExtraExtensions keyUsage override not honoured: %v", got.KeyUsage)
		}
	} else if got.KeyUsage != tpl.KeyUsage {
		f("KeyUsage %v want %v", got.KeyUsage, tpl.KeyUsage)
	}
	if fmt.Sprint(got.ExtKeyUsage) != fmt.Sprint(tpl.ExtKeyUsage) && !(len(got.ExtKeyUsage) == 0 && len(tpl.ExtKeyUsage) == 0) {
		f("ExtKeyUsage %v want %v", got.ExtKeyUsage, tpl.ExtKeyUsage)
	}
	if fmt.Sprint(got.UnknownExtKeyUsage) != fmt.Sprint(tpl.UnknownExtKeyUsage) && !(len(got.UnknownExtKeyUsage) == 0 && len(tpl.UnknownExtKeyUsage) == 0) {
		f("UnknownExtKeyUsage %v want %v", got.UnknownExtKeyUsage, tpl.UnknownExtKeyUsage)
	}
	if got.BasicConstraintsValid != tpl.BasicConstraintsValid {
		f("BasicConstraintsValid %v", got.BasicConstraintsValid)
	}
	if tpl.BasicConstraintsValid {
		if got.IsCA != tpl.IsCA {
			f("IsCA %v", got.IsCA)
		}
		wantMPL := tpl.MaxPathLen
		if tpl.MaxPathLen == 0 && !tpl.MaxPathLenZero {
			wantMPL = -1
		}
		if got.MaxPathLen != wantMPL || got.MaxPathLenZero != (wantMPL == 0) {
			f("MaxPathLen %d/%v want %d", got.MaxPathLen, got.MaxPathLenZero, wantMPL)
		}
	}
	if !bytes.Equal(got.SubjectKeyId, tpl.SubjectKeyId) {
		f("SubjectKeyId %x want %x", got.SubjectKeyId, tpl.SubjectKeyId)
	}
	if tpl.AuthorityKeyId != nil {
		if !bytes.Equal(got.AuthorityKeyId, tpl.AuthorityKeyId) {
			f("AuthorityKeyId %x want the ExtraExtensions value %x", got.AuthorityKeyId, tpl.AuthorityKeyId)
		}
	} else if !bytes.Equal(wantIss, wantSubj) && !bytes.Equal(got.AuthorityKeyId, iss.SubjectKeyId) {
		f("AuthorityKeyId %x want issuer SKI %x", got.AuthorityKeyId, iss.SubjectKeyId)
	}
	if !eqStrs(got.DNSNames, tpl.DNSNames) || !eqStrs(got.EmailAddresses, tpl.EmailAddresses) {
		f("SAN dns %v email %v", got.DNSNames, got.EmailAddresses)
	}
	if len(got.IPAddresses) != len(tpl.IPAddresses) {
		f("IP SAN count %d want %d", len(got.IPAddresses), len(tpl.IPAddresses))
	}
	for i := range tpl.IPAddresses {
		if !got.IPAddresses[i].Equal(tpl.IPAddresses[i]) {
			f("IP SAN %v want %v", got.IPAddresses[i], tpl.IPAddresses[i])
		}
		if tpl.IPAddresses[i].To4() != nil && len(got.IPAddresses[i]) != 4 {
			f("IPv4 SAN not encoded in 4 bytes")
		}
	}
	if !eqStrs(got.PermittedDNSDomains, tpl.PermittedDNSDomains) {
		f("name constraints %v", got.PermittedDNSDomains)
	}
	if len(tpl.PermittedDNSDomains) > 0 {
		// criticality is compared on the encoded extension (the parser of this x509 generation does
		// not fill the PermittedDNSDomainsCritical convenience field; that is not demanded here)
		found := false
		for _, e := range got.Extensions {
			if e.Id.Equal(asn1.ObjectIdentifier{2, 5, 29, 30}) {
				found = true
				if e.Critical != tpl.PermittedDNSDomainsCritical {
					f("name constraints criticality %v want %v", e.Critical, tpl.PermittedDNSDomainsCritical)
				}
			}
		}
		if !found {
			f("name constraints extension missing")
		}
	}
	if fmt.Sprint(got.PolicyIdentifiers) != fmt.Sprint(tpl.PolicyIdentifiers) && len(tpl.PolicyIdentifiers)+len(got.PolicyIdentifiers) > 0 {
		f("policies %v", got.PolicyIdentifiers)
	}
	if !eqStrs(got.CRLDistributionPoints, tpl.CRLDistributionPoints) || !eqStrs(got.OCSPServer, tpl.OCSPServer) || !eqStrs(got.IssuingCertificateURL, tpl.IssuingCertificateURL) {
		f("CRL DP / AIA: %v %v %v", got.CRLDistributionPoints, got.OCSPServer, got.IssuingCertificateURL)
	}
	for _, e := range tpl.ExtraExtensions {
		found := false
		for _, g := range got.Extensions {
			if g.Id.Equal(e.Id) && g.Critical == e.Critical && bytes.Equal(g.Value, e.Value) {
				found = true
			}
		}
		if !found {
			f("extra extension %v missing", e.Id)
		}
	}
}

func effectiveCN(n pkix.Name) string {
	// FillFromRDNSequence keeps the last CN it sees; ToRDNSequence emits ExtraNames last-ish.
	rdn := n.ToRDNSequence()
	cn := ""
	for _, set := range rdn {
		for _, atv := range set {
			if atv.Type.Equal(oidCN) {
				if s, ok := atv.Value.(string); ok {
					cn = s
				}
			}
		}
	}
	return cn
}

// mutate applies single-byte substitutions to der and checks the fail-closed relation.
// sigReencodings: encodings of an ECDSA/SM2 signature value that carry the same r and s (or s + group order) but are not
// the DER SEQUENCE of two minimal INTEGERs that was signed out.
func sigReencodings(sig []byte, sm2curve bool) map[string][]byte {
	out := map[string][]byte{}
	if len(sig) < 8 || sig[0] != 0x30 || int(sig[1]) != len(sig)-2 || sig[1] >= 0x7b {
		return out
	}
	body := append([]byte{}, sig[2:]...)
	out["trailing byte"] = append(append([]byte{}, sig...), 0)
	third := append(append([]byte{}, body...), 0x02, 0x01, 0x01)
	out["third INTEGER inside the SEQUENCE"] = append([]byte{0x30, byte(len(third))}, third...)
	out["long-form length"] = append([]byte{0x30, 0x81, byte(len(body))}, body...)
	rl := int(body[1])
	if body[2] < 0x80 && body[2] != 0 {
		nb := append([]byte{0x02, byte(rl + 1), 0x00}, body[2:]...)
		out["r with a redundant leading zero"] = append([]byte{0x30, byte(len(nb))}, nb...)
	}
	if sm2curve {
		// s + n
		so := 2 + rl
		sl := int(body[so+1])
		sv := new(big.Int).SetBytes(body[so+2 : so+2+sl])
		sv.Add(sv, cv.N)
		sb := sv.Bytes()
		if sb[0] >= 0x80 {
			sb = append([]byte{0}, sb...)
		}
		nb := append(append([]byte{}, body[:so]...), 0x02, byte(len(sb)))
		nb = append(nb, sb...)
		out["s replaced by s + n"] = append([]byte{0x30, byte(len(nb))}, nb...)
	}
	return out
}

func mutate(t *rapid.T, der []byte, n int, origTBS, origSig []byte, kindTag string, verify func(mut []byte) (tbs, sig []byte, parseErr, sigErr error)) {
	for i := 0; i < n; i++ {
		pos := rapid.IntRange(0, len(der)-1).Draw(t, "mpos")
		if i == 0 {
			// always aim one mutant at the signature BIT STRING's unused-bits octet / header
			if tb, bits, err := rawSignedParts(der); err == nil && len(bits) > 0 {
				_ = tb
				pos = len(der) - len(bits) - rapid.IntRange(0, 2).Draw(t, "hdrback")
				if pos < 0 {
					pos = 0
				}
			}
		}
		b := der[pos]
		nb := rapid.SampledFrom([]byte{0x00, 0x01, 0x02, 0x07, 0x7f, 0x80, 0xff, b ^ 1, b ^ 0x80}).Draw(t, "mval")
		if nb == b {
			nb = b ^ 0x10
		}
		mut := append([]byte{}, der...)
		mut[pos] = nb
		var tbs, sig []byte
		var perr, serr error
		if p := hx.Try(func() { tbs, sig, perr, serr = verify(mut) }); p != nil {
			t.Fatalf("%s: parse/verify of a mutated object panicked (byte %d: %#x -> %#x): %v\n%s", kindTag, pos, b, nb, p.Val, p.Stack)
		}
		switch {
		case perr != nil:
			R.Case(false, 0, "mutant_parse_error")
		case serr != nil:
			R.Case(true, hx.HashKey(kindTag, mut), "mutant_tbs_or_sig")
		case bytes.Equal(tbs, origTBS) && bytes.Equal(sig, origSig) && sameSignedParts(der, mut):
			R.Case(false, 0, "mutant_outside_signed_region")
		default:
			t.Fatalf("%s: after changing byte %d (%#x -> %#x) the object still parses AND verifies although TBS or signature differ\n orig %x\n mut  %x", kindTag, pos, b, nb, der, mut)
		}
	}
	// value-level mutants: one TLV gets another (well-formed) value and every enclosing length is re-encoded
	vm := gen.DERConsistent(der, 300)
	for k := 0; k < 6 && len(vm) > 0; k++ {
		m := vm[rapid.IntRange(0, len(vm)-1).Draw(t, "valuemutant")]
		var tbs, sig []byte
		var perr, serr error
		if p := hx.Try(func() { tbs, sig, perr, serr = verify(m.Data) }); p != nil {
			t.Fatalf("%s: parse/verify of a value-mutated object (%s) panicked: %v\n%s", kindTag, m.Note, p.Val, p.Stack)
		}
		switch {
		case perr != nil:
			R.Case(false, 0, "mutant_parse_error")
		case serr != nil:
			R.Case(true, hx.HashKey(kindTag, m.Data), "mutant_tbs_or_sig", "mutant_value_level")
		case bytes.Equal(tbs, origTBS) && bytes.Equal(sig, origSig) && sameSignedParts(der, m.Data):
			R.Case(false, 0, "mutant_outside_signed_region")
		default:
			t.Fatalf("%s: after a value-level change (%s) the object still parses AND verifies although TBS or signature differ\n orig %x\n mut  %x", kindTag, m.Note, der, m.Data)
		}
	}
}

func TestC09_Certificates(t *testing.T) {
	initKeys(t)
	hx.Check(t, hx.N(350, 5000), func(t *rapid.T) {
		s := signerGen().Draw(t, "signer")
		a := algGen(s.kind).Draw(t, "alg")
		tpl, opt := certTemplate(t)
		tpl.SignatureAlgorithm = a.alg
		subjKey := gen.KeyPair(hx.Root()).Draw(t, "subjectkey")
		subj := sm2x.Pub(subjKey.Pub)
		iss := issuerFor(t, s)
		self := s.kind == "sm2" && rapid.IntRange(0, 3).Draw(t, "selfsigned") == 0
		parent := iss
		if self {
			parent = tpl
			sp := s.priv.(*sm2.PrivateKey)
			subj = &sp.PublicKey
			iss = issuerFor(t, s)
			iss.Subject = tpl.Subject
		}
		tplCopy := *tpl
		var der []byte
		var err error
		if p := hx.Try(func() { der, err = gx.CreateCertificate(&tplCopy, parent, subj, s.priv) }); p != nil {
			t.Fatalf("CreateCertificate panicked (%s %s): %v\n%s", s.desc, algLabel(a), p.Val, p.Stack)
		}
		label := "cert/" + s.kind + "/" + algLabel(a)
		if a.family == "mismatch" {
			// outside the property's domain: only "no panic" (and if an object comes out it must parse or fail cleanly)
			if err == nil {
				hx.Try(func() { gx.ParseCertificate(der) })
			}
			R.Case(true, hx.HashKey("mismatch", s.kind, a.alg), "cert/mismatch_family")
			return
		}
		if err != nil {
			// template not accepted: fine, unless it is the plain default/own-family path with a sane template
			R.Case(false, 0, "cert_template_rejected")
			t.Logf("template rejected: %v", err)
			if !strings.Contains(err.Error(), "PSS") && !strings.Contains(err.Error(), "too short") && !strings.Contains(err.Error(), "too long") {
				t.Fatalf("CreateCertificate rejected a valid template (%s): %v", label, err)
			}
			return
		}
		got, err := gx.ParseCertificate(der)
		if err != nil {
			t.Fatalf("ParseCertificate of CreateCertificate output failed (%s): %v\n%x", label, err, der)
		}
		if self {
			iss.Subject = tpl.Subject
		}
		compareCert(t, tpl, iss, got, subj)
		// signature: library and independent
		if err := iss.CheckSignature(got.SignatureAlgorithm, got.RawTBSCertificate, got.Signature); err != nil {
			t.Fatalf("%s: certificate does not verify under its issuer's key: %v", label, err)
		}
		if err := got.CheckSignatureFrom(iss); err != nil {
			t.Fatalf("%s: CheckSignatureFrom(issuer): %v", label, err)
		}
		if err := independentVerify(s, a.alg, der); err != nil {
			t.Fatalf("%s: independent verification of the issued certificate failed: %v", label, err)
		}
		tbs, sig, _ := splitSigned(der)
		if !bytes.Equal(tbs, got.RawTBSCertificate) || !bytes.Equal(sig, got.Signature) {
			t.Fatalf("RawTBSCertificate/Signature differ from the DER")
		}
		// other key
		oth := otherIssuer(t, s)
		if err := oth.CheckSignature(got.SignatureAlgorithm, got.RawTBSCertificate, got.Signature); err == nil {
			t.Fatalf("%s: certificate ALSO verifies under an unrelated key", label)
		}
		R.Class("other_key")
		// the same (r, s) in another encoding, or (r, s+n): a changed signature value must not verify
		if s.kind != "rsa" {
			for name, v := range sigReencodings(got.Signature, s.kind == "sm2") {
				if err := iss.CheckSignature(got.SignatureAlgorithm, got.RawTBSCertificate, v); err == nil {
					t.Fatalf("%s: the certificate still verifies after its signature value was re-encoded (%s): %x -> %x", label, name, got.Signature, v)
				}
			}
			R.Class("sig_reencoded")
		}
		cl := []string{label}
		if tpl.SerialNumber.Sign() < 0 {
			cl = append(cl, "serial_negative")
		}
		for _, e := range tpl.ExtraExtensions {
			if e.Id.Equal(asn1.ObjectIdentifier{2, 5, 29, 15}) {
				cl = append(cl, "extra_ext_override")
			}
		}
		R.Case(opt >= 3, hx.HashKey(der), cl...)
		R.Sample("cert", map[string]interface{}{"signer": s.desc, "alg": algLabel(a), "optional_fields": opt, "len": len(der)})
		// byte mutants
		nm := 12
		if s.kind == "rsa" {
			nm = 6
		}
		mutate(t, der, nm, tbs, sig, label, func(mut []byte) ([]byte, []byte, error, error) {
			c, err := gx.ParseCertificate(mut)
			if err != nil {
				return nil, nil, err, nil
			}
			return c.RawTBSCertificate, c.Signature, nil, iss.CheckSignature(c.SignatureAlgorithm, c.RawTBSCertificate, c.Signature)
		})
	})
}

func TestC09_CSR(t *testing.T) {
	initKeys(t)
	hx.Check(t, hx.N(250, 4000), func(t *rapid.T) {
		s := signerGen().Draw(t, "signer")
		a := algGen(s.kind).Draw(t, "alg")
		tpl := &gx.CertificateRequest{Subject: nameGen().Draw(t, "subject"), SignatureAlgorithm: a.alg}
		opt := 0
		if rapid.Bool().Draw(t, "dns") {
			tpl.DNSNames = []string{"csr.example.com", "b.example"}
			opt++
		}
		if rapid.Bool().Draw(t, "email") {
			tpl.EmailAddresses = []string{"x@y.z"}
			opt++
		}
		if rapid.Bool().Draw(t, "ip") {
			tpl.IPAddresses = []net.IP{net.IPv4(192, 168, 1, 1).To4(), net.ParseIP("fe80::1")}
			opt++
		}
		if rapid.Bool().Draw(t, "extra") {
			tpl.ExtraExtensions = []pkix.Extension{{Id: asn1.ObjectIdentifier{1, 2, 3, 4, 77}, Value: []byte{5, 0}}}
			opt++
		}
		if rapid.Bool().Draw(t, "attrs") {
			tpl.Attributes = []pkix.AttributeTypeAndValueSET{{Type: asn1.ObjectIdentifier{1, 2, 840, 113549, 1, 9, 7}, Value: [][]pkix.AttributeTypeAndValue{{{Type: asn1.ObjectIdentifier{1, 2, 840, 113549, 1, 9, 7}, Value: "challenge"}}}}}
			opt++
		}
		var attrExt *pkix.Extension
		if rapid.Bool().Draw(t, "extreq_attr") {
			// the caller already placed an extensionRequest attribute (with one extension of its own) among the
			// attributes: the SANs and ExtraExtensions of the template must be merged into it, not lost
			attrExt = &pkix.Extension{Id: asn1.ObjectIdentifier{1, 2, 3, 4, 88}, Value: []byte{4, 1, 7}}
			tpl.Attributes = append(tpl.Attributes, pkix.AttributeTypeAndValueSET{Type: asn1.ObjectIdentifier{1, 2, 840, 113549, 1, 9, 14},
				Value: [][]pkix.AttributeTypeAndValue{{{Type: attrExt.Id, Value: attrExt.Value}}}})
			opt++
		}
		var der []byte
		var err error
		if p := hx.Try(func() { der, err = gx.CreateCertificateRequest(rand.Reader, tpl, s.priv) }); p != nil {
			t.Fatalf("CreateCertificateRequest panicked: %v\n%s", p.Val, p.Stack)
		}
		label := "csr/" + s.kind + "/" + algLabel(a)
		if a.family == "mismatch" {
			if err == nil {
				hx.Try(func() { gx.ParseCertificateRequest(der) })
			}
			R.Case(true, hx.HashKey("csrmismatch", s.kind, a.alg), "csr/mismatch_family")
			return
		}
		if err != nil {
			if strings.Contains(err.Error(), "PSS") || strings.Contains(err.Error(), "too short") {
				return
			}
			t.Fatalf("CreateCertificateRequest rejected a valid template (%s): %v", label, err)
		}
		got, err := gx.ParseCertificateRequest(der)
		if err != nil {
			t.Fatalf("ParseCertificateRequest of created CSR failed (%s): %v", label, err)
		}
		if err := got.CheckSignature(); err != nil {
			t.Fatalf("%s: CSR fails its own signature check: %v", label, err)
		}
		if err := independentVerify(s, a.alg, der); err != nil {
			t.Fatalf("%s: independent verification of CSR failed: %v", label, err)
		}
		wantSubj, _ := asn1.Marshal(tpl.Subject.ToRDNSequence())
		if !bytes.Equal(got.RawSubject, wantSubj) {
			t.Fatalf("CSR subject differs")
		}
		if !eqStrs(got.DNSNames, tpl.DNSNames) || !eqStrs(got.EmailAddresses, tpl.EmailAddresses) || len(got.IPAddresses) != len(tpl.IPAddresses) {
			t.Fatalf("CSR SANs differ: %v %v %v", got.DNSNames, got.EmailAddresses, got.IPAddresses)
		}
		for i := range tpl.IPAddresses {
			if !got.IPAddresses[i].Equal(tpl.IPAddresses[i]) {
				t.Fatalf("CSR IP SAN differs")
			}
		}
		for _, e := range tpl.ExtraExtensions {
			found := false
			for _, g := range got.Extensions {
				if g.Id.Equal(e.Id) && bytes.Equal(g.Value, e.Value) {
					found = true
				}
			}
			if !found {
				t.Fatalf("CSR extra extension missing")
			}
		}
		if attrExt != nil {
			found := false
			for _, g := range got.Extensions {
				if g.Id.Equal(attrExt.Id) {
					found = true
				}
			}
			if !found {
				t.Fatalf("%s: the extension the caller put into an extensionRequest attribute is missing from the parsed CSR", label)
			}
			R.Class("csr_extreq_attr")
		}
		// public key in the CSR is the signer's
		switch k := s.priv.(type) {
		case *sm2.PrivateKey:
			pk, ok := got.PublicKey.(*ecdsa.PublicKey)
			if !ok || pk.X.Cmp(k.X) != 0 {
				t.Fatalf("CSR public key %T", got.PublicKey)
			}
		case *rsa.PrivateKey:
			pk, ok := got.PublicKey.(*rsa.PublicKey)
			if !ok || pk.N.Cmp(k.N) != 0 {
				t.Fatalf("CSR public key %T", got.PublicKey)
			}
		}
		oth := otherIssuer(t, s)
		if err := oth.CheckSignature(got.SignatureAlgorithm, got.RawTBSCertificateRequest, got.Signature); err == nil {
			t.Fatalf("%s: CSR verifies under an unrelated key", label)
		}
		tbs, sig, _ := splitSigned(der)
		R.Case(opt >= 3, hx.HashKey(der), label)
		R.Sample("csr", map[string]interface{}{"signer": s.desc, "alg": algLabel(a), "len": len(der)})
		mutate(t, der, 8, tbs, sig, label, func(mut []byte) ([]byte, []byte, error, error) {
			c, err := gx.ParseCertificateRequest(mut)
			if err != nil {
				return nil, nil, err, nil
			}
			return c.RawTBSCertificateRequest, c.Signature, nil, c.CheckSignature()
		})
	})
}

func revokedGen() *rapid.Generator[[]pkix.RevokedCertificate] {
	return rapid.Custom(func(t *rapid.T) []pkix.RevokedCertificate {
		n := rapid.IntRange(0, 4).Draw(t, "nrev")
		var out []pkix.RevokedCertificate
		for i := 0; i < n; i++ {
			out = append(out, pkix.RevokedCertificate{SerialNumber: serialGen().Draw(t, "rser"), RevocationTime: timeGen().Draw(t, "rtime")})
		}
		return out
	})
}

func TestC09_CRLs(t *testing.T) {
	initKeys(t)
	hx.Check(t, hx.N(250, 4000), func(t *rapid.T) {
		s := signerGen().Draw(t, "signer")
		iss := issuerFor(t, s)
		revoked := revokedGen().Draw(t, "revoked")
		now := timeGen().Draw(t, "now")
		exp := now.Add(time.Duration(rapid.IntRange(1, 1000).Draw(t, "hours")) * time.Hour)
		useRevList := rapid.Bool().Draw(t, "revlist")
		var der []byte
		var err error
		var label string
		var crlNumber *big.Int
		a := algChoice{0, "default"}
		if useRevList {
			a = algGen(s.kind).Draw(t, "alg")
			// cRLNumber: RFC 5280 allows up to 20 octets; small numbers, numbers around 2^31, 2^63 and 2^64, and full-width ones
			crlNumber = big.NewInt(int64(rapid.IntRange(0, 1<<30).Draw(t, "num")))
			switch gen.Uniform(t, "numkind", 4) {
			case 1:
				crlNumber = new(big.Int).Lsh(big.NewInt(1), uint(rapid.SampledFrom([]int{31, 32, 63, 64, 127}).Draw(t, "numbit")))
				crlNumber.Add(crlNumber, big.NewInt(int64(rapid.IntRange(-2, 2).Draw(t, "numoff"))))
			case 2:
				crlNumber = new(big.Int).SetBytes(gen.BytesN(20).Draw(t, "num20"))
				crlNumber.SetBit(crlNumber, 159, 0)
				R.Class("crl_number_wide")
			}
			tpl := &gx.RevocationList{SignatureAlgorithm: a.alg, RevokedCertificates: revoked, Number: new(big.Int).Set(crlNumber), ThisUpdate: now, NextUpdate: exp}
			if rapid.Bool().Draw(t, "xext") {
				tpl.ExtraExtensions = []pkix.Extension{{Id: asn1.ObjectIdentifier{2, 5, 29, 28}, Critical: true, Value: []byte{0x30, 0x00}}}
			}
			if p := hx.Try(func() { der, err = gx.CreateRevocationList(rand.Reader, tpl, iss, s.priv) }); p != nil {
				t.Fatalf("CreateRevocationList panicked: %v\n%s", p.Val, p.Stack)
			}
			label = "revlist/" + s.kind + "/" + algLabel(a)
		} else {
			if p := hx.Try(func() { der, err = iss.CreateCRL(rand.Reader, s.priv, revoked, now, exp) }); p != nil {
				t.Fatalf("CreateCRL panicked: %v\n%s", p.Val, p.Stack)
			}
			label = "crl/" + s.kind
		}
		if a.family == "mismatch" {
			R.Case(true, hx.HashKey("crlmismatch", s.kind, a.alg), "revlist/mismatch_family")
			return
		}
		if err != nil {
			if strings.Contains(err.Error(), "PSS") || strings.Contains(err.Error(), "too short") {
				return
			}
			t.Fatalf("%s: creation rejected a valid template: %v", label, err)
		}
		crl, err := gx.ParseCRL(der)
		if err != nil {
			t.Fatalf("%s: ParseCRL of created list failed: %v", label, err)
		}
		if err := iss.CheckCRLSignature(crl); err != nil {
			t.Fatalf("%s: CRL does not verify under the issuer: %v", label, err)
		}
		if err := independentVerify(s, a.alg, der); err != nil {
			t.Fatalf("%s: independent verification of CRL failed: %v", label, err)
		}
		if crlNumber != nil {
			found := false
			for _, e := range crl.TBSCertList.Extensions {
				if e.Id.Equal(asn1.ObjectIdentifier{2, 5, 29, 20}) {
					got := new(big.Int)
					if rest, err := asn1.Unmarshal(e.Value, &got); err != nil || len(rest) != 0 || got.Cmp(crlNumber) != 0 {
						t.Fatalf("%s: the list was issued with cRLNumber %v, its extension reads %v (err %v)", label, crlNumber, got, err)
					}
					found = true
				}
			}
			if !found {
				t.Fatalf("%s: the issued list carries no cRLNumber extension (template number %v)", label, crlNumber)
			}
		}
		if len(crl.TBSCertList.RevokedCertificates) != len(revoked) {
			t.Fatalf("%s: %d revoked entries, want %d", label, len(crl.TBSCertList.RevokedCertificates), len(revoked))
		}
		for i, rc := range revoked {
			g := crl.TBSCertList.RevokedCertificates[i]
			if g.SerialNumber.Cmp(rc.SerialNumber) != 0 || !g.RevocationTime.Equal(rc.RevocationTime.UTC().Truncate(time.Second)) {
				t.Fatalf("%s: revoked entry %d = (%v,%v) want (%v,%v)", label, i, g.SerialNumber, g.RevocationTime, rc.SerialNumber, rc.RevocationTime.UTC())
			}
		}
		if !crl.TBSCertList.ThisUpdate.Equal(now.UTC().Truncate(time.Second)) || !crl.TBSCertList.NextUpdate.Equal(exp.UTC().Truncate(time.Second)) {
			t.Fatalf("%s: update times differ", label)
		}
		wantIss, _ := asn1.Marshal(iss.Subject.ToRDNSequence())
		gotIss, _ := asn1.Marshal(crl.TBSCertList.Issuer)
		if !bytes.Equal(wantIss, gotIss) {
			t.Fatalf("%s: issuer differs", label)
		}
		oth := otherIssuer(t, s)
		if err := oth.CheckCRLSignature(crl); err == nil {
			t.Fatalf("%s: CRL verifies under an unrelated key", label)
		}
		tbs, sig, _ := splitSigned(der)
		R.Case(len(revoked) >= 1, hx.HashKey(der), label)
		R.Sample("crl", map[string]interface{}{"signer": s.desc, "kind": label, "revoked": len(revoked)})
		mutate(t, der, 8, tbs, sig, label, func(mut []byte) ([]byte, []byte, error, error) {
			c, err := gx.ParseDERCRL(mut)
			if err != nil {
				return nil, nil, err, nil
			}
			return c.TBSCertList.Raw, c.SignatureValue.RightAlign(), nil, iss.CheckCRLSignature(c)
		})
	})
}

func TestC09_Replay(t *testing.T) {
	// SM2 key, default algorithm: the certificate must verify under its own key
	d := big.NewInt(123456789)
	k := gen.Key{D: d, Pub: cv.BaseMul(d)}
	priv := sm2x.Priv(k)
	tpl := &gx.Certificate{SerialNumber: big.NewInt(1), Subject: pkix.Name{CommonName: "self"}, NotBefore: time.Unix(1600000000, 0), NotAfter: time.Unix(1900000000, 0),
		BasicConstraintsValid: true, IsCA: true, KeyUsage: gx.KeyUsageCertSign}
	der, err := gx.CreateCertificate(tpl, tpl, &priv.PublicKey, priv)
	if err != nil {
		t.Fatal(err)
	}
	c, err := gx.ParseCertificate(der)
	if err != nil {
		t.Fatal(err)
	}
	if err := c.CheckSignatureFrom(c); err != nil {
		t.Fatalf("self-signed SM2 certificate with default algorithm fails its own signature check: %v", err)
	}
	R.Case(true, hx.HashKey("replay"), "replay")
}

// Issuing under a PARSED CA certificate (the normal way a CA is held): the issued certificate's issuer must be the CA's
// subject byte for byte - also when that subject has attributes without a struct field, several values in one RDN, or
// an encoding another tool chose - and the pair must chain.
// One long-lived, never parsed Certificate value serves as template and as parent for a series of issuances, with its
// Subject edited between them (a CA being renamed in a bulk-issuance tool): every certificate carries the names that the
// objects hold at the time of the call.
func TestC09_ReusedUnparsedParent(t *testing.T) {
	initKeys(t)
	hx.Check(t, hx.N(100, 1500), func(t *rapid.T) {
		ck := gen.KeyPair(hx.Root()).Draw(t, "cakey")
		caPriv := sm2x.Priv(ck)
		parent := &gx.Certificate{SerialNumber: big.NewInt(1), NotBefore: time.Unix(1600000000, 0), NotAfter: time.Unix(1900000000, 0),
			BasicConstraintsValid: true, IsCA: true, KeyUsage: gx.KeyUsageCertSign, SignatureAlgorithm: gx.SM2WithSM3}
		lk := gen.OtherKey(t, hx.Root(), "leafkey", ck.D)
		var hist []string
		for round := 0; round < rapid.IntRange(2, 4).Draw(t, "rounds"); round++ {
			name := nameGen().Draw(t, "caname")
			name.CommonName = fmt.Sprintf("ca generation %d %s", round, name.CommonName)
			parent.Subject = name
			wantName, err := asn1.Marshal(name.ToRDNSequence())
			if err != nil {
				t.Fatalf("marshal name: %v", err)
			}
			if rapid.Bool().Draw(t, "selfsigned") {
				der, err := gx.CreateCertificate(parent, parent, &caPriv.PublicKey, caPriv)
				if err != nil {
					t.Fatalf("history %v: CreateCertificate(self-signed): %v", hist, err)
				}
				c, err := gx.ParseCertificate(der)
				if err != nil {
					t.Fatalf("parse: %v", err)
				}
				hist = append(hist, fmt.Sprintf("self(%d)", round))
				if !bytes.Equal(c.RawSubject, wantName) || !bytes.Equal(c.RawIssuer, wantName) {
					t.Fatalf("history %v: the template now says %q, the certificate's subject/issuer are\n %x\n %x\n want %x", hist, name.CommonName, c.RawSubject, c.RawIssuer, wantName)
				}
			} else {
				leafTpl := &gx.Certificate{SerialNumber: big.NewInt(int64(10 + round)), Subject: pkix.Name{CommonName: "leaf"}, NotBefore: time.Unix(1600000000, 0), NotAfter: time.Unix(1900000000, 0), KeyUsage: gx.KeyUsageDigitalSignature}
				der, err := gx.CreateCertificate(leafTpl, parent, sm2x.Pub(lk.Pub), caPriv)
				if err != nil {
					t.Fatalf("history %v: CreateCertificate(leaf): %v", hist, err)
				}
				c, err := gx.ParseCertificate(der)
				if err != nil {
					t.Fatalf("parse: %v", err)
				}
				hist = append(hist, fmt.Sprintf("leaf(%d)", round))
				if !bytes.Equal(c.RawIssuer, wantName) {
					t.Fatalf("history %v: the parent object now says %q, the issued certificate names its issuer\n %x\n want %x", hist, name.CommonName, c.RawIssuer, wantName)
				}
			}
		}
		R.Case(true, hx.HashKey("reusedparent", fmt.Sprint(hist), ck.D.Bytes()), "reused_unparsed_parent")
	})
}

func TestC09_IssuedUnderParsedCA(t *testing.T) {
	initKeys(t)
	hx.Check(t, hx.N(150, 2500), func(t *rapid.T) {
		ck := gen.KeyPair(hx.Root()).Draw(t, "cakey")
		caPriv := sm2x.Priv(ck)
		name := nameGen().Draw(t, "caname")
		if len(name.ToRDNSequence()) == 0 {
			name.CommonName = "ca"
		}
		shape := rapid.SampledFrom([]string{"library", "multivalue_rdn", "printable_vs_utf8", "extra_attr"}).Draw(t, "shape")
		caTpl := &gx.Certificate{SerialNumber: big.NewInt(1), Subject: name, NotBefore: time.Unix(1600000000, 0), NotAfter: time.Unix(1900000000, 0),
			BasicConstraintsValid: true, IsCA: true, KeyUsage: gx.KeyUsageCertSign, SignatureAlgorithm: gx.SM2WithSM3}
		switch shape {
		case "multivalue_rdn":
			// SET with two attributes in one RDN: only expressible through the raw subject
			rdn := pkix.RDNSequence{pkix.RelativeDistinguishedNameSET{{Type: oidCN, Value: "multi"}, {Type: asn1.ObjectIdentifier{2, 5, 4, 10}, Value: "org"}}}
			raw, err := asn1.Marshal(rdn)
			if err != nil {
				t.Fatalf("marshal rdn: %v", err)
			}
			caTpl.RawSubject = raw
		case "printable_vs_utf8":
			// another tool's string type for the same text
			raw, err := asn1.Marshal(pkix.RDNSequence{pkix.RelativeDistinguishedNameSET{{Type: oidCN, Value: asn1.RawValue{Tag: 12, Bytes: []byte("utf8 ca")}}}})
			if err != nil {
				t.Fatalf("marshal rdn: %v", err)
			}
			caTpl.RawSubject = raw
		case "extra_attr":
			caTpl.Subject.ExtraNames = []pkix.AttributeTypeAndValue{{Type: asn1.ObjectIdentifier{2, 5, 4, 42}, Value: "Given"}}
		}
		caDER, err := gx.CreateCertificate(caTpl, caTpl, &caPriv.PublicKey, caPriv)
		if err != nil {
			t.Fatalf("CreateCertificate(CA, shape %s): %v", shape, err)
		}
		ca, err := gx.ParseCertificate(caDER)
		if err != nil {
			t.Fatalf("ParseCertificate(CA): %v", err)
		}
		if !bytes.Equal(ca.RawIssuer, ca.RawSubject) {
			t.Fatalf("self-signed CA (shape %s): issuer %x differs from subject %x", shape, ca.RawIssuer, ca.RawSubject)
		}
		lk := gen.OtherKey(t, hx.Root(), "leafkey", ck.D)
		leafTpl := &gx.Certificate{SerialNumber: big.NewInt(2), Subject: pkix.Name{CommonName: "leaf"}, NotBefore: time.Unix(1600000000, 0), NotAfter: time.Unix(1900000000, 0),
			KeyUsage: gx.KeyUsageDigitalSignature, DNSNames: []string{"leaf.example"}}
		der, err := gx.CreateCertificate(leafTpl, ca, sm2x.Pub(lk.Pub), caPriv)
		if err != nil {
			t.Fatalf("CreateCertificate(leaf under parsed CA): %v", err)
		}
		leaf, err := gx.ParseCertificate(der)
		if err != nil {
			t.Fatalf("ParseCertificate(leaf): %v", err)
		}
		if !bytes.Equal(leaf.RawIssuer, ca.RawSubject) {
			t.Fatalf("issued under a parsed CA (shape %s): issuer name of the new certificate differs from the CA's subject\n issuer  %x\n subject %x", shape, leaf.RawIssuer, ca.RawSubject)
		}
		if err := leaf.CheckSignatureFrom(ca); err != nil {
			t.Fatalf("leaf does not verify under the CA that issued it: %v", err)
		}
		pool := gx.NewCertPool()
		pool.AddCert(ca)
		if _, err := leaf.Verify(gx.VerifyOptions{Roots: pool, CurrentTime: time.Unix(1700000000, 0), DNSName: "leaf.example"}); err != nil {
			t.Fatalf("leaf issued under a parsed CA (shape %s) does not chain to it: %v", shape, err)
		}
		// the SAME template issued under a second CA: the authority key identifier must follow the issuer each time
		// (CreateCertificate writes the identifier into the caller's template, which must not make it sticky)
		ck2 := gen.OtherKey(t, hx.Root(), "cakey2", ck.D, lk.D)
		ca2Priv := sm2x.Priv(ck2)
		mkCA := func(cn string, ski []byte, priv *sm2.PrivateKey) *gx.Certificate {
			tp := &gx.Certificate{SerialNumber: big.NewInt(7), Subject: pkix.Name{CommonName: cn}, NotBefore: time.Unix(1600000000, 0), NotAfter: time.Unix(1900000000, 0),
				BasicConstraintsValid: true, IsCA: true, KeyUsage: gx.KeyUsageCertSign, SignatureAlgorithm: gx.SM2WithSM3, SubjectKeyId: ski}
			d, err := gx.CreateCertificate(tp, tp, &priv.PublicKey, priv)
			if err != nil {
				t.Fatalf("CreateCertificate(CA with SubjectKeyId): %v", err)
			}
			c, err := gx.ParseCertificate(d)
			if err != nil {
				t.Fatalf("parse: %v", err)
			}
			return c
		}
		caA, caB := mkCA("key id CA A", []byte{0xA, 1, 2, 3}, caPriv), mkCA("key id CA B", []byte{0xB, 4, 5, 6, 7}, ca2Priv)
		reuse := &gx.Certificate{SerialNumber: big.NewInt(3), Subject: pkix.Name{CommonName: "re-issued"}, NotBefore: time.Unix(1600000000, 0), NotAfter: time.Unix(1900000000, 0), KeyUsage: gx.KeyUsageDigitalSignature}
		for round, iss := range []struct {
			ca   *gx.Certificate
			priv *sm2.PrivateKey
		}{{caA, caPriv}, {caB, ca2Priv}, {caA, caPriv}} {
			d, err := gx.CreateCertificate(reuse, iss.ca, sm2x.Pub(lk.Pub), iss.priv)
			if err != nil {
				t.Fatalf("CreateCertificate (template reused, round %d): %v", round, err)
			}
			c, err := gx.ParseCertificate(d)
			if err != nil {
				t.Fatalf("parse: %v", err)
			}
			if !bytes.Equal(c.AuthorityKeyId, iss.ca.SubjectKeyId) {
				t.Fatalf("template re-used under another CA (round %d): authority key identifier %x, issuer's subject key identifier %x", round, c.AuthorityKeyId, iss.ca.SubjectKeyId)
			}
			if !bytes.Equal(c.RawIssuer, iss.ca.RawSubject) || c.CheckSignatureFrom(iss.ca) != nil {
				t.Fatalf("template re-used under another CA (round %d): issuer or signature wrong", round)
			}
		}
		R.Case(true, hx.HashKey("parsedca", der), "issued_under_parsed_ca", "ca_subject:"+shape, "template_reused")
	})
}
