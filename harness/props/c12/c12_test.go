//go:build verif

// C12 — SM4-GCM helpers compute standard GCM (SP 800-38D) and authenticate all inputs.
package c12

import (
	"bytes"
	"crypto/cipher"
	"fmt"
	"testing"

	"github.com/tjfoc/gmsm/gmtls"
	"github.com/tjfoc/gmsm/sm4"
	"pgregory.net/rapid"

	"verifharness/gen"
	"verifharness/hx"
	"verifharness/ref/rgcm"
	"verifharness/ref/rsm4"
)

var R = hx.NewRecorder("C12", "cases = (key, IV of length 1..64, AAD, plaintext, slice capacities) and single-bit changes of each input; "+
	"oracle = bitwise SP 800-38D GCM (ref/rgcm, validated against crypto/cipher over AES for nonce sizes 1..40) over independent ref/rsm4, "+
	"and crypto/cipher NewGCMWithNonceSize over the library's own sm4.NewCipher block (the construction the TLS suites use); "+
	"non-trivial = plaintext or AAD non-empty; distinct by hash of (key,iv,aad,pt)")

func TestMain(m *testing.M) {
	R.Require("len>4KiB", "iv!=12", "iv==12", "iv_ff", "ctr_wrap", "pt%16!=0", "pt==0", "aad>16", "tightcap", "bitflip_iv", "bitflip_aad", "bitflip_ct", "bitflip_tag", "suite_table_aead:e053", "suite_table_aead:e051")
	hx.Main(m, R)
}

type gcase struct {
	key, iv, aad, pt []byte
	tight            bool
	spare            int
}

const canary = 0x5A

func mk(b []byte, c gcase) []byte {
	if c.tight {
		out := make([]byte, len(b))
		copy(out, b)
		return out[:len(b):len(b)]
	}
	return gen.WithCap(b, c.spare, canary)
}

var (
	reusedKey = make([]byte, 16)
	reusedIV  = make([]byte, 12)
	runNo     int
)

func run(t interface{ Fatalf(string, ...any) }, c gcase) (ct, tag []byte) {
	desc := fmt.Sprintf("key=%x iv=%x(%d) aad=%d bytes pt=%d bytes", c.key, c.iv, len(c.iv), len(c.aad), len(c.pt))
	key, iv, aad, pt := mk(c.key, c), mk(c.iv, c), mk(c.aad, c), mk(c.pt, c)
	// every other case passes the key (and a 12-byte IV) in ONE buffer rewritten in place from case to case: a helper
	// that remembers the slice instead of its contents (a key-schedule or H cache) then works with stale material
	runNo++
	if runNo%2 == 0 {
		copy(reusedKey, c.key)
		key = reusedKey
		if len(c.iv) == 12 {
			copy(reusedIV, c.iv)
			iv = reusedIV
		}
	}
	// the package-level IV of the CBC/CFB/OFB helpers is none of GCM's business: every third case sets it to something
	// other than zeros first (the hash subkey H is E(K, 0^128) whatever that IV is)
	if runNo%3 == 0 {
		piv := make([]byte, 16)
		gen.Fill(piv, uint64(runNo)*977+1)
		sm4.SetIV(piv)
		R.Class("package_iv_set")
	} else if runNo%3 == 1 {
		sm4.SetIV(make([]byte, 16))
	}
	var err error
	if p := hx.Try(func() { ct, tag, err = sm4.Sm4GCM(key, iv, pt, aad, true) }); p != nil {
		t.Fatalf("%s: Sm4GCM encrypt panicked: %v\n%s", desc, p.Val, p.Stack)
	}
	if err != nil {
		t.Fatalf("%s: encrypt error %v", desc, err)
	}
	wct, wtag := rgcm.Seal(rsm4.Must(c.key), c.iv, c.aad, c.pt)
	if !bytes.Equal(ct, wct) || !bytes.Equal(tag, wtag) {
		t.Fatalf("%s\n pt=%x aad=%x\n got  C=%x T=%x\n want C=%x T=%x (SP 800-38D over SM4)", desc, c.pt, c.aad, ct, tag, wct, wtag)
	}
	// tie to the TLS stack's construction
	blk, err := sm4.NewCipher(c.key)
	if err != nil {
		t.Fatalf("NewCipher: %v", err)
	}
	g, err := cipher.NewGCMWithNonceSize(blk, len(c.iv))
	if err != nil {
		t.Fatalf("NewGCMWithNonceSize: %v", err)
	}
	if sealed := g.Seal(nil, c.iv, c.pt, c.aad); !bytes.Equal(sealed, append(append([]byte{}, ct...), tag...)) {
		t.Fatalf("%s: helper output differs from crypto/cipher GCM over sm4.NewCipher: %x vs %x||%x", desc, sealed, ct, tag)
	}
	for name, pair := range map[string][2][]byte{"key": {key, c.key}, "iv": {iv, c.iv}, "aad": {aad, c.aad}, "pt": {pt, c.pt}} {
		if !bytes.Equal(pair[0], pair[1]) || (!c.tight && !gen.SpareIntact(pair[0], canary)) {
			t.Fatalf("%s: encrypt wrote into the caller's %s slice (or its spare capacity)", desc, name)
		}
	}
	// decrypt
	cti := mk(ct, c)
	var back, tag2 []byte
	if p := hx.Try(func() { back, tag2, err = sm4.Sm4GCM(key, iv, cti, aad, false) }); p != nil {
		t.Fatalf("%s: Sm4GCM decrypt panicked: %v\n%s", desc, p.Val, p.Stack)
	}
	if err != nil {
		t.Fatalf("%s: decrypt error %v", desc, err)
	}
	if !bytes.Equal(back, c.pt) {
		t.Fatalf("%s: decrypt returned %d bytes %x, want the %d-byte plaintext %x", desc, len(back), back, len(c.pt), c.pt)
	}
	if !bytes.Equal(tag2, tag) {
		t.Fatalf("%s: tag recomputed at decryption %x != tag from encryption %x", desc, tag2, tag)
	}
	for name, pair := range map[string][2][]byte{"key": {key, c.key}, "iv": {iv, c.iv}, "aad": {aad, c.aad}, "ct": {cti, ct}} {
		if !bytes.Equal(pair[0], pair[1]) || (!c.tight && !gen.SpareIntact(pair[0], canary)) {
			t.Fatalf("%s: decrypt wrote into the caller's %s slice (or its spare capacity)", desc, name)
		}
	}
	return ct, tag
}

func classes(c gcase) []string {
	cl := []string{}
	if len(c.iv) == 12 {
		cl = append(cl, "iv==12")
	} else {
		cl = append(cl, "iv!=12")
	}
	ff := 0
	for _, b := range c.iv {
		if b == 0xff {
			ff++
		}
	}
	if ff > 0 {
		cl = append(cl, "iv_ff")
	}
	if len(c.iv) == 12 || true {
		// counter wrap: J0 low 32 bits near 2^32 happens only for non-12 IVs by luck; for 12-byte IVs J0 ends 00000001.
	}
	if len(c.pt)%16 != 0 {
		cl = append(cl, "pt%16!=0")
	}
	if len(c.pt) == 0 {
		cl = append(cl, "pt==0")
	}
	if len(c.aad) > 16 {
		cl = append(cl, "aad>16")
	}
	if c.tight {
		cl = append(cl, "tightcap")
	}
	return cl
}

func TestC12_LengthsExhaustive(t *testing.T) {
	max := 34
	if hx.Thorough() {
		max = 80
	}
	lo, hi := hx.ShardRange(0, max+1)
	var n int64
	for pl := lo; pl < hi; pl++ {
		for al := 0; al <= max; al++ {
			if !hx.Thorough() && al > 18 && al%5 != 0 {
				continue
			}
			ivl := []int{12, 1 + (pl*7+al)%64}[(pl+al)%2]
			c := gcase{key: make([]byte, 16), iv: make([]byte, ivl), aad: make([]byte, al), pt: make([]byte, pl), tight: (pl+al)%3 == 0, spare: 16}
			s := uint64(hx.Seed())*2654435761 + uint64(pl*997+al)
			gen.Fill(c.key, s)
			gen.Fill(c.iv, s+1)
			gen.Fill(c.aad, s+2)
			gen.Fill(c.pt, s+3)
			run(t, c)
			R.Case(pl+al > 0, hx.HashKey(c.key, c.iv, c.aad, c.pt), classes(c)...)
			n++
		}
	}
	R.Subspace(fmt.Sprintf("plaintext length 0..%d x AAD length 0..%d (IV alternating 12 / other)", max, max), n, true)
}

// wrapIV constructs (not searches) a 16-byte IV whose pre-counter block J0 has its low 32
// bits `before` steps from wrapping, by inverting GHASH with the reference field arithmetic.
func wrapIV(key []byte, hi12 []byte, before uint32) []byte {
	b := rsm4.Must(key)
	var want [16]byte
	copy(want[:12], hi12)
	c := ^uint32(0) - before
	want[12], want[13], want[14], want[15] = byte(c>>24), byte(c>>16), byte(c>>8), byte(c)
	iv := rgcm.IVForJ0(b, want)
	if rgcm.J0(b, iv) != want {
		panic("IVForJ0 construction failed")
	}
	return iv
}

func TestC12_Random(t *testing.T) {
	maxLen := 1024
	if hx.Thorough() {
		maxLen = 65536
	}
	// lengths around internal batching boundaries (4 KiB, 8 KiB, 16 KiB = one TLS record, 64 KiB), in both tiers
	for i, n := range []int{4080, 4096, 4097, 4112, 8192, 8193, 16384, 16400, 65536, 65537} {
		for _, ivl := range []int{12, 16} {
			c := gcase{key: make([]byte, 16), iv: make([]byte, ivl), aad: make([]byte, 13+i), pt: make([]byte, n), tight: i%2 == 0}
			gen.Fill(c.key, uint64(n))
			gen.Fill(c.iv, uint64(n+1))
			gen.Fill(c.aad, uint64(n+2))
			gen.Fill(c.pt, uint64(n+3))
			run(t, c)
			if i < 4 {
				// the additional data at those sizes too
				c.aad, c.pt = c.pt, c.aad
				run(t, c)
			}
			R.Case(true, hx.HashKey("gcmbig", n, ivl), "len>4KiB")
		}
	}
	hx.Check(t, hx.N(1500, 12000), func(t *rapid.T) {
		c := gcase{key: gen.BytesN(16).Draw(t, "key")}
		ivl := rapid.SampledFrom([]int{12, 12, 12, 1, 8, 11, 13, 16, 17, 32, 64, 0}).Draw(t, "ivl")
		if ivl == 0 {
			ivl = rapid.IntRange(1, 64).Draw(t, "ivlen")
		}
		c.iv = gen.BytesN(ivl).Draw(t, "iv")
		if rapid.IntRange(0, 3).Draw(t, "fftail") == 0 {
			c.iv = append([]byte{}, c.iv...)
			k := rapid.IntRange(1, ivl).Draw(t, "ffs")
			for i := 0; i < k; i++ {
				c.iv[ivl-1-i] = 0xff
			}
			if rapid.Bool().Draw(t, "fe") {
				c.iv[ivl-1] = 0xfe
			}
		}
		big := rapid.IntRange(0, 19).Draw(t, "big") == 0
		ml := 200
		if big {
			ml = maxLen
		}
		c.aad = gen.Bytes(gen.LenAround(16, ml)).Draw(t, "aad")
		c.pt = gen.Bytes(gen.LenAround(16, ml)).Draw(t, "pt")
		c.tight = rapid.Bool().Draw(t, "tight")
		c.spare = rapid.SampledFrom([]int{0, 1, 16, 40}).Draw(t, "spare")
		run(t, c)
		R.Case(len(c.pt)+len(c.aad) > 0, hx.HashKey(c.key, c.iv, c.aad, c.pt), classes(c)...)
		R.Sample("gcm", map[string]interface{}{"key": hx.Hex(c.key), "iv": hx.Hex(c.iv), "aad": len(c.aad), "pt": len(c.pt), "tight": c.tight})
	})
}

// 32-bit counter wrap: IVs constructed so that inc32 wraps inside the message, including
// upper 96 bits of all ones (a carry out of the low word would be visible there).
func TestC12_CounterWrap(t *testing.T) {
	hx.Check(t, hx.N(150, 4000), func(t *rapid.T) {
		key := gen.BytesN(16).Draw(t, "key")
		hi := gen.BytesN(12).Draw(t, "hi96")
		before := uint32(rapid.IntRange(0, 12).Draw(t, "before"))
		iv := wrapIV(key, hi, before)
		pl := rapid.SampledFrom([]int{0, 1, 16, 17, 100, 160, 200, 255, 256, 300}).Draw(t, "ptlen")
		c := gcase{key: key, iv: iv, aad: gen.Bytes(rapid.IntRange(0, 20)).Draw(t, "aad"), pt: gen.BytesN(pl).Draw(t, "pt"),
			tight: rapid.Bool().Draw(t, "tight"), spare: 8}
		run(t, c)
		cl := classes(c)
		if uint32((pl+15)/16) > before {
			cl = append(cl, "ctr_wrap")
		}
		R.Case(true, hx.HashKey(c.key, c.iv, c.aad, c.pt), cl...)
		R.Sample("ctr_wrap", map[string]interface{}{"key": hx.Hex(key), "iv": hx.Hex(iv), "blocks_before_wrap": before, "pt": pl})
	})
}

// Every single-bit change of IV, AAD, ciphertext or tag must change the recomputed tag
// relative to the transmitted one (exhaustive over all bits of small cases).
func TestC12_BitFlips(t *testing.T) {
	hx.Check(t, hx.N(60, 1200), func(t *rapid.T) {
		c := gcase{key: gen.BytesN(16).Draw(t, "key"), spare: 0}
		c.iv = gen.BytesN(rapid.SampledFrom([]int{12, 12, 1, 7, 16, 20}).Draw(t, "ivl")).Draw(t, "iv")
		c.aad = gen.Bytes(rapid.IntRange(0, 20)).Draw(t, "aad")
		c.pt = gen.Bytes(rapid.IntRange(0, 36)).Draw(t, "pt")
		ct, tag := run(t, c)
		flip := func(b []byte, i int) []byte {
			o := append([]byte{}, b...)
			o[i/8] ^= 1 << uint(i%8)
			return o
		}
		try := func(what string, iv, aad, ct2, sent []byte) {
			var tg []byte
			var err error
			if p := hx.Try(func() { _, tg, err = sm4.Sm4GCM(c.key, iv, ct2, aad, false) }); p != nil {
				t.Fatalf("decrypt with flipped %s panicked: %v", what, p.Val)
			}
			if err == nil && bytes.Equal(tg, sent) {
				t.Fatalf("single-bit change of %s not detected: recomputed tag still equals transmitted tag (key=%x iv=%x aad=%x ct=%x tag=%x)", what, c.key, iv, aad, ct2, sent)
			}
			R.Case(true, hx.HashKey(what, iv, aad, ct2, sent), "bitflip_"+what)
		}
		for i := 0; i < len(c.iv)*8; i++ {
			try("iv", flip(c.iv, i), c.aad, ct, tag)
		}
		for i := 0; i < len(c.aad)*8; i++ {
			try("aad", c.iv, flip(c.aad, i), ct, tag)
		}
		for i := 0; i < len(ct)*8; i++ {
			try("ct", c.iv, c.aad, flip(ct, i), tag)
		}
		for i := 0; i < 128; i++ {
			try("tag", c.iv, c.aad, ct, flip(tag, i))
		}
		// wrong key
		k2 := flip(c.key, rapid.IntRange(0, 127).Draw(t, "keybit"))
		_, tg, _ := sm4.Sm4GCM(k2, c.iv, ct, c.aad, false)
		if bytes.Equal(tg, tag) {
			t.Fatalf("key bit change not detected")
		}
	})
}

// "... the same values the TLS stack's SM4-GCM cipher suites compute": the record AEAD that the GM/T 0024 suite table
// assigns to each GCM suite (ECC and ECDHE; hook), keyed like the record layer keys it, seals to exactly GCM-SM4 of
// (implicit nonce || explicit nonce) and opens what the reference sealed; the CBC suites have no AEAD.
func TestC12_SuiteTableAEAD(t *testing.T) {
	hx.Check(t, hx.N(300, 5000), func(t *rapid.T) {
		id := rapid.SampledFrom([]uint16{0xe053, 0xe051}).Draw(t, "suite")
		key, fixed, explicit := gen.BytesN(16).Draw(t, "key"), gen.BytesN(4).Draw(t, "implicit"), gen.BytesN(8).Draw(t, "explicit")
		aad := gen.BytesN(13).Draw(t, "aad")
		pt := gen.Bytes(gen.LenAround(16, 300)).Draw(t, "pt")
		aead, keyLen, macLen, ivLen, known := gmtls.VerifGMSuiteRecordAEAD(id, key, fixed)
		if !known || aead == nil || keyLen != 16 || macLen != 0 || ivLen != 4 {
			t.Fatalf("suite %04x: table entry known=%v aead=%v keyLen=%d macLen=%d ivLen=%d, want an AEAD with 16/0/4", id, known, aead != nil, keyLen, macLen, ivLen)
		}
		if aead.NonceSize() != 8 || aead.Overhead() != 16 {
			t.Fatalf("suite %04x: explicit nonce %d bytes, overhead %d, want 8 and 16", id, aead.NonceSize(), aead.Overhead())
		}
		iv := append(append([]byte{}, fixed...), explicit...)
		wct, wtag := rgcm.Seal(rsm4.Must(key), iv, aad, pt)
		want := append(append([]byte{}, wct...), wtag...)
		var got []byte
		if pn := hx.Try(func() { got = aead.Seal(nil, explicit, pt, aad) }); pn != nil {
			t.Fatalf("suite %04x: Seal panicked: %v", id, pn.Val)
		}
		if !bytes.Equal(got, want) {
			t.Fatalf("suite %04x: the record AEAD of the suite table is not GCM over SM4: sealed %x, GCM-SM4 gives %x", id, got, want)
		}
		back, err := aead.Open(nil, explicit, want, aad)
		if err != nil || !bytes.Equal(back, pt) {
			t.Fatalf("suite %04x: the record AEAD does not open a GCM-SM4 record: %v", id, err)
		}
		if len(want) > 0 {
			bad := append([]byte{}, want...)
			bad[rapid.IntRange(0, len(bad)-1).Draw(t, "flip")] ^= 0x20
			if _, err := aead.Open(nil, explicit, bad, aad); err == nil {
				t.Fatalf("suite %04x: an altered record opens", id)
			}
		}
		R.Case(true, hx.HashKey("suiteaead", id, key, iv, pt), fmt.Sprintf("suite_table_aead:%04x", id))
	})
	for _, id := range []uint16{0xe013, 0xe011} {
		if aead, keyLen, macLen, ivLen, known := gmtls.VerifGMSuiteRecordAEAD(id, make([]byte, 16), make([]byte, 16)); !known || aead != nil || keyLen != 16 || macLen != 32 || ivLen != 16 {
			t.Fatalf("CBC suite %04x: table entry known=%v aead=%v keyLen=%d macLen=%d ivLen=%d, want no AEAD and 16/32/16", id, known, aead != nil, keyLen, macLen, ivLen)
		}
	}
}

func TestC12_KeyLen(t *testing.T) {
	for n := 0; n <= 40; n++ {
		if n == 16 {
			continue
		}
		var err error
		var a, b []byte
		if p := hx.Try(func() { a, b, err = sm4.Sm4GCM(make([]byte, n), make([]byte, 12), []byte("x"), nil, true) }); p != nil {
			t.Fatalf("Sm4GCM with %d-byte key panicked: %v", n, p.Val)
		}
		if err == nil || a != nil || b != nil {
			t.Fatalf("Sm4GCM accepted a %d-byte key", n)
		}
		R.Case(true, hx.HashKey("keylen", n), "badkeylen")
	}
}

func TestC12_Replay(t *testing.T) {
	// one-block message, 12-byte IV: tag must be standard GCM (length block in bits)
	c := gcase{key: []byte("1234567890abcdef"), iv: make([]byte, 12), aad: []byte{1, 2, 3, 4, 5}, pt: hx.MustHex("0123456789abcdeffedcba9876543210"), tight: true}
	run(t, c)
	// 0xff bytes in the counter block
	c.iv = bytes.Repeat([]byte{0xff}, 12)
	c.pt = make([]byte, 40)
	run(t, c)
	// non-block-multiple plaintext, tight capacity: decrypt must return exactly len(pt) bytes
	c.iv = []byte("0123456789ab")
	c.pt = []byte("hello")
	run(t, c)
	// empty plaintext with AAD
	c.pt = nil
	run(t, c)
	R.Case(true, hx.HashKey("replay"), "replay")
}
