//go:build verif

// C01 — SM2 signatures are complete, sound and match GM/T 0003.2.
package c01

import (
	"bytes"
	"fmt"
	"math/big"
	"testing"

	"github.com/tjfoc/gmsm/sm2"
	"pgregory.net/rapid"

	"verifharness/gen"
	"verifharness/hx"
	"verifharness/ref/rder"
	"verifharness/ref/rsm2"
	"verifharness/sm2x"
)

var R = hx.NewRecorder("C01", "cases = (key, message, user id, 40-byte nonce block) for signing and single-field perturbations of a valid (key, id, message, r, s, DER) tuple for verification; "+
	"oracle = (r,s) computed by ref/rsm2 from the same nonce (k derived independently as (int(block) mod (n-1))+1), ref verification per GM/T 0003.2 B1-B7, strict DER arbiter (ref/rder); "+
	"non-trivial = non-empty message or non-default id or boundary-class key; rejection cases count when the perturbation changed the tuple; distinct by hash of inputs")

var cv = rsm2.Std

func TestMain(m *testing.M) {
	R.Require("keyless_forgery_r+s=n", "lz_d", "lz_xy", "uid_absent", "uid_long", "msg_empty", "msg>1block", "der_nonstrict", "verify_equal_points", "verify_inverse_points",
		"p:msg", "p:uid", "p:pubkey", "p:r_range", "p:s_range", "p:r+s=0", "p:other_msg_sig", "p:negP")
	hx.Main(m, R)
}

func keyClasses(k gen.Key) []string {
	var cl []string
	if bytes.Contains([]byte(k.Class), []byte("lz_d")) {
		cl = append(cl, "lz_d")
	}
	if bytes.Contains([]byte(k.Class), []byte("lz_x")) || bytes.Contains([]byte(k.Class), []byte("lz_y")) {
		cl = append(cl, "lz_xy")
	}
	return cl
}

type tuple struct {
	key  gen.Key
	uid  []byte
	msg  []byte
	r, s *big.Int
}

func signCase(t *rapid.T, maxMsg int) (tuple, []string) {
	key := gen.KeyPair(hx.Root()).Draw(t, "key")
	uid := gen.UID().Draw(t, "uid")
	msg := gen.Bytes(gen.LenAround(64, maxMsg)).Draw(t, "msg")
	block := gen.NonceBlock().Draw(t, "nonce")
	priv := sm2x.Priv(key)
	rd := sm2x.NewNonceReader(block)
	if rapid.IntRange(0, 4).Draw(t, "shortreads") == 0 {
		rd.Chunk = rapid.IntRange(1, 17).Draw(t, "chunk")
	}
	// the caller's view: identity and message are two slices of ONE received buffer (identity first, message right behind
	// it), so the identity has spare capacity with live data in it; a third of the cases
	callUID, callMsg := uid.UID, msg
	var whole, wholeCopy []byte
	if len(uid.UID) > 0 && rapid.IntRange(0, 2).Draw(t, "onebuffer") == 0 {
		whole = append(append(append([]byte{}, uid.UID...), msg...), 0xC3, 0xC3, 0xC3, 0xC3)
		wholeCopy = append([]byte{}, whole...)
		callUID, callMsg = whole[:len(uid.UID)], whole[len(uid.UID):len(uid.UID)+len(msg)]
	}
	var r, s *big.Int
	var err error
	if p := hx.Try(func() { r, s, err = sm2.Sm2Sign(priv, callMsg, callUID, rd) }); p != nil {
		if _, spin := p.Val.(sm2x.Spin); spin {
			t.Fatalf("Sm2Sign did not terminate within 64 nonce draws")
		}
		t.Fatalf("Sm2Sign panicked: %v\n%s", p.Val, p.Stack)
	}
	if err != nil {
		t.Fatalf("Sm2Sign error: %v", err)
	}
	if w := sm2x.Intact(priv, key); w != "" {
		t.Fatalf("Sm2Sign modified the caller's key object (%s)", w)
	}
	if whole != nil {
		if !bytes.Equal(whole, wholeCopy) {
			t.Fatalf("Sm2Sign wrote into the caller's buffer behind the user ID (ID and message are slices of one buffer): now %x, was %x", whole, wholeCopy)
		}
		// ... and verification through the same view must accept what was just signed, leaving the buffer alone
		var vok bool
		if p := hx.Try(func() { vok = sm2.Sm2Verify(sm2x.Pub(key.Pub), callMsg, callUID, r, s) }); p != nil {
			t.Fatalf("Sm2Verify panicked: %v", p.Val)
		}
		if !bytes.Equal(whole, wholeCopy) {
			t.Fatalf("Sm2Verify wrote into the caller's buffer behind the user ID")
		}
		if !vok {
			t.Fatalf("Sm2Verify rejects the signature just made when ID and message are slices of one buffer")
		}
		R.Class("uid_and_msg_in_one_buffer")
	}
	k := sm2x.NonceFromBlock(block)
	e, _ := cv.E(key.Pub, orDefault(uid.UID), msg)
	wr, ws, ok := cv.SignE(key.D, e, k)
	cl := append(keyClasses(key), uid.Class)
	if len(msg) == 0 {
		cl = append(cl, "msg_empty")
	}
	if len(msg) > 64 {
		cl = append(cl, "msg>1block")
	}
	if !ok {
		// the standard says "choose another k": the library must have drawn a second block
		if rd.Served < 80 {
			t.Fatalf("nonce k=%x must be rejected by A3-A6 but only %d bytes were consumed", k, rd.Served)
		}
		cl = append(cl, "retry_branch")
	} else {
		if rd.Served != 40 {
			t.Fatalf("Sm2Sign consumed %d random bytes, want exactly 40", rd.Served)
		}
		if r.Cmp(wr) != 0 || s.Cmp(ws) != 0 {
			t.Fatalf("d=%x uid=%x msg=%x k=%x:\n got  r=%x s=%x\n want r=%x s=%x (GM/T 0003.2)", key.D, uid.UID, msg, k, r, s, wr, ws)
		}
	}
	return tuple{key, uid.UID, msg, r, s}, cl
}

func orDefault(uid []byte) []byte {
	if len(uid) == 0 {
		return rsm2.DefaultUID
	}
	return uid
}

func TestC01_SignExactAndComplete(t *testing.T) {
	maxMsg := 4096
	if hx.Thorough() {
		maxMsg = 65536
	}
	hx.Check(t, hx.N(1500, 20000), func(t *rapid.T) {
		tp, cl := signCase(t, maxMsg)
		pub := sm2x.Pub(tp.key.Pub)
		if !sm2.Sm2Verify(pub, tp.msg, tp.uid, tp.r, tp.s) {
			t.Fatalf("Sm2Verify rejected a signature made by Sm2Sign (d=%x uid=%x msg=%x r=%x s=%x)", tp.key.D, tp.uid, tp.msg, tp.r, tp.s)
		}
		dig, err := pub.Sm3Digest(tp.msg, tp.uid)
		if err != nil {
			t.Fatalf("Sm3Digest: %v", err)
		}
		e, _ := cv.E(tp.key.Pub, orDefault(tp.uid), tp.msg)
		if new(big.Int).SetBytes(dig).Cmp(e) != 0 {
			t.Fatalf("Sm3Digest = %x, want SM3(ZA||M) = %x", dig, e)
		}
		if !sm2.Verify(pub, dig, tp.r, tp.s) {
			t.Fatalf("Verify(hash) rejected a valid signature")
		}
		// uid absent == explicit default
		if len(tp.uid) == 0 {
			if !sm2.Sm2Verify(pub, tp.msg, rsm2.DefaultUID, tp.r, tp.s) {
				t.Fatalf("signature with absent uid does not verify under the explicit default uid")
			}
		}
		// crypto.Signer / DER path
		priv := sm2x.Priv(tp.key)
		block := gen.NonceBlock().Draw(t, "nonce2")
		der, err := priv.Sign(sm2x.NewNonceReader(block), tp.msg, nil)
		if err != nil {
			t.Fatalf("PrivateKey.Sign: %v", err)
		}
		rr, ss, derr := rder.StrictSig(der)
		if derr != nil {
			t.Fatalf("PrivateKey.Sign produced non-strict DER %x: %v", der, derr)
		}
		e2, _ := cv.E(tp.key.Pub, rsm2.DefaultUID, tp.msg)
		if wr, ws, ok := cv.SignE(tp.key.D, e2, sm2x.NonceFromBlock(block)); ok && (rr.Cmp(wr) != 0 || ss.Cmp(ws) != 0) {
			t.Fatalf("PrivateKey.Sign (r,s) differ from the standard's values")
		}
		if !pub.Verify(tp.msg, der) {
			t.Fatalf("PublicKey.Verify rejected PrivateKey.Sign output %x", der)
		}
		nt := len(tp.msg) > 0 || len(tp.uid) > 0 || tp.key.Class != "plain"
		R.Case(nt, hx.HashKey(tp.key.D.Bytes(), tp.uid, tp.msg, tp.r.Bytes()), cl...)
		R.Sample("sign", map[string]interface{}{"key": tp.key.Class, "uidlen": len(tp.uid), "msglen": len(tp.msg), "r": hx.Hex(tp.r.Bytes())})
	})
}

func TestC01_Reject(t *testing.T) {
	one := big.NewInt(1)
	hx.Check(t, hx.N(2500, 30000), func(t *rapid.T) {
		tp, cl := signCase(t, 300)
		pub := sm2x.Pub(tp.key.Pub)
		kind := rapid.SampledFrom([]string{"msg", "uid", "pubkey", "negP", "r_range", "s_range", "r+s=0", "other_msg_sig", "swap_rs", "r+1"}).Draw(t, "perturb")
		msg, uid, r, s := tp.msg, tp.uid, tp.r, tp.s
		vpub := tp.key.Pub
		switch kind {
		case "msg":
			m2 := append([]byte{}, msg...)
			switch rapid.IntRange(0, 2).Draw(t, "how") {
			case 0:
				if len(m2) == 0 {
					m2 = []byte{0}
				} else {
					i := rapid.IntRange(0, len(m2)-1).Draw(t, "i")
					m2[i] ^= 1 << uint(rapid.IntRange(0, 7).Draw(t, "bit"))
				}
			case 1:
				m2 = append(m2, rapid.Byte().Draw(t, "extra"))
			default:
				if len(m2) > 0 {
					m2 = m2[:len(m2)-1]
				} else {
					m2 = []byte{0}
				}
			}
			msg = m2
		case "uid":
			u2 := append([]byte{}, orDefault(uid)...)
			if rapid.Bool().Draw(t, "flip") {
				u2[rapid.IntRange(0, len(u2)-1).Draw(t, "i")] ^= 0x20
			} else if len(u2) < 8000 {
				u2 = append(u2, 'x')
			} else {
				u2 = u2[:len(u2)-1]
			}
			uid = u2
		case "pubkey":
			vpub = gen.OtherKey(t, hx.Root(), "otherkey", tp.key.D).Pub
		case "negP":
			vpub = cv.Neg(tp.key.Pub)
		case "r_range":
			r = rapid.SampledFrom([]*big.Int{new(big.Int), cv.N, new(big.Int).Add(cv.N, one), new(big.Int).Add(r, cv.N), new(big.Int).Neg(r), new(big.Int).Lsh(one, 256)}).Draw(t, "rv")
		case "s_range":
			s = rapid.SampledFrom([]*big.Int{new(big.Int), cv.N, new(big.Int).Add(cv.N, one), new(big.Int).Add(s, cv.N), new(big.Int).Neg(s), new(big.Int).Lsh(one, 256)}).Draw(t, "sv")
		case "r+s=0":
			s = new(big.Int).Sub(cv.N, r)
		case "other_msg_sig":
			m2 := append(append([]byte{}, msg...), 'z')
			e, _ := cv.E(tp.key.Pub, orDefault(uid), m2)
			r, s, _ = cv.SignE(tp.key.D, e, big.NewInt(int64(rapid.IntRange(2, 1<<30).Draw(t, "k2"))))
		case "swap_rs":
			r, s = s, r
		case "r+1":
			r = new(big.Int).Add(r, one)
		}
		changed := !(bytes.Equal(msg, tp.msg) && bytes.Equal(orDefault(uid), orDefault(tp.uid)) && r.Cmp(tp.r) == 0 && s.Cmp(tp.s) == 0 && vpub.Equal(tp.key.Pub))
		if !changed {
			R.Discard()
			return
		}
		want := cv.Verify(vpub, orDefault(uid), msg, r, s)
		if want {
			// astronomically unlikely; would mean the perturbation produced another valid tuple
			t.Logf("perturbation %s yielded a valid tuple; skipping", kind)
			R.Discard()
			return
		}
		var got bool
		if p := hx.Try(func() { got = sm2.Sm2Verify(sm2x.Pub(vpub), msg, uid, r, s) }); p != nil {
			t.Fatalf("Sm2Verify panicked on perturbation %s: %v\n%s", kind, p.Val, p.Stack)
		}
		if got {
			t.Fatalf("Sm2Verify ACCEPTED a tuple perturbed by %q: d=%x uid=%x msg=%x r=%x s=%x", kind, tp.key.D, uid, msg, r, s)
		}
		// the hash-level entry point must agree too
		if e, err := cv.E(vpub, orDefault(uid), msg); err == nil {
			var g2 bool
			if p := hx.Try(func() { g2 = sm2.Verify(sm2x.Pub(vpub), e.Bytes(), r, s) }); p != nil {
				t.Fatalf("Verify(hash) panicked on %s: %v", kind, p.Val)
			}
			if g2 {
				t.Fatalf("Verify(hash) ACCEPTED a tuple perturbed by %q", kind)
			}
		}
		_ = pub
		R.Case(true, hx.HashKey("rej", kind, tp.key.D.Bytes(), msg, uid, r.Bytes(), s.Bytes()), append(cl, "p:"+kind)...)
		R.Sample("reject_"+kind, map[string]interface{}{"r": hx.Hex(r.Bytes()), "s": hx.Hex(s.Bytes()), "msglen": len(msg)})
	})
}

// DER mutants of a valid signature: non-strict encodings must be rejected; strict ones
// must agree with the reference verdict on the decoded integers.
func derMutants(t *rapid.T, sig []byte, r, s *big.Int) ([]byte, string) {
	ri, si := rder.EncInt(r), rder.EncInt(s)
	kind := rapid.SampledFrom([]string{"trailing", "longlen_seq", "longlen_int", "padzero", "three_ints", "one_int", "wrong_seq_tag", "wrong_int_tag",
		"indefinite", "empty", "truncate", "neg_r", "strip_sign_byte", "byteflip", "inner_trailing", "len+1", "len-1"}).Draw(t, "der")
	switch kind {
	case "trailing":
		return append(append([]byte{}, sig...), rapid.Byte().Draw(t, "tb")), kind
	case "longlen_seq":
		body := append(append([]byte{}, ri...), si...)
		return append([]byte{0x30, 0x81, byte(len(body))}, body...), kind
	case "longlen_int":
		rb := ri[2:]
		ri2 := append([]byte{0x02, 0x81, byte(len(rb))}, rb...)
		return rder.EncSeq(ri2, si), kind
	case "padzero":
		rb := append([]byte{0}, ri[2:]...)
		return rder.EncSeq(append([]byte{0x02, byte(len(rb))}, rb...), si), kind
	case "three_ints":
		return rder.EncSeq(ri, si, rder.EncInt(big.NewInt(1))), kind
	case "one_int":
		return rder.EncSeq(ri), kind
	case "wrong_seq_tag":
		o := append([]byte{}, sig...)
		o[0] = rapid.SampledFrom([]byte{0x31, 0x10, 0x04, 0xb0}).Draw(t, "tag")
		return o, kind
	case "wrong_int_tag":
		o := append([]byte{}, sig...)
		o[2] = rapid.SampledFrom([]byte{0x03, 0x04, 0x0a, 0x22}).Draw(t, "tag")
		return o, kind
	case "indefinite":
		body := append(append([]byte{}, ri...), si...)
		return append(append([]byte{0x30, 0x80}, body...), 0, 0), kind
	case "empty":
		return rapid.SampledFrom([][]byte{{}, {0x30}, {0x30, 0x00}}).Draw(t, "e"), kind
	case "truncate":
		return append([]byte{}, sig[:rapid.IntRange(0, len(sig)-1).Draw(t, "cut")]...), kind
	case "neg_r":
		return rder.EncSig(new(big.Int).Neg(r), s), kind
	case "strip_sign_byte":
		// high-bit value without its 00 sign byte: DER reads it as negative
		rb := r.Bytes()
		return rder.EncSeq(append([]byte{0x02, byte(len(rb))}, rb...), si), kind
	case "inner_trailing":
		body := append(append(append([]byte{}, ri...), si...), 0x05, 0x00)
		return append(rder.EncLen(0x30, len(body)), body...), kind
	case "len+1":
		o := append([]byte{}, sig...)
		o[1]++
		return o, kind
	case "len-1":
		o := append([]byte{}, sig...)
		o[1]--
		return o, kind
	default:
		o := append([]byte{}, sig...)
		i := rapid.IntRange(0, len(o)-1).Draw(t, "i")
		o[i] ^= rapid.SampledFrom([]byte{0x01, 0x80, 0xff}).Draw(t, "x")
		return o, "byteflip"
	}
}

func TestC01_DER(t *testing.T) {
	hx.Check(t, hx.N(2500, 30000), func(t *rapid.T) {
		tp, cl := signCase(t, 100)
		pub := sm2x.Pub(tp.key.Pub)
		good := rder.EncSig(tp.r, tp.s)
		// library encoder agrees with my DER and round-trips
		enc, err := sm2.SignDigitToSignData(tp.r, tp.s)
		if err != nil || !bytes.Equal(enc, good) {
			t.Fatalf("SignDigitToSignData = %x (%v), want DER %x", enc, err, good)
		}
		if len(tp.uid) != 0 && !bytes.Equal(tp.uid, rsm2.DefaultUID) {
			// PublicKey.Verify is default-uid only; re-sign under the default uid
			e, _ := cv.E(tp.key.Pub, rsm2.DefaultUID, tp.msg)
			var ok bool
			tp.r, tp.s, ok = cv.SignE(tp.key.D, e, big.NewInt(int64(rapid.IntRange(2, 1<<30).Draw(t, "k"))))
			if !ok {
				return
			}
			good = rder.EncSig(tp.r, tp.s)
		}
		if !pub.Verify(tp.msg, good) {
			t.Fatalf("PublicKey.Verify rejected strict DER of a valid signature: %x", good)
		}
		mut, kind := derMutants(t, good, tp.r, tp.s)
		if bytes.Equal(mut, good) {
			R.Discard()
			return
		}
		rr, ss, derr := rder.StrictSig(mut)
		want := false
		class := "der_nonstrict"
		if derr == nil {
			want = cv.Verify(tp.key.Pub, rsm2.DefaultUID, tp.msg, rr, ss)
			class = "der_strict_other_value"
		}
		var got bool
		if p := hx.Try(func() { got = pub.Verify(tp.msg, mut) }); p != nil {
			t.Fatalf("PublicKey.Verify panicked on DER mutant %s %x: %v", kind, mut, p.Val)
		}
		if got != want {
			t.Fatalf("PublicKey.Verify(%s mutant %x) = %v, want %v (strict DER error: %v)", kind, mut, got, want, derr)
		}
		R.Case(true, hx.HashKey("der", kind, mut, tp.msg), append(cl, class, "der:"+kind)...)
		R.Sample("der_"+kind, map[string]string{"sig": hx.Hex(mut)})
	})
}

// Mathematically valid tuples that force [s]G == [t]P inside verification (Add of equal points).
func TestC01_VerifyEqualPoints(t *testing.T) {
	hx.Check(t, hx.N(300, 5000), func(t *rapid.T) {
		key := gen.KeyPair(hx.Root()).Draw(t, "key")
		d := key.D
		// need (1-d) invertible: d != 1
		if d.Cmp(big.NewInt(1)) == 0 {
			d = big.NewInt(2)
			key = gen.Key{D: d, Pub: cv.BaseMul(d), Class: "plain"}
		}
		r := gen.BigBelow(new(big.Int).Sub(cv.N, big.NewInt(1))).Draw(t, "r")
		r.Add(r, big.NewInt(1))
		// s = r*d*(1-d)^-1 mod n  =>  s = (r+s)*d  =>  [s]G = [t]P
		inv := new(big.Int).Sub(big.NewInt(1), d)
		inv.Mod(inv, cv.N)
		inv.ModInverse(inv, cv.N)
		s := new(big.Int).Mul(r, d)
		s.Mul(s, inv).Mod(s, cv.N)
		tt := new(big.Int).Add(r, s)
		tt.Mod(tt, cv.N)
		if s.Sign() == 0 || tt.Sign() == 0 {
			R.Discard()
			return
		}
		sG := cv.BaseMul(s)
		if !sG.Equal(cv.Mul(key.Pub, tt)) {
			t.Fatalf("harness: construction failed")
		}
		x1 := cv.Double(sG).X
		e := new(big.Int).Sub(r, x1)
		e.Mod(e, cv.N)
		if !cv.VerifyE(key.Pub, e, r, s) {
			t.Fatalf("harness: reference rejects constructed tuple")
		}
		hash := e.Bytes()
		var got bool
		if p := hx.Try(func() { got = sm2.Verify(sm2x.Pub(key.Pub), hash, r, s) }); p != nil {
			t.Fatalf("Verify panicked: %v", p.Val)
		}
		if !got {
			t.Fatalf("Verify rejected a valid signature whose verification adds two equal points: d=%x e=%x r=%x s=%x", d, e, r, s)
		}
		R.Case(true, hx.HashKey("eqpts", d.Bytes(), r.Bytes()), "verify_equal_points")
	})
}

// Tuples that force [s]G == -[t]P inside verification: the sum is the point at infinity, which has no x coordinate, so no
// digest makes the tuple a signature (s = -r*d*(1+d)^-1 mod n gives s + t*d = 0). The digests tried are the ones a slip in
// the addition of inverse points would satisfy: r - x(2[s]G) (doubling instead), r - x([s]G) (one operand returned) and
// a random one. e = r (which an "x = 0" encoding of infinity would satisfy) is left out: the standard does not name the case.
func TestC01_VerifyInversePoints(t *testing.T) {
	hx.Check(t, hx.N(200, 4000), func(t *rapid.T) {
		key := gen.KeyPair(hx.Root()).Draw(t, "key")
		d := key.D
		r := gen.BigBelow(new(big.Int).Sub(cv.N, big.NewInt(1))).Draw(t, "r")
		r.Add(r, big.NewInt(1))
		inv := new(big.Int).Add(big.NewInt(1), d)
		inv.Mod(inv, cv.N)
		if inv.Sign() == 0 {
			R.Discard()
			return
		}
		inv.ModInverse(inv, cv.N)
		s := new(big.Int).Mul(r, d)
		s.Mul(s, inv).Neg(s).Mod(s, cv.N)
		tt := new(big.Int).Add(r, s)
		tt.Mod(tt, cv.N)
		if s.Sign() == 0 || tt.Sign() == 0 {
			R.Discard()
			return
		}
		sG := cv.BaseMul(s)
		if !cv.Add(sG, cv.Mul(key.Pub, tt)).Inf {
			t.Fatalf("harness: construction failed, the sum is not the point at infinity")
		}
		for _, x := range []*big.Int{cv.Double(sG).X, sG.X, gen.BigBelow(cv.N).Draw(t, "x")} {
			e := new(big.Int).Sub(r, x)
			e.Mod(e, cv.N)
			if e.Cmp(r) == 0 {
				continue
			}
			if cv.VerifyE(key.Pub, e, r, s) {
				t.Fatalf("harness: reference accepts a tuple whose verification point is infinite")
			}
			var got bool
			if p := hx.Try(func() { got = sm2.Verify(sm2x.Pub(key.Pub), rsm2.Pad32(e), r, s) }); p != nil {
				t.Fatalf("Verify panicked: %v", p.Val)
			}
			if got {
				t.Fatalf("Verify ACCEPTED a tuple whose verification point [s]G + [t]P is the point at infinity: d=%x e=%x r=%x s=%x", d, e, r, s)
			}
		}
		R.Case(true, hx.HashKey("invpts", d.Bytes(), r.Bytes()), "verify_inverse_points")
	})
}

// Digest-level forgeries that need NO private key: (r, s) with r + s = 0 mod n (the standard's explicit t = 0 rejection),
// where the digest is chosen so that the remaining equation r = e + x([s]G) holds. Because t = 0 removes the public key
// from the equation, such a triple would verify under EVERY public key if the t = 0 step were missing or bypassed
// (e.g. by a reduction that leaves t = n).
func TestC01_KeylessForgery(t *testing.T) {
	hx.Check(t, hx.N(400, 6000), func(t *rapid.T) {
		victim := gen.KeyPair(hx.Root()).Draw(t, "victim")
		r := gen.BigBelow(new(big.Int).Sub(cv.N, big.NewInt(1))).Draw(t, "r")
		r.Add(r, big.NewInt(1))
		if gen.OneIn(t, "edge", 4) {
			r = rapid.SampledFrom([]*big.Int{big.NewInt(1), big.NewInt(2), new(big.Int).Sub(cv.N, big.NewInt(1)), new(big.Int).Rsh(cv.N, 1)}).Draw(t, "redge")
		}
		s := new(big.Int).Sub(cv.N, r) // r + s = n
		if s.Sign() == 0 {
			t.Skip("s = 0")
		}
		x1, _ := cv.BaseMul(s).Affine()
		e := new(big.Int).Sub(r, x1)
		e.Mod(e, cv.N)
		hash := rsm2.Pad32(e)
		for _, variant := range []string{"t=n", "s+n", "r+n"} {
			rr, ss := r, s
			switch variant {
			case "s+n":
				ss = new(big.Int).Add(s, cv.N)
			case "r+n":
				rr = new(big.Int).Add(r, cv.N)
			}
			var got bool
			if p := hx.Try(func() { got = sm2.Verify(sm2x.Pub(victim.Pub), hash, rr, ss) }); p != nil {
				t.Fatalf("Verify panicked on a forgery: %v", p.Val)
			}
			if got {
				t.Fatalf("Verify ACCEPTED a keyless forgery (%s) under the public key of d=%x: r=%x s=%x (r+s = 0 mod n) digest=%x", variant, victim.D, rr, ss, hash)
			}
		}
		R.Case(true, hx.HashKey("forge", victim.D.Bytes(), r.Bytes()), "keyless_forgery_r+s=n")
	})
}

func TestC01_FreshnessAndErrors(t *testing.T) {
	hx.Check(t, hx.N(150, 2000), func(t *rapid.T) {
		key := gen.KeyPair(hx.Root()).Draw(t, "key")
		priv := sm2x.Priv(key)
		msg := gen.Bytes(rapid.IntRange(0, 80)).Draw(t, "msg")
		r1, _, e1 := sm2.Sm2Sign(priv, msg, nil, nil)
		r2, _, e2 := sm2.Sm2Sign(priv, msg, nil, nil)
		if e1 != nil || e2 != nil || r1.Cmp(r2) == 0 {
			t.Fatalf("two signatures with fresh randomness share r (or failed): %v %v %x", e1, e2, r1)
		}
		b1 := gen.NonceBlock().Draw(t, "b1")
		b2 := gen.NonceBlock().Draw(t, "b2")
		// k and n-k give the same x1 and hence the same r: only k1 != +-k2 must differ
		k1, k2 := sm2x.NonceFromBlock(b1), sm2x.NonceFromBlock(b2)
		if k1.Cmp(k2) != 0 && new(big.Int).Add(k1, k2).Cmp(cv.N) != 0 {
			ra, _, _ := sm2.Sm2Sign(priv, msg, nil, sm2x.NewNonceReader(b1))
			rb, _, _ := sm2.Sm2Sign(priv, msg, nil, sm2x.NewNonceReader(b2))
			if ra.Cmp(rb) == 0 {
				t.Fatalf("different nonces gave the same r")
			}
		}
		// uid >= 8192 bytes: error from Sign, false from Verify
		bigUID := make([]byte, rapid.SampledFrom([]int{8192, 8193, 10000}).Draw(t, "biguid"))
		var r, s = r1, r1
		var err error
		if p := hx.Try(func() { r, s, err = sm2.Sm2Sign(priv, msg, bigUID, sm2x.NewNonceReader(b1)) }); p != nil {
			t.Fatalf("Sm2Sign(uid %d bytes) panicked: %v", len(bigUID), p.Val)
		}
		if err == nil {
			t.Fatalf("Sm2Sign accepted a %d-byte uid (r=%v s=%v)", len(bigUID), r, s)
		}
		if sm2.Sm2Verify(&priv.PublicKey, msg, bigUID, r1, r1) {
			t.Fatalf("Sm2Verify accepted with a %d-byte uid", len(bigUID))
		}
		// failing reader: error, no signature
		rd := sm2x.NewNonceReader(b1)
		rd.FailAt = rapid.IntRange(0, 39).Draw(t, "failAt")
		var rr, ss *big.Int = nil, nil
		if p := hx.Try(func() { rr, ss, err = sm2.Sm2Sign(priv, msg, nil, rd) }); p != nil {
			t.Fatalf("Sm2Sign with failing reader panicked: %v", p.Val)
		}
		if err == nil || rr != nil {
			t.Fatalf("Sm2Sign with failing entropy source returned r=%v s=%v err=%v", rr, ss, err)
		}
		R.Case(true, hx.HashKey("fresh", key.D.Bytes(), msg, b1, b2), "fresh", "uid_too_long", "reader_error")
	})
}

func TestC01_Replay(t *testing.T) {
	// GM/T 0003.5 signature example
	d, _ := new(big.Int).SetString("3945208F7B2144B13F36E38AC6D39F95889393692860B51A42FB81EF4DF7C5B8", 16)
	k, _ := new(big.Int).SetString("59276E27D506861A16680F3AD9C02DCCEF3CC1FA3CDBE4CE6D54B80DEAC1BC21", 16)
	key := gen.Key{D: d, Pub: cv.BaseMul(d)}
	r, s, err := sm2.Sm2Sign(sm2x.Priv(key), []byte("message digest"), nil, sm2x.NewNonceReader(sm2x.BlockForNonce(k)))
	if err != nil || fmt.Sprintf("%X", r) != "F5A03B0648D2C4630EEAC513E1BB81A15944DA3827D5B74143AC7EACEEE720B3" || fmt.Sprintf("%X", s) != "B1B6AA29DF212FD8763182BC0D421CA1BB9038FD1F7F42D4840B69C485BBC1AA" {
		t.Fatalf("standard example: r=%X s=%X err=%v", r, s, err)
	}
	R.Case(true, hx.HashKey("replay"), "replay")
}
