//go:build verif

// C02 — SM2 encryption round-trips, matches GM/T 0003.4 and rejects forged ciphertexts.
package c02

import (
	"bytes"
	"fmt"
	"math/big"
	"testing"

	"github.com/tjfoc/gmsm/sm2"
	"pgregory.net/rapid"

	"verifharness/gen"
	"verifharness/hx"
	"verifharness/ref/rder"
	"verifharness/ref/rsm2"
	"verifharness/ref/rsm3"
	"verifharness/sm2x"
)

var R = hx.NewRecorder("C02", "cases = (key, plaintext, ordering, raw|ASN.1|crypto.Decrypter form, 40-byte nonce block) for encryption and (valid ciphertext, perturbation) for decryption: truncations, byte substitutions, extensions, wrong key, mode confusion, invalid-curve C1 with consistent C2/C3; "+
	"oracle = ciphertext bytes from ref/rsm2 with the independently derived nonce, round-trip identity, err != nil for every forged input; non-trivial = non-empty plaintext or a perturbation that changed the bytes; distinct by hash of inputs")

var cv = rsm2.Std

func TestMain(m *testing.M) {
	R.Require("c1_x_plus_p", "len==0", "len%32==0", "len%32==31", "x2y2_leading_zero", "asn1", "c1c2c3", "c1c3c2", "trunc<97", "offcurve_order2", "offcurve_consistent", "wrong_key", "mode_confusion", "subst_c1", "subst_c2", "subst_c3", "nonce_short_reads")
	hx.Main(m, R)
}

func asn1Form(raw []byte) []byte {
	x := new(big.Int).SetBytes(raw[1:33])
	y := new(big.Int).SetBytes(raw[33:65])
	c3 := raw[65:97]
	c2 := raw[97:]
	return rder.EncSeq(rder.EncInt(x), rder.EncInt(y), append(rder.EncLen(0x04, len(c3)), c3...), append(rder.EncLen(0x04, len(c2)), c2...))
}

// findNonce walks from k0 until the shared point has a leading zero byte in x2 or y2.
func findNonce(pub rsm2.Point, k0 *big.Int) (*big.Int, bool) {
	k := new(big.Int).Set(k0)
	s := cv.Mul(pub, k)
	for i := 0; i < 1500; i++ {
		if !s.Inf && (len(s.X.Bytes()) < 32 || len(s.Y.Bytes()) < 32) && k.Cmp(cv.N) < 0 {
			return k, true
		}
		s = cv.Add(s, pub)
		k.Add(k, big.NewInt(1))
	}
	return k0, false
}

type encCase struct {
	key   gen.Key
	pt    []byte
	mode  int
	form  string
	block []byte
	cls   []string
}

func drawEnc(t *rapid.T, maxLen int) encCase {
	c := encCase{key: gen.KeyPair(hx.Root()).Draw(t, "key")}
	n := gen.LenAround(32, maxLen).Draw(t, "len")
	if n == 0 {
		n = 1
	}
	c.pt = gen.BytesN(n).Draw(t, "pt")
	c.mode = rapid.SampledFrom([]int{sm2.C1C3C2, sm2.C1C2C3}).Draw(t, "mode")
	c.form = rapid.SampledFrom([]string{"raw", "raw", "asn1", "decrypter"}).Draw(t, "form")
	if c.form != "raw" {
		c.mode = sm2.C1C3C2
	}
	c.block = gen.NonceBlock().Draw(t, "nonce")
	if rapid.IntRange(0, 3).Draw(t, "lzsearch") == 0 {
		if k, ok := findNonce(c.key.Pub, sm2x.NonceFromBlock(c.block)); ok {
			c.block = sm2x.BlockForNonce(k)
		}
	}
	if c.mode == sm2.C1C2C3 {
		c.cls = append(c.cls, "c1c2c3")
	} else {
		c.cls = append(c.cls, "c1c3c2")
	}
	if c.form == "asn1" {
		c.cls = append(c.cls, "asn1")
	}
	switch len(c.pt) % 32 {
	case 0:
		c.cls = append(c.cls, "len%32==0")
	case 31:
		c.cls = append(c.cls, "len%32==31")
	}
	c.cls = append(c.cls, "key:"+c.key.Class)
	return c
}

// encrypt runs the library and compares with the reference; returns the raw (04||..) ciphertext
// in the case's ordering, or nil when the reference says the nonce must be retried.
func encrypt(t *rapid.T, c *encCase) []byte {
	pub := sm2x.Pub(c.key.Pub)
	rd := sm2x.NewNonceReader(c.block)
	if rapid.IntRange(0, 3).Draw(t, "shortreads") == 0 {
		// a randomness source that hands out 1..39 bytes per call: the nonce is what the STREAM encodes
		rd.Chunk = rapid.SampledFrom([]int{1, 7, 16, 32, 39}).Draw(t, "chunk")
		R.Class("nonce_short_reads")
	}
	var out []byte
	var err error
	p := hx.Try(func() {
		if c.form == "asn1" {
			out, err = pub.EncryptAsn1(c.pt, rd)
		} else {
			out, err = sm2.Encrypt(pub, c.pt, rd, c.mode)
		}
	})
	if p != nil {
		if _, spin := p.Val.(sm2x.Spin); spin {
			t.Fatalf("Encrypt(len %d) did not terminate within 64 nonce draws", len(c.pt))
		}
		t.Fatalf("Encrypt panicked: %v\n%s", p.Val, p.Stack)
	}
	if err != nil {
		t.Fatalf("Encrypt(len %d) error: %v", len(c.pt), err)
	}
	if w := sm2x.IntactPub(pub, c.key.Pub); w != "" {
		t.Fatalf("Encrypt modified the caller's public key object (%s)", w)
	}
	k := sm2x.NonceFromBlock(c.block)
	want, x2, y2, retry := cv.Encrypt(c.key.Pub, c.pt, k, c.mode)
	if retry {
		if rd.Served < 80 {
			t.Fatalf("KDF output all zero: the standard requires another nonce, library consumed %d bytes", rd.Served)
		}
		return nil
	}
	if len(x2.Bytes()) < 32 || len(y2.Bytes()) < 32 {
		c.cls = append(c.cls, "x2y2_leading_zero")
	}
	if rd.Served != 40 {
		t.Fatalf("Encrypt consumed %d random bytes, want 40", rd.Served)
	}
	if c.form == "asn1" {
		if w := asn1Form(want); !bytes.Equal(out, w) {
			t.Fatalf("EncryptAsn1 d=%x k=%x pt=%x:\n got  %x\n want %x", c.key.D, k, c.pt, out, w)
		}
		return want
	}
	if !bytes.Equal(out, want) {
		t.Fatalf("Encrypt mode=%d d=%x k=%x pt=%x:\n got  %x\n want %x (GM/T 0003.4)", c.mode, c.key.D, k, c.pt, out, want)
	}
	return out
}

func decrypt(c *encCase, priv *sm2.PrivateKey, raw []byte) (pt []byte, err error, pn *hx.PanicInfo) {
	// the ciphertext is the caller's: it is handed over in a buffer with spare capacity and must come back untouched
	// (a second decryption of the same buffer must see the same bytes)
	in := gen.WithCap(raw, 8, 0xC5)
	if c.form == "asn1" {
		in = gen.WithCap(asn1Form(raw), 8, 0xC5)
	}
	before := append([]byte{}, in...)
	pn = hx.Try(func() {
		switch c.form {
		case "asn1":
			pt, err = priv.DecryptAsn1(in)
		case "decrypter":
			pt, err = priv.Decrypt(nil, in, nil)
		default:
			pt, err = sm2.Decrypt(priv, in, c.mode)
		}
	})
	if pn == nil && (!bytes.Equal(in, before) || !gen.SpareIntact(in, 0xC5)) {
		pn = &hx.PanicInfo{Val: "Decrypt MODIFIED the caller's ciphertext buffer (or wrote behind it)", Stack: ""}
	}
	return
}

func TestC02_RoundTripExact(t *testing.T) {
	maxLen := 1024
	if hx.Thorough() {
		maxLen = 4096
	}
	hx.Check(t, hx.N(1100, 15000), func(t *rapid.T) {
		c := drawEnc(t, maxLen)
		raw := encrypt(t, &c)
		if raw == nil {
			R.Discard()
			return
		}
		priv := sm2x.Priv(c.key)
		pt, err, pn := decrypt(&c, priv, raw)
		if pn != nil {
			t.Fatalf("Decrypt panicked on a valid ciphertext: %v\n%s", pn.Val, pn.Stack)
		}
		if err != nil || !bytes.Equal(pt, c.pt) {
			t.Fatalf("Decrypt(Encrypt(m)) form=%s mode=%d: err=%v got %x want %x", c.form, c.mode, err, pt, c.pt)
		}
		if w := sm2x.Intact(priv, c.key); w != "" {
			t.Fatalf("Decrypt modified the caller's key object (%s)", w)
		}
		// the library's own ASN.1 converters are inverse on this ciphertext
		if c.mode == sm2.C1C3C2 {
			a, err := sm2.CipherMarshal(raw)
			if err != nil || !bytes.Equal(a, asn1Form(raw)) {
				t.Fatalf("CipherMarshal: %v %x", err, a)
			}
			b, err := sm2.CipherUnmarshal(a)
			if err != nil || !bytes.Equal(b, raw) {
				t.Fatalf("CipherUnmarshal(CipherMarshal(c)) != c")
			}
		}
		// fresh randomness path (nil reader) also round-trips
		ct2, err := sm2.Encrypt(sm2x.Pub(c.key.Pub), c.pt, nil, c.mode)
		if err != nil {
			t.Fatalf("Encrypt(nil reader): %v", err)
		}
		if p2, err := sm2.Decrypt(priv, ct2, c.mode); err != nil || !bytes.Equal(p2, c.pt) {
			t.Fatalf("round trip with crypto/rand failed: %v", err)
		}
		if bytes.Equal(ct2[:65], raw[:65]) {
			t.Fatalf("two encryptions share C1")
		}
		R.Case(true, hx.HashKey(c.key.D.Bytes(), c.pt, c.mode, c.form, c.block), c.cls...)
		R.Sample("enc_"+c.form, map[string]interface{}{"key": c.key.Class, "len": len(c.pt), "mode": c.mode, "c1": hx.Hex(raw[:33])})
	})
}

// Every plaintext length (including 0) terminates with a ciphertext or an error.
func TestC02_LengthsTerminate(t *testing.T) {
	max := 130
	if hx.Thorough() {
		max = 1024
	}
	keys := []gen.Key{}
	for _, ds := range []string{"3945208F7B2144B13F36E38AC6D39F95889393692860B51A42FB81EF4DF7C5B8", "02", "FFFFFFFEFFFFFFFFFFFFFFFFFFFFFFFF7203DF6B21C6052B53BBF40939D54121"} {
		d, _ := new(big.Int).SetString(ds, 16)
		keys = append(keys, gen.Key{D: d, Pub: cv.BaseMul(d)})
	}
	lo, hi := hx.ShardRange(0, max+1)
	var n int64
	for l := lo; l < hi; l++ {
		for ki, key := range keys {
			for _, mode := range []int{sm2.C1C3C2, sm2.C1C2C3} {
				if !hx.Thorough() && l > 70 && (l+ki+mode)%3 != 0 {
					continue
				}
				pt := make([]byte, l)
				gen.Fill(pt, uint64(hx.Seed())*31+uint64(l))
				blk := make([]byte, 40)
				gen.Fill(blk, uint64(l*7+ki))
				rd := sm2x.NewNonceReader(blk)
				var ct []byte
				var err error
				p := hx.Try(func() { ct, err = sm2.Encrypt(sm2x.Pub(key.Pub), pt, rd, mode) })
				if p != nil {
					if _, spin := p.Val.(sm2x.Spin); spin {
						t.Fatalf("Encrypt(plaintext length %d) does not terminate: still drawing nonces after %d bytes", l, rd.Served)
					}
					t.Fatalf("Encrypt(len %d) panicked: %v", l, p.Val)
				}
				if l == 0 {
					// either a clean error, or a ciphertext that decrypts to the empty string
					if err == nil {
						pt2, derr := sm2.Decrypt(sm2x.Priv(key), ct, mode)
						if derr != nil || len(pt2) != 0 {
							t.Fatalf("Encrypt(empty) returned a ciphertext that does not decrypt to empty: %v", derr)
						}
					}
					R.Case(true, hx.HashKey("len0", ki, mode), "len==0")
					n++
					continue
				}
				if err != nil {
					t.Fatalf("Encrypt(len %d): %v", l, err)
				}
				want, _, _, retry := cv.Encrypt(key.Pub, pt, sm2x.NonceFromBlock(blk), mode)
				if !retry && !bytes.Equal(ct, want) {
					t.Fatalf("Encrypt(len %d mode %d key %d) differs from GM/T 0003.4", l, mode, ki)
				}
				back, err := sm2.Decrypt(sm2x.Priv(key), ct, mode)
				if err != nil || !bytes.Equal(back, pt) {
					t.Fatalf("round trip len %d: %v", l, err)
				}
				R.Case(true, hx.HashKey("len", l, ki, mode, hx.Seed()), "exhaustive_len")
				n++
			}
		}
	}
	R.Subspace(fmt.Sprintf("plaintext lengths 0..%d x 3 keys x 2 orderings", max), n, true)
}

func forge(s rsm2.Point, c1x, c1y *big.Int, m []byte, mode int) []byte {
	var x2b, y2b []byte
	if s.Inf {
		x2b, y2b = make([]byte, 32), make([]byte, 32)
	} else {
		x2b, y2b = rsm2.Pad32(s.X), rsm2.Pad32(s.Y)
	}
	tk, _ := rsm2.KDF(len(m), x2b, y2b)
	c2 := make([]byte, len(m))
	for i := range m {
		c2[i] = m[i] ^ tk[i]
	}
	c3 := rsm3.Sum(append(append(append([]byte{}, x2b...), m...), y2b...))
	ct := append([]byte{4}, rsm2.Pad32(c1x)...)
	ct = append(ct, rsm2.Pad32(c1y)...)
	if mode == sm2.C1C2C3 {
		return append(append(ct, c2...), c3...)
	}
	return append(append(ct, c3...), c2...)
}

func TestC02_Reject(t *testing.T) {
	hx.Check(t, hx.N(3500, 40000), func(t *rapid.T) {
		c := drawEnc(t, 200)
		raw := encrypt(t, &c)
		if raw == nil {
			R.Discard()
			return
		}
		priv := sm2x.Priv(c.key)
		kind := rapid.SampledFrom([]string{"truncate", "truncate_short", "subst", "subst", "extend", "wrong_key", "mode_confusion", "offcurve_order2", "offcurve_consistent", "offcurve_consistent", "offcurve_zero", "prefix"}).Draw(t, "kind")
		mut := append([]byte{}, raw...)
		cls := kind
		dpriv := priv
		dc := c
		mustReject := true
		switch kind {
		case "truncate":
			mut = mut[:rapid.IntRange(0, len(mut)-1).Draw(t, "cut")]
			if len(mut) < 97 {
				cls = "trunc<97"
			}
		case "truncate_short":
			mut = mut[:rapid.SampledFrom([]int{0, 1, 2, 32, 33, 64, 65, 66, 95, 96, 97}).Draw(t, "cut")]
			if len(mut) >= len(raw) {
				R.Discard()
				return
			}
			cls = "trunc<97"
		case "subst":
			i := rapid.IntRange(1, len(mut)-1).Draw(t, "pos")
			b := mut[i]
			nb := rapid.SampledFrom([]byte{0x00, 0x01, 0x7f, 0x80, 0xff, b ^ 1, b ^ 0x80}).Draw(t, "val")
			if nb == b {
				nb = b ^ 0x40
			}
			mut[i] = nb
			switch {
			case i <= 64:
				cls = "subst_c1"
			case (c.mode == sm2.C1C3C2 && i <= 96) || (c.mode == sm2.C1C2C3 && i >= len(mut)-32):
				cls = "subst_c3"
			default:
				cls = "subst_c2"
			}
		case "prefix":
			// the leading format byte is not covered by the property's four rejection clauses:
			// either outcome, but no panic and never a different plaintext
			mut[0] = rapid.SampledFrom([]byte{0x00, 0x02, 0x03, 0x05, 0xff}).Draw(t, "pfx")
			mustReject = false
		case "extend":
			mut = append(mut, gen.BytesN(rapid.IntRange(1, 40).Draw(t, "extra")).Draw(t, "ext")...)
		case "wrong_key":
			other := gen.KeyPair(hx.Root()).Draw(t, "other")
			if other.D.Cmp(c.key.D) == 0 {
				R.Discard()
				return
			}
			dpriv = sm2x.Priv(other)
		case "mode_confusion":
			if c.form != "raw" {
				dc.form = "raw"
			}
			dc.mode = 1 - c.mode
		case "offcurve_order2":
			// Q=(x0,0) has order 2 on y^2=x^3+ax+b' (the formulas never use b): [d]Q in {Q, inf}
			x0 := gen.BigBelow(cv.P).Draw(t, "x0")
			q := rsm2.Point{X: x0, Y: new(big.Int)}
			which := rapid.Bool().Draw(t, "assumeQ")
			s := rsm2.Infinity()
			if which {
				s = q
			}
			mut = forge(s, x0, new(big.Int), c.pt, c.mode)
		case "offcurve_zero":
			// C1 = (0,0): the affine stand-in for infinity and the order-2 point of the b'=0 curve;
			// every scalar multiple is (0,0) again, so anyone can build consistent C2/C3 without a key
			mut = forge(rsm2.Infinity(), new(big.Int), new(big.Int), c.pt, c.mode)
			cls = "offcurve_order2"
		case "offcurve_consistent":
			x := gen.BigBelow(cv.P).Draw(t, "x")
			y := gen.BigBelow(cv.P).Draw(t, "y")
			if cv.OnCurve(x, y) {
				R.Discard()
				return
			}
			// craft with the point the implementation itself derives, so only an explicit
			// membership test of C1 can reject it
			var sx, sy *big.Int
			if p := hx.Try(func() { sx, sy = sm2.P256Sm2().ScalarMult(x, y, c.key.D.Bytes()) }); p != nil {
				t.Fatalf("ScalarMult on off-curve input panicked: %v", p.Val)
			}
			mut = forge(rsm2.FromAffine(sx, sy), x, y, c.pt, c.mode)
		}
		if bytes.Equal(mut, raw) && kind != "wrong_key" && kind != "mode_confusion" {
			R.Discard()
			return
		}
		var pt []byte
		var err error
		var pn *hx.PanicInfo
		if dc.form == "asn1" && len(mut) < 97 {
			dc.form = "raw" // the ASN.1 wrapper cannot express a ciphertext shorter than C1||C3
		}
		pt, err, pn = decrypt(&dc, dpriv, mut)
		if pn != nil {
			t.Fatalf("Decrypt panicked on %s input (%d bytes, form %s mode %d): %v\n%s", kind, len(mut), dc.form, dc.mode, pn.Val, pn.Stack)
		}
		if mustReject && err == nil {
			t.Fatalf("Decrypt ACCEPTED a %s ciphertext (form %s mode %d): returned %x\n valid  %x\n forged %x", cls, dc.form, dc.mode, pt, raw, mut)
		}
		if !mustReject && err == nil && !bytes.Equal(pt, c.pt) {
			t.Fatalf("Decrypt with changed prefix byte returned a different plaintext")
		}
		R.Case(true, hx.HashKey("rej", kind, mut, dpriv.D.Bytes(), dc.mode), append(c.cls, cls)...)
		R.Sample("reject_"+cls, map[string]interface{}{"len": len(mut), "mode": dc.mode, "form": dc.form})
	})
}

// thorough: every truncation and every single-byte substitution of short ciphertexts
func TestC02_RejectExhaustive(t *testing.T) {
	d, _ := new(big.Int).SetString("3945208F7B2144B13F36E38AC6D39F95889393692860B51A42FB81EF4DF7C5B8", 16)
	key := gen.Key{D: d, Pub: cv.BaseMul(d)}
	priv := sm2x.Priv(key)
	lens := []int{1, 33}
	if hx.Thorough() {
		lens = []int{1, 2, 31, 32, 33, 64}
	}
	var n int64
	for li, l := range lens {
		if li%hx.Shards() != hx.Shard() && hx.Shards() > 1 {
			continue
		}
		for _, mode := range []int{sm2.C1C3C2, sm2.C1C2C3} {
			pt := make([]byte, l)
			gen.Fill(pt, uint64(l)+uint64(hx.Seed()))
			raw, _, _, _ := cv.Encrypt(key.Pub, pt, big.NewInt(int64(1000+l)), mode)
			for cut := 0; cut < len(raw); cut++ {
				var err error
				if p := hx.Try(func() { _, err = sm2.Decrypt(priv, raw[:cut:cut], mode) }); p != nil {
					t.Fatalf("Decrypt panicked on %d-byte truncation (mode %d): %v", cut, mode, p.Val)
				}
				if err == nil {
					t.Fatalf("Decrypt accepted a %d-byte truncation of a %d-byte ciphertext", cut, len(raw))
				}
				n++
			}
			for i := 1; i < len(raw); i++ {
				for _, x := range []byte{0x01, 0x80, 0xff} {
					m := append([]byte{}, raw...)
					m[i] ^= x
					var err error
					if p := hx.Try(func() { _, err = sm2.Decrypt(priv, m, mode) }); p != nil {
						t.Fatalf("Decrypt panicked on byte %d ^ %#x: %v", i, x, p.Val)
					}
					if err == nil {
						t.Fatalf("Decrypt accepted ciphertext with byte %d ^ %#x (mode %d)", i, x, mode)
					}
					n++
				}
			}
			R.Case(true, hx.HashKey("rejexh", l, mode), "reject_exhaustive")
		}
	}
	R.Subspace("every truncation + 3 substitutions per byte of ciphertexts for the listed plaintext lengths x 2 orderings", n, true)
}

func TestC02_Replay(t *testing.T) {
	d, _ := new(big.Int).SetString("3945208F7B2144B13F36E38AC6D39F95889393692860B51A42FB81EF4DF7C5B8", 16)
	k, _ := new(big.Int).SetString("59276E27D506861A16680F3AD9C02DCCEF3CC1FA3CDBE4CE6D54B80DEAC1BC21", 16)
	key := gen.Key{D: d, Pub: cv.BaseMul(d)}
	ct, err := sm2.Encrypt(sm2x.Pub(key.Pub), []byte("encryption standard"), sm2x.NewNonceReader(sm2x.BlockForNonce(k)), sm2.C1C3C2)
	want := "0404EBFC718E8D1798620432268E77FEB6415E2EDE0E073C0F4F640ECD2E149A73E858F9D81E5430A57B36DAAB8F950A3C64E6EE6A63094D99283AFF767E124DF059983C18F809E262923C53AEC295D30383B54E39D609D160AFCB1908D0BD876621886CA989CA9C7D58087307CA93092D651EFA"
	if err != nil || fmt.Sprintf("%X", ct) != want {
		t.Fatalf("GM/T 0003.5 encryption example: %X %v", ct, err)
	}
	R.Case(true, hx.HashKey("replay"), "replay")
}

// Ciphertexts built by the key holder around a chosen C1 with a SMALL x coordinate (no nonce is known for such points,
// but whoever holds d can compute [d]C1): the genuine one must decrypt, and the one whose x coordinate is written as
// x + p - same residue, not a field element, so not "a point on the curve" - must be refused, in every form.
func TestC02_NonCanonicalC1(t *testing.T) {
	// curve points with the smallest x coordinates
	var pts []rsm2.Point
	e := new(big.Int).Add(cv.P, big.NewInt(1))
	e.Rsh(e, 2)
	for x := int64(1); len(pts) < 6; x++ {
		X := big.NewInt(x)
		rhs := new(big.Int).Exp(X, big.NewInt(3), cv.P)
		rhs.Add(rhs, new(big.Int).Mul(cv.A, X)).Add(rhs, cv.B).Mod(rhs, cv.P)
		y := new(big.Int).Exp(rhs, e, cv.P)
		if cv.OnCurve(X, y) {
			pts = append(pts, rsm2.Point{X: X, Y: y})
		}
	}
	hx.Check(t, hx.N(120, 2000), func(t *rapid.T) {
		key := gen.KeyPair(hx.Root()).Draw(t, "key")
		c1 := pts[rapid.IntRange(0, len(pts)-1).Draw(t, "c1")]
		msg := rapid.SliceOfN(rapid.Byte(), 1, 80).Draw(t, "msg")
		mode := rapid.SampledFrom([]int{sm2.C1C3C2, sm2.C1C2C3}).Draw(t, "mode")
		form := rapid.SampledFrom([]string{"raw", "asn1", "decrypter"}).Draw(t, "form")
		if form != "raw" {
			mode = sm2.C1C3C2
		}
		s := cv.Mul(c1, key.D)
		x2, y2 := rsm2.Pad32(s.X), rsm2.Pad32(s.Y)
		ks, zero := rsm2.KDF(len(msg), x2, y2)
		if zero {
			t.Skip("all-zero key stream")
		}
		c2 := make([]byte, len(msg))
		for i := range msg {
			c2[i] = msg[i] ^ ks[i]
		}
		c3 := rsm3.Sum(append(append(append([]byte{}, x2...), msg...), y2...))
		build := func(x *big.Int) []byte {
			raw := append([]byte{4}, rsm2.Pad32(x)...)
			raw = append(raw, rsm2.Pad32(c1.Y)...)
			if mode == sm2.C1C2C3 {
				return append(append(raw, c2...), c3...)
			}
			return append(append(raw, c3...), c2...)
		}
		ec := &encCase{form: form, mode: mode}
		priv := sm2x.Priv(key)
		pt, err, pn := decrypt(ec, priv, build(c1.X))
		if pn != nil || err != nil || !bytes.Equal(pt, msg) {
			t.Fatalf("a valid ciphertext around C1 = (%v, ...) does not decrypt (form %s mode %d): err=%v panic=%v", c1.X, form, mode, err, pn)
		}
		big := new(big.Int).Add(c1.X, cv.P)
		pt, err, pn = decrypt(ec, priv, build(big))
		if pn != nil {
			t.Fatalf("Decrypt panicked on C1 with x + p: %v", pn.Val)
		}
		if err == nil {
			t.Fatalf("Decrypt (form %s mode %d) ACCEPTED a ciphertext whose C1 has the x coordinate %x = x + p (not a field element); returned %x", form, mode, big, pt)
		}
		R.Case(true, hx.HashKey("noncanon", key.D.Bytes(), c1.X.Int64(), msg, mode, form), "c1_x_plus_p", "form:"+form)
	})
}
