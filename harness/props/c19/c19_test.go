//go:build verif

// C19 — streaming PKCS#7 padding reader/writer and P7Block helpers are independent of chunking.
package c19

import (
	"bytes"
	"crypto/cipher"
	"crypto/des"
	"errors"
	"fmt"
	"io"
	"testing"

	"github.com/tjfoc/gmsm/sm4"
	"github.com/tjfoc/gmsm/sm4/padding"
	"pgregory.net/rapid"

	"verifharness/gen"
	"verifharness/hx"
	"verifharness/ref/rsm4"
)

var R = hx.NewRecorder("C19", "cases = (source bytes, block size, scripted source-reader behaviour per call, caller buffer sizes / write sizes, final-block corruption); "+
	"oracle = in-memory model: reader output == source||PKCS7pad, writer sink == unpadded source, Final errs iff last block is not a valid pad, "+
	"P7BlockEnc == CBC(ref/rsm4 or crypto/des) over my own padded plaintext, P7BlockDecrypt inverts; non-trivial = length >= 1 and at least one short/split read or write; distinct by hash of (source, plan)")

func TestMain(m *testing.M) {
	R.Require("short_nonEOF", "data_with_EOF", "zero_read", "write>1024", "len%bs==0", "bad_pad:zero", "bad_pad:toolarge", "bad_pad:inconsistent", "bad_pad:partial_block", "bad_pad:empty", "bad_pad:ct_partial_tail", "bad_pad:ct_cut_midblock", "bs=8", "bs=16", "source_error")
	hx.Main(m, R)
}

// ---- scripted source reader

type step struct {
	N       int  // max bytes to hand out in this call
	WithEOF bool // if this call exhausts the data, return io.EOF together with the data
}

type scripted struct {
	data    []byte
	plan    []step
	i       int
	failAt  int // fail (errBoom) once this many bytes have been served; -1 = never
	served  int
	zero    bool
	short   bool
	dataEOF bool
	calls   int
}

var errBoom = errors.New("boom: source failure")

func (s *scripted) Read(p []byte) (int, error) {
	s.calls++
	if s.calls > 1000000 {
		panic("harness: reader called > 1e6 times (consumer spins)")
	}
	if s.failAt >= 0 && s.served >= s.failAt {
		return 0, errBoom
	}
	if len(s.data) == 0 {
		return 0, io.EOF
	}
	st := step{N: len(p)}
	if s.i < len(s.plan) {
		st = s.plan[s.i]
		s.i++
	}
	n := st.N
	if n > len(p) {
		n = len(p)
	}
	if n > len(s.data) {
		n = len(s.data)
	}
	if s.failAt >= 0 && s.served+n > s.failAt {
		n = s.failAt - s.served
	}
	if n == 0 && len(p) > 0 {
		s.zero = true
		return 0, nil
	}
	copy(p, s.data[:n])
	s.data = s.data[n:]
	s.served += n
	if n < len(p) && len(s.data) > 0 {
		s.short = true
	}
	if len(s.data) == 0 && st.WithEOF {
		s.dataEOF = true
		return n, io.EOF
	}
	return n, nil
}

func planGen(total int) *rapid.Generator[[]step] {
	return rapid.Custom(func(t *rapid.T) []step {
		kind := rapid.IntRange(0, 6).Draw(t, "plankind")
		var plan []step
		switch kind {
		case 6: // a stuttering source: a zero-byte read in front of every small piece, for the whole stream (hundreds of
			// zero-byte reads in all, never two in a row)
			piece := rapid.SampledFrom([]int{1, 3, 16, 17}).Draw(t, "piece")
			for got := 0; got < total && len(plan) < 4000; got += piece {
				plan = append(plan, step{N: 0}, step{N: piece})
			}
			return plan
		case 0: // full reads, EOF separately
			return nil
		case 1: // full reads, data with EOF
			n := total/1024 + 2
			for i := 0; i < n; i++ {
				plan = append(plan, step{N: 1 << 20, WithEOF: true})
			}
			return plan
		case 2: // one byte at a time for a while
			k := rapid.IntRange(1, 40).Draw(t, "ones")
			for i := 0; i < k; i++ {
				plan = append(plan, step{N: 1})
			}
			return plan
		default:
			k := rapid.IntRange(1, 24).Draw(t, "steps")
			for i := 0; i < k; i++ {
				plan = append(plan, step{
					N:       rapid.SampledFrom([]int{0, 1, 1, 7, 8, 15, 16, 17, 100, 1023, 1024, 1025, 4096}).Draw(t, "n"),
					WithEOF: rapid.Bool().Draw(t, "witheof"),
				})
			}
			return plan
		}
	})
}

func pad(src []byte, bs int) []byte { return rsm4.PKCS7(src, bs) }

func srcLen() *rapid.Generator[int] {
	return rapid.Custom(func(t *rapid.T) int {
		switch rapid.IntRange(0, 5).Draw(t, "lk") {
		case 0:
			return rapid.IntRange(0, 40).Draw(t, "tiny")
		case 1:
			return 1024*rapid.IntRange(0, 4).Draw(t, "k") + rapid.IntRange(-1, 1).Draw(t, "d") + 1
		case 2:
			return 16 * rapid.IntRange(0, 70).Draw(t, "k16")
		default:
			return gen.LenAround(16, 5000).Draw(t, "len")
		}
	})
}

// drain reads r to EOF with generated buffer sizes.
func drain(t *rapid.T, r io.Reader, limit int) ([]byte, error, int) {
	var out []byte
	zero := 0
	for calls := 0; ; calls++ {
		if calls > limit {
			t.Fatalf("reader did not reach EOF within %d calls (collected %d bytes)", limit, len(out))
		}
		bl := rapid.SampledFrom([]int{1, 2, 7, 15, 16, 17, 33, 100, 1024, 4096}).Draw(t, "buf")
		buf := make([]byte, bl)
		n, err := r.Read(buf)
		if n < 0 || n > bl {
			t.Fatalf("Read returned n=%d for a %d-byte buffer", n, bl)
		}
		out = append(out, buf[:n]...)
		if err == io.EOF {
			return out, nil, zero
		}
		if err != nil {
			return out, err, zero
		}
		if n == 0 {
			zero++
		}
	}
}

func TestC19_PaddingReader(t *testing.T) {
	hx.Check(t, hx.N(4000, 60000), func(t *rapid.T) {
		bs := rapid.SampledFrom([]int{8, 16}).Draw(t, "bs")
		src := gen.BytesN(srcLen().Draw(t, "n")).Draw(t, "src")
		plan := planGen(len(src)).Draw(t, "plan")
		failAt := -1
		if rapid.IntRange(0, 7).Draw(t, "fail") == 0 {
			hiF := len(src) - 1
			if hiF < 0 {
				hiF = 0
			}
			failAt = rapid.IntRange(0, hiF).Draw(t, "failAt")
		}
		s := &scripted{data: append([]byte{}, src...), plan: plan, failAt: failAt}
		r := padding.NewPKCS7PaddingReader(s, bs)
		var got []byte
		var err error
		var zero int
		if p := hx.Try(func() { got, err, zero = drain(t, r, len(plan)+len(src)+200) }); p != nil {
			t.Fatalf("padding reader panicked (bs=%d len=%d plan=%v): %v\n%s", bs, len(src), plan, p.Val, p.Stack)
		}
		cl := []string{fmt.Sprintf("bs=%d", bs)}
		if s.short {
			cl = append(cl, "short_nonEOF")
		}
		if s.dataEOF {
			cl = append(cl, "data_with_EOF")
		}
		if s.zero {
			cl = append(cl, "zero_read")
		}
		if len(src)%bs == 0 {
			cl = append(cl, "len%bs==0")
		}
		if failAt >= 0 {
			// the source fails before delivering EOF: the error must surface, and what was
			// delivered before it must be a prefix of the source (no padding invented mid-stream)
			if err == nil {
				t.Fatalf("source error after %d bytes was swallowed: reader reported clean EOF with %d bytes (bs=%d plan=%v)", failAt, len(got), bs, plan)
			}
			if !bytes.HasPrefix(src, got) {
				t.Fatalf("bytes delivered before the source error are not a prefix of the source: got %x", got)
			}
			cl = append(cl, "source_error")
		} else {
			if err != nil {
				t.Fatalf("unexpected error %v", err)
			}
			want := pad(src, bs)
			if !bytes.Equal(got, want) {
				t.Fatalf("bs=%d len(src)=%d plan=%v:\n reader yielded %d bytes …%x\n want source||pad %d bytes …%x", bs, len(src), plan, len(got), tail(got), len(want), tail(want))
			}
			if zero > len(plan)+2 {
				t.Fatalf("reader made %d zero-progress returns", zero)
			}
			// EOF is sticky
			if n, e := r.Read(make([]byte, 8)); n != 0 || e != io.EOF {
				t.Fatalf("Read after EOF = %d,%v", n, e)
			}
		}
		R.Case(len(src) >= 1 && (s.short || s.zero || s.dataEOF || len(plan) > 0), hx.HashKey(src, fmt.Sprint(plan), bs, failAt), cl...)
		R.Sample("reader", map[string]interface{}{"bs": bs, "len": len(src), "plan": plan, "failAt": failAt})
	})
}

func tail(b []byte) []byte {
	if len(b) > 24 {
		return b[len(b)-24:]
	}
	return b
}

func writeSizes(total int) *rapid.Generator[[]int] {
	return rapid.Custom(func(t *rapid.T) []int {
		var out []int
		rem := total
		rapid.Bool().Draw(t, "_") // a Custom generator must consume at least one draw (total may be 0)
		for rem > 0 {
			n := rapid.SampledFrom([]int{1, 1, 3, 8, 15, 16, 17, 100, 1023, 1024, 1025, 2000, 4096, 8192}).Draw(t, "w")
			if n > rem {
				n = rem
			}
			out = append(out, n)
			rem -= n
		}
		return out
	})
}

type badKind struct {
	name string
	mut  func(padded []byte, bs int) []byte
}

var badKinds = []badKind{
	{"zero", func(p []byte, bs int) []byte { p[len(p)-1] = 0; return p }},
	{"toolarge", func(p []byte, bs int) []byte { p[len(p)-1] = byte(bs + 1); return p }},
	{"inconsistent", func(p []byte, bs int) []byte {
		// claim a pad of >= 2 with one pad byte wrong
		k := 2 + int(p[0])%(bs-1)
		for i := 0; i < k; i++ {
			p[len(p)-1-i] = byte(k)
		}
		p[len(p)-k] ^= 0x55
		return p
	}},
	{"partial_block", func(p []byte, bs int) []byte { return p[:len(p)-1-int(p[0])%(bs-1)] }},
	{"empty", func(p []byte, bs int) []byte { return nil }},
}

func TestC19_PaddingWriter(t *testing.T) {
	hx.Check(t, hx.N(4000, 60000), func(t *rapid.T) {
		bs := rapid.SampledFrom([]int{8, 16}).Draw(t, "bs")
		src := gen.BytesN(srcLen().Draw(t, "n")).Draw(t, "src")
		stream := pad(src, bs)
		bad := ""
		if rapid.IntRange(0, 2).Draw(t, "neg") == 0 {
			k := rapid.SampledFrom(badKinds).Draw(t, "bad")
			bad = k.name
			stream = k.mut(append([]byte{}, stream...), bs)
		}
		sizes := writeSizes(len(stream)).Draw(t, "sizes")
		var sink bytes.Buffer
		w := padding.NewPKCS7PaddingWriter(&sink, bs)
		off := 0
		big := false
		var ferr error
		p := hx.Try(func() {
			for _, n := range sizes {
				if n > 1024 {
					big = true
				}
				k, err := w.Write(stream[off : off+n])
				if err != nil || k != n {
					t.Fatalf("Write(%d bytes) = %d,%v", n, k, err)
				}
				off += n
				if !bytes.HasPrefix(src, sink.Bytes()) && bad == "" {
					t.Fatalf("sink received bytes that are not a prefix of the original: %x", tail(sink.Bytes()))
				}
			}
			ferr = w.Final()
		})
		if p != nil {
			t.Fatalf("padding writer panicked (bs=%d len=%d sizes=%v bad=%q): %v\n%s", bs, len(stream), sizes, bad, p.Val, p.Stack)
		}
		cl := []string{fmt.Sprintf("bs=%d", bs)}
		if big {
			cl = append(cl, "write>1024")
		}
		if len(src)%bs == 0 {
			cl = append(cl, "len%bs==0")
		}
		if bad == "" {
			if ferr != nil {
				t.Fatalf("Final rejected a valid pad (bs=%d len(src)=%d sizes=%v): %v", bs, len(src), sizes, ferr)
			}
			if !bytes.Equal(sink.Bytes(), src) {
				t.Fatalf("bs=%d sizes=%v: sink has %d bytes …%x, want the %d original bytes …%x", bs, sizes, sink.Len(), tail(sink.Bytes()), len(src), tail(src))
			}
		} else {
			if ferr == nil {
				t.Fatalf("Final accepted an invalid final block (%s): stream tail %x (bs=%d sizes=%v)", bad, tail(stream), bs, sizes)
			}
			cl = append(cl, "bad_pad:"+bad)
		}
		R.Case(len(stream) >= 1 && len(sizes) >= 2, hx.HashKey(stream, fmt.Sprint(sizes), bs), cl...)
		R.Sample("writer", map[string]interface{}{"bs": bs, "len": len(stream), "sizes": sizes, "bad": bad})
	})
}

type blockAlg struct {
	name string
	bs   int
	enc  func(key, iv []byte) cipher.BlockMode // library cipher under test where applicable
	dec  func(key, iv []byte) cipher.BlockMode
	ref  func(key, iv []byte) cipher.BlockMode // independent encrypter
}

var algs = []blockAlg{
	{"sm4-cbc", 16,
		func(k, iv []byte) cipher.BlockMode { b, _ := sm4.NewCipher(k); return cipher.NewCBCEncrypter(b, iv) },
		func(k, iv []byte) cipher.BlockMode { b, _ := sm4.NewCipher(k); return cipher.NewCBCDecrypter(b, iv) },
		func(k, iv []byte) cipher.BlockMode { return cipher.NewCBCEncrypter(rsm4.Must(k), iv) }},
	{"des-cbc", 8,
		func(k, iv []byte) cipher.BlockMode { b, _ := des.NewCipher(k[:8]); return cipher.NewCBCEncrypter(b, iv[:8]) },
		func(k, iv []byte) cipher.BlockMode { b, _ := des.NewCipher(k[:8]); return cipher.NewCBCDecrypter(b, iv[:8]) },
		func(k, iv []byte) cipher.BlockMode { b, _ := des.NewCipher(k[:8]); return cipher.NewCBCEncrypter(b, iv[:8]) }},
}

func TestC19_BlockHelpers(t *testing.T) {
	hx.Check(t, hx.N(3000, 40000), func(t *rapid.T) {
		alg := rapid.SampledFrom(algs).Draw(t, "alg")
		key := gen.BytesN(16).Draw(t, "key")
		iv := gen.BytesN(16).Draw(t, "iv")
		src := gen.BytesN(srcLen().Draw(t, "n")).Draw(t, "src")
		plan := planGen(len(src)).Draw(t, "plan")
		s := &scripted{data: append([]byte{}, src...), plan: plan, failAt: -1}
		var ct bytes.Buffer
		var err error
		if p := hx.Try(func() { err = padding.P7BlockEnc(alg.enc(key, iv), s, &ct) }); p != nil {
			t.Fatalf("P7BlockEnc panicked (%s len=%d plan=%v): %v\n%s", alg.name, len(src), plan, p.Val, p.Stack)
		}
		if err != nil {
			t.Fatalf("P7BlockEnc error %v", err)
		}
		padded := pad(src, alg.bs)
		want := make([]byte, len(padded))
		alg.ref(key, iv).CryptBlocks(want, padded)
		if !bytes.Equal(ct.Bytes(), want) {
			t.Fatalf("%s len(src)=%d plan=%v: ciphertext (%d bytes) differs from CBC over padded plaintext (%d bytes)", alg.name, len(src), plan, ct.Len(), len(want))
		}
		// decrypt through a differently chunked reader
		plan2 := planGen(len(want)).Draw(t, "plan2")
		bad := ""
		stream := want
		if rapid.IntRange(0, 3).Draw(t, "neg") == 0 {
			k := rapid.SampledFrom(badKinds[:3]).Draw(t, "bad")
			bad = k.name
			bp := k.mut(append([]byte{}, padded...), alg.bs)
			stream = make([]byte, len(bp))
			alg.ref(key, iv).CryptBlocks(stream, bp)
		}
		if bad == "" && rapid.IntRange(0, 5).Draw(t, "tail") == 0 {
			// the ciphertext stream does not end on a block boundary: 1..bs-1 bytes too many, or as many too few - its final
			// block is incomplete and cannot be a valid pad
			k := rapid.IntRange(1, alg.bs-1).Draw(t, "tailbytes")
			if rapid.Bool().Draw(t, "tailextra") {
				stream = append(append([]byte{}, want...), gen.BytesN(k).Draw(t, "extra")...)
				bad = "ct_partial_tail"
			} else {
				stream = append([]byte{}, want[:len(want)-k]...)
				bad = "ct_cut_midblock"
			}
		}
		s2 := &scripted{data: append([]byte{}, stream...), plan: plan2, failAt: -1}
		var back bytes.Buffer
		if p := hx.Try(func() { err = padding.P7BlockDecrypt(alg.dec(key, iv), s2, &back) }); p != nil {
			t.Fatalf("P7BlockDecrypt panicked (%s len=%d plan=%v): %v\n%s", alg.name, len(stream), plan2, p.Val, p.Stack)
		}
		cl := []string{fmt.Sprintf("bs=%d", alg.bs), "blockhelper"}
		if s.short || s2.short {
			cl = append(cl, "short_nonEOF")
		}
		if s.zero || s2.zero {
			cl = append(cl, "zero_read")
		}
		if s.dataEOF || s2.dataEOF {
			cl = append(cl, "data_with_EOF")
		}
		if bad == "" {
			if err != nil {
				t.Fatalf("P7BlockDecrypt error on a valid stream (%s len=%d plan=%v): %v", alg.name, len(stream), plan2, err)
			}
			if !bytes.Equal(back.Bytes(), src) {
				t.Fatalf("%s: decrypt(encrypt(x)) returned %d bytes, want %d (plan=%v plan2=%v)", alg.name, back.Len(), len(src), plan, plan2)
			}
		} else {
			if err == nil {
				t.Fatalf("P7BlockDecrypt accepted an invalid final block (%s)", bad)
			}
			cl = append(cl, "bad_pad:"+bad)
		}
		R.Case(len(src) >= 1 && (len(plan) > 0 || len(plan2) > 0), hx.HashKey(alg.name, key, iv, src, fmt.Sprint(plan, plan2), bad), cl...)
		R.Sample("blockhelper", map[string]interface{}{"alg": alg.name, "len": len(src), "plan": plan, "plan2": plan2, "bad": bad})
	})
}

// All source lengths with a handful of fixed chunk behaviours (thorough: 0..5000).
func TestC19_LengthsExhaustive(t *testing.T) {
	max := 600
	if hx.Thorough() {
		max = 5000
	}
	lo, hi := hx.ShardRange(0, max+1)
	behaviours := [][]step{nil, {{N: 1 << 20, WithEOF: true}, {N: 1 << 20, WithEOF: true}, {N: 1 << 20, WithEOF: true}, {N: 1 << 20, WithEOF: true}, {N: 1 << 20, WithEOF: true}, {N: 1 << 20, WithEOF: true}},
		{{N: 1}, {N: 0}, {N: 7}, {N: 1025}}, {{N: 1023}, {N: 1, WithEOF: true}, {N: 1024, WithEOF: true}, {N: 4096, WithEOF: true}}}
	var n int64
	for l := lo; l < hi; l++ {
		src := make([]byte, l)
		gen.Fill(src, uint64(hx.Seed())*77+uint64(l))
		for _, bs := range []int{8, 16} {
			for bi, plan := range behaviours {
				for _, bufl := range []int{1024, 1 + (l+bi)%37} {
					s := &scripted{data: append([]byte{}, src...), plan: plan, failAt: -1}
					r := padding.NewPKCS7PaddingReader(s, bs)
					var got []byte
					var rerr error
					p := hx.Try(func() {
						buf := make([]byte, bufl)
						for calls := 0; calls < l+2000; calls++ {
							k, err := r.Read(buf)
							got = append(got, buf[:k]...)
							if err != nil {
								if err != io.EOF {
									rerr = err
								}
								return
							}
						}
						rerr = errors.New("no EOF")
					})
					if p != nil {
						t.Fatalf("reader panicked len=%d bs=%d behaviour=%d: %v", l, bs, bi, p.Val)
					}
					if rerr != nil || !bytes.Equal(got, pad(src, bs)) {
						t.Fatalf("reader len=%d bs=%d behaviour=%d buf=%d: err=%v got %d bytes …%x want …%x", l, bs, bi, bufl, rerr, len(got), tail(got), tail(pad(src, bs)))
					}
					n++
				}
			}
			// writer, two fixed write patterns
			for _, ws := range []int{1 << 20, 1 + l%13} {
				stream := pad(src, bs)
				var sink bytes.Buffer
				w := padding.NewPKCS7PaddingWriter(&sink, bs)
				var ferr error
				p := hx.Try(func() {
					for off := 0; off < len(stream); off += ws {
						e := off + ws
						if e > len(stream) {
							e = len(stream)
						}
						if _, err := w.Write(stream[off:e]); err != nil {
							ferr = err
							return
						}
					}
					ferr = w.Final()
				})
				if p != nil {
					t.Fatalf("writer panicked len=%d bs=%d ws=%d: %v", l, bs, ws, p.Val)
				}
				if ferr != nil || !bytes.Equal(sink.Bytes(), src) {
					t.Fatalf("writer len=%d bs=%d ws=%d: err=%v sink=%d bytes", l, bs, ws, ferr, sink.Len())
				}
				n++
			}
		}
		// block helper round trip, sm4-cbc
		key, iv := make([]byte, 16), make([]byte, 16)
		gen.Fill(key, uint64(l)+1)
		var ct, back bytes.Buffer
		var e1, e2 error
		p := hx.Try(func() {
			e1 = padding.P7BlockEnc(algs[0].enc(key, iv), bytes.NewReader(src), &ct)
			e2 = padding.P7BlockDecrypt(algs[0].dec(key, iv), bytes.NewReader(ct.Bytes()), &back)
		})
		if p != nil || e1 != nil || e2 != nil || !bytes.Equal(back.Bytes(), src) {
			t.Fatalf("P7Block round trip len=%d: panic=%v e1=%v e2=%v got %d bytes", l, p, e1, e2, back.Len())
		}
		R.Case(l >= 1, hx.HashKey("exh", l, hx.Seed()), "exhaustive_len")
	}
	R.Subspace(fmt.Sprintf("source lengths 0..%d x bs{8,16} x 4 reader behaviours x 2 buffer sizes + 2 write patterns + block round trip", max), n, true)
}

func TestC19_Replay(t *testing.T) {
	// a 1025-byte write must not panic the un-padding writer
	var sink bytes.Buffer
	w := padding.NewPKCS7PaddingWriter(&sink, 16)
	src := make([]byte, 2000)
	stream := pad(src, 16)
	if p := hx.Try(func() { w.Write(stream); }); p != nil {
		t.Fatalf("large write panicked: %v", p.Val)
	}
	if err := w.Final(); err != nil || sink.Len() != 2000 {
		t.Fatalf("large write: err=%v sink=%d", err, sink.Len())
	}
	R.Case(true, hx.HashKey("replay"), "replay")
}
