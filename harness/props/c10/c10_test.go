//go:build verif

// C10 — chain verification accepts exactly the chains a reference path validator accepts.
package c10

import (
	"bytes"
	"crypto"
	"crypto/ecdsa"
	"crypto/elliptic"
	"crypto/rand"
	"crypto/rsa"
	stdx509 "crypto/x509"
	"crypto/x509/pkix"
	"encoding/asn1"
	"fmt"
	"math/big"
	"net"
	"strings"
	"testing"
	"time"

	"github.com/tjfoc/gmsm/sm2"
	gx "github.com/tjfoc/gmsm/x509"
	// every hash the Go ecosystem registers with crypto.RegisterHash is linked into this binary (as it is into many
	// applications): the x509 package's own Hash numbering overlaps crypto.Hash only in part - x509.SM3 is 16, which is
	// crypto.BLAKE2s_256 - and must never be served from that registry
	_ "golang.org/x/crypto/blake2b"
	_ "golang.org/x/crypto/blake2s"
	_ "golang.org/x/crypto/md4"
	_ "golang.org/x/crypto/ripemd160"
	_ "golang.org/x/crypto/sha3"
	"pgregory.net/rapid"

	"verifharness/gen"
	"verifharness/hx"
	"verifharness/ref/rder"
	"verifharness/ref/rsm2"
	"verifharness/ref/rsm3"
	"verifharness/sm2x"
)

var R = hx.NewRecorder("C10", "cases = small PKIs (<=3 roots, <=5 intermediate certificates incl. cross-signed, self-issued and looping ones, a leaf) with per-certificate validity/CA/pathlen/keyUsage/name-constraint/EKU/forged-signature attributes, pool subsets and orders, host names, requested usages; "+
	"oracle = reference path validator over the *specification* of each certificate (who signed what with which key), enumerating all simple paths; verdict equivalence (chain returned <=> valid path exists) outside the stated UNSPECIFIED regions, and every returned chain must be a valid path over pool certificates; "+
	"non-trivial = at least one intermediate certificate and a decision made by a non-leaf attribute, host name or EKU; distinct by hash of the PKI description")

var cv = rsm2.Std

func TestMain(m *testing.M) {
	R.Require("cross_signed", "loop", "expired_intermediate", "pathlen_violation", "forged_sig", "nonCA_intermediate", "name_constraint_fail", "name_constraint_fail_mixed_forms", "critical_san_uri_only", "forged_twin_after_genuine", "intermediate_critical_ext", "uninterpreted_san:critical=true", "wildcard", "ip_san", "accept", "reject", "self_issued", "leaf_in_roots", "eku_reject", "critical_ext", "sigalg_sm2_with_sha", "leaf_name_ends_like_a_permitted_subtree", "std_issued_chain", "std_issued:genuine", "std_issued:forged", "noncritical_unknown_before_critical_known", "leaf_name_spells_ip", "dnsname_spells_ip", "cn_spells_ip")
	hx.Main(m, R)
}

var tNow = time.Date(2025, 1, 1, 12, 0, 0, 0, time.UTC)

// ---- specification of a certificate (the model never looks at parsed fields)

type spec struct {
	id        int
	role      string // root | inter | leaf
	subj      int    // name id
	key       int    // subject key id
	issuer    int    // issuer name id
	signer    int    // key id that actually signed
	forged    bool
	validity  string // ok | expired | notyet | edge_start | edge_end
	bcValid   bool
	isCA      bool
	maxPath   int // -1 none
	ku        gx.KeyUsage
	permitted []string
	ncMixed   int // >0: the nameConstraints extension is hand-encoded, non-critical, with an rfc822Name subtree at position ncMixed-1 among the DNS subtrees
	ekus      []gx.ExtKeyUsage
	unkEKU    bool
	dns       []string
	ips       []net.IP
	cn        string
	critExt   bool
	ski       bool
	aki       string
	v1        bool // re-encoded as an X.509 v1 certificate (no version field, no extensions)
	cert      *gx.Certificate
}

func (s *spec) String() string {
	return fmt.Sprintf("{#%d %s subj=N%d key=K%d issuer=N%d signer=K%d forged=%v val=%s bc=%v ca=%v mpl=%d ku=%d nc=%v eku=%v dns=%v ips=%v crit=%v ski=%v aki=%s}", s.id, s.role, s.subj, s.key, s.issuer, s.signer, s.forged, s.validity, s.bcValid, s.isCA, s.maxPath, s.ku, s.permitted, s.ekus, s.dns, s.ips, s.critExt, s.ski, s.aki)
}

type pki struct {
	certs  []*spec
	leaf   *spec
	roots  []*spec // pool contents in order
	inters []*spec
	useSKI bool
}

var keyCache = map[int]gen.Key{}

func keyOf(i int) gen.Key {
	if k, ok := keyCache[i]; ok {
		return k
	}
	d := new(big.Int).SetInt64(int64(1000003*(i+1) + 17))
	d.Mul(d, d).Add(d, big.NewInt(12345)).Mod(d, new(big.Int).Sub(cv.N, big.NewInt(3))).Add(d, big.NewInt(1))
	k := gen.Key{D: d, Pub: cv.BaseMul(d)}
	keyCache[i] = k
	return k
}

func nameOf(i int) pkix.Name {
	return pkix.Name{CommonName: fmt.Sprintf("Entity %d", i), Organization: []string{"verif"}}
}

func window(v string) (time.Time, time.Time) {
	y := 365 * 24 * time.Hour
	switch v {
	case "expired":
		return tNow.Add(-2 * y), tNow.Add(-24 * time.Hour)
	case "notyet":
		return tNow.Add(24 * time.Hour), tNow.Add(2 * y)
	case "edge_start":
		return tNow, tNow.Add(y)
	case "edge_end":
		return tNow.Add(-y), tNow
	}
	return tNow.Add(-y), tNow.Add(y)
}

func validAt(v string) bool { return v != "expired" && v != "notyet" }

func build(t *rapid.T, p *pki) {
	for _, s := range p.certs {
		nb, na := window(s.validity)
		tpl := &gx.Certificate{SerialNumber: big.NewInt(int64(100 + s.id)), Subject: nameOf(s.subj), NotBefore: nb, NotAfter: na,
			SignatureAlgorithm: gx.SM2WithSM3, KeyUsage: s.ku, BasicConstraintsValid: s.bcValid, IsCA: s.isCA,
			PermittedDNSDomains: s.permitted, PermittedDNSDomainsCritical: len(s.permitted) > 0, ExtKeyUsage: s.ekus, DNSNames: s.dns, IPAddresses: s.ips}
		if s.cn != "" {
			tpl.Subject.CommonName = s.cn
		}
		if k := gen.Uniform(t, "sigalg", 8); k < 2 {
			// the two other signature-algorithm identifiers this package offers for SM2 keys: what the issuer's signer
			// produces under them is a genuine signature of the issuer
			tpl.SignatureAlgorithm = []gx.SignatureAlgorithm{gx.SM2WithSHA256, gx.SM2WithSHA1}[k]
			R.Class("sigalg_sm2_with_sha")
		}
		if s.ncMixed > 0 && len(s.permitted) > 0 {
			// permitted subtrees of two name forms in one (non-critical) extension: the rfc822Name subtree says nothing about
			// DNS names, the dNSName subtrees bind them exactly as they would alone
			tpl.PermittedDNSDomains, tpl.PermittedDNSDomainsCritical = nil, false
			var subtrees []byte
			email := append([]byte{0x81, byte(len("mail.example.net"))}, "mail.example.net"...)
			email = append([]byte{0x30, byte(len(email))}, email...)
			for i, d := range s.permitted {
				if i == (s.ncMixed-1)%(len(s.permitted)+1) {
					subtrees = append(subtrees, email...)
				}
				gn := append([]byte{0x82, byte(len(d))}, d...)
				subtrees = append(subtrees, append([]byte{0x30, byte(len(gn))}, gn...)...)
			}
			if (s.ncMixed-1)%(len(s.permitted)+1) == len(s.permitted) {
				subtrees = append(subtrees, email...)
			}
			val := append([]byte{0xa0, byte(len(subtrees))}, subtrees...)
			val = append([]byte{0x30, byte(len(val))}, val...)
			tpl.ExtraExtensions = append(tpl.ExtraExtensions, pkix.Extension{Id: asn1.ObjectIdentifier{2, 5, 29, 30}, Critical: false, Value: val})
		}
		if s.unkEKU {
			tpl.UnknownExtKeyUsage = []asn1.ObjectIdentifier{{1, 2, 3, 4, 5, 6}}
		}
		if s.bcValid {
			switch {
			case s.maxPath < 0:
				tpl.MaxPathLen = -1
			case s.maxPath == 0:
				tpl.MaxPathLen, tpl.MaxPathLenZero = 0, true
			default:
				tpl.MaxPathLen = s.maxPath
			}
		}
		if s.bcValid && s.isCA && s.maxPath < 0 && !s.v1 && gen.Uniform(t, "extorder", 5) == 0 {
			// the order in which other toolchains write extensions: a private, NON-critical extension first and the
			// critical basicConstraints after it (handed over through ExtraExtensions, which keeps the order given)
			tpl.BasicConstraintsValid, tpl.IsCA = false, false
			tpl.ExtraExtensions = append(tpl.ExtraExtensions,
				pkix.Extension{Id: asn1.ObjectIdentifier{1, 2, 3, 4, 5, 98}, Critical: false, Value: []byte{5, 0}},
				pkix.Extension{Id: asn1.ObjectIdentifier{2, 5, 29, 19}, Critical: true, Value: []byte{0x30, 0x03, 0x01, 0x01, 0xff}})
			R.Class("noncritical_unknown_before_critical_known")
		}
		if s.critExt {
			// an extension no verifier here interprets, marked critical: a private OID, or a standard one from the
			// id-ce arc that this parser has no case for (policyConstraints, inhibitAnyPolicy, policyMappings,
			// subjectDirectoryAttributes, freshestCRL)
			oids := []asn1.ObjectIdentifier{{1, 2, 3, 4, 5, 99}, {2, 5, 29, 36}, {2, 5, 29, 54}, {2, 5, 29, 33}, {2, 5, 29, 9}, {2, 5, 29, 46}}
			vals := [][]byte{{5, 0}, {0x30, 0x03, 0x80, 0x01, 0x00}, {2, 1, 0}, {0x30, 0x00}, {0x30, 0x00}, {0x30, 0x00}}
			if len(s.dns) == 0 && len(s.ips) == 0 {
				// ... or a subjectAltName, critical, that holds only a name form nobody here interprets (a URI): it cannot
				// be honoured, so it is as unhandled as an unknown extension
				oids = append(oids, asn1.ObjectIdentifier{2, 5, 29, 17}, asn1.ObjectIdentifier{2, 5, 29, 17})
				uri := append([]byte{0x86, 0x10}, "http://a.test/id"...)
				vals = append(vals, append([]byte{0x30, byte(len(uri))}, uri...), append([]byte{0x30, byte(len(uri))}, uri...))
			}
			k := gen.Uniform(t, "critoid", len(oids))
			if len(oids) > 6 && rapid.Bool().Draw(t, "critsan") {
				k = 6
			}
			if oids[k].Equal(asn1.ObjectIdentifier{2, 5, 29, 17}) {
				R.Class("critical_san_uri_only")
			}
			tpl.ExtraExtensions = append(tpl.ExtraExtensions, pkix.Extension{Id: oids[k], Critical: true, Value: vals[k]})
		}
		parent := &gx.Certificate{Subject: nameOf(s.issuer)}
		if p.useSKI {
			// SKI is a function of (subject name, key); the AKI is consistent with it, absent, or stale (it names a
			// key identifier no certificate of the pools carries - a re-issued or identifier-less parent): key
			// identifiers are hints, none of the conditions of the property depends on them
			s.ski = gen.Uniform(t, "ski_present", 4) != 0
			s.aki = []string{"match", "match", "stale", "none"}[gen.Uniform(t, "aki_mode", 4)]
			if s.ski {
				tpl.SubjectKeyId = []byte{byte(s.subj), byte(s.key), 0x5a}
			}
			switch s.aki {
			case "match":
				parent.SubjectKeyId = []byte{byte(s.issuer), byte(s.signer), 0x5a}
				if s.forged {
					// a forger names the genuine issuer key in the AKI
					parent.SubjectKeyId = []byte{byte(s.issuer), byte(s.signer ^ 0x40), 0x5a}
				}
			case "stale":
				parent.SubjectKeyId = []byte{byte(s.issuer), byte(s.signer), 0xa5, 0x01}
			}
		}
		signKey := keyOf(s.signer)
		der, err := gx.CreateCertificate(tpl, parent, sm2x.Pub(keyOf(s.key).Pub), sm2x.Priv(signKey))
		if err != nil {
			t.Fatalf("harness: CreateCertificate(%v): %v", s, err)
		}
		if s.v1 {
			der = asV1(t, der, signKey.D)
		}
		c, err := gx.ParseCertificate(der)
		if err != nil {
			if s.critExt {
				// parse keeps unknown critical extensions as UnhandledCriticalExtensions, not an error
			}
			t.Fatalf("harness: ParseCertificate(%v): %v", s, err)
		}
		s.cert = c
	}
}

// ---- generator

// asV1 rebuilds a certificate made by the library as an X.509 version-1 certificate: the [0] version and [3] extensions
// members of the TBSCertificate are dropped and the result is signed again (SM2-SM3, default user ID) with the issuer key.
func asV1(t *rapid.T, der []byte, signerD *big.Int) []byte {
	tl := rder.Walk(der)
	if len(tl) < 3 || tl[0].Tag != 0x30 || tl[1].Tag != 0x30 {
		t.Fatalf("harness: unexpected certificate structure")
	}
	tbs := tl[1]
	var body []byte
	off := tbs.Start + tbs.HdrLen
	end := off + tbs.Len
	for off < end {
		kid := rder.Walk(der[off:end])
		if len(kid) == 0 {
			t.Fatalf("harness: cannot walk TBSCertificate")
		}
		k := kid[0]
		if k.Tag != 0xa0 && k.Tag != 0xa3 {
			body = append(body, der[off:off+k.HdrLen+k.Len]...)
		}
		off += k.HdrLen + k.Len
	}
	newTBS := append(rder.EncLen(0x30, len(body)), body...)
	// signatureAlgorithm: the sequence that follows the TBS in the original
	sa := der[tbs.Start+tbs.HdrLen+tbs.Len:]
	saTL := rder.Walk(sa)[0]
	sigAlg := sa[:saTL.HdrLen+saTL.Len]
	e, _ := cv.E(cv.BaseMul(signerD), rsm2.DefaultUID, newTBS)
	nonce := new(big.Int).SetBytes(rsm3sum(newTBS))
	nonce.Mod(nonce, new(big.Int).Sub(cv.N, big.NewInt(2))).Add(nonce, big.NewInt(1))
	r, s2, ok := cv.SignE(signerD, e, nonce)
	if !ok {
		t.Fatalf("harness: v1 re-signing needs another nonce")
	}
	sig := rder.EncSig(r, s2)
	bits := append(rder.EncLen(0x03, len(sig)+1), 0)
	bits = append(bits, sig...)
	return rder.EncSeq(newTBS, sigAlg, bits)
}

func rsm3sum(b []byte) []byte { return rsm3.Sum(b) }

func drawPKI(t *rapid.T) *pki {
	p := &pki{useSKI: gen.OneIn(t, "ski", 3)}
	nRoots := rapid.IntRange(1, 3).Draw(t, "nroots")
	nEnt := rapid.IntRange(0, 4).Draw(t, "nInterEntities")
	type ent struct{ name, key int }
	var ents []ent
	id := 0
	valGen := rapid.SampledFrom([]string{"ok", "ok", "ok", "ok", "ok", "ok", "ok", "ok", "ok", "ok", "ok", "ok", "expired", "notyet", "edge_start", "edge_end"})
	// (decipherOnly is the ninth bit, alone in the second octet of the BIT STRING: a key usage that asserts only it, or
	// only encipherOnly, is present and does not include keyCertSign)
	kuList := rapid.SampledFrom([]gx.KeyUsage{0, 0, 0, gx.KeyUsageCertSign, gx.KeyUsageCertSign, gx.KeyUsageCertSign | gx.KeyUsageCRLSign, gx.KeyUsageCertSign | gx.KeyUsageCRLSign, gx.KeyUsageCertSign | gx.KeyUsageDigitalSignature, gx.KeyUsageCertSign | gx.KeyUsageDigitalSignature, gx.KeyUsageDigitalSignature,
		gx.KeyUsageDecipherOnly, gx.KeyUsageEncipherOnly, gx.KeyUsageCertSign | gx.KeyUsageDecipherOnly, gx.KeyUsageKeyAgreement | gx.KeyUsageDecipherOnly})
	// one draw in four: any of the 511 non-empty masks over the nine bits, keyCertSign removed from half of them (so every
	// other bit, cRLSign included, also appears alone or in company WITHOUT keyCertSign)
	kuMask := rapid.Custom(func(t *rapid.T) gx.KeyUsage {
		m := gx.KeyUsage(rapid.IntRange(1, 511).Draw(t, "kumask"))
		if rapid.Bool().Draw(t, "kuNoCertSign") {
			m &^= gx.KeyUsageCertSign
			if m == 0 {
				m = gx.KeyUsageCRLSign
			}
		}
		return m
	})
	kuGen := rapid.OneOf(kuList, kuList, kuList, kuMask)
	mplGen := rapid.SampledFrom([]int{-1, -1, -1, -1, -1, -1, 0, 1, 1, 2})
	ncGen := rapid.SampledFrom([][]string{nil, nil, nil, nil, nil, nil, nil, nil, nil, {"example.com"}, {"example.com"}, {".example.com"}, {"other.org"}, {"example.com", "other.org"}})
	caAttrs := func(s *spec, hostile bool) {
		s.bcValid, s.isCA = true, true
		s.ku = kuGen.Draw(t, "ku")
		s.maxPath = mplGen.Draw(t, "mpl")
		s.permitted = ncGen.Draw(t, "nc")
		if len(s.permitted) > 0 && rapid.IntRange(0, 2).Draw(t, "ncmixed") == 0 {
			s.ncMixed = rapid.IntRange(1, 3).Draw(t, "ncmixedpos")
		}
		s.validity = valGen.Draw(t, "val")
		if hostile {
			switch gen.Uniform(t, "notca", 30) {
			case 0:
				s.isCA = false
			case 1:
				s.bcValid, s.isCA = false, false
			case 2, 3:
				if s.role == "inter" {
					// a version-1 certificate issued by a CA: it has no basicConstraints and must not act as an issuer
					s.bcValid, s.isCA, s.v1 = false, false, true
					s.ku, s.permitted, s.ekus, s.maxPath = 0, nil, nil, -1
				}
			}
		}
		if s.role == "inter" && !s.v1 && gen.OneIn(t, "cacrit", 15) {
			// an intermediate with a critical extension no verifier here interprets: RFC 5280 6.1.4/6.1.5 - a path through
			// it cannot be validated (trust anchors are exempt: their extensions are not part of path processing)
			s.critExt = true
		}
		if gen.OneIn(t, "caeku", 12) {
			s.ekus = []gx.ExtKeyUsage{rapid.SampledFrom([]gx.ExtKeyUsage{gx.ExtKeyUsageClientAuth, gx.ExtKeyUsageAny, gx.ExtKeyUsageServerAuth}).Draw(t, "caekuv")}
		}
	}
	for i := 0; i < nRoots; i++ {
		e := ent{name: rapid.IntRange(0, 3).Draw(t, "rname"), key: 10 + i}
		ents = append(ents, e)
		s := &spec{id: id, role: "root", subj: e.name, key: e.key, issuer: e.name, signer: e.key}
		caAttrs(s, gen.OneIn(t, "hostileroot", 10))
		p.certs = append(p.certs, s)
		id++
	}
	for i := 0; i < nEnt; i++ {
		ents = append(ents, ent{name: rapid.IntRange(2, 7).Draw(t, "iname"), key: 20 + i})
	}
	// intermediate certificates: each intermediate entity gets 1..2 certificates under drawn issuers
	for i := 0; i < nEnt; i++ {
		e := ents[nRoots+i]
		n := rapid.IntRange(1, 2).Draw(t, "ncerts")
		for j := 0; j < n && len(p.certs) < 9; j++ {
			is := ents[rapid.IntRange(0, len(ents)-1).Draw(t, "issuerEnt")]
			s := &spec{id: id, role: "inter", subj: e.name, key: e.key, issuer: is.name, signer: is.key}
			caAttrs(s, true)
			if gen.OneIn(t, "forge", 20) {
				s.forged, s.signer = true, 90+id
			}
			p.certs = append(p.certs, s)
			id++
		}
	}
	// key-rollover / bridge shape (about 1 case in 5): an extra certificate for an existing intermediate
	// entity (same subject and key) that is self-signed or issued by another entity, and tight path
	// lengths on the roots, so that the same intermediate is reachable through prefixes of different length.
	if nEnt > 0 && gen.OneIn(t, "rollover", 5) && len(p.certs) < 9 {
		e := ents[nRoots+rapid.IntRange(0, nEnt-1).Draw(t, "rolloverEnt")]
		s := &spec{id: id, role: "inter", subj: e.name, key: e.key, issuer: e.name, signer: e.key, validity: "ok", bcValid: true, isCA: true, maxPath: -1}
		p.certs = append(p.certs, s)
		id++
		for _, c := range p.certs {
			if c.role == "root" {
				c.maxPath = rapid.SampledFrom([]int{0, 1, 1, 2}).Draw(t, "rootmpl")
			}
		}
	}
	// deep chain with a cross-certified anchor (about 1 case in 6): leaf <- B <- A <- R, where R's name and key also
	// appear in a cross-certificate X held among the intermediates. At the last level chain building then has two
	// acceptable parents for the same three-certificate prefix, and every chain it returns must still end in a root.
	var deepIssuer *ent
	if gen.OneIn(t, "deepcross", 6) && len(p.certs) < 6 {
		r := ents[0]
		a, b := ent{name: 5, key: 30}, ent{name: 6, key: 31}
		plain := func(role string, e, is ent) *spec {
			s := &spec{id: id, role: role, subj: e.name, key: e.key, issuer: is.name, signer: is.key, validity: "ok", bcValid: true, isCA: true, maxPath: -1}
			id++
			return s
		}
		p.certs = append(p.certs, plain("inter", a, r), plain("inter", b, a))
		other := ent{name: 3, key: 41} // an issuer nobody trusts
		if nRoots > 1 && rapid.Bool().Draw(t, "crossByRoot") {
			other = ents[1]
		}
		p.certs = append(p.certs, plain("inter", r, other))
		deepIssuer = &b
	}
	// leaf
	is := ents[rapid.IntRange(0, len(ents)-1).Draw(t, "leafIssuer")]
	if nEnt > 0 && rapid.Bool().Draw(t, "leafUnderInter") {
		is = ents[nRoots+rapid.IntRange(0, nEnt-1).Draw(t, "leafInterIssuer")]
	}
	if deepIssuer != nil {
		is = *deepIssuer
	}
	leaf := &spec{id: id, role: "leaf", subj: 9, key: 50, issuer: is.name, signer: is.key, maxPath: -1}
	leaf.validity = valGen.Draw(t, "leafval")
	if rapid.Bool().Draw(t, "leafvalok") {
		leaf.validity = "ok"
	}
	if gen.OneIn(t, "leafforge", 25) {
		leaf.forged, leaf.signer = true, 99
	}
	leaf.ku = rapid.SampledFrom([]gx.KeyUsage{0, gx.KeyUsageDigitalSignature, gx.KeyUsageKeyEncipherment}).Draw(t, "leafku")
	leaf.dns = rapid.SampledFrom([][]string{{"www.example.com"}, {"www.example.com"}, {"*.example.com"}, {"*.example.com"}, {"www.example.com", "alt.other.org"}, {"WWW.Example.COM"}, {"a.*.example.com"}, {"*.com"}, nil, {"example.com"}, {"10.0.0.2"}, {"www.example.com", "10.0.0.2"}, {"wwwexample.com"}, {"wwwexample.com"}}).Draw(t, "dns")
	if len(leaf.dns) == 1 && leaf.dns[0] == "wwwexample.com" {
		// a name that ENDS in a permitted subtree's string without being inside the subtree (no label boundary)
		R.Class("leaf_name_ends_like_a_permitted_subtree")
	}
	if gen.OneIn(t, "ipsan", 3) {
		leaf.ips = []net.IP{net.IPv4(10, 0, 0, 1).To4(), net.ParseIP("2001:db8::7")}
	}
	leaf.cn = "leaf.example.com"
	if len(leaf.dns) == 0 && gen.OneIn(t, "cn_ip_text", 3) {
		// a common name that spells an IP address: IP hosts are matched against iPAddress SANs only
		leaf.cn = "10.0.0.2"
	}
	if leaf.cn == "10.0.0.2" || (len(leaf.dns) > 0 && leaf.dns[len(leaf.dns)-1] == "10.0.0.2") {
		R.Class("leaf_name_spells_ip")
	}
	leaf.ekus = rapid.SampledFrom([][]gx.ExtKeyUsage{nil, nil, {gx.ExtKeyUsageServerAuth}, {gx.ExtKeyUsageClientAuth}, {gx.ExtKeyUsageAny}, {gx.ExtKeyUsageServerAuth, gx.ExtKeyUsageClientAuth}, {gx.ExtKeyUsageMicrosoftServerGatedCrypto}, {gx.ExtKeyUsageCodeSigning}}).Draw(t, "leafeku")
	if len(leaf.ekus) == 0 && gen.OneIn(t, "unk", 8) {
		leaf.unkEKU = true
	}
	leaf.critExt = gen.OneIn(t, "crit", 14)
	if gen.OneIn(t, "leafCA", 16) {
		leaf.bcValid, leaf.isCA = true, rapid.Bool().Draw(t, "leafisca")
	}
	p.certs = append(p.certs, leaf)
	p.leaf = leaf
	build(t, p)
	// pools: subsets and orderings
	for _, s := range p.certs {
		switch s.role {
		case "root":
			if !gen.OneIn(t, "dropRoot", 12) {
				p.roots = append(p.roots, s)
			}
			if gen.OneIn(t, "rootAlsoInter", 10) {
				p.inters = append(p.inters, s)
			}
		case "inter":
			if !gen.OneIn(t, "dropInter", 12) {
				p.inters = append(p.inters, s)
			}
			if gen.OneIn(t, "interAsRoot", 12) && !s.v1 {
				p.roots = append(p.roots, s) // (a v1 trust anchor is outside the property: anchors are trusted as given)
			}
		case "leaf":
			if gen.OneIn(t, "leafInRoots", 12) {
				p.roots = append(p.roots, s)
			}
		}
	}
	p.roots = rapid.Permutation(p.roots).Draw(t, "rootOrder")
	p.inters = rapid.Permutation(p.inters).Draw(t, "interOrder")
	return p
}

// ---- reference validator

func ncMatch(name, c string) bool {
	name, c = strings.ToLower(name), strings.ToLower(c)
	if c == "" {
		return true
	}
	if strings.HasPrefix(c, ".") {
		return len(name) > len(c) && strings.HasSuffix(name, c)
	}
	return name == c || strings.HasSuffix(name, "."+c)
}

func hostMatchDNS(pattern, host string) bool {
	pattern = strings.ToLower(strings.TrimSuffix(pattern, "."))
	host = strings.ToLower(strings.TrimSuffix(host, "."))
	if pattern == "" || host == "" {
		return false
	}
	pp, hp := strings.Split(pattern, "."), strings.Split(host, ".")
	if len(pp) != len(hp) {
		return false
	}
	for i := range pp {
		if i == 0 && pp[i] == "*" {
			continue
		}
		if pp[i] != hp[i] {
			return false
		}
	}
	return true
}

func parseHostIP(h string) net.IP {
	if len(h) >= 3 && h[0] == '[' && h[len(h)-1] == ']' {
		h = h[1 : len(h)-1]
	}
	return net.ParseIP(h)
}

type verdict int

const (
	reject verdict = iota
	accept
	unspecified
)

type query struct {
	host   string
	usages []gx.ExtKeyUsage
	when   time.Time
}

func timeOK(s *spec, when time.Time) bool {
	nb, na := window(s.validity)
	return !when.Before(nb) && !when.After(na)
}

func mayIssue(p *spec) bool {
	return p.bcValid && p.isCA && (p.ku == 0 || p.ku&gx.KeyUsageCertSign != 0)
}

// pathValid checks a complete path [leaf, ..., root]; countSelfIssued selects the path-length reading.
func pathValid(path []*spec, q query, countSelfIssued bool) (ok bool, why string) {
	for i, c := range path {
		if !timeOK(c, q.when) {
			return false, fmt.Sprintf("#%d outside validity", c.id)
		}
		if i > 0 {
			child := path[i-1]
			if child.issuer != c.subj || child.signer != c.key {
				return false, "broken link"
			}
			if !mayIssue(c) {
				return false, fmt.Sprintf("#%d may not sign", c.id)
			}
			if c.critExt && c.role == "inter" {
				return false, fmt.Sprintf("#%d critical extension", c.id)
			}
			if c.bcValid && c.maxPath >= 0 {
				n := 0
				for _, m := range path[1:i] {
					if countSelfIssued || m.subj != m.issuer {
						n++
					}
				}
				if n > c.maxPath {
					return false, fmt.Sprintf("#%d path length", c.id)
				}
			}
			if len(c.permitted) > 0 {
				m := false
				for _, pc := range c.permitted {
					if ncMatch(q.host, pc) {
						m = true
					}
				}
				if !m {
					return false, fmt.Sprintf("#%d name constraint", c.id)
				}
			}
		}
	}
	return true, ""
}

func leafOK(leaf *spec, q query) (ok bool, why string) {
	if leaf.critExt {
		return false, "critical extension"
	}
	if !timeOK(leaf, q.when) {
		return false, "leaf validity"
	}
	if q.host != "" {
		if ip := parseHostIP(q.host); ip != nil {
			m := false
			for _, c := range leaf.ips {
				if ip.Equal(c) {
					m = true
				}
			}
			if !m {
				return false, "ip san"
			}
		} else {
			m := false
			for _, d := range leaf.dns {
				if hostMatchDNS(d, q.host) {
					m = true
				}
			}
			if !m {
				return false, "host name"
			}
		}
	}
	return true, ""
}

func ekuOK(leaf *spec, usages []gx.ExtKeyUsage) bool {
	if len(usages) == 0 {
		usages = []gx.ExtKeyUsage{gx.ExtKeyUsageServerAuth}
	}
	for _, u := range usages {
		if u == gx.ExtKeyUsageAny {
			return true
		}
	}
	if len(leaf.ekus) == 0 && !leaf.unkEKU {
		return true
	}
	for _, l := range leaf.ekus {
		if l == gx.ExtKeyUsageAny {
			return true
		}
	}
	for _, u := range usages {
		for _, l := range leaf.ekus {
			if l == u || (u == gx.ExtKeyUsageServerAuth && (l == gx.ExtKeyUsageMicrosoftServerGatedCrypto || l == gx.ExtKeyUsageNetscapeServerGatedCrypto)) {
				return true
			}
		}
	}
	return false
}

func inPool(pool []*spec, s *spec) bool {
	for _, c := range pool {
		if c == s {
			return true
		}
	}
	return false
}

// enumerate all simple paths from the leaf to a root-pool certificate
func paths(p *pki) [][]*spec {
	var out [][]*spec
	var rec func(chain []*spec)
	rec = func(chain []*spec) {
		cur := chain[len(chain)-1]
		for _, r := range p.roots {
			if inPool(chain, r) {
				continue
			}
			if cur.issuer == r.subj && cur.signer == r.key {
				out = append(out, append(append([]*spec{}, chain...), r))
			}
		}
		for _, m := range p.inters {
			if inPool(chain, m) {
				continue
			}
			if cur.issuer == m.subj && cur.signer == m.key && len(chain) < 8 {
				rec(append(append([]*spec{}, chain...), m))
			}
		}
	}
	rec([]*spec{p.leaf})
	return out
}

func decide(p *pki, q query) (v verdict, why string, cls []string) {
	if q.host != "" && parseHostIP(q.host) == nil && len(p.leaf.dns) == 0 && !p.leaf.critExt && timeOK(p.leaf, q.when) {
		// no DNS SAN: the library falls back to the subject CN, which the property does not speak about
		return unspecified, "CN fallback", nil
	}
	if ok, w := leafOK(p.leaf, q); !ok {
		return reject, w, []string{"leaf:" + strings.Fields(w)[0]}
	}
	unspec := ""
	// regions the property leaves open
	if q.host != "" && parseHostIP(q.host) == nil && len(p.leaf.dns) == 0 {
		unspec = "CN fallback"
	}
	anyNC := false
	for _, c := range p.certs {
		if c.role != "leaf" && len(c.permitted) > 0 {
			anyNC = true
		}
		if c.role != "leaf" && len(c.ekus) > 0 {
			has := false
			for _, e := range c.ekus {
				if e == gx.ExtKeyUsageAny {
					has = true
				}
			}
			if !has {
				unspec = "EKU on a CA"
			}
		}
	}
	if anyNC && (q.host == "" || parseHostIP(q.host) != nil || strings.HasSuffix(q.host, ".")) {
		unspec = "name constraint vs empty/IP/dotted host"
	}
	if inPool(p.roots, p.leaf) {
		if unspec != "" {
			return unspecified, unspec, nil
		}
		if ekuOK(p.leaf, q.usages) {
			return accept, "leaf is a trusted root", []string{"leaf_in_roots"}
		}
		return reject, "eku", []string{"eku_reject", "leaf_in_roots"}
	}
	strict, lenient := false, false
	reasons := map[string]bool{}
	for _, path := range paths(p) {
		okS, wS := pathValid(path, q, true)
		okL, _ := pathValid(path, q, false)
		strict = strict || okS
		lenient = lenient || okL
		if !okS {
			reasons[wS] = true
		}
	}
	for r := range reasons {
		switch {
		case strings.Contains(r, "path length"):
			cls = append(cls, "pathlen_violation")
		case strings.Contains(r, "validity"):
			cls = append(cls, "expired_intermediate")
		case strings.Contains(r, "may not sign"):
			cls = append(cls, "nonCA_intermediate")
		case strings.Contains(r, "critical extension"):
			cls = append(cls, "intermediate_critical_ext")
		case strings.Contains(r, "name constraint"):
			cls = append(cls, "name_constraint_fail")
			for _, c := range p.certs {
				if c.ncMixed > 0 && len(c.permitted) > 0 {
					cls = append(cls, "name_constraint_fail_mixed_forms")
					break
				}
			}
		}
	}
	if unspec != "" {
		return unspecified, unspec, cls
	}
	if strict != lenient {
		return unspecified, "self-issued certificates and path length", cls
	}
	if !strict {
		return reject, "no valid path", cls
	}
	if !ekuOK(p.leaf, q.usages) {
		return reject, "eku", append(cls, "eku_reject")
	}
	return accept, "valid path", cls
}

func specOf(p *pki, c *gx.Certificate) *spec {
	for _, s := range p.certs {
		if bytes.Equal(s.cert.Raw, c.Raw) {
			return s
		}
	}
	return nil
}

func structural(p *pki) []string {
	var cl []string
	seen := map[[2]int]int{}
	for _, s := range p.certs {
		if s.role == "inter" {
			seen[[2]int{s.subj, s.key}]++
			if s.subj == s.issuer {
				cl = append(cl, "self_issued")
			}
			if s.forged {
				cl = append(cl, "forged_sig")
			}
			for _, o := range p.certs {
				if o.role == "inter" && o != s && o.issuer == s.subj && o.signer == s.key && s.issuer == o.subj && s.signer == o.key {
					cl = append(cl, "loop")
				}
			}
		}
		if s.role == "leaf" && s.forged {
			cl = append(cl, "forged_sig")
		}
	}
	for _, n := range seen {
		if n > 1 {
			cl = append(cl, "cross_signed")
		}
	}
	return cl
}

func checkVerify(t *rapid.T, p *pki, q query) {
	roots, inters := gx.NewCertPool(), gx.NewCertPool()
	for _, s := range p.roots {
		roots.AddCert(s.cert)
	}
	for _, s := range p.inters {
		inters.AddCert(s.cert)
	}
	opts := gx.VerifyOptions{DNSName: q.host, Roots: roots, Intermediates: inters, CurrentTime: q.when, KeyUsages: q.usages}
	if len(p.inters) == 0 && len(q.host)%2 == 0 {
		opts.Intermediates = nil
	}
	var chains [][]*gx.Certificate
	var err error
	if pn := hx.Try(func() { chains, err = p.leaf.cert.Verify(opts) }); pn != nil {
		t.Fatalf("Verify panicked: %v\n%s", pn.Val, pn.Stack)
	}
	want, why, cls := decide(p, q)
	desc := func() string {
		var b strings.Builder
		for _, s := range p.certs {
			b.WriteString("   " + s.String() + "\n")
		}
		ids := func(l []*spec) (o []int) {
			for _, s := range l {
				o = append(o, s.id)
			}
			return
		}
		return fmt.Sprintf("PKI:\n%s roots=%v intermediates=%v useSKI=%v\n query host=%q usages=%v time=%v", b.String(), ids(p.roots), ids(p.inters), p.useSKI, q.host, q.usages, q.when.Format(time.RFC3339))
	}
	if (err == nil) != (len(chains) > 0) {
		t.Fatalf("Verify returned %d chains with err=%v\n%s", len(chains), err, desc())
	}
	// every returned chain is a valid path over the supplied pools
	for _, ch := range chains {
		var path []*spec
		for _, c := range ch {
			s := specOf(p, c)
			if s == nil {
				t.Fatalf("returned chain contains a certificate that was not supplied\n%s", desc())
			}
			path = append(path, s)
		}
		if path[0] != p.leaf {
			t.Fatalf("returned chain does not start with the leaf\n%s", desc())
		}
		last := path[len(path)-1]
		if !inPool(p.roots, last) {
			t.Fatalf("returned chain does not end in a supplied root\n%s", desc())
		}
		for i, m := range path {
			if i == 0 || i == len(path)-1 {
				continue
			}
			if !inPool(p.inters, m) && !inPool(p.roots, m) {
				t.Fatalf("returned chain uses certificate #%d that is in neither pool\n%s", m.id, desc())
			}
		}
		if len(path) > 1 && want != unspecified {
			if ok, w := pathValid(path, q, false); !ok {
				t.Fatalf("Verify returned an INVALID chain %v (%s)\n%s", pathIDs(path), w, desc())
			}
		}
		if len(path) > 1 {
			// links and validity hold even in unspecified regions
			for i := 1; i < len(path); i++ {
				if path[i-1].issuer != path[i].subj || path[i-1].signer != path[i].key {
					t.Fatalf("returned chain %v has a link that is not a genuine signature\n%s", pathIDs(path), desc())
				}
			}
			for _, c := range path {
				if !timeOK(c, q.when) {
					t.Fatalf("returned chain %v contains certificate #%d outside its validity\n%s", pathIDs(path), c.id, desc())
				}
			}
		}
	}
	switch want {
	case accept:
		if err != nil {
			t.Fatalf("Verify REJECTED (%v) although a valid path exists (%s)\n%s", err, why, desc())
		}
		cls = append(cls, "accept")
	case reject:
		if err == nil {
			t.Fatalf("Verify ACCEPTED %v although the reference finds no valid path (%s)\n%s", chainIDs(p, chains), why, desc())
		}
		cls = append(cls, "reject", "rej:"+strings.Fields(why)[0])
	default:
		cls = append(cls, "unspecified:"+why)
	}
	if err == nil {
		// history on the SAME pool objects: a twin of the leaf - same issuer, serial and contents, one bit of its signature
		// changed - presented right after the genuine one was accepted. Whatever the pools remember about the first
		// verification must not vouch for the second.
		twinDER := append([]byte{}, p.leaf.cert.Raw...)
		twinDER[len(twinDER)-1] ^= 0x01
		if twin, perr := gx.ParseCertificate(twinDER); perr == nil {
			var tch [][]*gx.Certificate
			var terr error
			if pn := hx.Try(func() { tch, terr = twin.Verify(opts) }); pn != nil {
				t.Fatalf("Verify panicked on the forged twin: %v", pn.Val)
			}
			if terr == nil {
				t.Fatalf("Verify ACCEPTED (%d chains) a twin of the leaf whose signature was altered, right after verifying the genuine leaf against the same pools\n%s", len(tch), desc())
			}
			cls = append(cls, "forged_twin_after_genuine")
		}
	}
	if p.leaf.critExt {
		cls = append(cls, "critical_ext")
	}
	if q.host != "" && parseHostIP(q.host) != nil {
		cls = append(cls, "ip_san")
	}
	for _, d := range p.leaf.dns {
		if strings.HasPrefix(d, "*.") && q.host != "" {
			cls = append(cls, "wildcard")
			break
		}
	}
	cls = append(cls, structural(p)...)
	nInter := 0
	for _, s := range p.certs {
		if s.role == "inter" {
			nInter++
		}
	}
	R.Case(nInter >= 1 && want != unspecified, hx.HashKey(desc()), cls...)
	R.Sample(map[verdict]string{accept: "accept", reject: "reject", unspecified: "unspecified"}[want], map[string]interface{}{"why": why, "certs": len(p.certs), "host": q.host, "chains": len(chains)})
}

func pathIDs(p []*spec) (o []int) {
	for _, s := range p {
		o = append(o, s.id)
	}
	return
}

func chainIDs(p *pki, chains [][]*gx.Certificate) (o [][]int) {
	for _, ch := range chains {
		var ids []int
		for _, c := range ch {
			if s := specOf(p, c); s != nil {
				ids = append(ids, s.id)
			} else {
				ids = append(ids, -1)
			}
		}
		o = append(o, ids)
	}
	return
}

func queryGen(p *pki) *rapid.Generator[query] {
	return rapid.Custom(func(t *rapid.T) query {
		q := query{when: tNow}
		if gen.Uniform(t, "matching", 10) < 6 {
			// a host the leaf is meant to serve
			var cands []string
			for _, d := range p.leaf.dns {
				cands = append(cands, strings.Replace(d, "*", "sub", 1))
			}
			for _, ip := range p.leaf.ips {
				cands = append(cands, ip.String())
			}
			if len(cands) > 0 {
				q.host = rapid.SampledFrom(cands).Draw(t, "mhost")
				q.usages = rapid.SampledFrom([][]gx.ExtKeyUsage{nil, nil, {gx.ExtKeyUsageServerAuth}, {gx.ExtKeyUsageAny}, {gx.ExtKeyUsageClientAuth, gx.ExtKeyUsageServerAuth}}).Draw(t, "musages")
				return q
			}
		}
		q.host = rapid.SampledFrom([]string{"www.example.com", "www.example.com", "www.example.com", "www.example.com", "www.example.com", "www.example.com", "WWW.EXAMPLE.COM", "www.example.com.", "x.example.com", "a.b.example.com", "example.com", "alt.other.org", "nomatch.test", "",
			"10.0.0.1", "[10.0.0.1]", "2001:db8::7", "[2001:db8::7]", "10.0.0.2", "leaf.example.com", "a.x.example.com", "com", "[www.example.com]", "[x.example.com]", "[www.example.com"}).Draw(t, "host")
		q.usages = rapid.SampledFrom([][]gx.ExtKeyUsage{nil, nil, {gx.ExtKeyUsageServerAuth}, {gx.ExtKeyUsageClientAuth}, {gx.ExtKeyUsageAny}, {gx.ExtKeyUsageClientAuth, gx.ExtKeyUsageServerAuth}, {gx.ExtKeyUsageCodeSigning, gx.ExtKeyUsageEmailProtection}}).Draw(t, "usages")
		if gen.OneIn(t, "othertime", 10) {
			q.when = tNow.Add(time.Duration(rapid.SampledFrom([]int{-400, -366, -365, 365, 366, 400, 800, -800}).Draw(t, "days")) * 24 * time.Hour)
		}
		return q
	})
}

func TestC10_Verify(t *testing.T) {
	hx.Check(t, hx.N(1500, 12000), func(t *rapid.T) {
		p := drawPKI(t)
		n := rapid.IntRange(1, 4).Draw(t, "nqueries")
		for i := 0; i < n; i++ {
			checkVerify(t, p, queryGen(p).Draw(t, "query"))
		}
	})
}

// the confirmed cache/prefix shape: root R (pathlen 1), I1 (subject S, key K, self-signed),
// I2 (same S and K, signed by R), leaf issued by S/K — in both pool orders.
func TestC10_Replay(t *testing.T) {
	hx.Check(t, 2, func(t *rapid.T) {
		order := rapid.IntRange(0, 1).Draw(t, "order")
		p := &pki{}
		r := &spec{id: 0, role: "root", subj: 0, key: 10, issuer: 0, signer: 10, validity: "ok", bcValid: true, isCA: true, maxPath: 1, ku: gx.KeyUsageCertSign}
		i1 := &spec{id: 1, role: "inter", subj: 3, key: 20, issuer: 3, signer: 20, validity: "ok", bcValid: true, isCA: true, maxPath: -1}
		i2 := &spec{id: 2, role: "inter", subj: 3, key: 20, issuer: 0, signer: 10, validity: "ok", bcValid: true, isCA: true, maxPath: -1}
		leaf := &spec{id: 3, role: "leaf", subj: 9, key: 50, issuer: 3, signer: 20, validity: "ok", maxPath: -1, dns: []string{"www.example.com"}}
		p.certs = []*spec{r, i1, i2, leaf}
		p.leaf = leaf
		build(t, p)
		p.roots = []*spec{r}
		p.inters = []*spec{i1, i2}
		if order == 1 {
			p.inters = []*spec{i2, i1}
		}
		checkVerify(t, p, query{host: "www.example.com", when: tNow})
	})
}

// A subjectAltName that holds only name forms this verifier does not interpret (URI, otherName, directoryName, registeredID):
// marked critical it cannot be honoured and the certificate is rejected like one with an unknown critical extension -
// on the leaf and on an intermediate; not critical it is ignored and the common name decides (control).
func TestC10_UninterpretedSAN(t *testing.T) {
	root, rootKey := keyOf(1), sm2x.Priv(keyOf(1))
	mk := func(serial int64, cn string, ca bool, issuerCN string, signer *sm2.PrivateKey, pub *sm2.PublicKey, extra []pkix.Extension) *gx.Certificate {
		tpl := &gx.Certificate{SerialNumber: big.NewInt(serial), Subject: pkix.Name{CommonName: cn}, NotBefore: tNow.Add(-time.Hour), NotAfter: tNow.Add(time.Hour),
			SignatureAlgorithm: gx.SM2WithSM3, BasicConstraintsValid: ca, IsCA: ca, ExtraExtensions: extra}
		if ca {
			tpl.KeyUsage = gx.KeyUsageCertSign
		}
		der, err := gx.CreateCertificate(tpl, &gx.Certificate{Subject: pkix.Name{CommonName: issuerCN}}, pub, signer)
		if err != nil {
			t.Fatalf("harness: create %s: %v", cn, err)
		}
		c, err := gx.ParseCertificate(der)
		if err != nil {
			t.Fatalf("harness: parse %s: %v", cn, err)
		}
		return c
	}
	rootCert := mk(1, "usan root", true, "usan root", rootKey, sm2x.Pub(root.Pub), nil)
	forms := map[string][]byte{
		"uri":           append([]byte{0x86, 0x10}, "http://a.test/id"...),
		"registered_id": {0x88, 0x03, 0x2a, 0x03, 0x04},
		"other_name":    {0xa0, 0x0b, 0x06, 0x03, 0x2a, 0x03, 0x04, 0xa0, 0x04, 0x0c, 0x02, 'h', 'i'},
		"directory":     {0xa4, 0x0f, 0x30, 0x0d, 0x31, 0x0b, 0x30, 0x09, 0x06, 0x03, 0x55, 0x04, 0x03, 0x0c, 0x02, 'd', 'n'},
	}
	n := 0
	for name, gn := range forms {
		for _, critical := range []bool{true, false} {
			for _, where := range []string{"leaf", "intermediate"} {
				n++
				san := []pkix.Extension{{Id: asn1.ObjectIdentifier{2, 5, 29, 17}, Critical: critical, Value: append([]byte{0x30, byte(len(gn))}, gn...)}}
				var leafX, interX []pkix.Extension
				if where == "leaf" {
					leafX = san
				} else {
					interX = san
				}
				ik, lk := keyOf(2), keyOf(3)
				inter := mk(2, "usan inter", true, "usan root", rootKey, sm2x.Pub(ik.Pub), interX)
				leaf := mk(3, "host.usan.test", false, "usan inter", sm2x.Priv(ik), sm2x.Pub(lk.Pub), leafX)
				roots, inters := gx.NewCertPool(), gx.NewCertPool()
				roots.AddCert(rootCert)
				inters.AddCert(inter)
				for _, host := range []string{"", "host.usan.test"} {
					var chains [][]*gx.Certificate
					var err error
					if pn := hx.Try(func() {
						chains, err = leaf.Verify(gx.VerifyOptions{Roots: roots, Intermediates: inters, CurrentTime: tNow, DNSName: host})
					}); pn != nil {
						t.Fatalf("Verify panicked: %v", pn.Val)
					}
					desc := fmt.Sprintf("subjectAltName with only a %s name, critical=%v, on the %s; host %q", name, critical, where, host)
					if critical && err == nil {
						t.Fatalf("Verify ACCEPTED (%d chains) a path through a certificate whose critical subjectAltName it cannot interpret: %s", len(chains), desc)
					}
					if !critical && err != nil {
						t.Fatalf("Verify rejected a path although the uninterpreted subjectAltName is not critical (the common name matches): %s: %v", desc, err)
					}
				}
				R.Case(true, hx.HashKey("usan", name, critical, where), "uninterpreted_san", fmt.Sprintf("uninterpreted_san:critical=%v", critical))
			}
		}
	}
	R.Subspace("subjectAltName with only {URI, registeredID, otherName, directoryName} x critical/not x leaf/intermediate x {no host, CN host}", int64(n*2), true)
}

// VerifyHostname alone against the reference matcher.
func TestC10_Hostname(t *testing.T) {
	key := keyOf(50)
	labels := []string{"a", "b", "www", "example", "com", "*", "x*", "EXAMPLE", "Www"}
	hx.Check(t, hx.N(1500, 20000), func(t *rapid.T) {
		mk := func(name string) string {
			n := rapid.IntRange(1, 4).Draw(t, name+"n")
			var parts []string
			for i := 0; i < n; i++ {
				parts = append(parts, rapid.SampledFrom(labels).Draw(t, name))
			}
			s := strings.Join(parts, ".")
			if rapid.IntRange(0, 7).Draw(t, name+"dot") == 0 {
				s += "."
			}
			return s
		}
		pattern := mk("pat")
		host := mk("host")
		if strings.Contains(host, "*") && rapid.Bool().Draw(t, "cleanhost") {
			host = strings.ReplaceAll(host, "*", "s")
		}
		if gen.OneIn(t, "related", 4) {
			host = strings.Replace(pattern, "*", "sub", 1)
		}
		dnsNames, cn := []string{pattern}, "cn.invalid"
		switch gen.Uniform(t, "iptext", 8) {
		case 0:
			// a dNSName that spells an IP address no iPAddress SAN lists: IP hosts match iPAddress SANs only
			dnsNames = append(dnsNames, "10.0.0.9")
			R.Class("dnsname_spells_ip")
		case 1:
			// no dNSName at all and a common name that spells that address
			dnsNames, cn, pattern = nil, "10.0.0.9", "10.0.0.9"
			R.Class("cn_spells_ip")
		}
		tpl := &gx.Certificate{SerialNumber: big.NewInt(1), Subject: pkix.Name{CommonName: cn}, NotBefore: tNow.Add(-time.Hour), NotAfter: tNow.Add(time.Hour),
			SignatureAlgorithm: gx.SM2WithSM3, DNSNames: dnsNames, IPAddresses: []net.IP{net.IPv4(10, 0, 0, 1).To4()}}
		der, err := gx.CreateCertificate(tpl, tpl, sm2x.Pub(key.Pub), sm2x.Priv(key))
		if err != nil {
			t.Fatalf("create: %v", err)
		}
		c, err := gx.ParseCertificate(der)
		if err != nil {
			t.Fatalf("parse: %v", err)
		}
		for _, h := range []string{host, "10.0.0.1", "[10.0.0.1]", "10.0.0.9", "[" + host + "]", "[" + host, host + "]"} {
			var got error
			if pn := hx.Try(func() { got = c.VerifyHostname(h) }); pn != nil {
				t.Fatalf("VerifyHostname panicked: %v", pn.Val)
			}
			want := hostMatchDNS(pattern, h)
			if ip := parseHostIP(h); ip != nil {
				want = ip.Equal(net.IPv4(10, 0, 0, 1))
			}
			if (got == nil) != want {
				t.Fatalf("VerifyHostname(pattern %q, host %q) = %v, reference matcher says %v", pattern, h, got, want)
			}
			R.Case(true, hx.HashKey("host", pattern, h), "hostname_diff")
		}
	})
}

// Chains issued by ANOTHER toolchain (the standard library) under every signature algorithm this package lists for RSA
// and ECDSA issuers: PKCS#1 v1.5 and RSASSA-PSS with SHA-256/384/512, ECDSA with SHA-256/384/512 on P-256/P-384/P-521.
// Differential oracle: the standard library's own verifier; a genuine chain must verify here too, and the same chain
// with one bit of the leaf's signature changed must not (nor must a chain under another root).
func TestC10_StdIssuedChains(t *testing.T) {
	rk, err := rsa.GenerateKey(rand.Reader, 2048)
	if err != nil {
		t.Fatal(err)
	}
	rk2, err := rsa.GenerateKey(rand.Reader, 2048)
	if err != nil {
		t.Fatal(err)
	}
	type issuer struct {
		name string
		key  crypto.Signer
		algs []stdx509.SignatureAlgorithm
	}
	ek := func(c elliptic.Curve) crypto.Signer {
		k, err := ecdsa.GenerateKey(c, rand.Reader)
		if err != nil {
			t.Fatal(err)
		}
		return k
	}
	issuers := []issuer{
		{"rsa", rk, []stdx509.SignatureAlgorithm{stdx509.SHA256WithRSA, stdx509.SHA384WithRSA, stdx509.SHA512WithRSA, stdx509.SHA256WithRSAPSS, stdx509.SHA384WithRSAPSS, stdx509.SHA512WithRSAPSS}},
		{"p256", ek(elliptic.P256()), []stdx509.SignatureAlgorithm{stdx509.ECDSAWithSHA256, stdx509.ECDSAWithSHA384, stdx509.ECDSAWithSHA512}},
		{"p384", ek(elliptic.P384()), []stdx509.SignatureAlgorithm{stdx509.ECDSAWithSHA256, stdx509.ECDSAWithSHA384, stdx509.ECDSAWithSHA512}},
		{"p521", ek(elliptic.P521()), []stdx509.SignatureAlgorithm{stdx509.ECDSAWithSHA256, stdx509.ECDSAWithSHA512}},
	}
	n := int64(100)
	for _, is := range issuers {
		for _, alg := range is.algs {
			n++
			rootTpl := &stdx509.Certificate{SerialNumber: big.NewInt(n), Subject: pkix.Name{CommonName: "std root " + is.name}, NotBefore: tNow.Add(-time.Hour), NotAfter: tNow.Add(time.Hour),
				BasicConstraintsValid: true, IsCA: true, KeyUsage: stdx509.KeyUsageCertSign, SignatureAlgorithm: alg}
			rootDER, err := stdx509.CreateCertificate(rand.Reader, rootTpl, rootTpl, is.key.Public(), is.key)
			if err != nil {
				t.Fatalf("harness: std root (%s, %v): %v", is.name, alg, err)
			}
			leafTpl := &stdx509.Certificate{SerialNumber: big.NewInt(n + 1000), Subject: pkix.Name{CommonName: "std leaf"}, NotBefore: tNow.Add(-time.Hour), NotAfter: tNow.Add(time.Hour),
				DNSNames: []string{"www.example.com"}, KeyUsage: stdx509.KeyUsageDigitalSignature, SignatureAlgorithm: alg}
			leafDER, err := stdx509.CreateCertificate(rand.Reader, leafTpl, rootTpl, &rk2.PublicKey, is.key)
			if err != nil {
				t.Fatalf("harness: std leaf (%s, %v): %v", is.name, alg, err)
			}
			forged := append([]byte{}, leafDER...)
			forged[len(forged)-3] ^= 0x04
			// reference
			sroot, _ := stdx509.ParseCertificate(rootDER)
			spool := stdx509.NewCertPool()
			spool.AddCert(sroot)
			for _, c := range []struct {
				what string
				der  []byte
			}{{"genuine", leafDER}, {"forged", forged}} {
				refOK := false
				if sl, err := stdx509.ParseCertificate(c.der); err == nil {
					_, err = sl.Verify(stdx509.VerifyOptions{Roots: spool, CurrentTime: tNow, DNSName: "www.example.com", KeyUsages: []stdx509.ExtKeyUsage{stdx509.ExtKeyUsageAny}})
					refOK = err == nil
				}
				if refOK != (c.what == "genuine") {
					t.Fatalf("harness: the reference verifier says %v for the %s chain (%s, %v)", refOK, c.what, is.name, alg)
				}
				root, err := gx.ParseCertificate(rootDER)
				if err != nil {
					t.Fatalf("ParseCertificate refused a root issued by the standard library (%s, %v): %v", is.name, alg, err)
				}
				pool := gx.NewCertPool()
				pool.AddCert(root)
				var verr error
				leaf, perr := gx.ParseCertificate(c.der)
				if perr == nil {
					if pn := hx.Try(func() {
						_, verr = leaf.Verify(gx.VerifyOptions{Roots: pool, CurrentTime: tNow, DNSName: "www.example.com", KeyUsages: []gx.ExtKeyUsage{gx.ExtKeyUsageAny}})
					}); pn != nil {
						t.Fatalf("Verify panicked (%s, %v, %s): %v", is.name, alg, c.what, pn.Val)
					}
				}
				got := perr == nil && verr == nil
				if got != refOK {
					t.Fatalf("Verify of a %s chain issued under %v by a %s key: accepted=%v (parse err %v, verify err %v), the reference validator says %v", c.what, alg, is.name, got, perr, verr, refOK)
				}
				R.Case(true, hx.HashKey("stdchain", is.name, int(alg), c.what), "std_issued_chain", "std_issued:"+c.what)
			}
		}
	}
}
