//go:build verif

// C11 — SM4 ECB/CBC/CFB/OFB helpers equal the standard PKCS#7-padded modes and invert.
package c11

import (
	"bytes"
	"crypto/cipher"
	"fmt"
	"os"
	"strconv"
	"testing"

	"github.com/tjfoc/gmsm/sm4"
	"pgregory.net/rapid"

	"verifharness/gen"
	"verifharness/hx"
	"verifharness/ref/rsm4"
)

var R = hx.NewRecorder("C11", "cases = (mode, key, IV, plaintext, spare capacity of the input slices); oracle = crypto/cipher CBC/CFB/OFB (ECB by hand) over the independent ref/rsm4 block cipher applied to my own PKCS#7 pad; "+
	"non-trivial = plaintext length >= 1 (and IV != 0 for chained modes); distinct by hash of (mode,key,iv,plaintext)")

func TestMain(m *testing.M) {
	if k := os.Getenv("C11_CHILD"); k != "" {
		seed, _ := strconv.ParseUint(k, 10, 64)
		if msg := freshHistory(seed); msg != "" {
			fmt.Println(msg)
			os.Exit(1)
		}
		os.Exit(0)
	}
	R.Require("ecb", "cbc", "cfb", "ofb", "blocks>=3", "spare_capacity", "padlike_tail", "helper_history", "fresh_process_history", "iv_assigned_to_variable", "iv_written_through_variable")
	for i := 0; i < 16; i++ {
		R.Require(fmt.Sprintf("len%%16==%d", i))
	}
	R.Assume("sm4.IV is process-wide: cases run serially and every case sets the IV it wants (documented usage)")
	hx.Main(m, R)
}

var modes = []string{"ecb", "cbc", "cfb", "ofb"}

func helper(mode string) func(key, in []byte, enc bool) ([]byte, error) {
	switch mode {
	case "ecb":
		return sm4.Sm4Ecb
	case "cbc":
		return sm4.Sm4Cbc
	case "cfb":
		return sm4.Sm4CFB
	default:
		return sm4.Sm4OFB
	}
}

func refEncrypt(mode string, key, iv, pt []byte) []byte {
	b := rsm4.Must(key)
	p := rsm4.PKCS7(pt, 16)
	out := make([]byte, len(p))
	switch mode {
	case "ecb":
		for i := 0; i < len(p); i += 16 {
			b.Encrypt(out[i:i+16], p[i:i+16])
		}
	case "cbc":
		cipher.NewCBCEncrypter(b, iv).CryptBlocks(out, p)
	case "cfb":
		cipher.NewCFBEncrypter(b, iv).XORKeyStream(out, p)
	case "ofb":
		cipher.NewOFB(b, iv).XORKeyStream(out, p)
	}
	return out
}

type tcase struct {
	mode              string
	key, iv, pt       []byte
	spareIn, spareKey int
	defaultIV         bool
}

// reusedKey is ONE key buffer overwritten in place from case to case, the way a caller that derives many keys into the
// same array uses the helpers: an implementation that remembers the slice instead of its contents then sees stale keys.
var (
	reusedKey = make([]byte, 16)
	caseNo    int
)

func runCase(t interface{ Fatalf(string, ...any) }, c tcase) {
	const canary = 0xC7
	key := gen.WithCap(c.key, c.spareKey, canary)
	caseNo++
	if caseNo%2 == 0 {
		copy(reusedKey, c.key)
		key = reusedKey
	}
	in := gen.WithCap(c.pt, c.spareIn, canary)
	iv := gen.WithCap(c.iv, c.spareKey, canary)
	if c.defaultIV {
		iv = make([]byte, 16)
		if err := sm4.SetIV(make([]byte, 16)); err != nil {
			t.Fatalf("SetIV(zero): %v", err)
		}
	} else {
		// three ways a caller puts an IV in force: SetIV, assigning the exported variable sm4.IV, or writing the bytes
		// of the slice that variable holds; the helpers work under whatever sm4.IV holds when they are called
		switch caseNo % 3 {
		case 0:
			if err := sm4.SetIV(iv); err != nil {
				t.Fatalf("SetIV(16 bytes): %v", err)
			}
		case 1:
			sm4.IV = iv
			R.Class("iv_assigned_to_variable")
		default:
			hold := make([]byte, 16)
			if err := sm4.SetIV(hold); err != nil {
				t.Fatalf("SetIV(16 bytes): %v", err)
			}
			copy(sm4.IV, c.iv)
			iv = sm4.IV
			R.Class("iv_written_through_variable")
		}
	}
	f := helper(c.mode)
	desc := fmt.Sprintf("mode=%s key=%x iv=%x len=%d spare=%d", c.mode, c.key, c.iv, len(c.pt), c.spareIn)
	ct, err := f(key, in, true)
	if err != nil {
		t.Fatalf("%s: encrypt error %v", desc, err)
	}
	want := refEncrypt(c.mode, c.key, iv[:16], c.pt)
	if len(ct) != 16*(len(c.pt)/16+1) {
		t.Fatalf("%s: ciphertext length %d, want %d", desc, len(ct), 16*(len(c.pt)/16+1))
	}
	if !bytes.Equal(ct, want) {
		t.Fatalf("%s pt=%x: ciphertext %x, standard mode gives %x", desc, c.pt, ct, want)
	}
	if !bytes.Equal(in, c.pt) || !gen.SpareIntact(in, canary) {
		t.Fatalf("%s: encrypt wrote into the caller's plaintext slice or its spare capacity (%x | spare %x)", desc, in, in[len(in):cap(in)])
	}
	if !bytes.Equal(key, c.key) || !gen.SpareIntact(key, canary) {
		t.Fatalf("%s: encrypt wrote into the caller's key slice", desc)
	}
	if !c.defaultIV && (!bytes.Equal(iv, c.iv) || !gen.SpareIntact(iv, canary)) {
		t.Fatalf("%s: encrypt wrote into the caller's IV slice", desc)
	}
	ctIn := gen.WithCap(ct, c.spareIn, canary)
	back, err := f(key, ctIn, false)
	if err != nil {
		t.Fatalf("%s: decrypt error %v", desc, err)
	}
	if !bytes.Equal(back, c.pt) {
		t.Fatalf("%s: decrypt(encrypt(pt)) = %x, want %x", desc, back, c.pt)
	}
	if !bytes.Equal(ctIn, ct) || !gen.SpareIntact(ctIn, canary) {
		t.Fatalf("%s: decrypt wrote into the caller's ciphertext slice or its spare capacity", desc)
	}
	if !c.defaultIV && (!bytes.Equal(iv, c.iv) || !gen.SpareIntact(iv, canary)) {
		t.Fatalf("%s: decrypt wrote into the caller's IV slice", desc)
	}
}

func classes(c tcase) []string {
	cl := []string{c.mode, fmt.Sprintf("len%%16==%d", len(c.pt)%16)}
	if len(c.pt) >= 33 {
		cl = append(cl, "blocks>=3")
	}
	if c.spareIn > 0 {
		cl = append(cl, "spare_capacity")
	}
	if n := len(c.pt); n > 0 && int(c.pt[n-1]) >= 1 && int(c.pt[n-1]) <= 16 {
		cl = append(cl, "padlike_tail")
	}
	if c.defaultIV {
		cl = append(cl, "default_iv")
	}
	return cl
}

func nontrivial(c tcase) bool {
	if len(c.pt) == 0 {
		return false
	}
	if c.mode != "ecb" && (c.defaultIV || bytes.Equal(c.iv, make([]byte, 16))) {
		return false
	}
	return true
}

func TestC11_LengthsExhaustive(t *testing.T) {
	defer sm4.SetIV(make([]byte, 16))
	max := 1024
	lo, hi := hx.ShardRange(0, max+1)
	var n int64
	for l := lo; l < hi; l++ {
		for mi, mode := range modes {
			for _, spare := range []int{0, 16, 1} {
				if l > 80 && !hx.Thorough() && spare != 0 {
					continue // quick: every length up to 1024 once per mode, the spare-capacity variants up to 80
				}
				c := tcase{mode: mode, key: make([]byte, 16), iv: make([]byte, 16), pt: make([]byte, l), spareIn: spare, spareKey: spare}
				s := uint64(hx.Seed())*1315423911 + uint64(l*16+mi*4+spare)
				gen.Fill(c.key, s)
				gen.Fill(c.iv, s+1)
				gen.Fill(c.pt, s+2)
				if l > 0 && spare == 1 { // pad-looking tail
					k := int(c.pt[0])%16 + 1
					for i := 0; i < k && i < l; i++ {
						c.pt[l-1-i] = byte(k)
					}
				}
				runCase(t, c)
				R.Case(nontrivial(c), hx.HashKey(mode, c.key, c.iv, c.pt), classes(c)...)
				n++
			}
		}
	}
	R.Subspace(fmt.Sprintf("plaintext lengths 0..%d x 4 modes x spare{0,1,16}", max), n, true)
}

func TestC11_Random(t *testing.T) {
	defer sm4.SetIV(make([]byte, 16))
	maxLen := 2200 // beyond one and two KiB: internal buffering boundaries of the helpers
	if hx.Thorough() {
		maxLen = 70000
	}
	hx.Check(t, hx.N(4000, 60000), func(t *rapid.T) {
		c := tcase{
			mode:      rapid.SampledFrom(modes).Draw(t, "mode"),
			key:       gen.BytesN(16).Draw(t, "key"),
			iv:        gen.BytesN(16).Draw(t, "iv"),
			pt:        gen.Bytes(gen.LenAround(16, maxLen)).Draw(t, "pt"),
			spareIn:   rapid.SampledFrom([]int{0, 0, 1, 15, 16, 64}).Draw(t, "spareIn"),
			spareKey:  rapid.SampledFrom([]int{0, 1, 16}).Draw(t, "spareKey"),
			defaultIV: rapid.IntRange(0, 9).Draw(t, "defiv") == 0,
		}
		if n := len(c.pt); n > 0 && rapid.IntRange(0, 3).Draw(t, "padlike") == 0 {
			k := rapid.IntRange(1, 16).Draw(t, "k")
			c.pt = append([]byte{}, c.pt...)
			for i := 0; i < k && i < n; i++ {
				c.pt[n-1-i] = byte(k)
			}
		}
		runCase(t, c)
		R.Case(nontrivial(c), hx.HashKey(c.mode, c.key, c.iv, c.pt), classes(c)...)
		R.Sample(c.mode, map[string]interface{}{"key": hx.Hex(c.key), "iv": hx.Hex(c.iv), "ptlen": len(c.pt), "spare": c.spareIn})
	})
}

// Result independent of previous calls; invalid key / IV sizes refused.
func TestC11_ErrorsAndIndependence(t *testing.T) {
	defer sm4.SetIV(make([]byte, 16))
	hx.Check(t, hx.N(300, 3000), func(t *rapid.T) {
		n := rapid.IntRange(0, 40).Draw(t, "n")
		bad := gen.BytesN(n).Draw(t, "bad")
		if n != 16 {
			good := gen.BytesN(16).Draw(t, "goodiv")
			sm4.SetIV(good)
			if err := sm4.SetIV(bad); err == nil {
				t.Fatalf("SetIV accepted %d bytes", n)
			}
			// a refused IV must leave the IV in force untouched: the helpers still compute the standard modes under it
			k16, pt := gen.BytesN(16).Draw(t, "k16"), gen.Bytes(gen.LenAround(16, 64)).Draw(t, "ptAfter")
			for _, mode := range modes {
				var out []byte
				var err error
				if pn := hx.Try(func() { out, err = helper(mode)(k16, pt, true) }); pn != nil {
					t.Fatalf("%s panicked after a refused SetIV(%d bytes): %v", mode, n, pn.Val)
				}
				if want := refEncrypt(mode, k16, good, pt); err != nil || !bytes.Equal(out, want) {
					t.Fatalf("after SetIV(good) and a REFUSED SetIV(%d bytes), %s no longer uses the IV in force: got %x want %x (err %v)", n, mode, out, want, err)
				}
			}
			for _, mode := range modes {
				out, err := helper(mode)(bad, []byte("0123456789abcdef0"), true)
				if err == nil || out != nil {
					t.Fatalf("%s accepted a %d-byte key", mode, n)
				}
			}
			R.Case(true, hx.HashKey("badlen", n), "bad_key_iv_len")
			return
		}
		// same call twice with another call in between gives the same answer
		key, iv := bad, gen.BytesN(16).Draw(t, "iv")
		pt := gen.Bytes(gen.LenAround(16, 100)).Draw(t, "pt")
		mode := rapid.SampledFrom(modes).Draw(t, "mode")
		sm4.SetIV(iv)
		a, _ := helper(mode)(key, pt, true)
		other := rapid.SampledFrom(modes).Draw(t, "other")
		helper(other)(iv, key, true)
		b, _ := helper(mode)(key, pt, true)
		if !bytes.Equal(a, b) {
			t.Fatalf("%s result depends on an intervening %s call", mode, other)
		}
		R.Case(len(pt) > 0, hx.HashKey("indep", mode, key, iv, pt), "independence")
	})
}

// A history of helper calls (all four modes, both directions, growing and shrinking lengths) on slices the caller keeps:
// every slice ever passed in and every slice ever returned must still hold what it held when the call returned - a helper
// owns neither its arguments nor, afterwards, its results.
func TestC11_Histories(t *testing.T) {
	defer sm4.SetIV(make([]byte, 16))
	hx.Check(t, hx.N(400, 6000), func(t *rapid.T) {
		iv := gen.BytesN(16).Draw(t, "iv")
		sm4.SetIV(iv)
		type kept struct {
			what string
			live []byte // the slice itself (full capacity)
			copy []byte
		}
		var held []kept
		keep := func(what string, b []byte) {
			full := b[:cap(b)]
			held = append(held, kept{what, full, append([]byte{}, full...)})
		}
		var cts [][3]interface{} // mode, key, ciphertext
		steps := rapid.IntRange(3, 10).Draw(t, "steps")
		var hist []string
		for i := 0; i < steps; i++ {
			mode := rapid.SampledFrom(modes).Draw(t, "mode")
			decrypt := len(cts) > 0 && rapid.Bool().Draw(t, "decrypt")
			if decrypt {
				c := cts[rapid.IntRange(0, len(cts)-1).Draw(t, "which")]
				m, key, ct := c[0].(string), c[1].([]byte), c[2].([]byte)
				// the caller hands over its own ciphertext slice (kept above when it was returned, or a fresh copy with spare room)
				in := ct
				if rapid.Bool().Draw(t, "copyct") {
					in = gen.WithCap(ct, rapid.SampledFrom([]int{0, 16, 64}).Draw(t, "ctspare"), 0x3c)
					keep("ciphertext copy passed to "+m+" decrypt", in)
				}
				var out []byte
				var err error
				if pn := hx.Try(func() { out, err = helper(m)(key, in, false) }); pn != nil {
					t.Fatalf("%s decrypt panicked: %v", m, pn.Val)
				}
				if err != nil {
					t.Fatalf("history %v: %s decrypt of the helper's own ciphertext: %v", hist, m, err)
				}
				keep("plaintext returned by "+m+" decrypt", out)
				hist = append(hist, fmt.Sprintf("D:%s:%d", m, len(ct)))
			} else {
				key := gen.BytesN(16).Draw(t, "key")
				pt := gen.WithCap(gen.Bytes(rapid.IntRange(0, 70)).Draw(t, "pt"), rapid.SampledFrom([]int{0, 1, 16, 40}).Draw(t, "ptspare"), 0x5a)
				keep("key passed to "+mode+" encrypt", key)
				keep("plaintext passed to "+mode+" encrypt", pt)
				var out []byte
				var err error
				if pn := hx.Try(func() { out, err = helper(mode)(key, pt, true) }); pn != nil {
					t.Fatalf("%s encrypt panicked: %v", mode, pn.Val)
				}
				if want := refEncrypt(mode, key, iv, pt); err != nil || !bytes.Equal(out, want) {
					t.Fatalf("history %v: %s encrypt of %d bytes differs from the standard mode (err %v)", hist, mode, len(pt), err)
				}
				keep("ciphertext returned by "+mode+" encrypt", out)
				cts = append(cts, [3]interface{}{mode, key, out})
				hist = append(hist, fmt.Sprintf("E:%s:%d", mode, len(pt)))
			}
			for _, k := range held {
				if !bytes.Equal(k.live, k.copy) {
					t.Fatalf("history %v: the %s (%d bytes incl. spare capacity) was changed by a LATER helper call: now %x, was %x", hist, k.what, len(k.copy), k.live, k.copy)
				}
			}
		}
		R.Case(len(hist) >= 3, hx.HashKey("hist", fmt.Sprint(hist), iv), "helper_history")
		R.Sample("helper_history", map[string]interface{}{"calls": hist})
	})
}

// freshHistory: the same kind of history as the FIRST use of the package in a fresh process (package-level state that
// only fills up over time - free lists, caches - behaves differently in a young process). A pure function of seed;
// returns a description of the first problem or "".
func freshHistory(seed uint64) string {
	x := seed*6364136223846793005 + 1442695040888963407
	next := func(n int) int {
		x = x*6364136223846793005 + 1442695040888963407
		return int((x >> 33) % uint64(n))
	}
	iv := make([]byte, 16)
	gen.Fill(iv, seed)
	sm4.SetIV(iv)
	type kept struct {
		what       string
		live, copy []byte
	}
	var held []kept
	keep := func(what string, b []byte) {
		full := b[:cap(b)]
		held = append(held, kept{what, full, append([]byte{}, full...)})
	}
	type ctT struct {
		mode    string
		key, ct []byte
	}
	var cts []ctT
	var hist []string
	for i := 0; i < 4+next(6); i++ {
		if len(cts) > 0 && next(2) == 0 {
			c := cts[next(len(cts))]
			out, err := helper(c.mode)(c.key, c.ct, false)
			if err != nil {
				return fmt.Sprintf("history %v: %s decrypt of the helper's own ciphertext: %v", hist, c.mode, err)
			}
			keep("plaintext returned by "+c.mode+" decrypt", out)
			hist = append(hist, fmt.Sprintf("D:%s:%d", c.mode, len(c.ct)))
		} else {
			mode := modes[next(len(modes))]
			key, pt := make([]byte, 16), make([]byte, next(50))
			gen.Fill(key, x)
			gen.Fill(pt, x+1)
			keep("plaintext passed to "+mode+" encrypt", pt)
			out, err := helper(mode)(key, pt, true)
			if want := refEncrypt(mode, key, iv, pt); err != nil || !bytes.Equal(out, want) {
				return fmt.Sprintf("history %v: %s encrypt of %d bytes differs from the standard mode (err %v)", hist, mode, len(pt), err)
			}
			keep("ciphertext returned by "+mode+" encrypt", out)
			cts = append(cts, ctT{mode, key, out})
			hist = append(hist, fmt.Sprintf("E:%s:%d", mode, len(pt)))
		}
		for _, k := range held {
			if !bytes.Equal(k.live, k.copy) {
				return fmt.Sprintf("history %v (first calls of a fresh process): the %s was changed by a LATER helper call: now %x, was %x", hist, k.what, k.live, k.copy)
			}
		}
	}
	return ""
}

func TestC11_FreshProcessHistories(t *testing.T) {
	n := 24
	if hx.Thorough() {
		n = 200
	}
	var kinds []string
	for i := 0; i < n; i++ {
		kinds = append(kinds, fmt.Sprint(uint64(hx.Seed())*1000+uint64(i)))
	}
	for k, out := range hx.FirstOpChildren("C11_CHILD", kinds) {
		t.Fatalf("history #%s run as the first use of the package in a fresh process: %s", k, out)
	}
	for _, k := range kinds {
		R.Case(true, hx.HashKey("fresh", k), "fresh_process_history")
	}
}

func TestC11_Replay(t *testing.T) {
	defer sm4.SetIV(make([]byte, 16))
	// spare capacity behind the plaintext must not be written (append aliasing)
	c := tcase{mode: "cbc", key: []byte("1234567890abcdef"), iv: make([]byte, 16), pt: []byte("hello"), spareIn: 16}
	runCase(t, c)
	R.Case(true, hx.HashKey("replay-spare"), "replay")
}
