//go:build verif

// C08 — handshakes complete only with a peer that proves the certified identity.
package c08

import (
	"bytes"
	"crypto/rand"
	stdx509 "crypto/x509"
	"crypto/x509/pkix"
	"errors"
	"fmt"
	"math/big"
	"net"
	"strings"
	"testing"
	"time"

	"github.com/tjfoc/gmsm/gmtls"
	gx "github.com/tjfoc/gmsm/x509"
	"pgregory.net/rapid"

	"verifharness/gen"
	"verifharness/hx"
	"verifharness/ref/rgmssl"
	"verifharness/tlsx"
	"verifharness/wire"
)

var R = hx.NewRecorder("C08", "cases = attacker catalogue x GMSSL suite x client-auth policy x InsecureSkipVerify, by three mechanisms: (a) genuine gmtls peers configured with a certificate they hold no key for, or untrusted/expired/not-yet-valid/wrong-name/non-SM2/swapped certificates; (b) a man in the middle rewriting handshake messages in transit (any byte, suite lists, certificates, key-exchange messages taken from another session); (c) scripted reference endpoints that lack the signing key and omit, forge or replay ServerKeyExchange / CertificateVerify / Finished; "+
	"oracle = the honest endpoint must not complete (no data delivered, no verified peer identity) and, for in-transit rewrites, never both ends complete; honest baselines must succeed; non-trivial = the attack changed at least one byte or key and the handshake progressed past ServerHello; distinct by hash of the case")

func TestMain(m *testing.M) {
	for _, k := range []string{"sign_cert_wrong_key", "enc_cert_wrong_key", "untrusted", "expired", "future", "wrongname", "enc_expired", "rsa_sign_cert", "rsa_enc_cert", "swapped", "client_wrong_key", "client_untrusted", "client_expired",
		"ske_omitted", "ske_other_key", "ske_other_randoms", "ske_other_enccert", "ske_garbage", "cv_omitted", "cv_other_key", "cv_replayed", "cv_chain_confusion", "ske_sig_not_der", "cv_sig_not_der", "finished_wrong",
		"mitm_byte", "mitm_suites", "mitm_ske_replay", "mitm_cke_replay", "mitm_cert_swap", "mitm_cert_attacker", "baseline", "tls_server_name", "enc_cert_twice", "sign_cert_twice", "sign_cert_enc_key", "ecdhe_ske_other_key", "resumption_other_name", "untrusted_with_own_ca", "declined_resumption_reverifies", "client_expired_ca", "tls_chain_expired_ca"} {
		R.Require("attack:" + k)
	}
	for _, k := range []string{"rsa", "p224", "p256", "p384", "p521"} {
		R.Require("std_client_wrong_key:" + k)
	}
	R.Require("pinned_peer_rejects", "attack:session_cache_eviction", "eviction_then_redirect", "redirect_between_servers_with_default_ticket_keys", "attack:dial_entry_points", "dial:Dial", "dial:DialWithDialer")
	R.Require("suite:e013", "suite:e053", "skipverify")
	hx.Main(m, R)
}

var suites = []uint16{tlsx.GMECCSM4CBCSM3, tlsx.GMECCSM4GCMSM3}

func wrongKey(id *tlsx.Ident, other *tlsx.Ident) gmtls.Certificate {
	return gmtls.Certificate{Certificate: [][]byte{id.DER}, PrivateKey: other.Key}
}

// ---- (a) misconfigured genuine peers

func TestC08_MisconfiguredPeers(t *testing.T) {
	p := tlsx.GetPKI()
	n := 0
	serverAttacks := []string{"baseline", "sign_cert_wrong_key", "enc_cert_wrong_key", "untrusted", "expired", "future", "wrongname", "enc_expired", "rsa_sign_cert", "rsa_enc_cert", "swapped", "enc_cert_twice", "sign_cert_twice", "sign_cert_enc_key", "untrusted_with_own_ca"}
	clientAttacks := []string{"baseline", "client_wrong_key", "client_untrusted", "client_expired", "client_expired_ca", "client_std_right_key", "client_std_wrong_key", "client_std_wrong_key"}
	hx.Check(t, hx.N(300, 4000), func(t *rapid.T) {
		n++
		suite := rapid.SampledFrom(suites).Draw(t, "suite")
		skip := gen.OneIn(t, "skipverify", 3)
		cc, sc := tlsx.GMClient(p, fmt.Sprint("c", n)), tlsx.GMServer(p, fmt.Sprint("s", n))
		cc.CipherSuites, sc.CipherSuites = []uint16{suite}, []uint16{suite}
		cc.InsecureSkipVerify = skip
		attack := ""
		pinned := false
		stdKind := ""
		expectFail := true
		serverSide := rapid.Bool().Draw(t, "serverSide")
		if serverSide {
			attack = rapid.SampledFrom(serverAttacks).Draw(t, "attack")
			sign, enc := p.SrvSign.TLS, p.SrvEnc.TLS
			switch attack {
			case "baseline":
				expectFail = false
			case "sign_cert_wrong_key":
				sign = wrongKey(p.SrvSign, p.SrvSignBad)
			case "enc_cert_wrong_key":
				enc = wrongKey(p.SrvEnc, p.SrvEncBad)
			case "untrusted":
				sign, enc = p.SrvSignBad.TLS, p.SrvEncBad.TLS
				expectFail = !skip
			case "untrusted_with_own_ca":
				// ... and the Certificate message carries the issuing CA of that other hierarchy behind the two end-entity
				// certificates: what a peer sends along is never a trust anchor
				sign = p.SrvSignBad.TLS
				enc = gmtls.Certificate{Certificate: [][]byte{p.SrvEncBad.DER, p.SM2Root2.DER}, PrivateKey: p.SrvEncBad.Key}
				expectFail = !skip
			case "expired":
				sign = p.SrvSignExpired.TLS
				expectFail = !skip
			case "future":
				sign = p.SrvSignFuture.TLS
				expectFail = !skip
			case "wrongname":
				sign = p.SrvSignWrongName.TLS
				expectFail = !skip
			case "enc_expired":
				enc = p.SrvEncExpired.TLS
				expectFail = !skip
			case "rsa_sign_cert":
				sign = p.RSASrv.TLS
			case "rsa_enc_cert":
				enc = p.RSASrv.TLS
			case "swapped":
				sign, enc = enc, sign
			case "enc_cert_twice":
				// the holder of the encryption key alone (the key that is escrowed in GM deployments) presents the genuine
				// encryption certificate in both positions and signs with it: no proof of the SIGNING identity
				sign = enc
			case "sign_cert_twice":
				enc = sign
			case "sign_cert_enc_key":
				// the genuine signing certificate, but the key exchange is signed with the (escrowed) ENCRYPTION key
				sign = wrongKey(p.SrvSign, p.SrvEnc)
			}
			sc.Certificates = []gmtls.Certificate{sign, enc}
			if skip && rapid.Bool().Draw(t, "pinned") {
				// a client that does its own trust decision: chain verification off, VerifyPeerCertificate accepts exactly the
				// two genuine certificates ("pinning"). Every other pair must be turned away again.
				pinned = true
				cc.VerifyPeerCertificate = func(raw [][]byte, _ [][]*gx.Certificate) error {
					if len(raw) == 2 && bytes.Equal(raw[0], p.SrvSign.DER) && bytes.Equal(raw[1], p.SrvEnc.DER) {
						return nil
					}
					return errors.New("pin: not the pinned server certificates")
				}
				if attack != "baseline" {
					expectFail = true
				}
			}
		} else {
			attack = rapid.SampledFrom(clientAttacks).Draw(t, "attack")
			sc.ClientCAs = p.RootsSM2
			sc.ClientAuth = rapid.SampledFrom([]gmtls.ClientAuthType{gmtls.RequireAndVerifyClientCert, gmtls.VerifyClientCertIfGiven, gmtls.RequireAnyClientCert}).Draw(t, "policy")
			cert := p.Client.TLS
			switch attack {
			case "baseline":
				expectFail = false
			case "client_wrong_key":
				cert = wrongKey(p.Client, p.ClientUntrusted) // proof of possession must fail under every policy
			case "client_untrusted":
				cert = p.ClientUntrusted.TLS
				expectFail = sc.ClientAuth != gmtls.RequireAnyClientCert
			case "client_expired":
				cert = p.ClientExpired.TLS
				expectFail = sc.ClientAuth != gmtls.RequireAnyClientCert
			case "client_expired_ca":
				cert = p.ClientViaExpiredCA.TLS
				expectFail = sc.ClientAuth != gmtls.RequireAnyClientCert
			}
			if strings.HasPrefix(attack, "client_std_") {
				// a CA-issued client certificate with an RSA key or an ECDSA key on one of the NIST curves, presented with its own
				// key (control: whether the server takes such certificates at all is not demanded) or with the key of the other
				// certificate of the same kind (must fail under every policy)
				stdKind = rapid.SampledFrom([]string{"rsa", "p224", "p256", "p384", "p521"}).Draw(t, "stdkind")
				pair := p.StdClients[stdKind]
				sc.ClientCAs = p.RootsAll
				if attack == "client_std_right_key" {
					cert = pair[0].TLS
				} else {
					cert = wrongKey(pair[0], pair[1])
				}
			}
			if sc.ClientAuth == gmtls.RequireAnyClientCert && rapid.Bool().Draw(t, "pinnedClient") {
				// the server-side counterpart: any certificate is taken, and the callback accepts only the pinned one
				pinned = true
				sc.VerifyPeerCertificate = func(raw [][]byte, _ [][]*gx.Certificate) error {
					if len(raw) >= 1 && bytes.Equal(raw[0], p.Client.DER) {
						return nil
					}
					return errors.New("pin: not the pinned client certificate")
				}
				if attack != "baseline" {
					expectFail = true
				}
			}
			c := cert
			cc.GetClientCertificate = func(*gmtls.CertificateRequestInfo) (*gmtls.Certificate, error) { return &c, nil }
		}
		r := tlsx.Run(cc, sc, tlsx.Script{ClientSend: []byte("client secret"), ServerSend: []byte("server secret")})
		desc := fmt.Sprintf("attack=%s suite=%x skipVerify=%v clientAuth=%d\n %s", attack, suite, skip, sc.ClientAuth, r.Describe())
		// only the honest endpoint is judged: what a deliberately misconfigured peer does to itself is not this property's business
		honest := &r.Client
		if !serverSide {
			honest = &r.Server
		}
		if honest.Panic != nil {
			t.Fatalf("the honest endpoint panicked\n%s", desc)
		}
		both := r.Client.HSErr == nil && r.Server.HSErr == nil && r.Client.Panic == nil && r.Server.Panic == nil
		if attack == "client_std_right_key" {
			// unspecified outcome; recorded so that the wrong-key cases of the same kind are known to be meaningful
			R.Case(true, hx.HashKey("stdright", suite, int(sc.ClientAuth), stdKind), fmt.Sprintf("std_client_right_key:%s:completes=%v", stdKind, both))
			return
		}
		if !expectFail {
			if !both || !bytes.Equal(r.Server.Received, []byte("client secret")) || !bytes.Equal(r.Client.Received, []byte("server secret")) {
				t.Fatalf("honest configuration failed\n%s", desc)
			}
		} else {
			if both {
				t.Fatalf("handshake COMPLETED on both sides although the peer cannot prove the certified identity\n%s", desc)
			}
			if len(r.Client.Received) != 0 || len(r.Server.Received) != 0 {
				t.Fatalf("application data delivered although the handshake must fail\n%s", desc)
			}
		}
		cl := []string{"attack:" + attack, fmt.Sprintf("suite:%x", suite)}
		if stdKind != "" {
			cl = append(cl, "std_client_wrong_key:"+stdKind)
		}
		if pinned && attack != "baseline" {
			cl = append(cl, "pinned_peer_rejects")
		}
		if skip {
			cl = append(cl, "skipverify")
		}
		R.Case(attack != "baseline" && len(r.S2C) > 100, hx.HashKey("misc", attack, suite, skip, int(sc.ClientAuth), stdKind, pinned), cl...)
		R.Sample(attack, map[string]interface{}{"suite": fmt.Sprintf("%x", suite), "skipVerify": skip, "client_err": fmt.Sprint(r.Client.HSErr), "server_err": fmt.Sprint(r.Server.HSErr)})
	})
}

// ---- (c) scripted endpoints without the signing key

// notStrictDER rewrites a DER signature SEQUENCE{INTEGER r, INTEGER s} into an encoding that carries the same r and s
// but is not strict DER: trailing bytes after the SEQUENCE, a third element inside it, a long-form length where the
// short form is required, or an INTEGER with a redundant leading zero byte.
func notStrictDER(t *rapid.T) func([]byte) []byte {
	how := rapid.SampledFrom([]string{"trailing", "third_integer", "long_length", "padded_integer"}).Draw(t, "notder")
	return func(sig []byte) []byte {
		if len(sig) < 8 || sig[0] != 0x30 || int(sig[1]) != len(sig)-2 {
			return sig
		}
		body := append([]byte{}, sig[2:]...)
		switch how {
		case "trailing":
			return append(append([]byte{}, sig...), 0x00)
		case "third_integer":
			body = append(body, 0x02, 0x01, 0x01)
			return append([]byte{0x30, byte(len(body))}, body...)
		case "long_length":
			return append([]byte{0x30, 0x81, byte(len(body))}, body...)
		default:
			// r: 02 len v... -> 02 len+1 00 v... (only non-minimal when v[0] < 0x80; otherwise pad s, else trailing)
			rl := int(body[1])
			if body[2] < 0x80 {
				nb := append([]byte{0x02, byte(rl + 1), 0x00}, body[2:]...)
				return append([]byte{0x30, byte(len(nb))}, nb...)
			}
			so := 2 + rl
			if body[so+2] < 0x80 {
				nb := append(append([]byte{}, body[:so]...), 0x02, body[so+1]+1, 0x00)
				nb = append(nb, body[so+2:]...)
				return append([]byte{0x30, byte(len(nb))}, nb...)
			}
			return append(append([]byte{}, sig...), 0x00)
		}
	}
}

func TestC08_ScriptedAttackers(t *testing.T) {
	p := tlsx.GetPKI()
	n := 0
	// material from "another session": a ServerKeyExchange input with other randoms, an old CertificateVerify
	hx.Check(t, hx.N(300, 4000), func(t *rapid.T) {
		n++
		suite := rapid.SampledFrom(suites).Draw(t, "suite")
		attack := rapid.SampledFrom([]string{"baseline", "ske_omitted", "ske_other_key", "ske_other_randoms", "ske_other_enccert", "ske_garbage", "finished_wrong", "cv_omitted", "cv_other_key", "cv_replayed", "cv_chain_confusion", "baseline_client", "ske_sig_not_der", "cv_sig_not_der", "ecdhe_ske_other_key"}).Draw(t, "attack")
		skip := gen.OneIn(t, "skipverify", 3)
		seed := fmt.Sprint("k", n)
		cl := []string{fmt.Sprintf("suite:%x", suite)}
		if skip {
			cl = append(cl, "skipverify")
		}
		var r *tlsx.ScriptedResult
		victimIsClient := true
		switch attack {
		case "ecdhe_ske_other_key":
			// the attacker replays the victim server's certificates, selects an ECDHE-SM2 suite (offered by default) and
			// signs its ephemeral parameters with a key of its own: the client must stop at that signature
			cc := tlsx.GMClient(p, "c"+seed)
			cc.InsecureSkipVerify = skip
			e := &rgmssl.ECDHEOpts{Suite: map[uint16]uint16{tlsx.GMECCSM4CBCSM3: 0xe011, tlsx.GMECCSM4GCMSM3: 0xe051}[suite], CurveID: rapid.SampledFrom([]uint16{29, 23, 41}).Draw(t, "curve"),
				SignD: rapid.SampledFrom([]*big.Int{p.SrvSignBad.SM2D, p.SrvEnc.SM2D, big.NewInt(12345)}).Draw(t, "attackerKey")}
			r = tlsx.RunAgainstScriptedServer(cc, rgmssl.ServerOpts{ID: p.ServerIdentity(), ECDHE: e}, nil, seed, []byte("victim secret"))
			if r.GM.Panic != nil {
				t.Fatalf("victim panicked: %s", r.GM.Panic)
			}
			if r.GM.HSErr == nil || r.Peer.AfterFlight == "ClientKeyExchange" {
				t.Fatalf("the client did not stop at an ECDHE-SM2 ServerKeyExchange signed by a key that is not the certified signing key (hs=%v, then sent: %s)", r.GM.HSErr, r.Peer.AfterFlight)
			}
			R.Case(true, hx.HashKey("scr", attack, suite, skip, seed), append(cl, "attack:"+attack)...)
			return
		case "baseline", "ske_omitted", "ske_other_key", "ske_other_randoms", "ske_other_enccert", "ske_garbage", "finished_wrong", "ske_sig_not_der":
			cc := tlsx.GMClient(p, "c"+seed)
			cc.CipherSuites = []uint16{suite}
			cc.InsecureSkipVerify = skip
			so := rgmssl.ServerOpts{ID: p.ServerIdentity(), Echo: []byte("attacker data")}
			plan := &rgmssl.Plan{}
			switch attack {
			case "ske_omitted":
				// holds the encryption key but not the signing key: simply leaves the signature message out
				plan.Out = func(step string, o rgmssl.Out) []rgmssl.Out {
					if step == "ServerKeyExchange" {
						return nil
					}
					return []rgmssl.Out{o}
				}
			case "ske_sig_not_der":
				so.SigMangle = notStrictDER(t)
			case "ske_other_key":
				so.SKESignD = p.SrvSignBad.SM2D
				if rapid.Bool().Draw(t, "encKeySigns") {
					so.SKESignD = p.SrvEnc.SM2D // the other key of the same server: still not the certified signing key
				}
			case "ske_other_randoms":
				so.SKEInputOverride = func(cr, sr, enc []byte) []byte {
					x := append([]byte{}, sr...)
					x[5] ^= 1
					return rgmssl.SKEInput(cr, x, enc)
				}
			case "ske_other_enccert":
				so.SKEInputOverride = func(cr, sr, enc []byte) []byte { return rgmssl.SKEInput(cr, sr, p.SrvEncBad.DER) }
			case "ske_garbage":
				plan.Out = func(step string, o rgmssl.Out) []rgmssl.Out {
					if step == "ServerKeyExchange" {
						d := append([]byte{}, o.Data...)
						d[len(d)-3] ^= 0x40
						o.Data = d
						o.NoTranscript = false
					}
					return []rgmssl.Out{o}
				}
			case "finished_wrong":
				plan.Out = func(step string, o rgmssl.Out) []rgmssl.Out {
					if step == "Finished" {
						d := append([]byte{}, o.Data...)
						d[len(d)-1] ^= 1
						o.Data = d
					}
					return []rgmssl.Out{o}
				}
			}
			r = tlsx.RunAgainstScriptedServer(cc, so, plan, seed, []byte("victim secret"))
		default:
			victimIsClient = false
			sc := tlsx.GMServer(p, "s"+seed)
			sc.CipherSuites = []uint16{suite}
			sc.ClientCAs = p.RootsSM2
			sc.ClientAuth = rapid.SampledFrom([]gmtls.ClientAuthType{gmtls.RequireAndVerifyClientCert, gmtls.VerifyClientCertIfGiven, gmtls.RequireAnyClientCert}).Draw(t, "policy")
			co := rgmssl.ClientOpts{Suites: []uint16{suite}, Cert: p.Client.DER, CertD: p.Client.SM2D, Send: []byte("attacker data")}
			plan := &rgmssl.Plan{}
			switch attack {
			case "cv_omitted":
				co.OmitCertVerify = true
			case "cv_sig_not_der":
				co.SigMangle = notStrictDER(t)
			case "cv_other_key":
				co.CVSignD = p.ClientUntrusted.SM2D
			case "cv_chain_confusion":
				// the victim's genuine certificate first, then a certificate whose key the attacker owns; proof signed with the latter
				co.ExtraCerts = [][]byte{p.ClientUntrusted.DER}
				co.CVSignD = p.ClientUntrusted.SM2D
			case "cv_replayed":
				// a CertificateVerify that was valid in some other session: signature over another transcript
				plan.Out = func(step string, o rgmssl.Out) []rgmssl.Out {
					if step == "CertificateVerify" {
						old := oldCertVerify(p)
						return []rgmssl.Out{{RecType: rgmssl.RecHS, Data: old}}
					}
					return []rgmssl.Out{o}
				}
			}
			r = tlsx.RunAgainstScriptedClient(sc, co, plan, seed, []byte("victim secret"))
		}
		desc := fmt.Sprintf("attack=%s suite=%x skipVerify=%v victimIsClient=%v | victim: hs=%v io=%v recv=%q verifiedPeerCerts=%d | attacker: err=%v recv=%q log=%v",
			attack, suite, skip, victimIsClient, r.GM.HSErr, r.GM.IOErr, r.GM.Received, len(r.GM.State.PeerCertificates), r.PeerErr, r.Peer.AppIn, r.Peer.Log)
		if r.GM.Panic != nil {
			t.Fatalf("victim panicked: %s\n%s", r.GM.Panic, desc)
		}
		if r.PeerPanic != nil {
			t.Fatalf("harness: scripted peer panicked: %s", r.PeerPanic)
		}
		if attack == "baseline" || attack == "baseline_client" {
			if r.GM.HSErr != nil || r.PeerErr != nil || string(r.GM.Received) != "attacker data" {
				t.Fatalf("honest scripted peer failed (harness or interoperability problem)\n%s", desc)
			}
			R.Case(false, 0, append(cl, "attack:baseline")...)
			return
		}
		if r.GM.HSErr == nil && strings.HasSuffix(attack, "_sig_not_der") {
			t.Fatalf("the victim ACCEPTED a handshake signature that is a valid (r, s) in an encoding that is not the strict DER SEQUENCE of two INTEGERs (%s)\n%s", attack, desc)
		}
		if r.GM.HSErr == nil {
			t.Fatalf("the victim COMPLETED a handshake with a peer that did not prove possession of the certified signing key (%s)\n%s", attack, desc)
		}
		if len(r.GM.Received) != 0 || len(r.Peer.AppIn) != 0 {
			t.Fatalf("data exchanged with the attacker (%s)\n%s", attack, desc)
		}
		R.Case(true, hx.HashKey("scr", attack, suite, skip, seed), append(cl, "attack:"+attack)...)
		R.Sample(attack, map[string]interface{}{"suite": fmt.Sprintf("%x", suite), "victim_err": fmt.Sprint(r.GM.HSErr)})
	})
}

var oldCV []byte

// oldCertVerify returns a CertificateVerify message that the genuine client key produced in an earlier session.
func oldCertVerify(p *tlsx.PKI) []byte {
	if oldCV != nil {
		return oldCV
	}
	sc := tlsx.GMServer(p, "oldcv")
	sc.ClientAuth, sc.ClientCAs = gmtls.RequireAndVerifyClientCert, p.RootsSM2
	var captured []byte
	plan := &rgmssl.Plan{Out: func(step string, o rgmssl.Out) []rgmssl.Out {
		if step == "CertificateVerify" {
			captured = append([]byte{}, o.Data...)
		}
		return []rgmssl.Out{o}
	}}
	r := tlsx.RunAgainstScriptedClient(sc, rgmssl.ClientOpts{Cert: p.Client.DER, CertD: p.Client.SM2D}, plan, "oldcv", nil)
	if r.PeerErr != nil || captured == nil {
		panic(fmt.Sprintf("could not record an old CertificateVerify: %v", r.PeerErr))
	}
	oldCV = captured
	return captured
}

// ---- (b) man in the middle on the handshake

type hsMitm struct {
	kind    string
	offset  int // for "byte": absolute offset in this direction's handshake byte stream
	val     byte
	seenHS  int
	split   wire.RecordSplitter
	ccs     bool
	fired   bool
	replace map[byte][]byte // handshake type -> replacement message
	suites  func(ch []byte) []byte
}

func (m *hsMitm) filter(p []byte) [][]byte {
	var out [][]byte
	for _, rec := range m.split.Feed(p) {
		if m.ccs || rec[0] != 22 {
			if rec[0] == 20 {
				m.ccs = true
			}
			out = append(out, rec)
			continue
		}
		body := append([]byte(nil), rec[5:]...)
		if m.kind == "byte" && !m.fired && m.offset >= m.seenHS && m.offset < m.seenHS+len(body) {
			i := m.offset - m.seenHS
			nb := m.val
			if nb == body[i] {
				nb ^= 0x01
			}
			body[i] = nb
			m.fired = true
		}
		m.seenHS += len(body)
		if rep, ok := m.replace[body[0]]; ok && !m.fired {
			body = rep
			m.fired = true
		}
		if m.suites != nil && body[0] == 1 && !m.fired {
			if nb := m.suites(body); nb != nil {
				body = nb
				m.fired = true
			}
		}
		out = append(out, append([]byte{rec[0], rec[1], rec[2], byte(len(body) >> 8), byte(len(body))}, body...))
	}
	return out
}

type captured struct {
	ske, cke       []byte
	c2sLen, s2cLen int
}

var capCache = map[uint16]*captured{}

func capture(suite uint16) *captured {
	if c, ok := capCache[suite]; ok {
		return c
	}
	p := tlsx.GetPKI()
	cc, sc := tlsx.GMClient(p, "cap"), tlsx.GMServer(p, "caps")
	cc.CipherSuites, sc.CipherSuites = []uint16{suite}, []uint16{suite}
	r := tlsx.Run(cc, sc, tlsx.Script{NoData: true})
	c := &captured{}
	for _, dir := range []struct {
		s  []byte
		c2 bool
	}{{r.C2S, true}, {r.S2C, false}} {
		for _, rec := range wire.SplitRecords(dir.s) {
			if rec[0] == 20 {
				break
			}
			if rec[0] == 22 {
				if dir.c2 {
					c.c2sLen += len(rec) - 5
				} else {
					c.s2cLen += len(rec) - 5
				}
				switch rec[5] {
				case 12:
					c.ske = rec[5:]
				case 16:
					c.cke = rec[5:]
				}
			}
		}
	}
	if c.ske == nil || c.cke == nil {
		panic("capture failed")
	}
	capCache[suite] = c
	return c
}

func TestC08_MITM(t *testing.T) {
	p := tlsx.GetPKI()
	n := 0
	hx.Check(t, hx.N(500, 8000), func(t *rapid.T) {
		n++
		suite := rapid.SampledFrom(suites).Draw(t, "suite")
		kind := rapid.SampledFrom([]string{"mitm_byte", "mitm_byte", "mitm_byte", "mitm_suites", "mitm_ske_replay", "mitm_cke_replay", "mitm_cert_swap", "mitm_cert_attacker"}).Draw(t, "kind")
		capd := capture(suite)
		cc, sc := tlsx.GMClient(p, fmt.Sprint("mc", n)), tlsx.GMServer(p, fmt.Sprint("ms", n))
		cc.CipherSuites, sc.CipherSuites = []uint16{suite}, []uint16{suite}
		clientAuth := gen.OneIn(t, "clientauth", 3)
		if clientAuth {
			sc.ClientAuth, sc.ClientCAs = gmtls.RequireAndVerifyClientCert, p.RootsSM2
			cc.Certificates = []gmtls.Certificate{p.Client.TLS}
		}
		cc.InsecureSkipVerify = gen.OneIn(t, "skipverify", 4)
		m := &hsMitm{}
		c2s := false
		switch kind {
		case "mitm_byte":
			m.kind = "byte"
			c2s = rapid.Bool().Draw(t, "c2s")
			max := capd.s2cLen
			if c2s {
				max = capd.c2sLen
			}
			if clientAuth {
				max += 700
			}
			m.offset = rapid.IntRange(0, max-1).Draw(t, "offset")
			m.val = rapid.SampledFrom([]byte{0x00, 0x01, 0x7f, 0x80, 0xff, 0x41}).Draw(t, "val")
		case "mitm_suites":
			c2s = true
			cc.CipherSuites = []uint16{tlsx.GMECCSM4GCMSM3, tlsx.GMECCSM4CBCSM3}
			sc.CipherSuites = []uint16{tlsx.GMECCSM4GCMSM3, tlsx.GMECCSM4CBCSM3}
			m.suites = func(ch []byte) []byte {
				// downgrade: overwrite every offered suite with the CBC one
				i := bytes.Index(ch, []byte{0xe0, 0x53})
				if i < 0 {
					return nil
				}
				nb := append([]byte(nil), ch...)
				nb[i+1] = 0x13
				return nb
			}
		case "mitm_ske_replay":
			m.replace = map[byte][]byte{12: capd.ske}
		case "mitm_cke_replay":
			c2s = true
			m.replace = map[byte][]byte{16: capd.cke}
		case "mitm_cert_swap":
			m.replace = map[byte][]byte{11: certMsg(p.SrvEnc.DER, p.SrvSign.DER)}
		case "mitm_cert_attacker":
			m.replace = map[byte][]byte{11: certMsg(p.SrvSignBad.DER, p.SrvEncBad.DER)}
		}
		r := tlsx.Run(cc, sc, tlsx.Script{ClientSend: []byte("client secret"), ServerSend: []byte("server secret"), Setup: func(cw, sw *wire.Conn) {
			if c2s {
				cw.FilterOut(m.filter)
			} else {
				sw.FilterOut(m.filter)
			}
		}})
		desc := fmt.Sprintf("kind=%s suite=%x c2s=%v offset=%d val=%#x clientAuth=%v skipVerify=%v fired=%v\n %s", kind, suite, c2s, m.offset, m.val, clientAuth, cc.InsecureSkipVerify, m.fired, r.Describe())
		if r.Client.Panic != nil || r.Server.Panic != nil {
			t.Fatalf("endpoint panicked\n%s", desc)
		}
		both := r.Client.HSErr == nil && r.Server.HSErr == nil
		if !m.fired {
			if !both {
				t.Fatalf("nothing was modified, yet the handshake failed\n%s", desc)
			}
			R.Case(false, 0, "mitm_passthrough")
			return
		}
		if both {
			cs, ss := r.Client.State, r.Server.State
			t.Fatalf("a handshake message was modified in transit and BOTH ends completed (client suite %x, server suite %x; data c->s %q, s->c %q)\n%s", cs.CipherSuite, ss.CipherSuite, r.Server.Received, r.Client.Received, desc)
		}
		if len(r.Client.Received) != 0 || len(r.Server.Received) != 0 {
			t.Fatalf("application data delivered after a tampered handshake\n%s", desc)
		}
		cl := []string{"attack:" + kind, fmt.Sprintf("suite:%x", suite)}
		if cc.InsecureSkipVerify {
			cl = append(cl, "skipverify")
		}
		R.Case(true, hx.HashKey("mitm", kind, suite, c2s, m.offset, m.val, clientAuth), cl...)
		R.Sample(kind, map[string]interface{}{"c2s": c2s, "offset": m.offset, "client_err": fmt.Sprint(r.Client.HSErr), "server_err": fmt.Sprint(r.Server.HSErr)})
	})
}

func certMsg(certs ...[]byte) []byte {
	var list []byte
	for _, c := range certs {
		list = append(list, byte(len(c)>>16), byte(len(c)>>8), byte(len(c)))
		list = append(list, c...)
	}
	body := append([]byte{byte(len(list) >> 16), byte(len(list) >> 8), byte(len(list))}, list...)
	return append([]byte{11, byte(len(body) >> 16), byte(len(body) >> 8), byte(len(body))}, body...)
}

var _ = big.NewInt

// ---- the TLS-mode client (standard TLS path of the same package): requested names that are DNS names, IP literals and
// bracketed IPv6 literals against certificates with DNS and IP subject alternative names

func ipCert(p *tlsx.PKI, ips []net.IP, dns []string) gmtls.Certificate {
	parent, err := stdx509.ParseCertificate(p.RSARoot.DER)
	if err != nil {
		panic(err)
	}
	pub := p.RSASrv.Key.Public()
	tpl := &stdx509.Certificate{SerialNumber: big.NewInt(777001), Subject: pkix.Name{CommonName: "ip srv"}, NotBefore: tlsx.Now.Add(-time.Hour), NotAfter: tlsx.Now.Add(time.Hour),
		KeyUsage: stdx509.KeyUsageDigitalSignature | stdx509.KeyUsageKeyEncipherment, ExtKeyUsage: []stdx509.ExtKeyUsage{stdx509.ExtKeyUsageServerAuth}, IPAddresses: ips, DNSNames: dns}
	der, err := stdx509.CreateCertificate(rand.Reader, tpl, parent, pub, p.RSARoot.Key)
	if err != nil {
		panic(err)
	}
	return gmtls.Certificate{Certificate: [][]byte{der}, PrivateKey: p.RSASrv.Key}
}

func TestC08_TLSClientServerName(t *testing.T) {
	p := tlsx.GetPKI()
	withIP := ipCert(p, []net.IP{net.ParseIP("10.1.2.3"), net.ParseIP("::1")}, []string{"server.test"})
	dnsOnly := p.RSASrv.TLS // DNS name server.test only
	type tc struct {
		name string
		cert gmtls.Certificate
		ok   bool
	}
	cases := []tc{
		{"server.test", dnsOnly, true}, {"SERVER.test", dnsOnly, true}, {"other.test", dnsOnly, false},
		{"10.1.2.3", dnsOnly, false}, {"127.0.0.1", dnsOnly, false}, {"[::1]", dnsOnly, false}, {"::1", dnsOnly, false},
		{"10.1.2.3", withIP, true}, {"10.1.2.4", withIP, false}, {"[::1]", withIP, true}, {"::2", withIP, false}, {"server.test", withIP, true}, {"x.server.test", withIP, false},
	}
	n := 0
	for _, c := range cases {
		for _, vers := range []uint16{0x0301, 0x0303} {
			n++
			cc, sc := tlsx.TLSClient(p, fmt.Sprint("nc", n)), tlsx.TLSServer(p, p.RSASrv, fmt.Sprint("ns", n))
			sc.Certificates = []gmtls.Certificate{c.cert}
			cc.ServerName = c.name
			cc.MaxVersion = vers
			r := tlsx.Run(cc, sc, tlsx.Script{ClientSend: []byte("secret"), ServerSend: []byte("reply")})
			desc := fmt.Sprintf("TLS client ServerName=%q version<=%x, certificate %v: %s", c.name, vers, map[bool]string{true: "valid for that name", false: "NOT valid for that name"}[c.ok], r.Describe())
			if r.Client.Panic != nil || r.Server.Panic != nil {
				t.Fatalf("panic\n%s", desc)
			}
			if c.ok && (r.Client.HSErr != nil || r.Server.HSErr != nil) {
				t.Fatalf("honest server with a certificate valid for the requested name was refused\n%s", desc)
			}
			if !c.ok && r.Client.HSErr == nil {
				t.Fatalf("the client COMPLETED a handshake with a server whose certificate is not valid for the requested name\n%s", desc)
			}
			if !c.ok && len(r.Server.Received) > 0 {
				t.Fatalf("client data reached a server it must not accept\n%s", desc)
			}
			R.Case(true, hx.HashKey("name", c.name, vers, c.ok), "attack:tls_server_name", map[bool]string{true: "name_ok", false: "name_mismatch"}[c.ok])
		}
	}
}

// A session cached for one server name must not vouch for another: with a warm session cache the client connects to the
// same address (and to another one) asking for a name the server's certificates are NOT valid for. Resumption restores
// the peer identity from the cache without looking at certificates, so the cache must never hand out a session that
// was established under another name.
func TestC08_ResumptionUnderAnotherName(t *testing.T) {
	p := tlsx.GetPKI()
	n := 0
	for _, mode := range []string{"gm", "tls"} {
		for _, sameAddr := range []bool{true, false} {
			for _, second := range []string{"other.test", "SERVER.test", "server.test"} {
				n++
				id := fmt.Sprint("run", n)
				cache := gmtls.NewLRUClientSessionCache(4)
				mk := func(k int) (*gmtls.Config, *gmtls.Config) {
					var cc, sc *gmtls.Config
					if mode == "gm" {
						cc, sc = tlsx.GMClient(p, fmt.Sprint("c", id, k)), tlsx.GMServer(p, fmt.Sprint("s", id, k))
						sc.CipherSuites = []uint16{tlsx.GMECCSM4CBCSM3, tlsx.GMECCSM4GCMSM3}
					} else {
						cc, sc = tlsx.TLSClient(p, fmt.Sprint("c", id, k)), tlsx.TLSServer(p, p.RSASrv, fmt.Sprint("s", id, k))
						sc.CipherSuites = []uint16{0xc02f, 0xc014}
					}
					cc.ClientSessionCache = cache
					sc.SetSessionTicketKeys([][32]byte{{9, 9, byte(n)}})
					return cc, sc
				}
				cc, sc := mk(1)
				r1 := tlsx.Run(cc, sc, tlsx.Script{ClientSend: []byte("a"), ServerSend: []byte("b"), ServerAddr: "10.9.9.9:443"})
				if r1.Client.HSErr != nil || r1.Server.HSErr != nil {
					t.Fatalf("harness: first connection failed: %s", r1.Describe())
				}
				// control: the same name again resumes (the cache is warm and the server takes its ticket)
				cc, sc = mk(2)
				rc := tlsx.Run(cc, sc, tlsx.Script{ClientSend: []byte("a"), ServerSend: []byte("b"), ServerAddr: "10.9.9.9:443"})
				if rc.Client.HSErr != nil || !rc.Client.State.DidResume {
					t.Fatalf("harness: the control connection under the same name did not resume (%s): %s", mode, rc.Describe())
				}
				cc, sc = mk(3)
				cc.ServerName = second
				addr := "10.9.9.9:443"
				if !sameAddr {
					addr = "10.7.7.7:443"
				}
				r := tlsx.Run(cc, sc, tlsx.Script{ClientSend: []byte("secret"), ServerSend: []byte("reply"), ServerAddr: addr})
				desc := fmt.Sprintf("%s client with a warm session cache (session established as %q at 10.9.9.9:443) now asks %s for %q: %s", mode, tlsx.ServerName, addr, second, r.Describe())
				if r.Client.Panic != nil || r.Server.Panic != nil {
					t.Fatalf("panic\n%s", desc)
				}
				valid := second != "other.test"
				if valid && (r.Client.HSErr != nil || r.Server.HSErr != nil) {
					t.Fatalf("a name the certificate is valid for was refused\n%s", desc)
				}
				if !valid && r.Client.HSErr == nil {
					t.Fatalf("the client COMPLETED a handshake (resumed=%v) for a name the server holds no certificate for\n%s", r.Client.State.DidResume, desc)
				}
				if !valid && len(r.Server.Received) > 0 {
					t.Fatalf("client data reached a server it must not accept\n%s", desc)
				}
				R.Case(true, hx.HashKey("resname", mode, sameAddr, second), "attack:resumption_other_name", map[bool]string{true: "name_ok", false: "name_mismatch"}[valid])
			}
		}
	}
}

// A cached session is no licence to skip verification in a FULL handshake: the server no longer knows the ticket (new
// ticket keys, same certificates) and the client's clock has moved past the certificates' validity, or its trust anchors
// have been replaced - the full handshake that follows the declined resumption must fail like a first contact would.
func TestC08_DeclinedResumptionReverifies(t *testing.T) {
	p := tlsx.GetPKI()
	n := 0
	for _, mode := range []string{"gm", "tls"} {
		for _, change := range []string{"clock_past_expiry", "roots_replaced", "none"} {
			n++
			id := fmt.Sprint("drr", n)
			cache := gmtls.NewLRUClientSessionCache(4)
			mk := func(k int, ticketKey byte) (*gmtls.Config, *gmtls.Config) {
				var cc, sc *gmtls.Config
				if mode == "gm" {
					cc, sc = tlsx.GMClient(p, fmt.Sprint("c", id, k)), tlsx.GMServer(p, fmt.Sprint("s", id, k))
					sc.CipherSuites = []uint16{tlsx.GMECCSM4CBCSM3, tlsx.GMECCSM4GCMSM3}
				} else {
					cc, sc = tlsx.TLSClient(p, fmt.Sprint("c", id, k)), tlsx.TLSServer(p, p.RSASrv, fmt.Sprint("s", id, k))
					sc.CipherSuites = []uint16{0xc02f, 0xc014}
				}
				cc.ClientSessionCache = cache
				sc.SetSessionTicketKeys([][32]byte{{ticketKey, 1, byte(n)}})
				return cc, sc
			}
			cc, sc := mk(1, 1)
			if r := tlsx.Run(cc, sc, tlsx.Script{ClientSend: []byte("a"), ServerSend: []byte("b")}); r.Client.HSErr != nil || r.Server.HSErr != nil {
				t.Fatalf("harness: first connection failed: %s", r.Describe())
			}
			cc, sc = mk(2, 2) // a restarted server: other ticket keys, the same certificates
			switch change {
			case "clock_past_expiry":
				cc.Time = func() time.Time { return tlsx.Now.Add(5 * 365 * 24 * time.Hour) }
			case "roots_replaced":
				cc.RootCAs = gx.NewCertPool()
				cc.RootCAs.AddCert(p.SM2Root2.Cert)
			}
			r := tlsx.Run(cc, sc, tlsx.Script{ClientSend: []byte("secret"), ServerSend: []byte("reply")})
			desc := fmt.Sprintf("%s client with a cached session reconnects to a server that declines the ticket; change on the client side: %s: %s", mode, change, r.Describe())
			if r.Client.Panic != nil || r.Server.Panic != nil {
				t.Fatalf("panic\n%s", desc)
			}
			if r.Client.State.DidResume {
				t.Fatalf("harness: the session was resumed although the ticket keys differ\n%s", desc)
			}
			if change == "none" {
				if r.Client.HSErr != nil || r.Server.HSErr != nil {
					t.Fatalf("the silent fall-back to a full handshake failed (control)\n%s", desc)
				}
			} else {
				if r.Client.HSErr == nil {
					t.Fatalf("the client COMPLETED a full handshake with certificates it can no longer accept (%s)\n%s", change, desc)
				}
				if len(r.Server.Received) > 0 {
					t.Fatalf("client data reached a server it must not accept\n%s", desc)
				}
			}
			R.Case(true, hx.HashKey("drr", mode, change), "attack:declined_resumption_reverifies")
		}
	}
}

// A client session cache that is FULL: every new session evicts an old one. Two unrelated servers (each with its own
// ticket keys, so neither can open the other's tickets) hold certificates for different names - "server.test" (also reachable as "SERVER.test") and "other.test". The client
// connects under changing names, and the connection reaches the right server or - an attacker redirects it - the other
// one. Whatever the cache holds or has evicted, a handshake completes only when the server reached holds a certificate
// for the name asked for; a session kept for one name is never offered, let alone accepted, under another.
func TestC08_SessionCacheEviction(t *testing.T) {
	p := tlsx.GetPKI()
	run := 0
	hx.Check(t, hx.N(80, 800), func(t *rapid.T) {
		run++
		mode := rapid.SampledFrom([]string{"gm", "tls"}).Draw(t, "mode")
		capacity := rapid.IntRange(1, 2).Draw(t, "capacity")
		defaultKeys := gen.OneIn(t, "defaultTicketKeys", 2)
		cache := gmtls.NewLRUClientSessionCache(capacity)
		names := []string{"server.test", "other.test", "SERVER.test"}
		holder := []int{0, 1, 0}
		steps := rapid.IntRange(3, 7).Draw(t, "steps")
		var hist []string
		evictions, redirected := 0, 0
		seen := map[string]bool{}
		for k := 0; k < steps; k++ {
			ni := rapid.IntRange(0, 2).Draw(t, "name")
			reached := holder[ni]
			if gen.OneIn(t, "redirect", 3) {
				reached = 1 - reached
				redirected++
			}
			var cc, sc *gmtls.Config
			id := fmt.Sprint("evict", run, "-", k)
			if mode == "gm" {
				cc, sc = tlsx.GMClient(p, "c"+id), tlsx.GMServer(p, "s"+id)
				sc.CipherSuites = []uint16{tlsx.GMECCSM4CBCSM3, tlsx.GMECCSM4GCMSM3}
				if reached == 1 {
					sc.Certificates = []gmtls.Certificate{p.SrvSignWrongName.TLS, p.SrvEncOther.TLS}
				}
			} else {
				srv := p.RSASrv
				if reached == 1 {
					srv = p.RSASrvOther
				}
				cc, sc = tlsx.TLSClient(p, "c"+id), tlsx.TLSServer(p, srv, "s"+id)
				sc.CipherSuites = []uint16{0xc02f, 0xc014}
			}
			cc.ServerName = names[ni]
			cc.ClientSessionCache = cache
			if !defaultKeys {
				sc.SetSessionTicketKeys([][32]byte{{7, 7, byte(reached)}})
			} // else: no ticket key is configured; each server configuration draws its own from its randomness source
			r := tlsx.Run(cc, sc, tlsx.Script{ClientSend: []byte("secret"), ServerSend: []byte("reply"), ServerAddr: "10.9.9.9:443"})
			valid := reached == holder[ni]
			hist = append(hist, fmt.Sprintf("ask %q, reach the server holding %q -> client err=%v resumed=%v", names[ni], []string{"server.test", "other.test"}[reached], r.Client.HSErr, r.Client.HSErr == nil && r.Client.State.DidResume))
			desc := fmt.Sprintf("%s client, LRU session cache of capacity %d, history:\n  %s", mode, capacity, strings.Join(hist, "\n  "))
			if r.Client.Panic != nil || r.Server.Panic != nil {
				t.Fatalf("panic\n%s\n%s", desc, r.Describe())
			}
			if valid && (r.Client.HSErr != nil || r.Server.HSErr != nil) {
				t.Fatalf("a server holding a certificate for the requested name was refused\n%s\n%s", desc, r.Describe())
			}
			if !valid && r.Client.HSErr == nil {
				t.Fatalf("the client COMPLETED a handshake (resumed=%v) with a server that holds no certificate for the name it asked for\n%s", r.Client.State.DidResume, desc)
			}
			if !valid && len(r.Server.Received) > 0 {
				t.Fatalf("client data reached a server it must not accept\n%s", desc)
			}
			if valid && !seen[names[ni]] && len(seen) >= capacity {
				evictions++
			}
			if valid {
				seen[names[ni]] = true
			}
		}
		cl := []string{"attack:session_cache_eviction"}
		if evictions > 0 && redirected > 0 {
			cl = append(cl, "eviction_then_redirect")
		}
		if defaultKeys && redirected > 0 {
			cl = append(cl, "redirect_between_servers_with_default_ticket_keys")
		}
		R.Case(true, hx.HashKey("evict", strings.Join(hist, "|")), cl...)
	})
}

// Clients that enter through Dial / DialWithDialer over a real loopback socket: with Config.ServerName empty the name
// to verify is taken from the address, and the handshake runs under a copy of the caller's configuration. That copy must
// verify exactly like the original: the server's certificates (valid for 127.0.0.1) are accepted at the configured time
// under the configured roots, and refused when the configured time lies outside their validity or the roots are others.
// The wall clock of the machine plays no part: the configuration says what time it is.
func TestC08_DialEntryPoints(t *testing.T) {
	p := tlsx.GetPKI()
	for _, mode := range []string{"gm", "tls"} {
		var sc *gmtls.Config
		if mode == "gm" {
			sc = tlsx.GMServer(p, "dial-s")
			sc.Certificates = []gmtls.Certificate{p.LoopSign.TLS, p.LoopEnc.TLS}
		} else {
			sc = tlsx.TLSServer(p, p.LoopRSA, "dial-s")
		}
		ln, err := gmtls.Listen("tcp", "127.0.0.1:0", sc)
		if err != nil {
			t.Skipf("no loopback listener available: %v", err)
		}
		go func() {
			for {
				c, err := ln.Accept()
				if err != nil {
					return
				}
				go func() {
					defer c.Close()
					if c.(*gmtls.Conn).Handshake() == nil {
						c.Write([]byte("hello"))
					}
				}()
			}
		}()
		addr := ln.Addr().String()
		y := 365 * 24 * time.Hour
		n := 0
		for _, when := range []string{"now", "after_expiry", "before_validity"} {
			for _, roots := range []string{"right", "other"} {
				for _, entry := range []string{"Dial", "Dial+ServerName", "DialWithDialer", "Client(conn)"} {
					n++
					var cc *gmtls.Config
					if mode == "gm" {
						cc = tlsx.GMClient(p, fmt.Sprint("dial-c", n))
						if roots == "other" {
							cc.RootCAs = p.RootsStd
						}
					} else {
						cc = tlsx.TLSClient(p, fmt.Sprint("dial-c", n))
						if roots == "other" {
							cc.RootCAs = p.RootsSM2
						}
					}
					cc.ServerName = ""
					switch when {
					case "after_expiry":
						cc.Time = func() time.Time { return tlsx.Now.Add(2 * y) }
					case "before_validity":
						cc.Time = func() time.Time { return tlsx.Now.Add(-2 * y) }
					}
					var conn *gmtls.Conn
					var derr error
					pn, hung := hx.TryBounded(30*time.Second, func() {
						switch entry {
						case "Dial":
							conn, derr = gmtls.Dial("tcp", addr, cc)
						case "Dial+ServerName":
							cc.ServerName = "127.0.0.1"
							conn, derr = gmtls.Dial("tcp", addr, cc)
						case "DialWithDialer":
							conn, derr = gmtls.DialWithDialer(&net.Dialer{Timeout: 25 * time.Second}, "tcp", addr, cc)
						default:
							raw, err := net.Dial("tcp", addr)
							if err != nil {
								derr = err
								return
							}
							cc.ServerName = "127.0.0.1"
							conn = gmtls.Client(raw, cc)
							if derr = conn.Handshake(); derr != nil {
								raw.Close()
							}
						}
					})
					desc := fmt.Sprintf("%s client entering through %s, configured time %s, roots %s", mode, entry, when, roots)
					if hung {
						hx.Hang(R, "TestC08_DialEntryPoints", desc+": did not return within 30s")
					}
					if pn != nil {
						t.Fatalf("%s panicked: %v\n%s", desc, pn.Val, pn.Stack)
					}
					if derr == nil && conn != nil {
						conn.Close()
					}
					want := when == "now" && roots == "right"
					if want && derr != nil {
						t.Fatalf("%s: REFUSED a server whose certificates are valid at the configured time under the configured roots: %v", desc, derr)
					}
					if !want && derr == nil {
						t.Fatalf("%s: COMPLETED a handshake although the server's certificates are not valid for this configuration", desc)
					}
					R.Case(true, hx.HashKey("dial", mode, when, roots, entry), "attack:dial_entry_points", "dial:"+entry)
				}
			}
		}
		ln.Close()
	}
}

// The TLS-mode client builds chains through the certificates the server sends along. A chain whose issuing CA has
// expired at the configured time is no chain, however valid the server certificate itself is; the same shape of chain
// through a valid issuing CA is the control. (The GMSSL client does not use CA certificates sent by the server at all,
// so this route exists on the TLS side only; the GMSSL server's handling of client chains is in the attack catalogue
// above, client_expired_ca.)
func TestC08_TLSChainThroughExpiredCA(t *testing.T) {
	p := tlsx.GetPKI()
	n := 0
	for _, via := range []string{"valid_ca", "expired_ca"} {
		for _, skip := range []bool{false, true} {
			for _, suite := range []uint16{0xc02f, 0x009c, 0xc014} {
				n++
				srv := p.RSASrvViaInter
				if via == "expired_ca" {
					srv = p.RSASrvViaExpiredCA
				}
				cc, sc := tlsx.TLSClient(p, fmt.Sprint("tce-c", n)), tlsx.TLSServer(p, srv, fmt.Sprint("tce-s", n))
				cc.CipherSuites, sc.CipherSuites = []uint16{suite}, []uint16{suite}
				cc.InsecureSkipVerify = skip
				r := tlsx.Run(cc, sc, tlsx.Script{ClientSend: []byte("secret"), ServerSend: []byte("reply")})
				desc := fmt.Sprintf("TLS client (InsecureSkipVerify=%v), server certificate valid, issued by a CA that is %s, suite %04x: %s", skip, via, suite, r.Describe())
				if r.Client.Panic != nil || r.Server.Panic != nil {
					t.Fatalf("panic\n%s", desc)
				}
				want := via == "valid_ca" || skip
				if want && (r.Client.HSErr != nil || r.Server.HSErr != nil) {
					t.Fatalf("a valid chain through an issuing CA was refused\n%s", desc)
				}
				if !want && r.Client.HSErr == nil {
					t.Fatalf("the client COMPLETED a handshake with a server whose chain runs through a CA that has expired at the configured time\n%s", desc)
				}
				if !want && len(r.Server.Received) > 0 {
					t.Fatalf("client data reached a server it must not accept\n%s", desc)
				}
				R.Case(true, hx.HashKey("tce", via, skip, suite), "attack:tls_chain_expired_ca", "tls_chain:"+via)
			}
		}
	}
}
