// Package wire: in-memory transports for the TLS properties. No clocks in any verdict:
// a Duplex is an unbounded-buffer two-direction byte pipe implementing net.Conn whose
// hub detects quiescence (every live endpoint blocked in Read on an empty buffer) and then
// ends the streams, so "keeps waiting on input that has ended / never arrives" is a
// logical event, not a timeout.
package wire

import (
	"errors"
	"io"
	"net"
	"sync"
	"time"
)

// Hub tracks the endpoints of one case.
type Hub struct {
	mu      sync.Mutex
	cond    *sync.Cond
	live    int // endpoint goroutines still running
	Stalled bool
	pipes   []*half
	conns   []*Conn
}

func NewHub() *Hub {
	h := &Hub{}
	h.cond = sync.NewCond(&h.mu)
	return h
}

// GoAll registers all endpoint functions first and only then starts them, so that an endpoint
// which blocks immediately cannot look like "everybody is stuck" while its peer is not yet counted.
func (h *Hub) GoAll(fs ...func()) []chan struct{} {
	h.mu.Lock()
	h.live += len(fs)
	h.mu.Unlock()
	var out []chan struct{}
	for _, f := range fs {
		out = append(out, h.start(f))
	}
	return out
}

// Go runs f as an endpoint goroutine known to the hub (call it from a running endpoint, e.g. for a writer).
func (h *Hub) Go(f func()) (done chan struct{}) {
	h.mu.Lock()
	h.live++
	h.mu.Unlock()
	return h.start(f)
}

func (h *Hub) start(f func()) (done chan struct{}) {
	done = make(chan struct{})
	go func() {
		defer func() {
			h.mu.Lock()
			h.live--
			h.checkStallLocked()
			h.mu.Unlock()
			close(done)
		}()
		f()
	}()
	return done
}

func (h *Hub) checkStallLocked() {
	// blocked = readers waiting on an empty, still open stream (a reader that has been handed
	// data but has not woken up yet is not blocked)
	blocked := 0
	for _, c := range h.conns {
		if c.waiting && len(c.in.buf) == 0 && !c.in.eof && !c.closed {
			blocked++
		}
	}
	if h.live > 0 && blocked >= h.live {
		// nobody can make progress any more: end every stream
		h.Stalled = true
		for _, p := range h.pipes {
			p.eof = true
		}
		h.cond.Broadcast()
	}
}

// half is one direction of a duplex.
type half struct {
	hub     *Hub
	buf     []byte
	eof     bool         // writer closed (or stall): reader gets io.EOF after draining
	rclosed bool         // reader side closed
	tap     func([]byte) // observes every byte written (under the hub lock)
	postEOF int          // reads served after EOF (spin detector)
	filter  func([]byte) [][]byte
}

// Spin is the panic value raised when an endpoint keeps reading after its input ended.
type Spin struct{ Reads int }

const maxPostEOFReads = 10000

type Conn struct {
	hub        *Hub
	in, out    *half
	name       string
	local, rem net.Addr
	closed     bool
	waiting    bool
	failNext   bool // the next Write forwards only half of its data and returns an error (a transport failure)
	// WriteHook, if set, transforms/ replaces outgoing data (MITM). It may return several chunks.
}

type addr string

func (a addr) Network() string { return "mem" }
func (a addr) String() string  { return string(a) }

// Pipe returns two connected ends. clientAddr is what the server sees as RemoteAddr, serverAddr
// what the client sees (gmtls keys the client session cache by ServerName or this address).
func (h *Hub) Pipe(clientAddr, serverAddr string) (client, server *Conn) {
	c2s := &half{hub: h}
	s2c := &half{hub: h}
	h.mu.Lock()
	h.pipes = append(h.pipes, c2s, s2c)
	client = &Conn{hub: h, in: s2c, out: c2s, name: "client", local: addr(clientAddr), rem: addr(serverAddr)}
	server = &Conn{hub: h, in: c2s, out: s2c, name: "server", local: addr(serverAddr), rem: addr(clientAddr)}
	h.conns = append(h.conns, client, server)
	h.mu.Unlock()
	return
}

// TapOut registers an observer for everything this end writes.
func (c *Conn) TapOut(f func([]byte)) { c.hub.mu.Lock(); c.out.tap = f; c.hub.mu.Unlock() }

// FilterOut installs a transformer for everything this end writes: it receives each Write's bytes
// and returns the chunks to deliver instead (possibly none). Runs under the hub lock.
func (c *Conn) FilterOut(f func([]byte) [][]byte) {
	c.hub.mu.Lock()
	c.out.filter = f
	c.hub.mu.Unlock()
}

func (c *Conn) Read(p []byte) (int, error) {
	h := c.hub
	h.mu.Lock()
	defer h.mu.Unlock()
	if len(p) == 0 {
		return 0, nil
	}
	for len(c.in.buf) == 0 {
		if c.closed || c.in.rclosed {
			return 0, io.ErrClosedPipe
		}
		if c.in.eof {
			c.in.postEOF++
			if c.in.postEOF > maxPostEOFReads {
				panic(Spin{c.in.postEOF})
			}
			return 0, io.EOF
		}
		c.waiting = true
		h.checkStallLocked()
		if !c.in.eof {
			h.cond.Wait()
		}
		c.waiting = false
	}
	n := copy(p, c.in.buf)
	c.in.buf = c.in.buf[n:]
	return n, nil
}

func (c *Conn) Write(p []byte) (int, error) {
	h := c.hub
	h.mu.Lock()
	defer h.mu.Unlock()
	if c.closed {
		return 0, io.ErrClosedPipe
	}
	if c.out.eof || c.out.rclosed {
		// peer gone: like a TCP reset
		return 0, errors.New("wire: write on closed connection")
	}
	if c.failNext {
		c.failNext = false
		half := p[:len(p)/2]
		if c.out.tap != nil {
			c.out.tap(half)
		}
		c.out.buf = append(c.out.buf, half...)
		h.cond.Broadcast()
		return len(half), errTransport{}
	}
	// the tap observes what the endpoint wrote (before any man-in-the-middle filter)
	if c.out.tap != nil {
		c.out.tap(p)
	}
	chunks := [][]byte{p}
	if c.out.filter != nil {
		chunks = c.out.filter(append([]byte(nil), p...))
	}
	for _, ch := range chunks {
		c.out.buf = append(c.out.buf, ch...)
	}
	h.cond.Broadcast()
	return len(p), nil
}

// FailNextWrite makes the next Write of this end deliver half of its bytes and return a (temporary-looking) error.
func (c *Conn) FailNextWrite() { c.hub.mu.Lock(); c.failNext = true; c.hub.mu.Unlock() }

type errTransport struct{}

func (errTransport) Error() string   { return "wire: injected transport write failure" }
func (errTransport) Timeout() bool   { return true }
func (errTransport) Temporary() bool { return true }

// Inject appends raw bytes to what the peer of c will read (bypassing filter and tap).
func (c *Conn) Inject(p []byte) {
	c.hub.mu.Lock()
	c.out.buf = append(c.out.buf, p...)
	c.hub.cond.Broadcast()
	c.hub.mu.Unlock()
}

// CloseWrite ends the outgoing stream (peer reads EOF after draining).
func (c *Conn) CloseWrite() {
	c.hub.mu.Lock()
	c.out.eof = true
	c.hub.cond.Broadcast()
	c.hub.mu.Unlock()
}

func (c *Conn) Close() error {
	h := c.hub
	h.mu.Lock()
	defer h.mu.Unlock()
	if c.closed {
		return nil
	}
	c.closed = true
	c.out.eof = true
	c.in.rclosed = true
	h.cond.Broadcast()
	return nil
}

func (c *Conn) LocalAddr() net.Addr                { return c.local }
func (c *Conn) RemoteAddr() net.Addr               { return c.rem }
func (c *Conn) SetDeadline(t time.Time) error      { return nil }
func (c *Conn) SetReadDeadline(t time.Time) error  { return nil }
func (c *Conn) SetWriteDeadline(t time.Time) error { return nil }

// ---------------------------------------------------------------- TLS record splitting

// RecordSplitter reassembles a byte stream into TLS records (5-byte header + length).
type RecordSplitter struct {
	buf []byte
}

// Feed adds bytes and returns the complete records now available.
func (r *RecordSplitter) Feed(p []byte) (recs [][]byte) {
	r.buf = append(r.buf, p...)
	for len(r.buf) >= 5 {
		n := int(r.buf[3])<<8 | int(r.buf[4])
		if len(r.buf) < 5+n {
			break
		}
		recs = append(recs, append([]byte(nil), r.buf[:5+n]...))
		r.buf = r.buf[5+n:]
	}
	return
}

// Rest returns the bytes that do not yet form a record.
func (r *RecordSplitter) Rest() []byte { return r.buf }

// SplitRecords splits a captured stream into records (ignoring a trailing partial record).
func SplitRecords(stream []byte) [][]byte {
	var r RecordSplitter
	return r.Feed(stream)
}
