package gen

import (
	"pgregory.net/rapid"

	"verifharness/ref/rder"
)

// Perturbation of a valid encoding (DESIGN §3.4). Kind names are the evidence classes.
type Perturbed struct {
	Data []byte
	Kind string
	Note string
}

var substAlphabet = func(b byte) []byte { return []byte{0x00, 0x01, 0x7f, 0x80, 0xff, b ^ 1, b ^ 0x80} }

var universalTags = []byte{0x02, 0x03, 0x04, 0x05, 0x06, 0x0c, 0x13, 0x16, 0x17, 0x18, 0x30, 0x31, 0xa0, 0xa1, 0x80}

// Perturb draws one perturbation of valid. asn1 says whether TLV-aware rewrites make sense.
func Perturb(valid []byte, asn1 bool) *rapid.Generator[Perturbed] {
	return rapid.Custom(func(t *rapid.T) Perturbed {
		kinds := []string{"truncation", "byte_subst", "byte_subst", "empty", "random", "extend", "dup_prefix", "vec_len"}
		if !asn1 {
			kinds = append(kinds, "vec_len", "vec_len")
		}
		if asn1 {
			kinds = append(kinds, "len_rewrite", "len_rewrite", "tag_swap", "tag_swap")
		}
		kind := rapid.SampledFrom(kinds).Draw(t, "pkind")
		out := append([]byte(nil), valid...)
		switch kind {
		case "truncation":
			if len(out) == 0 {
				return Perturbed{out, "empty", ""}
			}
			out = out[:rapid.IntRange(0, len(out)-1).Draw(t, "cut")]
		case "byte_subst":
			if len(out) == 0 {
				return Perturbed{out, "empty", ""}
			}
			n := 1
			if OneIn(t, "multi", 4) {
				n = rapid.IntRange(2, 4).Draw(t, "nsubst")
			}
			for i := 0; i < n; i++ {
				pos := rapid.IntRange(0, len(out)-1).Draw(t, "pos")
				out[pos] = rapid.SampledFrom(substAlphabet(out[pos])).Draw(t, "val")
			}
		case "vec_len":
			// length-prefixed vectors (TLS messages, PKCS#12 BMP strings, raw ciphertexts): 1..3 bytes at some
			// position are overwritten with a value chosen relative to what follows them
			if len(out) < 2 {
				return Perturbed{out, "empty", ""}
			}
			w := rapid.IntRange(1, 3).Draw(t, "width")
			if w > len(out) {
				w = len(out)
			}
			pos := rapid.IntRange(0, len(out)-w).Draw(t, "vpos")
			rem := len(out) - pos - w
			cur := 0
			for i := 0; i < w; i++ {
				cur = cur<<8 | int(out[pos+i])
			}
			v := []int{rem + 1, rem + 2, rem - 1, 2 * rem, 2*rem - 2, rem + rem/2, rem / 2, cur + 1, cur + 2, cur - 1, 2 * cur, 0, 1<<(8*uint(w)) - 1}[Uniform(t, "vval", 13)]
			if v < 0 {
				v = 0
			}
			for i := w - 1; i >= 0; i-- {
				out[pos+i] = byte(v)
				v >>= 8
			}
			return Perturbed{out, "vec_len", ""}
		case "empty":
			out = nil
		case "random":
			out = rapid.SliceOfN(rapid.Byte(), 0, 64).Draw(t, "rand")
		case "extend":
			out = append(out, rapid.SliceOfN(rapid.Byte(), 1, 16).Draw(t, "tail")...)
		case "dup_prefix":
			k := rapid.IntRange(0, len(out)).Draw(t, "k")
			out = append(append([]byte(nil), out[:k]...), out...)
		case "len_rewrite", "tag_swap":
			tlvs := rder.Walk(out)
			if len(tlvs) == 0 {
				return Perturbed{out[:len(out)/2], "truncation", ""}
			}
			tl := tlvs[rapid.IntRange(0, len(tlvs)-1).Draw(t, "tlv")]
			if kind == "tag_swap" {
				out[tl.Start] = rapid.SampledFrom(universalTags).Draw(t, "newtag")
				break
			}
			how := rapid.SampledFrom([]string{"0", "len-1", "len+1", "0x80", "huge", "long0"}).Draw(t, "how")
			hdrEnd := tl.Start + tl.HdrLen
			var newLen []byte
			switch how {
			case "0":
				newLen = []byte{0}
			case "len-1":
				newLen = rder.EncLen(0, max0(tl.Len-1))[1:]
			case "len+1":
				newLen = rder.EncLen(0, tl.Len+1)[1:]
			case "0x80":
				newLen = []byte{0x80}
			case "huge":
				newLen = rapid.SampledFrom(HugeLens).Draw(t, "hugelen")
			case "long0":
				newLen = []byte{0x82, 0x00, byte(tl.Len)}
			}
			out = append(append(append([]byte(nil), out[:tl.Start+1]...), newLen...), out[hdrEnd:]...)
			return Perturbed{out, "len_rewrite", how}
		}
		return Perturbed{out, kind, ""}
	})
}

// HugeLens: long-form DER/BER lengths at the edges of 32- and 64-bit arithmetic (offset + length must not wrap).
var HugeLens = [][]byte{
	{0x84, 0xff, 0xff, 0xff, 0xff},
	{0x84, 0x7f, 0xff, 0xff, 0xff},
	{0x84, 0x80, 0x00, 0x00, 0x00},
	{0x85, 0x01, 0x00, 0x00, 0x00, 0x00},
	{0x87, 0xff, 0xff, 0xff, 0xff, 0xff, 0xff, 0xff},
	{0x88, 0x7f, 0xff, 0xff, 0xff, 0xff, 0xff, 0xff, 0xff},
	{0x88, 0x7f, 0xff, 0xff, 0xff, 0xff, 0xff, 0xff, 0x00},
	{0x88, 0x80, 0x00, 0x00, 0x00, 0x00, 0x00, 0x00, 0x00},
	{0x88, 0xff, 0xff, 0xff, 0xff, 0xff, 0xff, 0xff, 0xff},
	{0x89, 0x01, 0x00, 0x00, 0x00, 0x00, 0x00, 0x00, 0x00, 0x00},
}

func max0(n int) int {
	if n < 0 {
		return 0
	}
	return n
}

// DeepBER builds a constructed encoding nested depth levels deep (definite or indefinite lengths).
func DeepBER(depth int, indefinite bool) []byte {
	if indefinite {
		out := make([]byte, 0, depth*4+2)
		for i := 0; i < depth; i++ {
			out = append(out, 0x30, 0x80)
		}
		out = append(out, 0x05, 0x00)
		for i := 0; i < depth; i++ {
			out = append(out, 0x00, 0x00)
		}
		return out
	}
	inner := []byte{0x05, 0x00}
	for i := 0; i < depth; i++ {
		inner = append(rder.EncLen(0x30, len(inner)), inner...)
	}
	return inner
}
