package gen

import (
	"sort"

	"verifharness/ref/rder"
)

// Length-consistent DER mutations: the content of one TLV is replaced and the lengths of all enclosing TLVs (including
// OCTET/BIT STRING wrappers around nested DER) are re-encoded, so the result is well-formed DER carrying an unusual
// VALUE (over-long zero-padded integers, empty sets, duplicated or dropped members) instead of a broken length.

type DERMutation struct {
	Data []byte
	Note string
}

func derReplace(b []byte, tlvs []rder.TLV, idx int, tag byte, content []byte) []byte {
	t := tlvs[idx]
	tS, tE := t.Start, t.Start+t.HdrLen+t.Len
	var anc []rder.TLV
	for i, a := range tlvs {
		if i == idx {
			continue
		}
		aE := a.Start + a.HdrLen + a.Len
		if a.Start <= tS && aE >= tE && !(a.Start == tS && aE == tE) {
			anc = append(anc, a)
		}
	}
	sort.Slice(anc, func(i, j int) bool { return anc[i].Start > anc[j].Start }) // innermost first
	cur := append(rder.EncLen(tag, len(content)), content...)
	cS, cE := tS, tE
	for _, a := range anc {
		aCS, aE := a.Start+a.HdrLen, a.Start+a.HdrLen+a.Len
		if cS < aCS || cE > aE {
			continue
		}
		body := append(append(append([]byte(nil), b[aCS:cS]...), cur...), b[cE:aE]...)
		cur = append(rder.EncLen(a.Tag, len(body)), body...)
		cS, cE = a.Start, aE
	}
	return append(append(append([]byte(nil), b[:cS]...), cur...), b[cE:]...)
}

// DERReplaceWhere re-encodes valid with the first TLV that pick accepts replaced by (tag, content(old content)), all
// enclosing lengths adjusted (OCTET/BIT STRING wrappers around nested DER included). ok=false: no TLV matched.
func DERReplaceWhere(valid []byte, pick func(t rder.TLV, content []byte) bool, tag byte, content func(old []byte) []byte) (out []byte, ok bool) {
	tlvs := rder.Walk(valid)
	for i, t := range tlvs {
		c := valid[t.Start+t.HdrLen : t.Start+t.HdrLen+t.Len]
		if pick(t, c) {
			return derReplace(valid, tlvs, i, tag, content(c)), true
		}
	}
	return nil, false
}

// DERConsistent enumerates the mutations of every TLV of valid (at most maxTLV of them).
func DERConsistent(valid []byte, maxTLV int) []DERMutation {
	tlvs := rder.Walk(valid)
	var out []DERMutation
	add := func(i int, tag byte, c []byte, note string) {
		out = append(out, DERMutation{derReplace(valid, tlvs, i, tag, c), note})
	}
	for i, t := range tlvs {
		if i >= maxTLV {
			break
		}
		c := valid[t.Start+t.HdrLen : t.Start+t.HdrLen+t.Len]
		switch {
		case t.Tag == 0x02: // INTEGER
			add(i, t.Tag, nil, "integer empty")
			add(i, t.Tag, append([]byte{0}, c...), "integer +1 zero")
			add(i, t.Tag, append([]byte{0, 0}, c...), "integer +2 zeros")
			add(i, t.Tag, append([]byte{0, 0, 0, 0}, c...), "integer +4 zeros")
			add(i, t.Tag, append([]byte{0xff}, c...), "integer negative")
			add(i, t.Tag, append(append([]byte(nil), c...), 0x01), "integer x256+1")
			add(i, t.Tag, []byte{0}, "integer zero")
		case t.Tag == 0x04: // OCTET STRING
			add(i, t.Tag, nil, "octets empty")
			add(i, t.Tag, append([]byte{0}, c...), "octets +1 zero")
			add(i, t.Tag, append([]byte{0, 0}, c...), "octets +2 zeros")
			add(i, t.Tag, append([]byte{0, 0, 0}, c...), "octets +3 zeros")
			add(i, t.Tag, append(append([]byte(nil), c...), c...), "octets doubled")
			if len(c) > 1 {
				add(i, t.Tag, c[:len(c)-1], "octets -1")
				add(i, t.Tag, c[1:], "octets without first byte")
			}
		case t.Tag == 0x03: // BIT STRING
			add(i, t.Tag, nil, "bits empty")
			add(i, t.Tag, []byte{0}, "bits: the valid encoding of the empty bit string")
			add(i, t.Tag, []byte{0, 0}, "bits: one zero octet")
			if len(c) > 0 {
				add(i, t.Tag, append([]byte{7}, c[1:]...), "bits unused=7")
				add(i, t.Tag, c[:1], "bits only the unused-bits octet")
			}
		case t.Tag == 0x06: // OID
			add(i, t.Tag, nil, "oid empty")
			add(i, t.Tag, append(append([]byte(nil), c...), 0x01), "oid extended")
			if len(c) > 1 {
				add(i, t.Tag, c[:len(c)-1], "oid shortened")
			}
		case t.Tag == 0x01:
			add(i, t.Tag, []byte{0x01}, "boolean non-canonical true")
			add(i, t.Tag, nil, "boolean empty")
		case t.Tag == 0x17 || t.Tag == 0x18 || t.Tag == 0x0c || t.Tag == 0x13 || t.Tag == 0x16 || t.Tag == 0x1e:
			add(i, t.Tag, nil, "string/time empty")
			if len(c) > 0 {
				add(i, t.Tag, c[:len(c)-1], "string/time -1")
				add(i, t.Tag, append(append([]byte(nil), c...), 'Z'), "string/time +Z")
			}
		case t.Tag&0x20 != 0: // constructed
			add(i, t.Tag, nil, "constructed empty")
			add(i, t.Tag, append(append([]byte(nil), c...), c...), "constructed members doubled")
			kids := rder.Walk(c)
			if len(kids) > 0 {
				k0 := kids[0]
				first := c[:k0.HdrLen+k0.Len]
				if len(first) <= len(c) {
					add(i, t.Tag, c[len(first):], "constructed without first member")
					add(i, t.Tag, first, "constructed first member only")
					add(i, t.Tag, append(append([]byte(nil), c...), 0x05, 0x00), "constructed + NULL")
				}
			}
		}
	}
	return out
}

// BERMixed re-encodes DER as BER in which the constructed values chosen by indefinite(k) (k = running number of the
// constructed value, in document order) use the indefinite-length form (tag, 0x80, contents, 00 00) while all others keep
// definite lengths, recomputed for their new contents. Primitive values are copied as they are (an OCTET STRING that wraps
// DER stays DER: it is a separate encoding).
func BERMixed(der []byte, indefinite func(k int) bool) (out []byte, nIndef int) {
	k := 0
	var enc func(b []byte) []byte
	enc = func(b []byte) []byte {
		var res []byte
		for off := 0; off < len(b); {
			t, err := rder.ReadStrict(b, off)
			if err != nil {
				return append(res, b[off:]...) // not DER below this point: keep verbatim
			}
			body := b[off+t.HdrLen : off+t.HdrLen+t.Len]
			if t.Tag&0x20 == 0 {
				res = append(res, b[off:off+t.HdrLen+t.Len]...)
			} else {
				mine := k
				k++
				inner := enc(body)
				if indefinite(mine) {
					nIndef++
					res = append(res, t.Tag, 0x80)
					res = append(res, inner...)
					res = append(res, 0, 0)
				} else {
					res = append(res, rder.EncLen(t.Tag, len(inner))...)
					res = append(res, inner...)
				}
			}
			off += t.HdrLen + t.Len
		}
		return res
	}
	return enc(der), nIndef
}
