// Package gen holds rapid generators shared by the property packages.
package gen

import (
	"math/big"

	"pgregory.net/rapid"
)

// LenAround draws lengths dense at k*m-1, k*m, k*m+1, plus 0,1 and uniform up to max.
func LenAround(m, max int) *rapid.Generator[int] {
	return rapid.Custom(func(t *rapid.T) int {
		switch rapid.IntRange(0, 9).Draw(t, "lenkind") {
		case 0:
			return rapid.SampledFrom([]int{0, 1, 2}).Draw(t, "tiny")
		case 1, 2, 3, 4:
			k := rapid.IntRange(0, max/m).Draw(t, "k")
			d := rapid.IntRange(-1, 1).Draw(t, "d")
			n := k*m + d
			if n < 0 {
				n = 0
			}
			if n > max {
				n = max
			}
			return n
		case 5, 6:
			lim := 4 * m
			if lim > max {
				lim = max
			}
			return rapid.IntRange(0, lim).Draw(t, "small")
		default:
			return rapid.IntRange(0, max).Draw(t, "any")
		}
	})
}

// BytesN draws n bytes: uniform, all-zero, all-0xff, or repeating pattern.
func BytesN(n int) *rapid.Generator[[]byte] {
	return rapid.Custom(func(t *rapid.T) []byte {
		kind := rapid.IntRange(0, 9).Draw(t, "bkind")
		b := make([]byte, n)
		switch kind {
		case 0:
		case 1:
			for i := range b {
				b[i] = 0xff
			}
		case 2:
			v := rapid.Byte().Draw(t, "fill")
			for i := range b {
				b[i] = v
			}
		default:
			// uniform content from a drawn 64-bit seed expanded by splitmix: keeps the
			// rapid bitstream short for big buffers while staying a pure function of draws.
			if n <= 64 {
				return rapid.SliceOfN(rapid.Byte(), n, n).Draw(t, "bytes")
			}
			s := rapid.Uint64().Draw(t, "bseed")
			Fill(b, s)
		}
		return b
	})
}

// Fill expands seed into b with splitmix64 (deterministic).
func Fill(b []byte, seed uint64) {
	x := seed
	for i := 0; i < len(b); i += 8 {
		x += 0x9e3779b97f4a7c15
		z := x
		z = (z ^ (z >> 30)) * 0xbf58476d1ce4e5b9
		z = (z ^ (z >> 27)) * 0x94d049bb133111eb
		z ^= z >> 31
		for j := 0; j < 8 && i+j < len(b); j++ {
			b[i+j] = byte(z >> (8 * uint(j)))
		}
	}
}

// Bytes draws a byte string whose length comes from lenGen.
func Bytes(lenGen *rapid.Generator[int]) *rapid.Generator[[]byte] {
	return rapid.Custom(func(t *rapid.T) []byte {
		n := lenGen.Draw(t, "len")
		return BytesN(n).Draw(t, "content")
	})
}

// Chunks partitions n into pieces (possibly empty ones), at most maxPieces.
func Chunks(n, maxPieces int) *rapid.Generator[[]int] {
	return rapid.Custom(func(t *rapid.T) []int {
		k := rapid.IntRange(1, maxPieces).Draw(t, "pieces")
		cuts := make([]int, 0, k+1)
		for i := 0; i < k-1; i++ {
			cuts = append(cuts, rapid.IntRange(0, n).Draw(t, "cut"))
		}
		// sort
		for i := 1; i < len(cuts); i++ {
			for j := i; j > 0 && cuts[j] < cuts[j-1]; j-- {
				cuts[j], cuts[j-1] = cuts[j-1], cuts[j]
			}
		}
		out := make([]int, 0, k)
		prev := 0
		for _, c := range cuts {
			out = append(out, c-prev)
			prev = c
		}
		out = append(out, n-prev)
		return out
	})
}

// WithCap returns a copy of b with the given spare capacity filled with canary bytes.
func WithCap(b []byte, spare int, canary byte) []byte {
	buf := make([]byte, len(b)+spare)
	copy(buf, b)
	for i := len(b); i < len(buf); i++ {
		buf[i] = canary
	}
	return buf[:len(b)]
}

// SpareIntact checks the canary bytes behind b.
func SpareIntact(b []byte, canary byte) bool {
	full := b[:cap(b)]
	for i := len(b); i < len(full); i++ {
		if full[i] != canary {
			return false
		}
	}
	return true
}

var (
	N, _ = new(big.Int).SetString("FFFFFFFEFFFFFFFFFFFFFFFFFFFFFFFF7203DF6B21C6052B53BBF40939D54123", 16)
	P, _ = new(big.Int).SetString("FFFFFFFEFFFFFFFFFFFFFFFFFFFFFFFFFFFFFFFF00000000FFFFFFFFFFFFFFFF", 16)
)

// BigBelow draws an integer in [0, max) uniformly-ish (rejection-free: mod).
func BigBelow(max *big.Int) *rapid.Generator[*big.Int] {
	return rapid.Custom(func(t *rapid.T) *big.Int {
		b := rapid.SliceOfN(rapid.Byte(), 40, 40).Draw(t, "big")
		v := new(big.Int).SetBytes(b)
		return v.Mod(v, max)
	})
}

// Uniform draws an (almost exactly) uniform integer in [0,n) from fair coin flips. rapid's integer
// generators are deliberately biased toward small values and range ends (IntRange(0,24) yields 0 about
// 11% of the time), which makes "rare" events far too frequent; Bool() is a fair coin.
func Uniform(t *rapid.T, label string, n int) int {
	if n <= 1 {
		return 0
	}
	v := 0
	for bits := 0; (1 << uint(bits)) < n*16; bits++ {
		v <<= 1
		if rapid.Bool().Draw(t, label) {
			v |= 1
		}
	}
	return v % n
}

// OneIn is true with probability about 1/n (and shrinks to false).
func OneIn(t *rapid.T, label string, n int) bool { return Uniform(t, label, n) == n-1 }
