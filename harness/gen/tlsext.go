package gen

// Structure-aware, length-consistent mutations of the extension block of a TLS ClientHello / ServerHello handshake
// message (4-byte handshake header included). Unlike byte or length-field perturbations these keep every enclosing
// length correct, so the parser reaches the per-extension code with bodies that are empty, cut short, duplicated or
// in another position.

type HelloMutation struct {
	Data []byte
	Note string
}

type helloExt struct {
	typ  uint16
	body []byte
}

// splitHello returns the bytes before the extension block and the extensions; ok=false if msg is not a well-formed hello.
func splitHello(msg []byte) (prefix []byte, exts []helloExt, ok bool) {
	if len(msg) < 4+2+32+1 || (msg[0] != 1 && msg[0] != 2) {
		return nil, nil, false
	}
	n := int(msg[1])<<16 | int(msg[2])<<8 | int(msg[3])
	if n != len(msg)-4 {
		return nil, nil, false
	}
	p := 4 + 2 + 32
	if p >= len(msg) {
		return nil, nil, false
	}
	p += 1 + int(msg[p]) // session id
	if msg[0] == 1 {
		if p+2 > len(msg) {
			return nil, nil, false
		}
		p += 2 + (int(msg[p])<<8 | int(msg[p+1])) // cipher suites
		if p+1 > len(msg) {
			return nil, nil, false
		}
		p += 1 + int(msg[p]) // compression methods
	} else {
		p += 3 // suite + compression
	}
	if p > len(msg) {
		return nil, nil, false
	}
	prefix = append([]byte(nil), msg[:p]...)
	if p == len(msg) {
		return prefix, nil, true
	}
	if p+2 > len(msg) {
		return nil, nil, false
	}
	el := int(msg[p])<<8 | int(msg[p+1])
	rest := msg[p+2:]
	if el != len(rest) {
		return nil, nil, false
	}
	for len(rest) > 0 {
		if len(rest) < 4 {
			return nil, nil, false
		}
		l := int(rest[2])<<8 | int(rest[3])
		if len(rest) < 4+l {
			return nil, nil, false
		}
		exts = append(exts, helloExt{uint16(rest[0])<<8 | uint16(rest[1]), append([]byte(nil), rest[4:4+l]...)})
		rest = rest[4+l:]
	}
	return prefix, exts, true
}

func joinHello(prefix []byte, exts []helloExt, withBlock bool) []byte {
	var block []byte
	for _, e := range exts {
		block = append(block, byte(e.typ>>8), byte(e.typ), byte(len(e.body)>>8), byte(len(e.body)))
		block = append(block, e.body...)
	}
	out := append([]byte(nil), prefix...)
	if withBlock {
		out = append(out, byte(len(block)>>8), byte(len(block)))
		out = append(out, block...)
	}
	n := len(out) - 4
	out[1], out[2], out[3] = byte(n>>16), byte(n>>8), byte(n)
	return out
}

// HelloExtMutations enumerates the mutations. all=false keeps body lengths {0,1,2,len-1}; all=true every length.
func HelloExtMutations(msg []byte, all bool) []HelloMutation {
	prefix, exts, ok := splitHello(msg)
	if !ok {
		return nil
	}
	var out []HelloMutation
	add := func(e []helloExt, block bool, note string) {
		out = append(out, HelloMutation{joinHello(prefix, e, block), note})
	}
	add(nil, false, "no extension block")
	add(nil, true, "empty extension block")
	for i, e := range exts {
		var lens []int
		if all {
			for k := 0; k < len(e.body); k++ {
				lens = append(lens, k)
			}
		} else {
			for _, k := range []int{0, 1, 2, len(e.body) - 1} {
				if k >= 0 && k < len(e.body) {
					lens = append(lens, k)
				}
			}
		}
		without := append(append([]helloExt(nil), exts[:i]...), exts[i+1:]...)
		for _, k := range lens {
			cut := helloExt{e.typ, e.body[:k]}
			inPlace := append([]helloExt(nil), exts...)
			inPlace[i] = cut
			add(inPlace, true, "body cut in place")
			add(append(append([]helloExt(nil), without...), cut), true, "body cut, moved last")
			add([]helloExt{cut}, true, "body cut, only extension")
		}
		add(without, true, "dropped")
		add(append(append([]helloExt(nil), exts...), e), true, "duplicated at the end")
		add(append([]helloExt{e}, without...), true, "moved first")
		// body extended by one zero byte
		add(append(append([]helloExt(nil), without...), helloExt{e.typ, append(append([]byte(nil), e.body...), 0)}), true, "body extended, moved last")
	}
	// code-point lists (signature_algorithms, supported_groups, ec_point_formats): the first entry replaced by
	// each value of a catalogue of registered, GM-specific, reserved and unassigned code points, and the list
	// reduced to that single entry
	for i, e := range exts {
		var width int
		var cat []uint16
		switch e.typ {
		case 13:
			width = 2
			cat = []uint16{0x0000, 0x0101, 0x0201, 0x0203, 0x0204, 0x0301, 0x0401, 0x0403, 0x0501, 0x0503, 0x0601, 0x0603, 0x0707, 0x0708, 0x0804, 0x0805, 0x0806, 0x0807, 0x0809, 0x0404, 0x0104, 0xfe00, 0xffff}
		case 10:
			width = 2
			cat = []uint16{0, 1, 22, 23, 24, 25, 26, 29, 30, 41, 249, 256, 0xfe00, 0xff01, 0xffff}
		case 11:
			width = 1
			cat = []uint16{1, 2, 3, 0xff}
		default:
			continue
		}
		if len(e.body) < 2+width && !(width == 1 && len(e.body) >= 2) {
			continue
		}
		hdr := 2
		if width == 1 {
			hdr = 1
		}
		for _, v := range cat {
			b := append([]byte(nil), e.body...)
			if width == 2 {
				b[hdr], b[hdr+1] = byte(v>>8), byte(v)
			} else {
				b[hdr] = byte(v)
			}
			m := append([]helloExt(nil), exts...)
			m[i] = helloExt{e.typ, b}
			add(m, true, "code-point list: first entry replaced")
			var single []byte
			if width == 2 {
				single = []byte{0, 2, byte(v >> 8), byte(v)}
			} else {
				single = []byte{1, byte(v)}
			}
			m2 := append([]helloExt(nil), exts...)
			m2[i] = helloExt{e.typ, single}
			add(m2, true, "code-point list: single entry")
		}
	}
	// every known extension type with an empty body as the only and as the last extension
	for t := 0; t <= 0x24; t++ {
		add([]helloExt{{uint16(t), nil}}, true, "empty known-range extension alone")
		add(append(append([]helloExt(nil), exts...), helloExt{uint16(t), nil}), true, "empty known-range extension last")
	}
	for _, t := range []uint16{0x3374, 0xff01, 0x754f} {
		add(append(append([]helloExt(nil), exts...), helloExt{t, nil}), true, "empty extension last")
		add(append(append([]helloExt(nil), exts...), helloExt{t, []byte{0}}), true, "one-byte extension last")
	}
	// an extension the hello does NOT carry, appended with each of a catalogue of short bodies: list-shaped extensions
	// whose list is empty, whose inner length is zero or overshoots, single bytes - the shortest bodies that pass each
	// successive length test of a per-extension parser
	have := map[uint16]bool{}
	for _, e := range exts {
		have[e.typ] = true
	}
	bodies := [][]byte{{0}, {0, 0}, {0, 0, 0}, {0, 1}, {0, 1, 0}, {0, 1, 1}, {0, 2, 0, 0}, {0, 2, 1, 'a'}, {0, 3, 2, 'h', '2'}, {1}, {1, 0}, {1, 1}, {0xff}, {0xff, 0xff}}
	for _, t := range []uint16{0, 5, 10, 11, 13, 16, 18, 23, 35, 0x3374, 0xff01} {
		if have[t] {
			continue
		}
		for _, b := range bodies {
			add(append(append([]helloExt(nil), exts...), helloExt{t, b}), true, "extension not in the hello, appended with a short body")
		}
	}
	return out
}
