package gen

// Structure-aware, length-consistent mutations of the extension block of a TLS ClientHello / ServerHello handshake
// message (4-byte handshake header included). Unlike byte or length-field perturbations these keep every enclosing
// length correct, so the parser reaches the per-extension code with bodies that are empty, cut short, duplicated or
// in another position.

type HelloMutation struct {
	Data []byte
	Note string
}

type helloExt struct {
	typ  uint16
	body []byte
}

// splitHello returns the bytes before the extension block and the extensions; ok=false if msg is not a well-formed hello.
func splitHello(msg []byte) (prefix []byte, exts []helloExt, ok bool) {
	if len(msg) < 4+2+32+1 || (msg[0] != 1 && msg[0] != 2) {
		return nil, nil, false
	}
	n := int(msg[1])<<16 | int(msg[2])<<8 | int(msg[3])
	if n != len(msg)-4 {
		return nil, nil, false
	}
	p := 4 + 2 + 32
	if p >= len(msg) {
		return nil, nil, false
	}
	p += 1 + int(msg[p]) // session id
	if msg[0] == 1 {
		if p+2 > len(msg) {
			return nil, nil, false
		}
		p += 2 + (int(msg[p])<<8 | int(msg[p+1])) // cipher suites
		if p+1 > len(msg) {
			return nil, nil, false
		}
		p += 1 + int(msg[p]) // compression methods
	} else {
		p += 3 // suite + compression
	}
	if p > len(msg) {
		return nil, nil, false
	}
	prefix = append([]byte(nil), msg[:p]...)
	if p == len(msg) {
		return prefix, nil, true
	}
	if p+2 > len(msg) {
		return nil, nil, false
	}
	el := int(msg[p])<<8 | int(msg[p+1])
	rest := msg[p+2:]
	if el != len(rest) {
		return nil, nil, false
	}
	for len(rest) > 0 {
		if len(rest) < 4 {
			return nil, nil, false
		}
		l := int(rest[2])<<8 | int(rest[3])
		if len(rest) < 4+l {
			return nil, nil, false
		}
		exts = append(exts, helloExt{uint16(rest[0])<<8 | uint16(rest[1]), append([]byte(nil), rest[4:4+l]...)})
		rest = rest[4+l:]
	}
	return prefix, exts, true
}

func joinHello(prefix []byte, exts []helloExt, withBlock bool) []byte {
	var block []byte
	for _, e := range exts {
		block = append(block, byte(e.typ>>8), byte(e.typ), byte(len(e.body)>>8), byte(len(e.body)))
		block = append(block, e.body...)
	}
	out := append([]byte(nil), prefix...)
	if withBlock {
		out = append(out, byte(len(block)>>8), byte(len(block)))
		out = append(out, block...)
	}
	n := len(out) - 4
	out[1], out[2], out[3] = byte(n>>16), byte(n>>8), byte(n)
	return out
}

// HelloExtMutations enumerates the mutations. all=false keeps body lengths {0,1,2,len-1}; all=true every length.
func HelloExtMutations(msg []byte, all bool) []HelloMutation {
	prefix, exts, ok := splitHello(msg)
	if !ok {
		return nil
	}
	var out []HelloMutation
	add := func(e []helloExt, block bool, note string) {
		out = append(out, HelloMutation{joinHello(prefix, e, block), note})
	}
	add(nil, false, "no extension block")
	add(nil, true, "empty extension block")
	for i, e := range exts {
		var lens []int
		if all {
			for k := 0; k < len(e.body); k++ {
				lens = append(lens, k)
			}
		} else {
			for _, k := range []int{0, 1, 2, len(e.body) - 1} {
				if k >= 0 && k < len(e.body) {
					lens = append(lens, k)
				}
			}
		}
		without := append(append([]helloExt(nil), exts[:i]...), exts[i+1:]...)
		for _, k := range lens {
			cut := helloExt{e.typ, e.body[:k]}
			inPlace := append([]helloExt(nil), exts...)
			inPlace[i] = cut
			add(inPlace, true, "body cut in place")
			add(append(append([]helloExt(nil), without...), cut), true, "body cut, moved last")
			add([]helloExt{cut}, true, "body cut, only extension")
		}
		add(without, true, "dropped")
		add(append(append([]helloExt(nil), exts...), e), true, "duplicated at the end")
		add(append([]helloExt{e}, without...), true, "moved first")
		// body extended by one zero byte
		add(append(append([]helloExt(nil), without...), helloExt{e.typ, append(append([]byte(nil), e.body...), 0)}), true, "body extended, moved last")
	}
	// every known extension type with an empty body as the only and as the last extension
	for t := 0; t <= 0x24; t++ {
		add([]helloExt{{uint16(t), nil}}, true, "empty known-range extension alone")
		add(append(append([]helloExt(nil), exts...), helloExt{uint16(t), nil}), true, "empty known-range extension last")
	}
	for _, t := range []uint16{0x3374, 0xff01, 0x754f} {
		add(append(append([]helloExt(nil), exts...), helloExt{t, nil}), true, "empty extension last")
		add(append(append([]helloExt(nil), exts...), helloExt{t, []byte{0}}), true, "one-byte extension last")
	}
	return out
}
