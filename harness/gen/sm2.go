package gen

import (
	"encoding/json"
	"fmt"
	"math/big"
	"os"
	"path/filepath"
	"sync"

	"pgregory.net/rapid"

	"verifharness/ref/rsm2"
)

// ---------------------------------------------------------------- scalars

// Scalar draws a big-endian byte string of 0..40 bytes with the boundary bias of DESIGN §3.4.
// The second result labels the class.
func Scalar() *rapid.Generator[ScalarCase] {
	return rapid.Custom(func(t *rapid.T) ScalarCase {
		n := N
		kind := rapid.IntRange(0, 11).Draw(t, "skind")
		var v *big.Int
		cls := ""
		switch kind {
		case 0:
			v = big.NewInt(int64(rapid.IntRange(0, 2).Draw(t, "small")))
			cls = "k_small"
		case 1, 2:
			d := rapid.IntRange(-16, 16).Draw(t, "delta")
			v = new(big.Int).Add(n, big.NewInt(int64(d)))
			cls = "k_near_n"
		case 3:
			e := rapid.IntRange(0, 300).Draw(t, "exp")
			v = new(big.Int).Lsh(big.NewInt(1), uint(e))
			if rapid.Bool().Draw(t, "minus1") {
				v.Sub(v, big.NewInt(1))
			}
			cls = "k_pow2"
		case 4:
			// all-ones window of width w at offset o
			w := rapid.IntRange(1, 256).Draw(t, "w")
			o := rapid.IntRange(0, 256-1).Draw(t, "o")
			v = new(big.Int).Lsh(big.NewInt(1), uint(w))
			v.Sub(v, big.NewInt(1))
			v.Lsh(v, uint(o))
			cls = "k_ones_window"
		case 5:
			// c*n + (n - 2d) and c*n - 2d families: the wNAF prefix meets +-digit*P
			c := rapid.IntRange(0, 3).Draw(t, "mult")
			d := rapid.SampledFrom([]int64{1, 3, 5, 7, 2, 6, 10, 14}).Draw(t, "digit")
			v = new(big.Int).Mul(n, big.NewInt(int64(c+1)))
			v.Sub(v, big.NewInt(d))
			cls = "k_wnaf_meet"
		case 6:
			// (n +- e) / 2^j style: values whose doubling chain passes close to n
			j := rapid.IntRange(1, 8).Draw(t, "j")
			e := rapid.IntRange(-20, 20).Draw(t, "e")
			v = new(big.Int).Add(n, big.NewInt(int64(e)))
			v.Rsh(v, uint(j))
			cls = "k_near_n_shifted"
		case 7:
			// multiples of n plus small
			c := rapid.IntRange(1, 1<<16).Draw(t, "c")
			v = new(big.Int).Mul(n, big.NewInt(int64(c)))
			v.Add(v, big.NewInt(int64(rapid.IntRange(0, 20).Draw(t, "plus"))))
			cls = "k_multiple_of_n"
		default:
			l := rapid.IntRange(0, 40).Draw(t, "len")
			b := rapid.SliceOfN(rapid.Byte(), l, l).Draw(t, "bytes")
			v = new(big.Int).SetBytes(b)
			cls = "k_uniform"
			if rapid.IntRange(0, 3).Draw(t, "asis") != 0 {
				return ScalarCase{Bytes: b, Class: cls}
			}
		}
		b := v.Bytes()
		padTo := len(b)
		switch rapid.IntRange(0, 3).Draw(t, "padkind") {
		case 0:
			padTo = len(b) + rapid.IntRange(1, 8).Draw(t, "lz")
		case 1:
			if len(b) < 32 {
				padTo = 32
			}
		}
		if padTo > 40 {
			padTo = 40
		}
		if padTo > len(b) {
			nb := make([]byte, padTo)
			copy(nb[padTo-len(b):], b)
			b = nb
		}
		return ScalarCase{Bytes: b, Class: cls}
	})
}

type ScalarCase struct {
	Bytes []byte
	Class string
}

func (s ScalarCase) Int() *big.Int { return new(big.Int).SetBytes(s.Bytes) }

// ---------------------------------------------------------------- key pairs

type Key struct {
	D     *big.Int
	Pub   rsm2.Point
	Class string
}

type lzEntry struct {
	Class string `json:"class"`
	D     string `json:"d"`
}

var (
	lzOnce sync.Once
	lzKeys []Key
	lzErr  error
)

// LoadLZKeys loads corpus/keys_lz.json (keys with leading-zero bytes in d/x/y) and
// re-verifies every entry's class with the reference arithmetic.
func LoadLZKeys(root string) ([]Key, error) {
	lzOnce.Do(func() {
		b, err := os.ReadFile(filepath.Join(root, "corpus", "keys_lz.json"))
		if err != nil {
			lzErr = err
			return
		}
		var es []lzEntry
		if err := json.Unmarshal(b, &es); err != nil {
			lzErr = err
			return
		}
		for _, e := range es {
			d, ok := new(big.Int).SetString(e.D, 16)
			if !ok || d.Sign() <= 0 {
				lzErr = fmt.Errorf("bad d %q", e.D)
				return
			}
			p := rsm2.Std.BaseMul(d)
			lzKeys = append(lzKeys, Key{D: d, Pub: p, Class: ClassOf(d, p)})
		}
	})
	return lzKeys, lzErr
}

func lzBytes(v *big.Int) int { return 32 - (v.BitLen()+7)/8 }

// ClassOf labels a key by its leading-zero structure.
func ClassOf(d *big.Int, p rsm2.Point) string {
	s := ""
	if k := lzBytes(d); k > 0 {
		s += fmt.Sprintf("lz_d%d ", min(k, 3))
	}
	if k := lzBytes(p.X); k > 0 {
		s += fmt.Sprintf("lz_x%d ", min(k, 3))
	}
	if k := lzBytes(p.Y); k > 0 {
		s += fmt.Sprintf("lz_y%d ", min(k, 3))
	}
	if s == "" {
		return "plain"
	}
	return s[:len(s)-1]
}

func min(a, b int) int {
	if a < b {
		return a
	}
	return b
}

// KeyPair draws a private key in [1, n-2] with boundary bias; root is the verif root
// (for the leading-zero table).
func KeyPair(root string) *rapid.Generator[Key] {
	return rapid.Custom(func(t *rapid.T) Key {
		tab, err := LoadLZKeys(root)
		kind := rapid.IntRange(0, 9).Draw(t, "kkind")
		var d *big.Int
		switch {
		case kind <= 2 && err == nil && len(tab) > 0:
			return tab[rapid.IntRange(0, len(tab)-1).Draw(t, "lzidx")]
		case kind == 3:
			d = big.NewInt(int64(rapid.IntRange(1, 1<<16).Draw(t, "smalld")))
		case kind == 4:
			d = new(big.Int).Sub(N, big.NewInt(int64(rapid.IntRange(2, 5).Draw(t, "nminus"))))
		default:
			d = BigBelow(new(big.Int).Sub(N, big.NewInt(2))).Draw(t, "d")
			d.Add(d, big.NewInt(1))
		}
		p := rsm2.Std.BaseMul(d)
		return Key{D: d, Pub: p, Class: ClassOf(d, p)}
	})
}

// UID draws a user id: absent (nil), explicit default, empty, short, long (<= 8191 bytes).
func UID() *rapid.Generator[UIDCase] {
	return rapid.Custom(func(t *rapid.T) UIDCase {
		switch rapid.IntRange(0, 8).Draw(t, "uidkind") {
		case 8:
			// absent given as an empty, non-nil slice ([]byte{}, buf[:0]): must mean the same as nil on both sides
			return UIDCase{make([]byte, 0, 4), "uid_empty_slice"}
		case 0, 1:
			return UIDCase{nil, "uid_absent"}
		case 2:
			return UIDCase{[]byte("1234567812345678"), "uid_default"}
		case 3:
			n := rapid.SampledFrom([]int{8191, 8190, 4096, 1000}).Draw(t, "uidlong")
			return UIDCase{BytesN(n).Draw(t, "uid"), "uid_long"}
		default:
			n := rapid.IntRange(1, 64).Draw(t, "uidlen")
			return UIDCase{rapid.SliceOfN(rapid.Byte(), n, n).Draw(t, "uid"), "uid_short"}
		}
	})
}

type UIDCase struct {
	UID   []byte
	Class string
}

// NonceBlock draws the 40 random bytes the library turns into a nonce.
func NonceBlock() *rapid.Generator[[]byte] {
	return rapid.Custom(func(t *rapid.T) []byte {
		b := make([]byte, 40)
		nm1 := new(big.Int).Sub(N, big.NewInt(1))
		switch rapid.IntRange(0, 9).Draw(t, "nkind") {
		case 0:
		case 1:
			for i := range b {
				b[i] = 0xff
			}
		case 2: // == 0 mod (n-1): k = 1
			c := big.NewInt(int64(rapid.IntRange(0, 1<<20).Draw(t, "c")))
			c.Mul(c, nm1).FillBytes(b)
		case 3: // == n-2 mod (n-1): k = n-1
			c := big.NewInt(int64(rapid.IntRange(1, 1<<20).Draw(t, "c")))
			c.Mul(c, nm1).Sub(c, big.NewInt(1)).FillBytes(b)
		case 4: // small k
			big.NewInt(int64(rapid.IntRange(0, 300).Draw(t, "smallk"))).FillBytes(b)
		default:
			return rapid.SliceOfN(rapid.Byte(), 40, 40).Draw(t, "nonce")
		}
		return b
	})
}

// OtherKey draws a key pair different from every key in avoid. The generator's small classes (d near n, small d, the
// leading-zero table) make collisions a regular event; a collision is resolved inside [1, n-2], never by d+1 (which
// leaves the range for d = n-2).
func OtherKey(t *rapid.T, root, label string, avoid ...*big.Int) Key {
	k := KeyPair(root).Draw(t, label)
	nm2 := new(big.Int).Sub(N, big.NewInt(2))
	for tries := 0; tries < 8; tries++ {
		clash := false
		for _, a := range avoid {
			if a != nil && a.Cmp(k.D) == 0 {
				clash = true
			}
		}
		if !clash {
			return k
		}
		d := new(big.Int).Add(k.D, big.NewInt(12345))
		d.Mod(d, nm2).Add(d, big.NewInt(1))
		p := rsm2.Std.BaseMul(d)
		k = Key{D: d, Pub: p, Class: ClassOf(d, p)}
	}
	return k
}
