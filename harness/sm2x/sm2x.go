// Package sm2x: helpers for driving github.com/tjfoc/gmsm/sm2 from the harness.
package sm2x

import (
	"errors"
	"io"
	"math/big"

	"github.com/tjfoc/gmsm/sm2"

	"verifharness/gen"
	"verifharness/ref/rsm2"
)

func Priv(k gen.Key) *sm2.PrivateKey {
	p := new(sm2.PrivateKey)
	p.Curve = sm2.P256Sm2()
	p.D = new(big.Int).Set(k.D)
	p.X, p.Y = k.Pub.Affine()
	return p
}

func Pub(p rsm2.Point) *sm2.PublicKey {
	x, y := p.Affine()
	return &sm2.PublicKey{Curve: sm2.P256Sm2(), X: x, Y: y}
}

// NonceFromBlock is the library's documented mapping of a 40-byte block to k,
// recomputed independently: k = (int(b) mod (n-1)) + 1.
func NonceFromBlock(b []byte) *big.Int {
	k := new(big.Int).SetBytes(b)
	k.Mod(k, new(big.Int).Sub(rsm2.Std.N, big.NewInt(1)))
	return k.Add(k, big.NewInt(1))
}

// BlockForNonce returns the 40-byte block that maps to k (1 <= k <= n-1).
func BlockForNonce(k *big.Int) []byte {
	b := make([]byte, 40)
	new(big.Int).Sub(k, big.NewInt(1)).FillBytes(b)
	return b
}

type Spin struct{}

// NonceReader serves scripted 40-byte blocks, then (endless mode) a deterministic
// filler; counts bytes; panics with Spin{} after maxBytes so a non-terminating retry
// loop becomes a clock-free verdict.
type NonceReader struct {
	Blocks   [][]byte
	Served   int
	MaxBytes int
	Chunk    int // >0: serve at most Chunk bytes per Read (short reads)
	FailAt   int // >=0: return an error once this many bytes were served
	cur      []byte
	filler   byte
}

var ErrEntropy = errors.New("entropy source failed")

func NewNonceReader(blocks ...[]byte) *NonceReader {
	return &NonceReader{Blocks: blocks, MaxBytes: 64 * 40, FailAt: -1}
}

func (r *NonceReader) Read(p []byte) (int, error) {
	if r.FailAt >= 0 && r.Served >= r.FailAt {
		return 0, ErrEntropy
	}
	if r.Served > r.MaxBytes {
		panic(Spin{})
	}
	if len(r.cur) == 0 {
		if len(r.Blocks) > 0 {
			r.cur, r.Blocks = r.Blocks[0], r.Blocks[1:]
		} else {
			r.filler++
			r.cur = make([]byte, 40)
			for i := range r.cur {
				r.cur[i] = r.filler*31 + byte(i)
			}
		}
	}
	n := len(p)
	if r.Chunk > 0 && n > r.Chunk {
		n = r.Chunk
	}
	if n > len(r.cur) {
		n = len(r.cur)
	}
	if r.FailAt >= 0 && r.Served+n > r.FailAt {
		n = r.FailAt - r.Served
	}
	copy(p, r.cur[:n])
	r.cur = r.cur[n:]
	r.Served += n
	return n, nil
}

var _ io.Reader = (*NonceReader)(nil)

// Intact reports "" when the key object still holds exactly the numbers of k (library calls must not modify the
// caller's key objects: they are long-lived and shared), otherwise what changed.
func Intact(p *sm2.PrivateKey, k gen.Key) string {
	x, y := k.Pub.Affine()
	switch {
	case p.D == nil || p.D.Cmp(k.D) != 0:
		return "private scalar D"
	case p.X == nil || p.X.Cmp(x) != 0:
		return "public X"
	case p.Y == nil || p.Y.Cmp(y) != 0:
		return "public Y"
	}
	return ""
}

func IntactPub(p *sm2.PublicKey, q rsm2.Point) string {
	x, y := q.Affine()
	if p.X == nil || p.Y == nil || p.X.Cmp(x) != 0 || p.Y.Cmp(y) != 0 {
		return "public key coordinates"
	}
	return ""
}
