module verifharness

go 1.23

require (
	github.com/tjfoc/gmsm v0.0.0
	golang.org/x/crypto v0.0.0-20201012173705-84dcc777aaee
	pgregory.net/rapid v1.3.0
)

require golang.org/x/sys v0.0.0-20200930185726-fdedc70b468f // indirect

replace github.com/tjfoc/gmsm => /repo
