package tlsx

import (
	"github.com/tjfoc/gmsm/gmtls"

	"verifharness/hx"
	"verifharness/ref/rgmssl"
	"verifharness/wire"
)

// ScriptedResult is the outcome of one gmtls endpoint talking to a scripted reference peer.
type ScriptedResult struct {
	GM        Endpoint
	Peer      *rgmssl.Peer
	PeerErr   error
	PeerPanic *hx.PanicInfo
	Stalled   bool
	C2S, S2C  []byte
	Log       []rgmssl.Chunk
	Spin      bool
}

func (p *PKI) ServerIdentity() rgmssl.Identity {
	return rgmssl.Identity{SignCert: p.SrvSign.DER, EncCert: p.SrvEnc.DER, SignD: p.SrvSign.SM2D, EncD: p.SrvEnc.SM2D}
}

// gmEndpoint drives a gmtls connection: handshake, optional data, read to the end.
func gmEndpoint(hub *wire.Hub, ep *Endpoint, conn *gmtls.Conn, send []byte, closeAll func()) {
	ep.Conn = conn
	ep.Panic = hx.Try(func() {
		ep.HSErr = conn.Handshake()
		if ep.HSErr != nil {
			conn.Close()
			return
		}
		ep.State = conn.ConnectionState()
		wd := hub.Go(func() {
			if len(send) > 0 {
				if _, err := conn.Write(send); err != nil {
					ep.WriteErr = err
				}
			}
			conn.CloseWrite()
		})
		buf := make([]byte, 4096)
		for {
			n, err := conn.Read(buf)
			ep.Received = append(ep.Received, buf[:n]...)
			if err != nil {
				if err.Error() != "EOF" {
					ep.IOErr = err
				} else {
					ep.SawEOF = true
				}
				break
			}
		}
		<-wd
		conn.Close()
	})
	if ep.Panic != nil {
		if _, spin := ep.Panic.Val.(wire.Spin); spin {
			// reported by the caller
		}
		closeAll()
	}
}

// RunAgainstScriptedServer: gmtls client vs scripted reference server.
func RunAgainstScriptedServer(ccfg *gmtls.Config, so rgmssl.ServerOpts, plan *rgmssl.Plan, seed string, send []byte) *ScriptedResult {
	hub := wire.NewHub()
	cw, sw := hub.Pipe("client:1", "server:443")
	res := &ScriptedResult{}
	cw.TapOut(func(b []byte) {
		res.C2S = append(res.C2S, b...)
		res.Log = append(res.Log, rgmssl.Chunk{FromClient: true, Data: append([]byte(nil), b...)})
	})
	sw.TapOut(func(b []byte) {
		res.S2C = append(res.S2C, b...)
		res.Log = append(res.Log, rgmssl.Chunk{FromClient: false, Data: append([]byte(nil), b...)})
	})
	closeAll := func() { cw.Close(); sw.Close() }
	res.Peer = rgmssl.NewPeer(sw, true, seed, plan)
	d := hub.GoAll(
		func() { gmEndpoint(hub, &res.GM, gmtls.Client(cw, ccfg), send, closeAll) },
		func() {
			res.PeerPanic = hx.Try(func() { res.PeerErr = res.Peer.RunServer(so) })
			sw.Close()
		})
	<-d[0]
	<-d[1]
	res.Stalled = hub.Stalled
	if res.GM.Panic != nil {
		_, res.Spin = res.GM.Panic.Val.(wire.Spin)
	}
	return res
}

// RunAgainstScriptedClient: gmtls server vs scripted reference client.
func RunAgainstScriptedClient(scfg *gmtls.Config, co rgmssl.ClientOpts, plan *rgmssl.Plan, seed string, send []byte) *ScriptedResult {
	hub := wire.NewHub()
	cw, sw := hub.Pipe("client:1", "server:443")
	res := &ScriptedResult{}
	cw.TapOut(func(b []byte) {
		res.C2S = append(res.C2S, b...)
		res.Log = append(res.Log, rgmssl.Chunk{FromClient: true, Data: append([]byte(nil), b...)})
	})
	sw.TapOut(func(b []byte) {
		res.S2C = append(res.S2C, b...)
		res.Log = append(res.Log, rgmssl.Chunk{FromClient: false, Data: append([]byte(nil), b...)})
	})
	closeAll := func() { cw.Close(); sw.Close() }
	res.Peer = rgmssl.NewPeer(cw, false, seed, plan)
	d := hub.GoAll(
		func() { gmEndpoint(hub, &res.GM, gmtls.Server(sw, scfg), send, closeAll) },
		func() {
			res.PeerPanic = hx.Try(func() { res.PeerErr = res.Peer.RunClient(co) })
			cw.Close()
		})
	<-d[0]
	<-d[1]
	res.Stalled = hub.Stalled
	if res.GM.Panic != nil {
		_, res.Spin = res.GM.Panic.Val.(wire.Spin)
	}
	return res
}

// RunServerAgainst: gmtls server vs an arbitrary scripted client function talking over the in-memory transport.
func RunServerAgainst(scfg *gmtls.Config, send []byte, client func(rw *wire.Conn) error) *ScriptedResult {
	hub := wire.NewHub()
	cw, sw := hub.Pipe("client:1", "server:443")
	res := &ScriptedResult{}
	cw.TapOut(func(b []byte) {
		res.C2S = append(res.C2S, b...)
		res.Log = append(res.Log, rgmssl.Chunk{FromClient: true, Data: append([]byte(nil), b...)})
	})
	sw.TapOut(func(b []byte) {
		res.S2C = append(res.S2C, b...)
		res.Log = append(res.Log, rgmssl.Chunk{FromClient: false, Data: append([]byte(nil), b...)})
	})
	closeAll := func() { cw.Close(); sw.Close() }
	d := hub.GoAll(
		func() { gmEndpoint(hub, &res.GM, gmtls.Server(sw, scfg), send, closeAll) },
		func() {
			res.PeerPanic = hx.Try(func() { res.PeerErr = client(cw) })
			cw.Close()
		})
	<-d[0]
	<-d[1]
	res.Stalled = hub.Stalled
	if res.GM.Panic != nil {
		_, res.Spin = res.GM.Panic.Val.(wire.Spin)
	}
	return res
}

// RunClientAgainst: gmtls client vs an arbitrary scripted server function talking over the in-memory transport.
func RunClientAgainst(ccfg *gmtls.Config, send []byte, server func(rw *wire.Conn) error) *ScriptedResult {
	hub := wire.NewHub()
	cw, sw := hub.Pipe("client:1", "server:443")
	res := &ScriptedResult{}
	cw.TapOut(func(b []byte) {
		res.C2S = append(res.C2S, b...)
		res.Log = append(res.Log, rgmssl.Chunk{FromClient: true, Data: append([]byte(nil), b...)})
	})
	sw.TapOut(func(b []byte) {
		res.S2C = append(res.S2C, b...)
		res.Log = append(res.Log, rgmssl.Chunk{FromClient: false, Data: append([]byte(nil), b...)})
	})
	closeAll := func() { cw.Close(); sw.Close() }
	d := hub.GoAll(
		func() { gmEndpoint(hub, &res.GM, gmtls.Client(cw, ccfg), send, closeAll) },
		func() {
			res.PeerPanic = hx.Try(func() { res.PeerErr = server(sw) })
			sw.Close()
		})
	<-d[0]
	<-d[1]
	res.Stalled = hub.Stalled
	if res.GM.Panic != nil {
		_, res.Spin = res.GM.Panic.Val.(wire.Spin)
	}
	return res
}
