package tlsx

import (
	"bytes"
	"fmt"
	"io"
	"strings"
	"sync"

	"github.com/tjfoc/gmsm/gmtls"

	"verifharness/hx"
	"verifharness/ref/rgmssl"
	"verifharness/wire"
)

// KeyLog collects NSS key log lines ("CLIENT_RANDOM <hex> <hex>").
type KeyLog struct {
	mu    sync.Mutex
	Lines []string
}

func (k *KeyLog) Write(p []byte) (int, error) {
	k.mu.Lock()
	k.Lines = append(k.Lines, strings.TrimSpace(string(p)))
	k.mu.Unlock()
	return len(p), nil
}

// Secrets returns (client_random, master_secret) hex pairs.
func (k *KeyLog) Secrets() [][2]string {
	k.mu.Lock()
	defer k.mu.Unlock()
	var out [][2]string
	for _, l := range k.Lines {
		f := strings.Fields(l)
		if len(f) == 3 && f[0] == "CLIENT_RANDOM" {
			out = append(out, [2]string{f[1], f[2]})
		}
	}
	return out
}

// Endpoint is the outcome of one side of a session.
type Endpoint struct {
	Conn      *gmtls.Conn
	HSErr     error
	Panic     *hx.PanicInfo
	State     gmtls.ConnectionState
	Received  []byte
	IOErr     error
	WriteErr  error
	SawEOF    bool  // the read loop ended with io.EOF
	SecondErr error // error of one more Read after the loop ended (stickiness)
}

// Result of a two-ended in-memory session.
type Result struct {
	Client, Server Endpoint
	C2S, S2C       []byte         // raw bytes on the wire per direction
	Log            []rgmssl.Chunk // the same bytes in global order of transmission
	Stalled        bool
	Hub            *wire.Hub
}

// Script says what each side does after the handshake: writes in the given fragment sizes,
// then closes (CloseNotify); both sides read until EOF/error.
type Script struct {
	ClientSend, ServerSend       []byte
	ClientFrags, ServerFrags     []int // write sizes, cycled; nil = one write
	NoData                       bool  // handshake only, then close
	ClientReadBuf, ServerReadBuf int   // size of the buffer passed to Read (0 = 16384)
	// Hooks to install MITM filters before anything is sent.
	Setup                  func(client, server *wire.Conn)
	ClientAddr, ServerAddr string
	// KeepOpen: do not close connections at the end (caller continues); not used by Run.
}

func writeFrags(w io.Writer, data []byte, frags []int) error {
	if len(data) == 0 {
		return nil
	}
	if len(frags) == 0 {
		_, err := w.Write(data)
		return err
	}
	i := 0
	for len(data) > 0 {
		n := frags[i%len(frags)]
		i++
		if n <= 0 {
			n = 1
		}
		if n > len(data) {
			n = len(data)
		}
		if _, err := w.Write(data[:n]); err != nil {
			return err
		}
		data = data[n:]
	}
	return nil
}

// Run performs handshake + scripted data exchange between a gmtls client and a gmtls server
// over an in-memory duplex. Never blocks forever: the hub turns global quiescence into EOF.
func Run(ccfg, scfg *gmtls.Config, sc Script) *Result {
	return RunInto(&Result{}, ccfg, scfg, sc)
}

// RunInto is Run with a caller-supplied Result, so that hooks installed by sc.Setup can look at the
// traffic log while the session is still in progress (only from inside transport filters, which run
// under the same lock as the taps that append to it).
func RunInto(res *Result, ccfg, scfg *gmtls.Config, sc Script) *Result {
	hub := wire.NewHub()
	ca, sa := sc.ClientAddr, sc.ServerAddr
	if ca == "" {
		ca = "client:1"
	}
	if sa == "" {
		sa = "server:443"
	}
	cw, sw := hub.Pipe(ca, sa)
	res.Hub = hub
	var mu sync.Mutex
	cw.TapOut(func(b []byte) {
		res.C2S = append(res.C2S, b...)
		res.Log = append(res.Log, rgmssl.Chunk{FromClient: true, Data: append([]byte(nil), b...)})
	})
	sw.TapOut(func(b []byte) {
		res.S2C = append(res.S2C, b...)
		res.Log = append(res.Log, rgmssl.Chunk{FromClient: false, Data: append([]byte(nil), b...)})
	})
	if sc.Setup != nil {
		sc.Setup(cw, sw)
	}
	side := func(ep *Endpoint, conn *gmtls.Conn, send []byte, frags []int, rbuf int) {
		if rbuf <= 0 {
			rbuf = 16384
		}
		ep.Conn = conn
		ep.Panic = hx.Try(func() {
			ep.HSErr = conn.Handshake()
			if ep.HSErr != nil {
				conn.Close()
				return
			}
			ep.State = conn.ConnectionState()
			if sc.NoData {
				// one byte echo is not needed: just close cleanly and drain
				conn.Close()
				return
			}
			// the writer is a live party for the hub's quiescence detection: while it runs nobody is "stuck"
			wdone := hub.Go(func() {
				if err := writeFrags(conn, send, frags); err != nil {
					mu.Lock()
					ep.WriteErr = err
					mu.Unlock()
				}
				conn.CloseWrite()
			})
			buf := make([]byte, rbuf)
			for {
				n, err := conn.Read(buf)
				ep.Received = append(ep.Received, buf[:n]...)
				if err != nil {
					if err != io.EOF {
						ep.IOErr = err
					} else {
						ep.SawEOF = true
					}
					_, ep.SecondErr = conn.Read(buf)
					break
				}
			}
			<-wdone
			conn.Close()
		})
		if ep.Panic != nil {
			cw.Close()
			sw.Close()
		}
	}
	done := hub.GoAll(
		func() { side(&res.Client, gmtls.Client(cw, ccfg), sc.ClientSend, sc.ClientFrags, sc.ClientReadBuf) },
		func() { side(&res.Server, gmtls.Server(sw, scfg), sc.ServerSend, sc.ServerFrags, sc.ServerReadBuf) })
	<-done[0]
	<-done[1]
	res.Stalled = hub.Stalled
	return res
}

func (r *Result) Describe() string {
	var b bytes.Buffer
	fmt.Fprintf(&b, "client: hs=%v panic=%v io=%v werr=%v recv=%d | server: hs=%v panic=%v io=%v werr=%v recv=%d | wire c2s=%d s2c=%d stalled=%v",
		r.Client.HSErr, r.Client.Panic != nil, r.Client.IOErr, r.Client.WriteErr, len(r.Client.Received),
		r.Server.HSErr, r.Server.Panic != nil, r.Server.IOErr, r.Server.WriteErr, len(r.Server.Received), len(r.C2S), len(r.S2C), r.Stalled)
	if r.Client.Panic != nil {
		fmt.Fprintf(&b, "\nclient panic: %s", r.Client.Panic)
	}
	if r.Server.Panic != nil {
		fmt.Fprintf(&b, "\nserver panic: %s", r.Server.Panic)
	}
	return b.String()
}
