// Package tlsx: certificates, configurations and session drivers for the gmtls properties.
package tlsx

import (
	"crypto"
	"crypto/ecdsa"
	"crypto/elliptic"
	"crypto/rand"
	"crypto/rsa"
	"crypto/sha256"
	stdx509 "crypto/x509"
	"crypto/x509/pkix"
	"encoding/binary"
	"fmt"
	"io"
	"math/big"
	"net"
	"sync"
	"time"

	"github.com/tjfoc/gmsm/gmtls"
	"github.com/tjfoc/gmsm/sm2"
	gx "github.com/tjfoc/gmsm/x509"

	"verifharness/ref/rsm2"
)

// Now is the fixed instant every configuration uses.
var Now = time.Date(2025, 6, 1, 0, 0, 0, 0, time.UTC)

func FixedTime() time.Time { return Now }

const ServerName = "server.test"

// DRBG is a deterministic SHA-256 counter generator (Config.Rand).
type DRBG struct {
	mu   sync.Mutex
	seed [32]byte
	ctr  uint64
	buf  []byte
}

func NewDRBG(seed string) *DRBG { return &DRBG{seed: sha256.Sum256([]byte(seed))} }

func (d *DRBG) Read(p []byte) (int, error) {
	d.mu.Lock()
	defer d.mu.Unlock()
	for i := range p {
		if len(d.buf) == 0 {
			var c [8]byte
			binary.BigEndian.PutUint64(c[:], d.ctr)
			d.ctr++
			h := sha256.Sum256(append(d.seed[:], c[:]...))
			d.buf = h[:]
		}
		p[i] = d.buf[0]
		d.buf = d.buf[1:]
	}
	return len(p), nil
}

var _ io.Reader = (*DRBG)(nil)

type Ident struct {
	Cert *gx.Certificate
	DER  []byte
	Key  crypto.Signer
	SM2D *big.Int // private scalar when SM2
	TLS  gmtls.Certificate
}

type PKI struct {
	SM2Root, SM2Root2                                            *Ident // trusted root, and an unrelated root nobody trusts
	SrvSign, SrvEnc                                              *Ident // GM server signing / encryption certificates (SAN server.test)
	SrvSignBad, SrvEncBad                                        *Ident // same names, issued by the untrusted root
	SrvSignExpired, SrvSignFuture, SrvSignWrongName              *Ident
	SrvEncExpired                                                *Ident
	Client, ClientUntrusted, ClientExpired, ClientServerAuthOnly *Ident
	SM2Inter, ClientViaInter                                     *Ident // issuing CA under SM2Root; client leaf under it (chain leaf+intermediate)
	RSARoot, RSASrv                                              *Ident
	RSASrvOther                                                  *Ident // the RSA server key certified for "other.test"
	SrvEncOther                                                  *Ident // the GM encryption key certified for "other.test"
	// certificates for the address 127.0.0.1 (iPAddress SAN), for clients that enter through Dial and take the name from the address
	LoopSign, LoopEnc, LoopRSA *Ident
	// SM2InterExpired: an issuing CA under SM2Root whose own validity has ended at Now; the three certificates below were
	// issued by it (or, SrvSignViaInter, by the valid SM2Inter) and are themselves within their validity; TLS chains are [leaf, CA]
	SM2InterExpired, SrvSignViaExpiredCA, ClientViaExpiredCA, SrvSignViaInter *Ident
	// the same for the TLS side: RSA issuing CAs under RSARoot (one valid, one expired at Now) and a server certificate from each
	RSAInter, RSAInterExpired, RSASrvViaInter, RSASrvViaExpiredCA *Ident
	ECRoot, ECSrv                                                *Ident
	RSAClient, ECClient                                          *Ident
	RootsSM2, RootsStd, RootsAll                                 *gx.CertPool
	// StdClients: two CA-issued client certificates (with their keys) per non-SM2 key type: "rsa", "p224", "p256", "p384",
	// "p521" - issued by RSARoot / ECRoot
	StdClients map[string][2]*Ident
}

func sm2Key(i int64) (*sm2.PrivateKey, *big.Int) {
	d := new(big.Int).SetInt64(7919*i + 104729)
	d.Mul(d, d).Mul(d, big.NewInt(65537)).Add(d, big.NewInt(i))
	d.Mod(d, new(big.Int).Sub(rsm2.Std.N, big.NewInt(3))).Add(d, big.NewInt(1))
	p := rsm2.Std.BaseMul(d)
	k := new(sm2.PrivateKey)
	k.Curve = sm2.P256Sm2()
	k.D = d
	k.X, k.Y = p.Affine()
	return k, d
}

var serial int64 = 5000

type certOpt struct {
	cn     string
	ca     bool
	ku     gx.KeyUsage
	eku    []gx.ExtKeyUsage
	dns    []string
	ips    []net.IP
	nb, na time.Time
}

func mkSM2(o certOpt, key *sm2.PrivateKey, d *big.Int, issuer *Ident) *Ident {
	serial++
	tpl := &gx.Certificate{SerialNumber: big.NewInt(serial), Subject: pkix.Name{CommonName: o.cn, Organization: []string{"verif"}},
		NotBefore: o.nb, NotAfter: o.na, KeyUsage: o.ku, ExtKeyUsage: o.eku, DNSNames: o.dns, IPAddresses: o.ips,
		BasicConstraintsValid: true, IsCA: o.ca, SignatureAlgorithm: gx.SM2WithSM3}
	parent := tpl
	var signer crypto.Signer = key
	if issuer != nil {
		parent = issuer.Cert
		signer = issuer.Key
	}
	der, err := gx.CreateCertificate(tpl, parent, &key.PublicKey, signer)
	if err != nil {
		panic(err)
	}
	c, err := gx.ParseCertificate(der)
	if err != nil {
		panic(err)
	}
	return &Ident{Cert: c, DER: der, Key: key, SM2D: d, TLS: gmtls.Certificate{Certificate: [][]byte{der}, PrivateKey: key}}
}

func mkStd(o certOpt, pub interface{}, key crypto.Signer, issuer *Ident) *Ident {
	serial++
	tpl := &stdx509.Certificate{SerialNumber: big.NewInt(serial), Subject: pkix.Name{CommonName: o.cn, Organization: []string{"verif"}},
		NotBefore: o.nb, NotAfter: o.na, KeyUsage: stdx509.KeyUsage(o.ku), DNSNames: o.dns, IPAddresses: o.ips, BasicConstraintsValid: true, IsCA: o.ca}
	for _, e := range o.eku {
		tpl.ExtKeyUsage = append(tpl.ExtKeyUsage, stdx509.ExtKeyUsage(e))
	}
	parent := tpl
	var signer crypto.Signer = key
	if issuer != nil {
		sp, err := stdx509.ParseCertificate(issuer.DER)
		if err != nil {
			panic(err)
		}
		parent = sp
		signer = issuer.Key
	}
	der, err := stdx509.CreateCertificate(rand.Reader, tpl, parent, pub, signer)
	if err != nil {
		panic(err)
	}
	c, err := gx.ParseCertificate(der)
	if err != nil {
		panic(err)
	}
	return &Ident{Cert: c, DER: der, Key: key, TLS: gmtls.Certificate{Certificate: [][]byte{der}, PrivateKey: key}}
}

var (
	pkiOnce sync.Once
	thePKI  *PKI
)

// GetPKI builds (once per process) the certificates all TLS properties share.
func GetPKI() *PKI {
	pkiOnce.Do(func() {
		p := &PKI{}
		y := 365 * 24 * time.Hour
		valid := func(o certOpt) certOpt { o.nb, o.na = Now.Add(-y), Now.Add(y); return o }
		caKU := gx.KeyUsageCertSign | gx.KeyUsageCRLSign
		signKU := gx.KeyUsageDigitalSignature
		encKU := gx.KeyUsageKeyEncipherment | gx.KeyUsageDataEncipherment | gx.KeyUsageKeyAgreement
		k, d := sm2Key(1)
		p.SM2Root = mkSM2(valid(certOpt{cn: "SM2 Root", ca: true, ku: caKU}), k, d, nil)
		k, d = sm2Key(2)
		p.SM2Root2 = mkSM2(valid(certOpt{cn: "SM2 Other Root", ca: true, ku: caKU}), k, d, nil)
		srvEKU := []gx.ExtKeyUsage{gx.ExtKeyUsageServerAuth}
		k, d = sm2Key(3)
		p.SrvSign = mkSM2(valid(certOpt{cn: "srv sign", ku: signKU, eku: srvEKU, dns: []string{ServerName}}), k, d, p.SM2Root)
		k, d = sm2Key(4)
		p.SrvEnc = mkSM2(valid(certOpt{cn: "srv enc", ku: encKU, eku: srvEKU, dns: []string{ServerName}}), k, d, p.SM2Root)
		k, d = sm2Key(5)
		p.SrvSignBad = mkSM2(valid(certOpt{cn: "srv sign", ku: signKU, eku: srvEKU, dns: []string{ServerName}}), k, d, p.SM2Root2)
		k, d = sm2Key(6)
		p.SrvEncBad = mkSM2(valid(certOpt{cn: "srv enc", ku: encKU, eku: srvEKU, dns: []string{ServerName}}), k, d, p.SM2Root2)
		k, d = sm2Key(7)
		p.SrvSignExpired = mkSM2(certOpt{cn: "srv sign", ku: signKU, eku: srvEKU, dns: []string{ServerName}, nb: Now.Add(-2 * y), na: Now.Add(-24 * time.Hour)}, k, d, p.SM2Root)
		k, d = sm2Key(8)
		p.SrvSignFuture = mkSM2(certOpt{cn: "srv sign", ku: signKU, eku: srvEKU, dns: []string{ServerName}, nb: Now.Add(24 * time.Hour), na: Now.Add(2 * y)}, k, d, p.SM2Root)
		k, d = sm2Key(9)
		p.SrvSignWrongName = mkSM2(valid(certOpt{cn: "srv sign", ku: signKU, eku: srvEKU, dns: []string{"other.test"}}), k, d, p.SM2Root)
		k, d = sm2Key(41)
		p.SrvEncOther = mkSM2(valid(certOpt{cn: "srv enc", ku: encKU, eku: srvEKU, dns: []string{"other.test"}}), k, d, p.SM2Root)
		loop := []net.IP{net.IPv4(127, 0, 0, 1).To4()}
		k, d = sm2Key(42)
		p.LoopSign = mkSM2(valid(certOpt{cn: "loop sign", ku: signKU, eku: srvEKU, ips: loop}), k, d, p.SM2Root)
		k, d = sm2Key(43)
		p.LoopEnc = mkSM2(valid(certOpt{cn: "loop enc", ku: encKU, eku: srvEKU, ips: loop}), k, d, p.SM2Root)
		k, d = sm2Key(10)
		p.SrvEncExpired = mkSM2(certOpt{cn: "srv enc", ku: encKU, eku: srvEKU, dns: []string{ServerName}, nb: Now.Add(-2 * y), na: Now.Add(-24 * time.Hour)}, k, d, p.SM2Root)
		cliEKU := []gx.ExtKeyUsage{gx.ExtKeyUsageClientAuth}
		k, d = sm2Key(11)
		p.Client = mkSM2(valid(certOpt{cn: "client", ku: signKU, eku: cliEKU}), k, d, p.SM2Root)
		k, d = sm2Key(12)
		p.ClientUntrusted = mkSM2(valid(certOpt{cn: "client", ku: signKU, eku: cliEKU}), k, d, p.SM2Root2)
		k, d = sm2Key(13)
		p.ClientExpired = mkSM2(certOpt{cn: "client", ku: signKU, eku: cliEKU, nb: Now.Add(-2 * y), na: Now.Add(-24 * time.Hour)}, k, d, p.SM2Root)
		k, d = sm2Key(14)
		p.ClientServerAuthOnly = mkSM2(valid(certOpt{cn: "client", ku: signKU, eku: srvEKU}), k, d, p.SM2Root)
		// a client certificate issued by an intermediate CA; its TLS chain is [leaf, intermediate]
		k, d = sm2Key(15)
		p.SM2Inter = mkSM2(valid(certOpt{cn: "SM2 Issuing CA", ca: true, ku: caKU}), k, d, p.SM2Root)
		k, d = sm2Key(16)
		p.ClientViaInter = mkSM2(valid(certOpt{cn: "client via intermediate", ku: signKU, eku: cliEKU}), k, d, p.SM2Inter)
		p.ClientViaInter.TLS.Certificate = [][]byte{p.ClientViaInter.DER, p.SM2Inter.DER}
		k, d = sm2Key(44)
		p.SM2InterExpired = mkSM2(certOpt{cn: "SM2 Issuing CA (expired)", ca: true, ku: caKU, nb: Now.Add(-3 * y), na: Now.Add(-24 * time.Hour)}, k, d, p.SM2Root)
		k, d = sm2Key(45)
		p.SrvSignViaExpiredCA = mkSM2(valid(certOpt{cn: "srv sign", ku: signKU, eku: srvEKU, dns: []string{ServerName}}), k, d, p.SM2InterExpired)
		p.SrvSignViaExpiredCA.TLS.Certificate = [][]byte{p.SrvSignViaExpiredCA.DER, p.SM2InterExpired.DER}
		k, d = sm2Key(46)
		p.ClientViaExpiredCA = mkSM2(valid(certOpt{cn: "client via expired CA", ku: signKU, eku: cliEKU}), k, d, p.SM2InterExpired)
		p.ClientViaExpiredCA.TLS.Certificate = [][]byte{p.ClientViaExpiredCA.DER, p.SM2InterExpired.DER}
		k, d = sm2Key(47)
		p.SrvSignViaInter = mkSM2(valid(certOpt{cn: "srv sign", ku: signKU, eku: srvEKU, dns: []string{ServerName}}), k, d, p.SM2Inter)
		p.SrvSignViaInter.TLS.Certificate = [][]byte{p.SrvSignViaInter.DER, p.SM2Inter.DER}
		// RSA and ECDSA for the TLS side
		rk, err := rsa.GenerateKey(rand.Reader, 2048)
		if err != nil {
			panic(err)
		}
		p.RSARoot = mkStd(valid(certOpt{cn: "RSA Root", ca: true, ku: caKU}), &rk.PublicKey, rk, nil)
		rk2, _ := rsa.GenerateKey(rand.Reader, 2048)
		p.RSASrv = mkStd(valid(certOpt{cn: "rsa srv", ku: signKU | gx.KeyUsageKeyEncipherment, eku: srvEKU, dns: []string{ServerName}}), &rk2.PublicKey, rk2, p.RSARoot)
		rk3, _ := rsa.GenerateKey(rand.Reader, 2048)
		p.LoopRSA = mkStd(valid(certOpt{cn: "rsa loop", ku: signKU | gx.KeyUsageKeyEncipherment, eku: srvEKU, ips: []net.IP{net.IPv4(127, 0, 0, 1).To4()}}), &rk2.PublicKey, rk2, p.RSARoot)
		p.RSAInter = mkStd(valid(certOpt{cn: "RSA Issuing CA", ca: true, ku: caKU}), &rk3.PublicKey, rk3, p.RSARoot)
		p.RSAInterExpired = mkStd(certOpt{cn: "RSA Issuing CA (expired)", ca: true, ku: caKU, nb: Now.Add(-3 * y), na: Now.Add(-24 * time.Hour)}, &rk3.PublicKey, rk3, p.RSARoot)
		p.RSASrvViaInter = mkStd(valid(certOpt{cn: "rsa srv", ku: signKU | gx.KeyUsageKeyEncipherment, eku: srvEKU, dns: []string{ServerName}}), &rk2.PublicKey, rk2, p.RSAInter)
		p.RSASrvViaInter.TLS.Certificate = [][]byte{p.RSASrvViaInter.DER, p.RSAInter.DER}
		p.RSASrvViaExpiredCA = mkStd(valid(certOpt{cn: "rsa srv", ku: signKU | gx.KeyUsageKeyEncipherment, eku: srvEKU, dns: []string{ServerName}}), &rk2.PublicKey, rk2, p.RSAInterExpired)
		p.RSASrvViaExpiredCA.TLS.Certificate = [][]byte{p.RSASrvViaExpiredCA.DER, p.RSAInterExpired.DER}
		p.RSASrvOther = mkStd(valid(certOpt{cn: "rsa srv other", ku: signKU | gx.KeyUsageKeyEncipherment, eku: srvEKU, dns: []string{"other.test"}}), &rk2.PublicKey, rk2, p.RSARoot)
		p.RSAClient = mkStd(valid(certOpt{cn: "rsa client", ku: signKU, eku: cliEKU}), &rk3.PublicKey, rk3, p.RSARoot)
		ek, _ := ecdsa.GenerateKey(elliptic.P256(), rand.Reader)
		p.ECRoot = mkStd(valid(certOpt{cn: "EC Root", ca: true, ku: caKU}), &ek.PublicKey, ek, nil)
		ek2, _ := ecdsa.GenerateKey(elliptic.P256(), rand.Reader)
		p.ECSrv = mkStd(valid(certOpt{cn: "ec srv", ku: signKU, eku: srvEKU, dns: []string{ServerName}}), &ek2.PublicKey, ek2, p.ECRoot)
		ek3, _ := ecdsa.GenerateKey(elliptic.P256(), rand.Reader)
		p.ECClient = mkStd(valid(certOpt{cn: "ec client", ku: signKU, eku: cliEKU}), &ek3.PublicKey, ek3, p.ECRoot)
		p.StdClients = map[string][2]*Ident{}
		rk4, _ := rsa.GenerateKey(rand.Reader, 2048)
		p.StdClients["rsa"] = [2]*Ident{p.RSAClient, mkStd(valid(certOpt{cn: "rsa client 2", ku: signKU, eku: cliEKU}), &rk4.PublicKey, rk4, p.RSARoot)}
		for name, curve := range map[string]elliptic.Curve{"p224": elliptic.P224(), "p256": elliptic.P256(), "p384": elliptic.P384(), "p521": elliptic.P521()} {
			var pair [2]*Ident
			for i := range pair {
				ck, err := ecdsa.GenerateKey(curve, rand.Reader)
				if err != nil {
					panic(err)
				}
				pair[i] = mkStd(valid(certOpt{cn: fmt.Sprintf("%s client %d", name, i), ku: signKU, eku: cliEKU}), &ck.PublicKey, ck, p.ECRoot)
			}
			p.StdClients[name] = pair
		}
		p.RootsSM2, p.RootsStd, p.RootsAll = gx.NewCertPool(), gx.NewCertPool(), gx.NewCertPool()
		p.RootsSM2.AddCert(p.SM2Root.Cert)
		p.RootsStd.AddCert(p.RSARoot.Cert)
		p.RootsStd.AddCert(p.ECRoot.Cert)
		for _, r := range []*Ident{p.SM2Root, p.RSARoot, p.ECRoot} {
			p.RootsAll.AddCert(r.Cert)
		}
		thePKI = p
	})
	return thePKI
}

func (p *PKI) String() string { return fmt.Sprintf("pki(%d certs)", serial-5000) }
