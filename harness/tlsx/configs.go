package tlsx

import (
	"github.com/tjfoc/gmsm/gmtls"
	"io"
)

// Suite ids of the GM/T 0024 suites (typed from the standard, not taken from the package).
const (
	GMECDHESM4CBCSM3 uint16 = 0xe011
	GMECCSM4CBCSM3   uint16 = 0xe013
	GMECDHESM4GCMSM3 uint16 = 0xe051
	GMECCSM4GCMSM3   uint16 = 0xe053
	VersionGMSSL     uint16 = 0x0101
)

func base(seed string) *gmtls.Config {
	return &gmtls.Config{Rand: NewDRBG(seed), Time: FixedTime}
}

// GMServer: GMSSL-only server with static sign+enc certificates.
func GMServer(p *PKI, seed string) *gmtls.Config {
	c := base(seed)
	c.GMSupport = gmtls.NewGMSupport()
	c.Certificates = []gmtls.Certificate{p.SrvSign.TLS, p.SrvEnc.TLS}
	return c
}

// GMClient: GMSSL client verifying against the SM2 root.
func GMClient(p *PKI, seed string) *gmtls.Config {
	c := base(seed)
	c.GMSupport = gmtls.NewGMSupport()
	c.RootCAs = p.RootsSM2
	c.ServerName = ServerName
	return c
}

// AutoServer: GMSSL/TLS auto-switch server built with the package's own constructor.
func AutoServer(p *PKI, std *Ident, seed string) *gmtls.Config {
	c, err := gmtls.NewBasicAutoSwitchConfig(&p.SrvSign.TLS, &p.SrvEnc.TLS, &std.TLS)
	if err != nil {
		panic(err)
	}
	c.Rand = NewDRBG(seed)
	c.Time = FixedTime
	return c
}

// TLSServer / TLSClient: plain TLS.
func TLSServer(p *PKI, std *Ident, seed string) *gmtls.Config {
	c := base(seed)
	c.Certificates = []gmtls.Certificate{std.TLS}
	return c
}

func TLSClient(p *PKI, seed string) *gmtls.Config {
	c := base(seed)
	c.RootCAs = p.RootsStd
	c.ServerName = ServerName
	return c
}

// ShortRand hands out at most N bytes per Read call (io.Reader allows short reads; code that fills key material with a
// single Read instead of io.ReadFull is then left with stale or zero bytes).
type ShortRand struct {
	R io.Reader
	N int
}

func (s ShortRand) Read(p []byte) (int, error) {
	if len(p) > s.N {
		p = p[:s.N]
	}
	return s.R.Read(p)
}
