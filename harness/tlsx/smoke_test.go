package tlsx

import (
	"bytes"
	"testing"

	"verifharness/ref/rgmssl"
)

func TestSmoke(t *testing.T) {
	p := GetPKI()
	msgC, msgS := bytes.Repeat([]byte("c"), 40000), bytes.Repeat([]byte("s"), 70000)
	for _, tc := range []struct {
		name string
		run  func() *Result
	}{
		{"gm", func() *Result {
			return Run(GMClient(p, "c"), GMServer(p, "s"), Script{ClientSend: msgC, ServerSend: msgS, ClientFrags: []int{1, 1000, 17000}})
		}},
		{"auto-gm", func() *Result {
			return Run(GMClient(p, "c"), AutoServer(p, p.RSASrv, "s"), Script{ClientSend: msgC, ServerSend: msgS})
		}},
		{"auto-tls", func() *Result {
			return Run(TLSClient(p, "c"), AutoServer(p, p.RSASrv, "s"), Script{ClientSend: msgC, ServerSend: msgS})
		}},
		{"tls-ec", func() *Result {
			return Run(TLSClient(p, "c"), TLSServer(p, p.ECSrv, "s"), Script{ClientSend: msgC, ServerSend: msgS})
		}},
		{"gm-vs-tls", func() *Result { return Run(GMClient(p, "c"), TLSServer(p, p.RSASrv, "s"), Script{ClientSend: msgC}) }},
	} {
		r := tc.run()
		t.Logf("%s: %s suite=%x vers=%x", tc.name, r.Describe(), r.Client.State.CipherSuite, r.Client.State.Version)
		if tc.name == "gm" || tc.name == "auto-gm" {
			d, err := rgmssl.Decode(r.Log, p.SrvEnc.SM2D, nil)
			if err != nil {
				t.Errorf("%s: passive decode: %v", tc.name, err)
			} else if !bytes.Equal(d.ClientApp, msgC) || !bytes.Equal(d.ServerApp, msgS) || !d.ClientFinishedOK || !d.ServerFinishedOK {
				t.Errorf("%s: passive decode mismatch", tc.name)
			} else {
				t.Logf("%s: passive decoder: %d+%d records, finished ok, %d handshake messages", tc.name, len(d.ClientRecs), len(d.ServerRecs), len(d.Messages))
			}
		}
		if tc.name != "gm-vs-tls" && (!bytes.Equal(r.Server.Received, msgC) || !bytes.Equal(r.Client.Received, msgS)) {
			t.Errorf("%s: data mismatch", tc.name)
		}
	}
}

func TestScriptedPeers(t *testing.T) {
	p := GetPKI()
	for _, suite := range []uint16{GMECCSM4CBCSM3, GMECCSM4GCMSM3} {
		cc := GMClient(p, "sc")
		cc.CipherSuites = []uint16{suite}
		r := RunAgainstScriptedServer(cc, rgmssl.ServerOpts{ID: p.ServerIdentity(), Echo: []byte("hello from the reference server")}, nil, "seed", []byte("hello from gmtls"))
		t.Logf("gmtls client vs reference server (%x): gm hs=%v recv=%q io=%v | peer err=%v app=%q log=%v", suite, r.GM.HSErr, r.GM.Received, r.GM.IOErr, r.PeerErr, r.Peer.AppIn, r.Peer.Log)
		if r.GM.HSErr != nil || r.PeerErr != nil || string(r.GM.Received) != "hello from the reference server" || string(r.Peer.AppIn) != "hello from gmtls" {
			t.Errorf("reference server interop failed")
		}
		sc := GMServer(p, "ss")
		sc.ClientAuth = 4
		sc.ClientCAs = p.RootsSM2
		r = RunAgainstScriptedClient(sc, rgmssl.ClientOpts{Suites: []uint16{suite}, Cert: p.Client.DER, CertD: p.Client.SM2D, Send: []byte("hello from the reference client")}, nil, "seed", []byte("srv data"))
		t.Logf("reference client vs gmtls server (%x): gm hs=%v recv=%q | peer err=%v app=%q", suite, r.GM.HSErr, r.GM.Received, r.PeerErr, r.Peer.AppIn)
		if r.GM.HSErr != nil || r.PeerErr != nil || string(r.GM.Received) != "hello from the reference client" || string(r.Peer.AppIn) != "srv data" {
			t.Errorf("reference client interop failed")
		}
		if len(r.GM.State.PeerCertificates) != 1 {
			t.Errorf("server did not see the client certificate")
		}
	}
}
