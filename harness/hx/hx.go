// Package hx is the shared harness layer: tier/seed flags, rapid wrappers with
// per-check case counts, evidence recording, known findings, panic capture.
package hx

import (
	"encoding/hex"
	"encoding/json"
	"flag"
	"fmt"
	"hash/fnv"
	"os"
	"os/exec"
	"path/filepath"
	"runtime/debug"
	"sort"
	"strconv"
	"strings"
	"sync"
	"testing"
	"time"

	"pgregory.net/rapid"
)

var (
	flagTier     = flag.String("verif.tier", "quick", "quick|thorough")
	flagEvidence = flag.String("verif.evidence", "", "evidence output file")
	flagRoot     = flag.String("verif.root", "/verif", "verif root (corpus, known findings)")
	flagShard    = flag.Int("verif.shard", 0, "shard index")
	flagShards   = flag.Int("verif.shards", 1, "number of shards")
	flagSeed     = flag.Int64("verif.seed", 0, "VERIF_SEED as given")
	flagScale    = flag.Float64("verif.scale", 1.0, "multiply every case count")
	flagReplay   = flag.String("verif.replayfile", "", "single corpus file to replay")
)

func Tier() string               { return *flagTier }
func Thorough() bool             { return *flagTier == "thorough" }
func Root() string               { return *flagRoot }
func Shard() int                 { return *flagShard }
func Shards() int                { return *flagShards }
func Seed() int64                { return *flagSeed }
func ReplayFile() string         { return *flagReplay }
func CorpusDir(id string) string { return filepath.Join(*flagRoot, "corpus", id) }

// N picks the case count for the tier.
func N(quick, thorough int) int {
	n := quick
	if Thorough() {
		n = thorough
	}
	n = int(float64(n) * *flagScale)
	if n < 1 {
		n = 1
	}
	return n
}

// Check runs a rapid property with an explicit number of cases.
func Check(t *testing.T, checks int, prop func(*rapid.T)) {
	t.Helper()
	_ = flag.Set("rapid.checks", strconv.Itoa(checks))
	rapid.Check(t, prop)
}

// ShardRange splits [lo,hi) among shards; returns this shard's sub-range.
func ShardRange(lo, hi int) (int, int) {
	n := hi - lo
	s, k := *flagShards, *flagShard
	a := lo + n*k/s
	b := lo + n*(k+1)/s
	return a, b
}

// ---------------------------------------------------------------- panic capture

type PanicInfo struct {
	Val   interface{}
	Stack string
}

func (p *PanicInfo) String() string { return fmt.Sprintf("panic: %v\n%s", p.Val, p.Stack) }

// Try runs f and converts a panic into a value.
func Try(f func()) (p *PanicInfo) {
	defer func() {
		if r := recover(); r != nil {
			p = &PanicInfo{Val: r, Stack: string(debug.Stack())}
		}
	}()
	f()
	return nil
}

// TryBounded is Try with a termination bound for CPU-bound calls that cannot block on anything (decoders, parsers,
// verifiers): f runs in its own goroutine and hung reports that it had not returned after limit. The limit is meant
// to be orders of magnitude above the honest cost (milliseconds against tens of seconds), so that it decides "loops
// without bound" and nothing else; a caller that sees hung must stop the process (the goroutine cannot be killed).
func TryBounded(limit time.Duration, f func()) (p *PanicInfo, hung bool) {
	done := make(chan *PanicInfo, 1)
	go func() { done <- Try(f) }()
	select {
	case p = <-done:
		return p, false
	default:
	}
	tm := time.NewTimer(limit)
	defer tm.Stop()
	select {
	case p = <-done:
		return p, false
	case <-tm.C:
		return nil, true
	}
}

// Hang reports a call that did not return: it prints the failure in the form the driver recognises, flushes the
// evidence and ends the process (a spinning goroutine cannot be stopped, and shrinking would only multiply it).
func Hang(r *Recorder, test, msg string) {
	fmt.Printf("--- FAIL: %s (did not return)\n    %s\n", test, msg)
	if r != nil {
		r.Flush(1)
	}
	os.Exit(1)
}

// FirstOpChildren runs the current test binary once per kind with env[name]=kind set, so that the package's TestMain
// can execute ONE operation as the very first use of the library in a fresh process and exit 0 / non-zero. It returns
// the kinds that failed with their output.
func FirstOpChildren(name string, kinds []string) map[string]string {
	failed := map[string]string{}
	exe, err := os.Executable()
	if err != nil {
		return failed
	}
	for _, k := range kinds {
		cmd := exec.Command(exe, "-test.run=^$")
		cmd.Env = append(os.Environ(), name+"="+k)
		out, err := cmd.CombinedOutput()
		if err != nil {
			failed[k] = fmt.Sprintf("%v\n%s", err, out)
		}
	}
	return failed
}

// PanicSite returns a short "file:func" signature of the innermost frame of the
// library under test in the stack (for known-finding signatures).
func (p *PanicInfo) Site() string {
	lines := strings.Split(p.Stack, "\n")
	for i := 0; i+1 < len(lines); i++ {
		l := lines[i]
		if strings.Contains(l, "github.com/tjfoc/gmsm/") && !strings.HasPrefix(l, "\t") {
			fn := l
			if k := strings.LastIndex(fn, "("); k > 0 {
				fn = fn[:k]
			}
			fn = strings.TrimPrefix(fn, "github.com/tjfoc/gmsm/")
			return fn
		}
	}
	return "unknown"
}

// ---------------------------------------------------------------- evidence

type Recorder struct {
	mu        sync.Mutex
	ID        string
	Rule      string
	Level     string
	evals     int64
	nontriv   map[uint64]struct{}
	classes   map[string]int64
	samples   []interface{}
	sampleCap int
	seen      int64
	required  []string
	subspaces []Subspace
	assume    []string
	discarded int64
	known     map[string]int64
	start     time.Time
	extra     map[string]interface{}
}

type Subspace struct {
	Name      string `json:"name"`
	Size      int64  `json:"size"`
	Completed bool   `json:"completed"`
}

func NewRecorder(id, rule string) *Recorder {
	return &Recorder{ID: id, Rule: rule, Level: "exploration", nontriv: map[uint64]struct{}{},
		classes: map[string]int64{}, samples: []interface{}{}, sampleCap: 12, start: time.Now(), known: map[string]int64{}, extra: map[string]interface{}{}}
}

func (r *Recorder) Require(classes ...string) { r.required = append(r.required, classes...) }
func (r *Recorder) Assume(a ...string)        { r.assume = append(r.assume, a...) }

func HashKey(parts ...interface{}) uint64 {
	h := fnv.New64a()
	for _, p := range parts {
		switch v := p.(type) {
		case []byte:
			h.Write(v)
		case string:
			h.Write([]byte(v))
		default:
			fmt.Fprintf(h, "%v", v)
		}
		h.Write([]byte{0xfe})
	}
	return h.Sum64()
}

// Case records one evaluated case. key identifies the case for distinctness.
func (r *Recorder) Case(nontrivial bool, key uint64, classes ...string) {
	r.mu.Lock()
	defer r.mu.Unlock()
	r.evals++
	if nontrivial {
		r.nontriv[key] = struct{}{}
	}
	for _, c := range classes {
		if c != "" {
			r.classes[c]++
		}
	}
}

func (r *Recorder) Class(c string) {
	r.mu.Lock()
	r.classes[c]++
	r.mu.Unlock()
}

func (r *Recorder) Discard() { r.mu.Lock(); r.discarded++; r.mu.Unlock() }

// Sample offers a case description for the samples list (deterministic thinning:
// keeps cases number 1,2,4,8,... plus first few of each tag).
func (r *Recorder) Sample(tag string, v interface{}) {
	r.mu.Lock()
	defer r.mu.Unlock()
	r.seen++
	k := "sample:" + tag
	r.classes[k]++
	if r.classes[k] <= 2 && len(r.samples) < 40 {
		r.samples = append(r.samples, map[string]interface{}{"kind": tag, "case": v})
	}
}

func (r *Recorder) Subspace(name string, size int64, completed bool) {
	r.mu.Lock()
	r.subspaces = append(r.subspaces, Subspace{name, size, completed})
	r.mu.Unlock()
}

func (r *Recorder) Extra(k string, v interface{}) { r.mu.Lock(); r.extra[k] = v; r.mu.Unlock() }

func (r *Recorder) Flush(violations int) {
	if *flagEvidence == "" {
		return
	}
	r.mu.Lock()
	defer r.mu.Unlock()
	cls := map[string]int64{}
	for k, v := range r.classes {
		if !strings.HasPrefix(k, "sample:") {
			cls[k] = v
		}
	}
	var missing []string
	for _, c := range r.required {
		if cls[c] == 0 {
			missing = append(missing, c)
		}
	}
	sort.Strings(missing)
	hashes := make([]string, 0, len(r.nontriv))
	for h := range r.nontriv {
		hashes = append(hashes, strconv.FormatUint(h, 16))
	}
	sort.Strings(hashes)
	cov := map[string]interface{}{
		"evaluations":          r.evals,
		"distinct_nontrivial":  len(r.nontriv),
		"rule":                 r.Rule,
		"samples":              r.samples,
		"classes":              cls,
		"missing_classes":      missing,
		"exhaustive":           false,
		"exhaustive_subspaces": r.subspaces,
		"discarded":            r.discarded,
		"known_finding_hits":   r.known,
	}
	for k, v := range r.extra {
		cov[k] = v
	}
	out := map[string]interface{}{
		"property_id": r.ID,
		"tier":        *flagTier,
		"seed":        *flagSeed,
		"level":       r.Level,
		"coverage":    cov,
		"assumptions": r.assume,
		"wall_s":      time.Since(r.start).Seconds(),
		"violations":  violations,
		"_hashes":     hashes, // for shard merging; stripped by the driver
	}
	b, _ := json.MarshalIndent(out, "", " ")
	_ = os.MkdirAll(filepath.Dir(*flagEvidence), 0o755)
	tmp := *flagEvidence + ".tmp"
	_ = os.WriteFile(tmp, b, 0o644)
	_ = os.Rename(tmp, *flagEvidence)
}

// Main is the TestMain body shared by property packages.
func Main(m *testing.M, r *Recorder) {
	flag.Parse()
	loadKnown(r.ID)
	code := m.Run()
	v := 0
	if code != 0 {
		v = 1
	}
	r.Flush(v)
	os.Exit(code)
}

// ---------------------------------------------------------------- known findings

type Finding struct {
	Property  string `json:"property"`
	Signature string `json:"signature"`
	What      string `json:"what"`
	Status    string `json:"status"` // "known" or "fixed"
	Commit    string `json:"commit,omitempty"`
}

var (
	knownMu  sync.Mutex
	knownSet = map[string]Finding{}
	printed  = map[string]bool{}
)

func loadKnown(id string) {
	b, err := os.ReadFile(filepath.Join(*flagRoot, "known_findings.json"))
	if err != nil {
		return
	}
	var doc struct {
		Findings []Finding `json:"findings"`
	}
	if json.Unmarshal(b, &doc) != nil {
		return
	}
	for _, f := range doc.Findings {
		if f.Property == id && f.Status == "known" {
			knownSet[f.Signature] = f
		}
	}
}

// Known reports whether a failing observation with this signature is a listed
// known finding; if so it prints the KNOWN-FINDING line (once) and counts it.
func (r *Recorder) Known(sig string) bool {
	knownMu.Lock()
	defer knownMu.Unlock()
	f, ok := knownSet[sig]
	if !ok {
		return false
	}
	if !printed[sig] {
		printed[sig] = true
		fmt.Printf("KNOWN-FINDING: property=%s %s: %s\n", r.ID, sig, f.What)
	}
	r.mu.Lock()
	r.known[sig]++
	r.mu.Unlock()
	return true
}

// IsKnown just queries (for exclusion-by-construction in generators).
func IsKnown(sig string) bool {
	knownMu.Lock()
	defer knownMu.Unlock()
	_, ok := knownSet[sig]
	return ok
}

// ---------------------------------------------------------------- misc

func Hex(b []byte) string {
	if len(b) > 48 {
		return hex.EncodeToString(b[:24]) + "…" + hex.EncodeToString(b[len(b)-8:]) + fmt.Sprintf("(%dB)", len(b))
	}
	return hex.EncodeToString(b)
}

func MustHex(s string) []byte {
	s = strings.ReplaceAll(s, " ", "")
	b, err := hex.DecodeString(s)
	if err != nil {
		panic(err)
	}
	return b
}
